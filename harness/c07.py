"""C07: the table XML stays structurally valid and repeat-consistent after every operation; accepted names.

Theorems: coq/theories/C07.v (Tablexml.v: raw XML abstraction and XmlOK; Names.v: name checks and specifications).
Correspondence: the histories of C01; after every step Coq evaluates XmlOK on the RAW abstraction of the
implementation (attribute strings, child order), the first-row rule and the reported size; name strings are swept
over alphabets containing every forbidden character and the implementation's verdict is compared, in Coq, with the
independent specification.  The character classes of _RE_TABLE_NAME / forbidden_in_named_range() / str.isspace
are read from the live source into coq/theories/Gen_Names.v on every run."""
import itertools, string, sys
from pathlib import Path
sys.path.insert(0, str(Path(__file__).resolve().parent))
import common, tablelib as tl, tablerun as tr

LAYERS = {1: ('xmlok', 'invariant: XmlOK is false on the XML left by the call (a repeat attribute below 2 or not a number, a non-cell child of a row, a column after a row, or a row wider than the declared columns)'),
          6: ('first-row', 'invariant: rows were added to a table without rows and no column is declared'),
          15: ('raised-changed', 'invariant: the call raised after having changed the table, leaving a row wider than the declared columns (tables with table:table-columns / header wrappers)'),
          7: ('size', 'invariant: the reported width/height are not the sums of the repeats')}
SOFT = {11: 'state outside the modelled fragment', 12: 'initial state does not satisfy XmlOK (generator)'}
TRUSTED = ['lxml parse/serialise (the abstraction walks etree.fromstring(table.serialize()))',
           're._parser (the structure of _RE_TABLE_NAME is read from the parsed pattern; any unexpected shape stops the check)',
           'str.isspace over all code points stands for the class removed by str.strip()',
           'specification of names: LibreOffice ScDocument::ValidTabName (+ no line break); range names: letters, digits, _ only, '
           'not starting with a digit, not of A1 or R1C1 shape; non-ASCII characters are left to the application']
MODELLED = ('the raw child list of table:table (columns, rows, cells with their repeat attribute strings); _set_repeated (attribute absent below 2), '
            '_update_width, append_row / extend_rows column declaration, _table_name_check + _RE_TABLE_NAME, NamedRange.name setter (repaired: F36, F60). '
            'NOT modelled: covered cells vs spans consistency, table:table-rows / header rows / groups, named-range replacement in a document body')


from gen_names import read_classes, write_gen


TAB_ALPHA = ['a', 'B', '1', '_', ' ', "'", '*', '?', ':', '/', '\\', '[', ']', '\n', 'é', '\t']
NR_ALPHA = ['a', 'B', 'R', 'C', '1', '0', '_', ' ', '\x01', 'é', '-', '.']
NAME_HEADER = ('Require Import Names Gen_Names.\nFrom Coq Require Import List NArith Bool. Import ListNotations. Open Scope N_scope.\n'
               '(* (string, accepted by the implementation, name stored) : 1 = verdict differs from the specification, 2 = stored name is not strip(s), 9 = model differs *)\n'
               'Definition mkn (s : list N) (a : bool) (st : list N) := (s, a, st).\n'
               'Definition str_eqb (a b : list N) := Nat.eqb (length a) (length b) && forallb (fun p => fst p =? snd p) (combine a b).\n'
               'Definition chk_tab (c : list N * bool * list N) : nat := let \'(s, acc, stored) := c in\n'
               '  if negb (Bool.eqb acc (lo_tab_name_ok gen_space s)) then 1%nat\n'
               '  else if acc && negb (str_eqb stored (strip gen_space s)) then 2%nat\n'
               '  else if Bool.eqb acc (table_name_ok gen_fa gen_ff gen_fl gen_space s) then 0%nat else 9%nat.\n'
               'Definition chk_nr (c : list N * bool * list N) : nat := let \'(s, acc, stored) := c in\n'
               '  if negb (Bool.eqb acc (lo_range_name_ok gen_space s)) then 1%nat\n'
               '  else if acc && negb (str_eqb stored (strip gen_space s)) then 2%nat\n'
               '  else if Bool.eqb acc (nr_name_ok_fixed gen_letters gen_digits gen_space s) then 0%nat else 9%nat.\n')


def c_str(s):
    return '[' + ';'.join(str(ord(ch)) for ch in s) + ']'


def name_strings(alpha, maxlen, rng, extra, extralen):
    out = []
    for n in range(maxlen + 1):
        out += [''.join(t) for t in itertools.product(alpha, repeat=n)]
    for _ in range(extra):
        out.append(''.join(rng.choice(alpha) for _ in range(rng.randint(maxlen + 1, extralen))))
    return out


def names_phase(tier, rng, odfdo, known, only=None):
    import odfdo.table as T
    violations, known_seen, errors, cov = [], [], [], {}
    for what, alpha, checker, maxlen in (('table-name', TAB_ALPHA, 'chk_tab', 3 if tier == 'quick' else 4),
                                         ('named-range-name', NR_ALPHA, 'chk_nr', 3 if tier == 'quick' else 4)):
        if only and only[0] != what:
            continue
        strs = [only[1]] if only else name_strings(alpha, maxlen, rng, 1500 if tier == 'quick' else 20000, 7)
        if what == 'named-range-name' and not only:
            strs += ['R1C1', 'r10c2', 'R1C', 'RC1', 'AB12', 'A1', '1abc', '_1', 'a1b', 'R01C01', 'Rr1C1', ' R1C1 ', 'é1', 'R1C1_']
        terms = []
        for s in strs:
            try:
                if what == 'table-name':
                    stored = tl.timed(lambda: T.Table(s).name); acc = True
                else:
                    stored = tl.timed(lambda: T.NamedRange(s, 'A1', 't').name); acc = True
            except (ValueError, TypeError):
                acc, stored = False, ''
            terms.append('(mkn %s %s %s)' % (c_str(s), 'true' if acc else 'false', c_str(stored or '')))
        bad, errs = common.run_shards(NAME_HEADER, terms, checker, 'c07' + what[:3], shard=max(200, len(terms) // 16 + 1))
        errors += errs
        hard = {k: c for k, c in bad.items() if c in (1, 2)}
        cov[what + '_strings'] = len(strs)
        cov[what + '_rule'] = 'all strings of length <= %d over %r plus random longer ones' % (maxlen, alpha)
        cov[what + '_disagreements'] = len(hard)
        cov[what + '_model_divergences'] = sum(1 for c in bad.values() if c == 9)
        if hard:
            k = min(hard, key=lambda i: (len(strs[i]), strs[i]))
            s = strs[k]
            cls = ('accepts' if '] true [' in terms[k] else 'rejects')
            key = '%s/%s/%s' % (what, cls, 'stored' if hard[k] == 2 else 'verdict')
            payload = dict(layer='names: the implementation %s %r, the specification says otherwise' % (cls, s), key=key,
                           name=s, kind=what, count=len(hard), examples=[strs[i] for i in sorted(hard)[:12]],
                           known_finding_key=key if key in known else None)
            if key in known:
                known_seen.append('%s (%d strings, e.g. %r)' % (key, len(hard), s))
            else:
                violations.append((common.write_replay('C07', 0, 'name-' + common.digest(key)[:8], payload), False))
    return dict(violations=violations, coverage=cov, errors=errors, known_seen=known_seen)


def run(tier, seed, replay=None):
    return tr.run_table_check('C07', tier, seed, replay, 'chk07', LAYERS, SOFT, tl.OPS_CORE, extra=names_phase,
                              prebuild=write_gen, extra_targets=('Tablechk', 'TableExtchk', 'Tablexml2chk', 'Gen_Names', 'Gen_Namesok'),
                              trusted=TRUSTED, modelled=MODELLED,
                              assumptions=['operations carry repeats >= 1 and integer coordinates of either sign',
                                           'tables consist of table:table-column elements followed by table:table-row elements',
                                           'a table may lose its last column through delete_column while rows remain (the property only demands that ADDING the first row declares columns)'])


if __name__ == '__main__':
    common.main(run)
