(* TreeProof11.v — [flat] and [parse] are inverse: the tree view and the event-list view are interchangeable. *)
From Coq Require Import List Arith Bool Lia.
Import ListNotations.
Require Import WS Tree TreeProof TreeProof3.

Definition not_txt (evs : list ev) : Prop := match evs with Txt _ :: _ => False | _ => True end.
Definition not_open (evs : list ev) : Prop := match evs with Open _ _ :: _ => False | _ => True end.
Lemma take_txt_sound evs o r : take_txt evs = (o, r) -> evs = otxt o ++ r.
Proof. destruct evs as [|[k a| |s] q]; cbn; intros H; injection H as <- <-; reflexivity. Qed.
Lemma take_txt_otxt o Y : (o = None -> not_txt Y) -> take_txt (otxt o ++ Y) = (o, Y).
Proof. destruct o; [reflexivity|]. intros H. specialize (H eq_refl). destruct Y as [|[k a| |s] q]; try reflexivity. destruct H. Qed.

(* ---------------------------------------------------------------- soundness: what was parsed flattens back *)
Lemma parse_kids_sound : forall f evs ks r, parse_kids f evs = Some (ks, r) ->
  evs = flat_map flat ks ++ r /\ forallb nosel ks = true /\ not_open r.
Proof.
  induction f as [|f IH]; intros evs ks r H; [discriminate|]. cbn [parse_kids] in H.
  destruct evs as [|[k a| |s] r0]; try (injection H as <- <-; repeat split; exact I).
  destruct (take_txt r0) as [tx r1] eqn:T1. apply take_txt_sound in T1.
  destruct (parse_kids f r1) as [[ks1 [|[k' a'| |s'] r2]]|] eqn:P1; try discriminate.
  destruct (take_txt r2) as [tl r3] eqn:T2. apply take_txt_sound in T2.
  destruct (parse_kids f r3) as [[rest r4]|] eqn:P2; [|discriminate]. injection H as <- <-.
  destruct (IH _ _ _ P1) as [E1 [N1 _]]. destruct (IH _ _ _ P2) as [E2 [N2 O2]].
  repeat split; [|cbn [forallb nosel negb andb]; now rewrite N1, N2|exact O2].
  cbn [flat_map flat]. rewrite T1, E1, T2, E2. cbn [app]. f_equal. repeat (rewrite <- app_assoc; cbn [app]). reflexivity.
Qed.

(* ---------------------------------------------------------------- fuel *)
Lemma parse_kids_mono : forall f evs x, parse_kids f evs = Some x -> parse_kids (S f) evs = Some x.
Proof.
  induction f as [|f IH]; intros evs x H; [discriminate|]. cbn [parse_kids] in H. change (parse_kids (S (S f)) evs) with
    (match evs with
     | Open k a :: r => let '(tx, r1) := take_txt r in
         match parse_kids (S f) r1 with
         | Some (ks, Close :: r2) => let '(tl, r3) := take_txt r2 in
             match parse_kids (S f) r3 with Some (rest, r4) => Some (Node k a false tx ks tl :: rest, r4) | None => None end
         | _ => None end
     | _ => Some ([], evs) end).
  destruct evs as [|[k a| |s] r0]; try exact H.
  destruct (take_txt r0) as [tx r1]. destruct (parse_kids f r1) as [[ks1 [|[k' a'| |s'] r2]]|] eqn:P1; try discriminate.
  rewrite (IH _ _ P1). destruct (take_txt r2) as [tl r3]. destruct (parse_kids f r3) as [[rest r4]|] eqn:P2; [|discriminate].
  now rewrite (IH _ _ P2).
Qed.
Lemma parse_kids_mono_le f f' evs x : f <= f' -> parse_kids f evs = Some x -> parse_kids f' evs = Some x.
Proof. induction 1 as [|m Hle IH]; [auto|]. intros Hp. apply parse_kids_mono. auto. Qed.
Lemma parse_kids_enough : forall f' f evs x, parse_kids f evs = Some x -> length evs < f' -> parse_kids f' evs = Some x.
Proof.
  induction f' as [|f' IH]; intros f evs x H L; [lia|]. destruct f as [|f]; [discriminate|]. cbn [parse_kids] in H |- *.
  destruct evs as [|[k a| |s] r0]; try exact H. cbn [length] in L.
  destruct (take_txt r0) as [tx r1] eqn:T1. pose proof (take_txt_sound _ _ _ T1) as E0.
  destruct (parse_kids f r1) as [[ks1 [|[k' a'| |s'] r2]]|] eqn:P1; try discriminate.
  destruct (parse_kids_sound _ _ _ _ P1) as [E1 _].
  assert (L1 : length r1 < f') by (rewrite E0, app_length in L; lia).
  rewrite (IH _ _ _ P1 L1). destruct (take_txt r2) as [tl r3] eqn:T2. pose proof (take_txt_sound _ _ _ T2) as E2.
  destruct (parse_kids f r3) as [[rest r4]|] eqn:P2; [|discriminate].
  assert (L3 : length r3 < f').
  { rewrite E1, app_length in L1. cbn [length] in L1. rewrite E2, app_length in L1. lia. }
  now rewrite (IH _ _ _ P2 L3).
Qed.

(* ---------------------------------------------------------------- completeness: a flattened tree parses back *)
Lemma flat_head n : exists k a r, flat n = Open k a :: r. Proof. destruct n; cbn; eauto. Qed.
Lemma parse_flat_gen : forall n, nosel n = true -> forall X kr r f,
  parse_kids f X = Some (kr, r) -> (tail_of n = None -> not_txt X) ->
  exists f', parse_kids f' (flat n ++ X) = Some (n :: kr, r).
Proof.
  induction n as [k a sel tx ks tl IH] using node_ind'. intros N X kr r f PX HX.
  cbn [nosel] in N. apply andb_true_iff in N as [N0 NK]. destruct sel; [discriminate|].
  (* the children, followed by anything that starts with Close *)
  assert (Q : forall Y, exists fk, parse_kids fk (flat_map flat ks ++ Close :: Y) = Some (ks, Close :: Y)).
  { clear HX PX. intros Y. induction IH as [|c ks Hc _ IHks]; [exists 1; reflexivity|].
    cbn [forallb] in NK. apply andb_true_iff in NK as [N1 N2]. destruct (IHks N2) as [fk Pk].
    cbn [flat_map]. rewrite <- app_assoc. eapply (Hc N1); [exact Pk|].
    intros _. destruct ks as [|c' ks']; [exact I|]. cbn [flat_map]. destruct (flat_head c') as [k' [a' [r' E]]]. rewrite E. exact I. }
  destruct (Q (otxt tl ++ X)) as [fk Pk].
  exists (S (Nat.max fk f)). cbn [flat tail_of] in *.
  replace ((Open k a :: otxt tx ++ flat_map flat ks ++ Close :: otxt tl) ++ X)
    with (Open k a :: otxt tx ++ flat_map flat ks ++ Close :: otxt tl ++ X)
    by (cbn [app]; f_equal; repeat (rewrite <- app_assoc; cbn [app]); reflexivity).
  cbn [parse_kids].
  rewrite take_txt_otxt.
  2:{ intros _. destruct ks as [|c' ks']; [exact I|]. cbn [flat_map]. destruct (flat_head c') as [k' [a' [r' E]]]. rewrite E. exact I. }
  rewrite (parse_kids_mono_le fk _ _ _ (Nat.le_max_l fk f) Pk).
  rewrite take_txt_otxt by exact HX.
  rewrite (parse_kids_mono_le f _ _ _ (Nat.le_max_r fk f) PX). reflexivity.
Qed.
Theorem parse_flat n : nosel n = true -> parse (flat n) = Some n.
Proof.
  intros N. destruct (parse_flat_gen n N [] [] [] 1 eq_refl (fun _ => I)) as [f' P]. rewrite app_nil_r in P.
  unfold parse. now rewrite (parse_kids_enough _ _ _ _ P (Nat.lt_succ_diag_r _)).
Qed.
Theorem flat_parse evs n : parse evs = Some n -> flat n = evs /\ nosel n = true.
Proof.
  unfold parse. destruct (parse_kids (S (length evs)) evs) as [[[|n' [|n'' q]] [|e r]]|] eqn:P; try discriminate.
  intros H. injection H as <-. destruct (parse_kids_sound _ _ _ _ P) as [E [N _]].
  cbn [flat_map forallb] in *. rewrite !app_nil_r in E. rewrite andb_true_r in N. auto.
Qed.
(* [flat] is injective on trees without argument marks, [parse] is injective on its domain: a bijection between
   { n | nosel n } and { evs | parse evs <> None } *)
Corollary flat_injective n m : nosel n = true -> nosel m = true -> flat n = flat m -> n = m.
Proof. intros Hn Hm E. apply parse_flat in Hn, Hm. rewrite E in Hn. congruence. Qed.
Corollary parse_injective e1 e2 n : parse e1 = Some n -> parse e2 = Some n -> e1 = e2.
Proof. intros H1 H2. apply flat_parse in H1 as [<- _], H2 as [<- _]. reflexivity. Qed.
(* the content of an element *)
Theorem parse_content_flat n : nosel n = true -> parse_content (content n) = Some (match n with Node _ _ _ tx ks _ => (tx, ks) end).
Proof.
  destruct n as [k a sel tx ks tl]. cbn [nosel content]. intros N. apply andb_true_iff in N as [_ NK].
  assert (Q : exists fk, parse_kids fk (flat_map flat ks ++ []) = Some (ks, [])).
  { clear tx. induction ks as [|c ks IHks]; [exists 1; reflexivity|]. cbn [forallb] in NK. apply andb_true_iff in NK as [N1 N2].
    destruct (IHks N2) as [fk Pk]. cbn [flat_map]. rewrite <- app_assoc. eapply (parse_flat_gen c N1); [exact Pk|].
    intros _. rewrite app_nil_r. destruct ks as [|c' ks']; [exact I|]. cbn [flat_map]. destruct (flat_head c') as [k' [a' [r' E]]]. rewrite E. exact I. }
  destruct Q as [fk Pk]. rewrite app_nil_r in Pk. unfold parse_content. rewrite take_txt_otxt.
  2:{ intros _. destruct ks as [|c' ks']; [exact I|]. cbn [flat_map]. destruct (flat_head c') as [k' [a' [r' E]]]. rewrite E. exact I. }
  assert (L : length (flat_map flat ks) < S (length (otxt tx ++ flat_map flat ks))) by (rewrite app_length; lia).
  now rewrite (parse_kids_enough _ _ _ _ Pk L).
Qed.
