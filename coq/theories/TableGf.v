(* TableGf.v — the FILTERED getters of table.py / row.py (property C08): get_cells(coord, cell_type=, style=, content=, flat=),
   get_rows(coord, style=, content=), get_columns(coord, style=), get_column_cells(x, style=, content=, cell_type=, complete=),
   Row.get_cells(coord, style=, content=, cell_type=).  A filter is ANY predicate on the object the loop holds when it tests it
   (Cell.type / Cell.match / Cell.style, Row.match / Row.style, Column.style are read from that copy).  The model follows the
   loops of the code: the test sits inside the traversal, `continue` drops the object, get_column_cells(complete=True) appends
   None instead.  Definitions only. *)
From Coq Require Import List ZArith Bool Arith.
Import ListNotations.
Require Import Vault Row Table TableB TableG.
Local Open Scope Z_scope.

Record filt := { f_cell : cobj -> bool; f_row : robj -> bool; f_col : kobj -> bool }.
Inductive fgetter :=
| FGetCells (area : option (Z * Z * Z * Z)) (flat : bool)
| FGetRows (range : option (Z * Z))
| FGetColumns (range : option (Z * Z))
| FColumnCells (x : Z) (complete : bool)
| FRowGetCells (y : Z) (rclone : bool) (s e : option Z).
Inductive fres :=
| FCells (l : list (list cobj)) | FFlat (l : list cobj) | FRowsR (l : list robj) | FColsR (l : list kobj) | FOpt (l : list (option cobj)).

(* Row.get_cells(coord, ...): the loop over Row.traverse(start, end) with the three tests *)
Definition m_row_get_cells_f (f : filt) (s e : option Z) (ry : option Z) (cs : rruns) : list cobj :=
  filter (f_cell f) (m_row_traverse s e ry cs).
(* the cell get_column_cells tests: Row.get_cell(x, clone=True) with its repeat removed *)
Definition column_cell (x : Z) (r : robj) : cobj :=
  let c := m_row_get_cell x true (r_y r) (r_h r) (snd (r_val r)) in
  {| c_x := c_x c; c_y := c_y c; c_rep := 1; c_h := c_h c; c_val := c_val c |}.
Definition area_bounds (area : option (Z * Z * Z * Z)) (t : tstate) : option Z * option Z * option Z * option Z :=
  match area with
  | Some (x, y, z, e) => (Some (nx x t), Some (ny y t), Some (nx z t), Some (ny e t))
  | None => (None, None, None, None) end.

Definition m_fget (f : filt) (t : tstate) (g : fgetter) : fres :=
  match g with
  | FGetCells area flat =>
      let '(ox, oy, oz, oe) := area_bounds area t in
      let rows_ := map (fun r : robj => m_row_get_cells_f f ox oz (r_y r) (snd (r_val r))) (m_traverse false oy oe t) in
      if flat then FFlat (concat rows_) else FCells rows_
  | FGetRows range => FRowsR (filter (f_row f) (m_get_rows false range t))
  | FGetColumns range => FColsR (filter (f_col f) (m_get_columns false range t))
  | FColumnCells x complete =>
      FOpt (flat_map (fun r : robj => let c := column_cell (nx x t) r in
                                      if f_cell f c then [Some c] else if complete then [None] else [])
                     (m_traverse false None None t))
  | FRowGetCells y rcl s e => let r := m_get_row y rcl t in FFlat (m_row_get_cells_f f s e (r_y r) (snd (r_val r)))
  end.

(* the unfiltered getter a filtered one is built on, and the filter applied to an unfiltered answer *)
Definition base_getter (g : fgetter) : getter :=
  match g with
  | FGetCells area _ => GGetCells area
  | FGetRows range => GGetRows range
  | FGetColumns range => GGetColumns range
  | FColumnCells x _ => GColumnCells x
  | FRowGetCells y rcl s e => GRowTraverse y rcl s e
  end.
Definition apply_filter (f : filt) (g : fgetter) (r : gres) : fres :=
  match g, r with
  | FGetCells _ flat, GCells l => let l' := map (filter (f_cell f)) l in if flat then FFlat (concat l') else FCells l'
  | FGetRows _, GRowsR l => FRowsR (filter (f_row f) l)
  | FGetColumns _, GColsR l => FColsR (filter (f_col f) l)
  | FColumnCells _ complete, GCells l =>
      FOpt (flat_map (fun c => if f_cell f c then [Some c] else if complete then [None] else []) (concat l))
  | FRowGetCells _ _ _ _, GCells l => FFlat (filter (f_cell f) (concat l))
  | _, _ => FFlat []
  end.
