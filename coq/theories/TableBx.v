(* TableBx.v — layer B of the whole-table transformations (rstrip, optimize_width, transpose; layer-A models: Transform.v of
   property C17).  Each of them walks the rows through FRESH wrappers, resets both wrapper caches and ends with
   _compute_table_cache (transpose: clear(), append_row per line, _compute_table_cache): whatever the caches held before, the
   state afterwards is the state of a fresh parse of the new XML. *)
From Coq Require Import List ZArith Lia Bool Arith.
Import ListNotations.
Require Import Vault Row Table Grid Tableabs Transform Transformproof2 Transformproof4 Transformproof11 TableB TableBabs TableBproof TableBproof2 TableBproof5.
Open Scope Z_scope.

Inductive xop := XRstrip (aggr : bool) | XOptimizeWidth | XTranspose.
Definition t_xform (a : calg) (t : tstate) (x : xop) : option tstate :=
  match x with
  | XRstrip aggr => Some (t_rstrip a aggr t)
  | XOptimizeWidth => t_optimize_width a true t           (* None: the call raises (never on a table with rows) *)
  | XTranspose => Some (t_transpose t)
  end.
Definition b_xform (a : calg) (b : bstate) (x : xop) : option bstate := option_map fresh (t_xform a (ax b) x).

Theorem xform_coh a b x b' : Coh b -> b_xform a b x = Some b' ->
  Coh b' /\ t_xform a (ax b) x = Some (ax b') /\ tcache b' = [] /\ ccache b' = [] /\ b' = reparse b'.
Proof.
  intros [Hwf _] H. unfold b_xform in H. destruct (t_xform a (ax b) x) as [t'|] eqn:E; [|discriminate].
  cbn [option_map] in H. inversion H; subst b'. cbn [fresh ax tcache ccache].
  assert (Hwf' : WF t').
  { destruct x; cbn [t_xform] in E.
    - inversion E; subst. apply (rstrip_refines a aggr (ax b) Hwf).
    - apply (optimize_width_law a (ax b) t' Hwf E).
    - inversion E; subst. apply (transpose_refines (ax b) Hwf). }
  split; [apply Coh_fresh; exact Hwf'|]. repeat split.
Qed.

(* hence after such a transformation every read answers what a fresh parse answers and what the grid answers *)
Theorem xform_reads a b x b' q : Coh b -> b_xform a b x = Some b' ->
  snd (b_read b' q) = snd (b_read (reparse b') q) /\ proj (snd (b_read b' q)) = gb_read (abs_t (ax b')) q.
Proof. intros Hc H. apply live_eq_fresh. exact (proj1 (xform_coh a b x b' Hc H)). Qed.
