(* Transformproof17.v — del_span on the grid: the law the checker evaluates (del_span_law) is a theorem of the grid
   meaning, for every grid (stored cells of the area lose the covered tag, the first cell loses the attributes, base
   content and style stay, every other coordinate reads as before). *)
From Coq Require Import List ZArith Lia Bool Arith.
Import ListNotations.
Require Import Vault Vaultproof Row Table Grid Tableabs Tableproof Tableproof8 Transform Transformspec Transformproof4
               Transformproof6 Transformproof7 Transformproof8 Transformproof9 Transformproof14 Transformproof16 Transformchk.
Open Scope Z_scope.

Section DelLaw.
Variable a : calg.

Definition stored_in_area (x y z t : Z) (G : gridT) (i j : Z) : bool :=
  in_area x y z t i j && (j <? gheight G) && (i <? Z.of_nat (length (g_row j G))).

Lemma g_row_length_stored G j : 0 <= j -> (0 < length (g_row j G))%nat -> j < gheight G.
Proof.
  intros Hj Hl. unfold g_row, gheight in *. destruct (Nat.ltb_spec (Z.to_nat j) (length (grows G))); [lia|].
  rewrite nth_overflow in Hl by assumption. cbn in Hl. lia.
Qed.

Lemma block_is_stored_area x y z t G i j : 0 <= x -> 0 <= y -> 0 <= i -> 0 <= j ->
  in_block x y (unmark_span a (g_area_read x y z t G)) i j = stored_in_area x y z t G i j.
Proof.
  intros Hx Hy Hi Hj. destruct (area_read_gen x y z t G Hx Hy) as [Hlen Hrows].
  unfold in_block, stored_in_area, in_area. rewrite unmark_span_length, unmark_span_row_length, Hlen.
  unfold gheight.
  destruct (Z.leb_spec y j) as [Hyj|Hyj]; cbn [andb].
  2:{ rewrite !Bool.andb_false_r. reflexivity. }
  destruct (Z.ltb_spec j (y + Z.of_nat (Nat.min (Z.to_nat (t + 1 - y)) (length (grows G) - Z.to_nat y)))) as [Hin|Hout]; cbn [andb].
  - assert (Hj' : (Z.to_nat (j - y) < length (g_area_read x y z t G))%nat) by (rewrite Hlen; lia).
    rewrite (Hrows _ Hj'). rewrite firstn_length, skipn_length.
    replace (y + Z.of_nat (Z.to_nat (j - y))) with j by lia.
    destruct (Z.leb_spec j t); [|lia]. destruct (Z.ltb_spec j (Z.of_nat (length (grows G)))); [|lia].
    destruct (Z.leb_spec x i); cbn [andb]; [|reflexivity].
    destruct (Z.ltb_spec i (x + Z.of_nat (Nat.min (Z.to_nat (z + 1 - x)) (length (g_row j G) - Z.to_nat x))));
      destruct (Z.leb_spec i z); destruct (Z.ltb_spec i (Z.of_nat (length (g_row j G)))); cbn [andb]; try reflexivity; lia.
  - destruct (Z.leb_spec j t); destruct (Z.ltb_spec j (Z.of_nat (length (grows G)))); cbn [andb]; rewrite ?Bool.andb_false_r; try reflexivity; lia.
Qed.

Lemma area_read_nth x y z t G i j : 0 <= x -> 0 <= y -> stored_in_area x y z t G i j = true ->
  nth (Z.to_nat (i - x)) (nth (Z.to_nat (j - y)) (g_area_read x y z t G) []) empty_cell = gcell i j G /\
  (Z.to_nat (j - y) < length (g_area_read x y z t G))%nat /\
  (Z.to_nat (i - x) < length (nth (Z.to_nat (j - y)) (g_area_read x y z t G) []))%nat.
Proof.
  intros Hx Hy Hs. destruct (area_read_gen x y z t G Hx Hy) as [Hlen Hrows].
  unfold stored_in_area, in_area in Hs. repeat (apply andb_prop in Hs; let H := fresh "S" in destruct Hs as [Hs H]).
  apply Z.leb_le in Hs. apply Z.leb_le in S3. apply Z.leb_le in S2. apply Z.leb_le in S1. apply Z.ltb_lt in S0. apply Z.ltb_lt in S.
  unfold gheight in S0.
  assert (Hj' : (Z.to_nat (j - y) < length (g_area_read x y z t G))%nat) by (rewrite Hlen; lia).
  rewrite (Hrows _ Hj'). replace (y + Z.of_nat (Z.to_nat (j - y))) with j by lia.
  split; [|split; [exact Hj'|rewrite firstn_length, skipn_length; lia]].
  rewrite nth_firstn_lt by lia. rewrite nth_skipn'. unfold gcell. f_equal. lia.
Qed.

Theorem g_del_span_law x y g g' r : 0 <= x -> 0 <= y ->
  alg_ok_for a (XDelSpan x y) g = true -> g_del_span a x y g = Some (g', r) -> del_span_law a x y r g g' = true.
Proof.
  intros Hx Hy Halg H. unfold del_span_law. unfold g_del_span in H. cbn [alg_ok_for] in Halg.
  destruct (ca_cs a (fst (gcell x y g))) as [nc|]; [|injection H as <- <-; cbn [negb andb]; apply padded_eqb_refl].
  destruct (ca_rs a (fst (gcell x y g))) as [nr|]; [|injection H as <- <-; cbn [negb andb]; apply padded_eqb_refl].
  set (z := x + nc - 1) in *. set (t := y + nr - 1) in *.
  destruct (g_area_read x y z t g) as [|[|c0 r0] rs] eqn:ER; try discriminate. rewrite <- ER in *. injection H as <- <-. cbn [andb].
  unfold window. apply forallb_zrange. intros j Hj. apply forallb_zrange. intros i Hi.
  cbn [g_step]. rewrite !norm_coord_id by lia. rewrite gcell_set_lines by lia.
  rewrite block_is_stored_area by lia.
  change (in_area x y z t i j && (j <? gheight g) && (i <? Z.of_nat (length (g_row j g)))) with (stored_in_area x y z t g i j).
  destruct (stored_in_area x y z t g i j) eqn:Es; [|apply cell_eqb_refl].
  assert (Hxi : x <= i) by (unfold stored_in_area, in_area in Es; destruct (Z.leb_spec x i); [assumption|discriminate]).
  assert (Hyj : y <= j) by (unfold stored_in_area, in_area in Es; destruct (Z.leb_spec y j); [assumption|rewrite !Bool.andb_false_r in Es; discriminate]).
  destruct (area_read_nth x y z t g i j Hx Hy Es) as (Hn & Hj' & Hi').
  rewrite unmark_span_nth by assumption. cbv zeta. rewrite Hn.
  set (c := gcell i j g) in *.
  assert (Hok : alg_tag_ok a (fst c) = true).
  { rewrite forallb_forall in Halg.
    assert (Hrow : In (nth (Z.to_nat (j - y)) (g_area_read x y z t g) []) (g_area_read x y z t g)) by (apply nth_In; exact Hj').
    specialize (Halg _ Hrow). rewrite forallb_forall in Halg. rewrite <- Hn. apply Halg. apply nth_In. exact Hi'. }
  unfold alg_tag_ok in Hok. repeat (apply andb_prop in Hok; let H' := fresh "K" in destruct Hok as [Hok H']).
  destruct (Z.eqb_spec i x); destruct (Z.eqb_spec j y); destruct (Nat.eqb_spec (Z.to_nat (i - x)) 0); destruct (Nat.eqb_spec (Z.to_nat (j - y)) 0);
    cbn [andb]; try lia; unfold plain; cbn [fst snd]; rewrite Z.eqb_refl, ?K1, ?K2, ?K0, ?K5, ?K6; reflexivity.
Qed.
End DelLaw.
