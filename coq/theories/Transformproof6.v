(* Transformproof6.v — what Table.set_cells(cells, (x,y), clone=False) does to the padded cell read of the grid:
   exactly the cells of the block change.  (The write-back of set_span and del_span.) *)
From Coq Require Import List ZArith Lia Bool Arith.
Import ListNotations.
Require Import Vault Vaultproof Row Table Grid Tableabs Tableproof Tableproof5 Tableproof8 Transform Transformspec Transformproof4.
Open Scope Z_scope.

Lemma norm_coord_id x len : 0 <= x -> norm_coord x len = x.
Proof. intros H. unfold norm_coord. destruct (Z.ltb_spec x 0); [lia|reflexivity]. Qed.

Lemma unit_runs_cons c r : unit_runs (c :: r) = (1%nat, c) :: unit_runs r.
Proof. reflexivity. Qed.
Lemma cells_of_unit_runs r : cells_of (unit_runs r) = r.
Proof. rewrite <- expand_cells_of. apply expand_unit_runs. Qed.
Lemma length_unit_runs r : length (unit_runs r) = length r.
Proof. apply map_length. Qed.

Lemma nth_l_set_cells_unit (c : list cell) : forall x l n,
  nth n (l_set_cells x (unit_runs c) l) empty_cell =
    if ((x <=? n) && (n <? x + length c))%nat then nth (n - x) c empty_cell else nth n l empty_cell.
Proof.
  induction c as [|c0 c IH]; intros x l n.
  - cbn [unit_runs map l_set_cells length]. destruct (Nat.leb_spec x n); destruct (Nat.ltb_spec n (x + 0)); cbn [andb]; try reflexivity; lia.
  - rewrite unit_runs_cons. cbn [l_set_cells fst snd length]. rewrite IH.
    destruct (Nat.leb_spec (x + 1) n); destruct (Nat.ltb_spec n (x + 1 + length c)); cbn [andb].
    + destruct (Nat.leb_spec x n); [|lia]. destruct (Nat.ltb_spec n (x + S (length c))); [|lia]. cbn [andb].
      replace (n - x)%nat with (S (n - (x + 1))) by lia. reflexivity.
    + rewrite nth_l_set_out by lia.
      destruct (Nat.leb_spec x n); destruct (Nat.ltb_spec n (x + S (length c))); cbn [andb]; try reflexivity; lia.
    + destruct (Nat.leb_spec x n); destruct (Nat.ltb_spec n (x + S (length c))); cbn [andb].
      * assert (n = x) by lia. subst n. rewrite nth_l_set_in by lia. rewrite Nat.sub_diag. reflexivity.
      * lia.
      * apply nth_l_set_out. lia.
      * apply nth_l_set_out. lia.
    + lia.
Qed.

(* Row.set_cells(cells, start=x, clone=False) on a plain list, cells unrepeated *)
Lemma nth_row_set_unit (c r : list cell) x n : 0 <= x ->
  nth n (lstep r (RSetCells false x (unit_runs c))) empty_cell =
    if ((Z.to_nat x <=? n) && (n <? Z.to_nat x + length c))%nat then nth (n - Z.to_nat x) c empty_cell else nth n r empty_cell.
Proof.
  intros Hx. cbn [lstep]. rewrite (norm_coord_id x _ Hx). rewrite length_unit_runs. cbn [negb andb].
  destruct (Z.eqb_spec x 0) as [->|Hne]; cbn [andb].
  - destruct (Z.leb_spec (Z.of_nat (length r)) (Z.of_nat (length c))).
    + rewrite cells_of_unit_runs. cbn [Z.to_nat Nat.leb Nat.add]. rewrite Nat.sub_0_r.
      destruct (Nat.ltb_spec n (length c)); [reflexivity|]. rewrite !nth_overflow by lia. reflexivity.
    + apply nth_l_set_cells_unit.
  - apply nth_l_set_cells_unit.
Qed.

Lemma gcell_edit_row x y c g i j : 0 <= x -> 0 <= y -> 0 <= i -> 0 <= j ->
  gcell i j (g_edit_row y (fun r => lstep r (RSetCells false x (unit_runs c))) g) =
    if (j =? y) && (x <=? i) && (i <? x + Z.of_nat (length c)) then nth (Z.to_nat (i - x)) c empty_cell else gcell i j g.
Proof.
  intros Hx Hy Hi Hj. unfold gcell. destruct (Z.eqb_spec j y) as [->|Hne]; cbn [andb].
  - rewrite edit_row_that_row by lia. rewrite nth_row_set_unit by lia.
    destruct (Z.leb_spec x i); destruct (Z.ltb_spec i (x + Z.of_nat (length c)));
      destruct (Nat.leb_spec (Z.to_nat x) (Z.to_nat i)); destruct (Nat.ltb_spec (Z.to_nat i) (Z.to_nat x + length c)); cbn [andb]; try lia; try reflexivity.
    f_equal. lia.
  - rewrite edit_row_other_rows by lia. reflexivity.
Qed.

Lemma gcell_set_lines x cells : forall y g i j, 0 <= x -> 0 <= y -> 0 <= i -> 0 <= j ->
  gcell i j (g_set_lines false x y (lines_of cells) g) =
    if in_block x y cells i j then nth (Z.to_nat (i - x)) (nth (Z.to_nat (j - y)) cells []) empty_cell else gcell i j g.
Proof.
  induction cells as [|c cs IH]; intros y g i j Hx Hy Hi Hj.
  - cbn [lines_of map g_set_lines]. unfold in_block. cbn [length Z.of_nat].
    destruct (Z.leb_spec y j); destruct (Z.ltb_spec j (y + 0)); cbn [andb]; try reflexivity; lia.
  - set (g1 := match unit_runs c with [] => g | _ => g_edit_row y (fun r => lstep r (RSetCells false x (unit_runs c))) g end).
    assert (E : g_set_lines false x y (lines_of (c :: cs)) g = g_set_lines false x (y + 1) (lines_of cs) g1).
    { unfold g1. cbn [lines_of map g_set_lines]. destruct (unit_runs c); reflexivity. }
    assert (G1 : gcell i j g1 = if (j =? y) && (x <=? i) && (i <? x + Z.of_nat (length c)) then nth (Z.to_nat (i - x)) c empty_cell else gcell i j g).
    { unfold g1. destruct c as [|c0 c].
      - cbn [unit_runs map length Z.of_nat]. destruct (j =? y); destruct (Z.leb_spec x i); destruct (Z.ltb_spec i (x + 0)); cbn [andb]; try reflexivity; lia.
      - rewrite unit_runs_cons. rewrite <- unit_runs_cons. apply gcell_edit_row; assumption. }
    rewrite E, IH by lia. rewrite G1. unfold in_block. cbn [length]. rewrite Nat2Z.inj_succ.
    destruct (Z.eqb_spec j y) as [->|Hne].
    + replace (Z.to_nat (y - y)) with 0%nat by lia. cbn [nth].
      destruct (Z.leb_spec (y + 1) y); [lia|]. cbn [andb].
      destruct (Z.leb_spec y y); [|lia]. destruct (Z.ltb_spec y (y + Z.succ (Z.of_nat (length cs)))); [|lia]. cbn [andb]. reflexivity.
    + cbn [andb].
      destruct (Z.leb_spec (y + 1) j); destruct (Z.ltb_spec j (y + 1 + Z.of_nat (length cs))); cbn [andb].
      * destruct (Z.leb_spec y j); [|lia]. destruct (Z.ltb_spec j (y + Z.succ (Z.of_nat (length cs)))); [|lia]. cbn [andb].
        replace (Z.to_nat (j - y)) with (S (Z.to_nat (j - (y + 1)))) by lia. cbn [nth]. reflexivity.
      * destruct (Z.leb_spec y j); destruct (Z.ltb_spec j (y + Z.succ (Z.of_nat (length cs)))); cbn [andb]; try reflexivity; lia.
      * destruct (Z.leb_spec y j); destruct (Z.ltb_spec j (y + Z.succ (Z.of_nat (length cs)))); cbn [andb]; try reflexivity; lia.
      * destruct (Z.leb_spec y j); destruct (Z.ltb_spec j (y + Z.succ (Z.of_nat (length cs)))); cbn [andb]; try reflexivity; lia.
Qed.

Lemma gcell_step_set_lines x y cells g i j : 0 <= x -> 0 <= y -> 0 <= i -> 0 <= j ->
  gcell i j (g_step g (OSetLines false x y (lines_of cells))) =
    if in_block x y cells i j then nth (Z.to_nat (i - x)) (nth (Z.to_nat (j - y)) cells []) empty_cell else gcell i j g.
Proof.
  intros Hx Hy Hi Hj. cbn [g_step]. rewrite !norm_coord_id by assumption. apply gcell_set_lines; assumption.
Qed.
