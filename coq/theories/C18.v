(* Property C18 — statements only.  Each is closed by [exact] of a lemma proved elsewhere. *)
From Coq Require Import List ZArith NArith. Import ListNotations.
Require Import Codec Codecproof.

(* Duration: decode inverts encode on every whole-second duration, either sign, no bound *)
Theorem dur_roundtrip : forall s : Z, dur_decode (dur_encode_s s) = Some (s * 1000000)%Z.
Proof. exact dur_roundtrip_s. Qed.
Print Assumptions dur_roundtrip.

(* ... and on any microsecond count what comes back is the value truncated toward zero to whole seconds *)
Theorem dur_roundtrip_trunc : forall us : Z, dur_decode (dur_encode us) = Some (Z.quot us 1000000 * 1000000)%Z.
Proof. exact dur_decode_encode. Qed.
Print Assumptions dur_roundtrip_trunc.
