(* TableBproof4.v — layer B, part 4: Row-level calls on an object that carries its own map, the cell mutators of the
   table (in-place edit through the cached wrapper, or clone + set_row), the column mutators, set_values / set_cells,
   extend_rows; then every mutator of the C01 alphabet at once (b_mut_spec) and the `repeated` setters of live handles. *)
From Coq Require Import List ZArith Lia Bool Arith.
Import ListNotations.
Require Import Vault Vaultproof Vaultproof2 Vaultproof3 Vaultproof4 Row Table Grid Tableabs Tableproof Tableproof2 Tableproof3 Tableproof4
               Tableproof5 Tableproof6 Tableproof7 TableB TableBabs TableBproof TableBproof3.
Open Scope Z_scope.

(* ---- Row.set_cell / insert_cell / delete_cell with the row's own (coherent) map: same XML as Row.v, map kept coherent ---- *)
Lemma wrow_set_cell_spec x (c : nat * cell) cs : wf cs -> 0 <= x -> (1 <= fst c)%nat ->
  exists cs' rs, wrow_set_cell x c cs (cmap cs) = Some (cs', cmap cs', rs) /\ row_set_cell x c cs = Some cs' /\
                 (rs = false -> (length cs <= length cs')%nat).
Proof.
  intros Hw Hx Hc. destruct c as [n cv]. cbn [fst] in Hc. unfold wrow_set_cell, row_set_cell, rwidth. rewrite hmap_cmap. cbn [fst].
  destruct (Z.eqb_spec (x - Z.of_nat (width cs)) 0).
  - exists (cs ++ [(n, cv)]), false. rewrite (app_map_cmap cs n cv). repeat split. rewrite app_length. lia.
  - destruct (Z.ltb_spec 0 (x - Z.of_nat (width cs))).
    + eexists (cs ++ [(_, empty_cell); (n, cv)]), false.
      rewrite (app_map_cmap cs _ empty_cell), (app_map_cmap _ n cv), <- app_assoc. repeat split. rewrite app_length. lia.
    + destruct (set_map_correct x (n, cv) cs Hw ltac:(lia) Hc) as (v' & Hs & Hm). cbn [fst] in Hm. rewrite Hs, Hm.
      exists v', true. repeat split. discriminate.
Qed.
Lemma wrow_insert_cell_spec x (c : nat * cell) cs : wf cs -> 0 <= x ->
  exists cs' rs, wrow_insert_cell x c cs (cmap cs) = Some (cs', cmap cs', rs) /\ row_insert_cell x c cs = Some cs' /\
                 (rs = false -> (length cs <= length cs')%nat).
Proof.
  intros Hw Hx. destruct c as [n cv]. unfold wrow_insert_cell, row_insert_cell, rwidth. rewrite hmap_cmap. cbn [fst].
  destruct (Z.ltb_spec (x - Z.of_nat (width cs)) 0).
  - destruct (insert_map_correct x (n, cv) cs Hw ltac:(lia)) as (v' & Hs & Hm). cbn [fst] in Hm. rewrite Hs, Hm. exists v', true.
    repeat split. discriminate.
  - destruct (Z.eqb_spec (x - Z.of_nat (width cs)) 0).
    + exists (cs ++ [(n, cv)]), false. rewrite (app_map_cmap cs n cv). repeat split. rewrite app_length. lia.
    + eexists (cs ++ [(_, empty_cell); (n, cv)]), false.
      rewrite (app_map_cmap cs _ empty_cell), (app_map_cmap _ n cv), <- app_assoc. repeat split. rewrite app_length. lia.
Qed.
Lemma wrow_delete_cell_spec x cs : wf cs -> 0 <= x ->
  exists cs' rs, wrow_delete_cell x cs (cmap cs) = Some (cs', cmap cs', rs) /\ row_delete_cell x cs = Some cs' /\
                 (rs = false -> (length cs <= length cs')%nat).
Proof.
  intros Hw Hx. unfold wrow_delete_cell, row_delete_cell, rwidth. rewrite hmap_cmap.
  destruct (Z.leb_spec (Z.of_nat (width cs)) x); [exists cs, false; auto|].
  destruct (delete_map_correct x cs Hw ltac:(lia)) as (v' & Hs & Hm). rewrite Hs, Hm. exists v', true. repeat split. discriminate.
Qed.

Lemma cwf_nth t i rep st cs : cwf t -> nth_error (rows t) i = Some (rep, (st, cs)) -> wf cs.
Proof. intros Hcw Hn. unfold cwf in Hcw. rewrite Forall_forall in Hcw. apply nth_error_In in Hn. exact (Hcw _ Hn). Qed.
Lemma wf_nth {A} (v : runs A) i rep a : wf v -> nth_error v i = Some (rep, a) -> (1 <= rep)%nat.
Proof. intros Hw Hn. unfold wf in Hw. rewrite Forall_forall in Hw. apply nth_error_In in Hn. exact (Hw _ Hn). Qed.

(* ---- Table.set_cell ---- *)
Lemma b_set_cell_spec x y c b : Coh b -> 0 <= x -> 0 <= y -> (1 <= fst c)%nat ->
  exists b', b_set_cell x y c b = Some b' /\ set_cell x y c (ax b) = Some (ax b') /\ CohM b'.
Proof.
  intros Hc Hx Hy Hcc. pose proof Hc as [[[Hwr Hwc] Hcw] Hm]. unfold b_set_cell, set_cell. rewrite (bheight_coh b Hm).
  destruct (Z.leb_spec (theight (ax b)) y) as [Hout|Hin].
  - destruct (wrow_set_cell_spec x c [] ltac:(constructor) Hx Hcc) as (cs' & rs & Hws & Hrs & _).
    change (cmap (@nil (nat * cell))) with (@nil Z) in Hws. rewrite Hws, Hrs.
    apply (b_set_row_spec y 1 (0, cs') b Hc Hy). lia.
  - assert (Hyb : 0 <= y < bheight b) by (rewrite (bheight_coh b Hm); lia).
    destruct (get_wrap_coh b y Hc Hyb) as (i & w & b1 & rep & st & cs & Hgw & Hfi & Hnth & Hrat & Hok & Hlk & Hax & Htm & Hcm & Hccq & Hc1).
    rewrite Hgw, Hrat. rewrite <- Hax in Hok, Hnth.
    destruct (wrap_row_ok (ax b1) i w rep st cs Hok Hnth) as (Hr & Hrm & Hk & Hp). rewrite Hr, Hrm.
    assert (Hwcs : wf cs) by (rewrite Hax in Hnth; exact (cwf_nth _ _ _ _ _ Hcw Hnth)).
    destruct (wrow_set_cell_spec x c cs Hwcs Hx Hcc) as (cs' & rs & Hws & Hrs & Hlen). rewrite Hws, Hrs.
    destruct (Nat.ltb_spec 1 rep) as [Hrep|Hrep].
    + rewrite <- Hax. apply (b_set_row_spec y 1 (st, cs') b1 Hc1 Hy). lia.
    + assert (Hrep1 : rep = 1%nat) by (rewrite Hax in Hnth; pose proof (wf_nth _ _ _ _ Hwr Hnth); lia). subst rep.
      eexists; split; [reflexivity|].
      pose proof Hc1 as [_ Hm1]. pose proof Hm1 as (Ht1 & Hcq1 & Htc1 & Hcc1).
      assert (Hi : (i < length (rows (ax b1)))%nat) by (apply nth_error_Some; congruence).
      (* the state before _update_width *)
      match goal with |- context [b_update_width ?ww ?bb] => set (b2 := bb); set (w2 := ww) end.
      assert (Hm2 : CohM b2).
      { unfold b2, CohM; cbn [ax tmapB cmapB tcache ccache cols rows]. rewrite Hp.
        split; [rewrite Ht1; apply cmap_reps; symmetry; apply (map_fst_set_nth i 1%nat (st, cs) (st, cs')); exact Hnth|].
        split; [exact Hcq1|]. split; [|exact Hcc1].
        apply (Forall_upsertn' (wrap_ok (ax b1))); [| |exact Htc1].
        - exists 1%nat, st, cs'. cbn [fst snd rows w_pos w_rmap w_cells].
          split; [apply nth_error_set_nth_same; exact Hi|]. split; [|split; [reflexivity|]].
          + destruct Hok as (? & ? & ? & _ & Hpp & _). exact Hpp.
          + destruct rs; [constructor|]. eapply keys_ok_mono; [|exact Hk]. auto.
        - intros kv Hne Hkv. apply (wrap_ok_ext (ax b1)); [|exact Hkv]. cbn [rows]. apply nth_error_set_nth_other; assumption. }
      destruct (b_update_width_spec w2 b2 Hm2) as [Hu Hc2]. split; [|exact Hc2]. rewrite Hu.
      assert (Hwr1 : wf (rows (ax b1))) by (rewrite Hax; exact Hwr).
      assert (Hyin : 0 <= y < Z.of_nat (width (rows (ax b1)))) by (rewrite Hax; unfold theight in Hin; lia).
      assert (Hfi1 : find_idx (cmap (rows (ax b1))) y = Some i) by (rewrite Hax; exact Hfi).
      rewrite <- Hax. unfold set_row.
      destruct (Z.eqb_spec (y - theight (ax b1)) 0); [unfold theight in *; lia|].
      destruct (Z.ltb_spec 0 (y - theight (ax b1))); [unfold theight in *; lia|].
      pose proof (@set_item_unrepeated rowx (rows (ax b1)) y i (st, cs) (st, cs') Hwr1 Hyin Hfi1 Hnth) as Hsi.
      match goal with |- match ?e with _ => _ end = _ =>
        replace e with (Some (set_nth i (1%nat, ((st, cs') : rowx)) (rows (ax b1)))) by (symmetry; exact Hsi) end.
      unfold b2, w2; cbn [ax cols rows]. rewrite Hp, hmap_cmap. reflexivity.
Qed.

(* ---- Table._get_row2(y, clone=True) ---- *)
Lemma b_base_row_spec y b : Coh b -> 0 <= y ->
  exists st cs b1, b_base_row y b = Some ((st, cs), cmap cs, b1) /\ base_row y (ax b) = Some (st, cs) /\ wf cs /\
                   ax b1 = ax b /\ Coh b1.
Proof.
  intros Hc Hy. pose proof Hc as [[[Hwr Hwc] Hcw] Hm]. unfold b_base_row, base_row. rewrite (bheight_coh b Hm).
  destruct (Z.leb_spec (theight (ax b)) y) as [Hout|Hin].
  - exists 0, [], b. split; [reflexivity|]. split; [reflexivity|]. split; [constructor|]. split; [reflexivity|exact Hc].
  - assert (Hyb : 0 <= y < bheight b) by (rewrite (bheight_coh b Hm); lia).
    destruct (get_wrap_coh b y Hc Hyb) as (i & w & b1 & rep & st & cs & Hgw & Hfi & Hnth & Hrat & Hok & Hlk & Hax & Htm & Hcm & Hccq & Hc1).
    rewrite Hgw, Hrat. rewrite <- Hax in Hok, Hnth.
    destruct (wrap_row_ok (ax b1) i w rep st cs Hok Hnth) as (Hr & Hrm & Hk & Hp). rewrite Hr, Hrm.
    exists st, cs, b1. split; [reflexivity|]. split; [reflexivity|]. split; [rewrite Hax in Hnth; exact (cwf_nth _ _ _ _ _ Hcw Hnth)|]. split; assumption.
Qed.

Lemma b_insert_cell_spec x y c b : Coh b -> 0 <= x -> 0 <= y ->
  exists b', b_insert_cell x y c b = Some b' /\ t_insert_cell x y c (ax b) = Some (ax b') /\ CohM b'.
Proof.
  intros Hc Hx Hy. unfold b_insert_cell, t_insert_cell.
  destruct (b_base_row_spec y b Hc Hy) as (st & cs & b1 & Hb & Ha & Hw & Hax & Hc1). rewrite Hb, Ha.
  destruct (wrow_insert_cell_spec x c cs Hw Hx) as (cs' & rs & Hws & Hrs & _). rewrite Hws, Hrs.
  rewrite <- Hax. apply (b_set_row_spec y 1 (st, cs') b1 Hc1 Hy). lia.
Qed.
Lemma b_append_cell_spec y c b : Coh b -> 0 <= y ->
  exists b', b_append_cell y c b = Some b' /\ t_append_cell y c (ax b) = Some (ax b') /\ CohM b'.
Proof.
  intros Hc Hy. unfold b_append_cell, t_append_cell.
  destruct (b_base_row_spec y b Hc Hy) as (st & cs & b1 & Hb & Ha & Hw & Hax & Hc1). rewrite Hb, Ha.
  rewrite <- Hax. apply (b_set_row_spec y 1 (st, cs ++ [c]) b1 Hc1 Hy). lia.
Qed.
Lemma b_delete_cell_spec x y b : Coh b -> 0 <= x -> 0 <= y ->
  exists b', b_delete_cell x y b = Some b' /\ t_delete_cell x y (ax b) = Some (ax b') /\ CohM b'.
Proof.
  intros Hc Hx Hy. pose proof Hc as [_ Hm]. unfold b_delete_cell, t_delete_cell. rewrite (bheight_coh b Hm).
  destruct (Z.leb_spec (theight (ax b)) y) as [Hout|Hin]; [exists b; auto|].
  destruct (b_base_row_spec y b Hc Hy) as (st & cs & b1 & Hb & Ha & Hw & Hax & Hc1). rewrite Hb.
  unfold base_row in Ha. destruct (Z.leb_spec (theight (ax b)) y); [lia|].
  destruct (row_at y (ax b)) as [[rep [st' cs'']]|]; [|discriminate]. inversion Ha; subst st' cs''.
  destruct (wrow_delete_cell_spec x cs Hw Hx) as (cs' & rs & Hws & Hrs & _). rewrite Hws, Hrs.
  rewrite <- Hax. apply (b_set_row_spec y 1 (st, cs') b1 Hc1 Hy). lia.
Qed.

(* ---- the column mutators ---- *)
Lemma CohM_cols_rows b cs rs m tc : CohM b -> m = cmap cs -> cmap rs = cmap (rows (ax b)) ->
  Forall (wrap_ok {| cols := cs; rows := rs |}) tc ->
  CohM {| ax := {| cols := cs; rows := rs |}; tmapB := tmapB b; cmapB := m; tcache := tc; ccache := [] |}.
Proof.
  intros (Ht & Hc & Htc & Hcc) Hm Hr Hf. unfold CohM; cbn [ax tmapB cmapB tcache ccache cols rows].
  repeat split; auto. - now rewrite Hr. - constructor.
Qed.

Lemma b_insert_column_spec x rep st b : Coh b -> 0 <= x -> (1 <= rep)%nat ->
  exists b', b_insert_column true x rep st b = Some b' /\ t_insert_column x rep st (ax b) = Some (ax b') /\ CohM b'.
Proof.
  intros [[[Hwr Hwc] Hcw] Hm] Hx Hrep. unfold b_insert_column, t_insert_column. rewrite (bwidth_coh b Hm).
  assert (Hfin : forall b1, CohM b1 -> rows (ax b1) = rows (ax b) ->
            CohM {| ax := {| cols := cols (ax b1); rows := map_rows (ins_row x rep) (rows (ax b1)) |};
                    tmapB := tmapB b1; cmapB := cmapB b1; tcache := []; ccache := ccache b1 |}).
  { intros b1 (Ht1 & Hc1 & _ & Hcc1) _. unfold CohM; cbn [ax tmapB cmapB tcache ccache cols rows].
    repeat split; auto. now rewrite cmap_map_rows. }
  destruct (Z.ltb_spec (x - twidth (ax b)) 0) as [Elt|Ege].
  - pose proof Hm as (_ & Hcq & _). rewrite Hcq.
    destruct (insert_map_correct x (rep, st) (cols (ax b)) Hwc ltac:(unfold twidth in *; lia)) as (v' & Hs & Hmp). cbn [fst] in Hmp.
    rewrite Hs, Hmp. eexists; split; [reflexivity|]. split; [reflexivity|].
    cbn [ax cols rows tmapB cmapB ccache]. apply (CohM_cols_rows b v' _ (cmap v') [] Hm eq_refl); [apply cmap_map_rows|constructor].
  - destruct (Z.eqb_spec (x - twidth (ax b)) 0).
    + eexists; split; [reflexivity|]. destruct (b_append_column_spec rep st b Hm) as [Ha Hc1].
      split; [|apply Hfin; [exact Hc1|reflexivity]]. cbn [ax b_append_column t_append_column cols rows].
      rewrite Nat.max_r by lia. reflexivity.
    + eexists; split; [reflexivity|].
      destruct (b_append_column_spec (Z.to_nat (x - twidth (ax b))) 0 b Hm) as [Ha0 Hc0].
      destruct (b_append_column_spec rep st _ Hc0) as [Ha Hc1].
      split; [|apply Hfin; [exact Hc1|reflexivity]]. cbn [ax b_append_column t_append_column cols rows].
      rewrite !Nat.max_r by lia. rewrite <- app_assoc. reflexivity.
Qed.
Lemma b_delete_column_spec x b : Coh b -> 0 <= x ->
  exists b', b_delete_column true x b = Some b' /\ t_delete_column x (ax b) = Some (ax b') /\ CohM b'.
Proof.
  intros [[[Hwr Hwc] Hcw] Hm] Hx. unfold b_delete_column, t_delete_column. rewrite (bwidth_coh b Hm).
  destruct (Z.leb_spec (twidth (ax b)) x) as [Hout|Hin]; [exists b; auto|].
  pose proof Hm as (_ & Hcq & _). rewrite Hcq.
  destruct (delete_map_correct x (cols (ax b)) Hwc ltac:(unfold twidth in *; lia)) as (v' & Hs & Hmp).
  rewrite Hs, Hmp. eexists; split; [reflexivity|]. split; [reflexivity|].
  apply (CohM_cols_rows b v' _ (cmap v') [] Hm eq_refl); [apply cmap_map_rows|constructor].
Qed.
Lemma b_set_column_spec x rep st b : Coh b -> 0 <= x -> (1 <= rep)%nat ->
  exists b', b_set_column x rep st b = Some b' /\ t_set_column x rep st (ax b) = Some (ax b') /\ CohM b'.
Proof.
  intros [[[Hwr Hwc] Hcw] Hm] Hx Hrep. unfold b_set_column, t_set_column. rewrite (bwidth_coh b Hm).
  destruct (Z.eqb_spec (x - twidth (ax b)) 0).
  - eexists; split; [reflexivity|]. destruct (b_append_column_spec rep st b Hm) as [Ha Hc1]. rewrite Ha. auto.
  - destruct (Z.ltb_spec 0 (x - twidth (ax b))).
    + eexists; split; [reflexivity|].
      destruct (b_append_column_spec (Z.to_nat (x - twidth (ax b))) 0 b Hm) as [Ha0 Hc0].
      destruct (b_append_column_spec rep st _ Hc0) as [Ha Hc1]. rewrite Ha, Ha0. auto.
    + pose proof Hm as (_ & Hcq & Htc & _). rewrite Hcq.
      destruct (set_map_correct x (rep, st) (cols (ax b)) Hwc ltac:(unfold twidth in *; lia) Hrep) as (v' & Hs & Hmp). cbn [fst] in Hmp.
      rewrite Hs, Hmp. eexists; split; [reflexivity|]. split; [reflexivity|].
      apply (CohM_cols_rows b v' _ (cmap v') (tcache b) Hm eq_refl); [reflexivity|].
      apply (Forall_wrap_ok_ext (ax b)); [|exact Htc]. reflexivity.
Qed.

(* ---- set_values / set_cells ---- *)
Lemma b_edit_row_spec y os b t' : Coh b -> 0 <= y -> t_edit_row y os (ax b) = Some t' ->
  exists b', b_edit_row y os b = Some b' /\ ax b' = t' /\ CohM b'.
Proof.
  intros Hc Hy Ht. unfold b_edit_row. unfold t_edit_row in Ht.
  destruct (b_base_row_spec y b Hc Hy) as (st & cs & b1 & Hb & Ha & Hw & Hax & Hc1). rewrite Hb. rewrite Ha in Ht.
  destruct (rowx_run (st, cs) os) as [r'|]; [|discriminate].
  destruct (b_set_row_spec y 1 r' b1 Hc1 Hy ltac:(lia)) as (b' & Hs & Hs' & Hm').
  exists b'. split; [exact Hs|]. split; [|exact Hm']. rewrite Hax, Ht in Hs'. now inversion Hs'.
Qed.
Lemma b_set_lines_spec cl x ls : forall y b t', Coh b -> 0 <= y -> Forall cells_ok ls ->
  t_set_lines cl x y ls (ax b) = Some t' ->
  exists b', b_set_lines cl x y ls b = Some b' /\ ax b' = t' /\ CohM b'.
Proof.
  induction ls as [|l ls IH]; intros y b t' Hc Hy Hok Ht.
  - cbn [t_set_lines b_set_lines] in *. inversion Ht; subst. exists b. destruct Hc; auto.
  - inversion Hok as [|? ? Hl Hok']; subst. cbn [t_set_lines b_set_lines] in *.
    destruct l as [|c l]; [apply IH; auto; lia|].
    destruct (t_edit_row y [RSetCells cl x (c :: l)] (ax b)) as [t1|] eqn:E1; [|discriminate].
    destruct (b_edit_row_spec y _ b t1 Hc Hy E1) as (b1 & Hb1 & Hax1 & Hm1). rewrite Hb1.
    assert (Hc1 : Coh b1).
    { split; [|exact Hm1]. rewrite Hax1. destruct Hc as [[Htw Hcw] _].
      destruct (edit_row_refines y [RSetCells cl x (c :: l)] (ax b) Htw Hcw Hy ltac:(constructor; [exact Hl|constructor]))
        as (t2 & Ht2 & _ & Htw2 & Hcw2). rewrite E1 in Ht2. inversion Ht2; subst. split; assumption. }
    apply IH; auto; [lia|]. now rewrite Hax1.
Qed.

(* ---- extend_rows ---- *)
Lemma b_extend_rows_spec rs b : CohM b -> ax (b_extend_rows rs b) = t_extend_rows rs (ax b) /\ CohM (b_extend_rows rs b).
Proof.
  intros (Ht & Hc & Htc & Hcc). unfold b_extend_rows, t_extend_rows.
  assert (Hext : forall cs', Forall (wrap_ok {| cols := cs'; rows := rows (ax b) ++ rs |}) (tcache b)).
  { intros cs'. apply (Forall_wrap_ok_ext (ax b)); [|exact Htc]. intros k Hk. cbn [rows]. now rewrite nth_error_app1. }
  destruct (cols (ax b)) as [|c0 cs0] eqn:Ec; [destruct rs as [|r0 rs0]|].
  - apply b_update_width_spec. unfold CohM; cbn [ax tmapB cmapB tcache ccache cols rows]. repeat split; auto.
  - split; [reflexivity|]. unfold CohM; cbn [ax tmapB cmapB tcache ccache cols rows]. repeat split; auto.
    apply (keys_ok_zero _ 1). exact Hcc.
  - apply b_update_width_spec. unfold CohM; cbn [ax tmapB cmapB tcache ccache cols rows]. repeat split; auto.
Qed.

(* ---- every mutator of the C01 alphabet ---- *)
Theorem b_mut_spec b o : Coh b -> op_ok o ->
  exists b', b_mut true b o = Some b' /\ t_step (ax b) o = Some (ax b') /\ Coh b'.
Proof.
  intros Hc Hok. pose proof Hc as [Hwf Hm].
  assert (Hny : forall y, 0 <= ny y (ax b)) by (intros; apply norm_coord_nonneg, theight_nonneg).
  assert (Hnx : forall x, 0 <= nx x (ax b)) by (intros; apply norm_coord_nonneg, twidth_nonneg).
  assert (Hfin : forall b', t_step (ax b) o = Some (ax b') -> CohM b' -> Coh b').
  { intros b' Hs Hm'. split; [|exact Hm']. destruct (step_refines (ax b) o Hwf Hok) as (t' & Hs' & Hwf' & _).
    rewrite Hs in Hs'. inversion Hs'; subst. exact Hwf'. }
  assert (Hgo : forall ob ot, (exists b', ob = Some b' /\ ot = Some (ax b') /\ CohM b') -> ot = t_step (ax b) o ->
            exists b', ob = Some b' /\ t_step (ax b) o = Some (ax b') /\ Coh b').
  { intros ob ot (b' & H1 & H2 & H3) He. exists b'. split; [exact H1|].
    assert (Hs : t_step (ax b) o = Some (ax b')) by congruence. split; [exact Hs|]. apply Hfin; assumption. }
  destruct o as [rep r|y rep r|y rep r|y|x y c|x y c|y c|x y|x rep st|x|rep st|x rep st|cl x y ls|rs|];
    cbn [op_ok b_mut t_step] in *; rewrite ?(bny_coh b _ Hm), ?(bnx_coh b _ Hm).
  - destruct (b_append_row_spec rep r b Hm) as [Ha Hc1]. eexists; split; [reflexivity|]. rewrite Ha. split; [reflexivity|].
    apply Hfin; [cbn [t_step]; now rewrite Ha|exact Hc1].
  - eapply Hgo; [apply (b_set_row_spec _ rep r b Hc (Hny y)); tauto|reflexivity].
  - eapply Hgo; [apply (b_insert_row_spec _ rep r b Hc (Hny y)); tauto|reflexivity].
  - eapply Hgo; [apply (b_delete_row_spec _ b Hc (Hny y))|reflexivity].
  - eapply Hgo; [apply (b_set_cell_spec _ _ c b Hc (Hnx x) (Hny y) Hok)|reflexivity].
  - eapply Hgo; [apply (b_insert_cell_spec _ _ c b Hc (Hnx x) (Hny y))|reflexivity].
  - eapply Hgo; [apply (b_append_cell_spec _ c b Hc (Hny y))|reflexivity].
  - eapply Hgo; [apply (b_delete_cell_spec _ _ b Hc (Hnx x) (Hny y))|reflexivity].
  - eapply Hgo; [apply (b_insert_column_spec _ rep st b Hc (Hnx x) Hok)|reflexivity].
  - eapply Hgo; [apply (b_delete_column_spec _ b Hc (Hnx x))|reflexivity].
  - destruct (b_append_column_spec rep st b Hm) as [Ha Hc1]. eexists; split; [reflexivity|]. rewrite Ha. split; [reflexivity|].
    apply Hfin; [cbn [t_step]; now rewrite Ha|exact Hc1].
  - eapply Hgo; [apply (b_set_column_spec _ rep st b Hc (Hnx x) Hok)|reflexivity].
  - destruct (step_refines (ax b) (OSetLines cl x y ls) Hwf Hok) as (t' & Hs & Hwf' & _). cbn [t_step] in Hs.
    destruct (b_set_lines_spec cl _ ls _ b t' Hc (Hny y) Hok Hs) as (b' & Hb' & Hax' & Hm').
    exists b'. split; [exact Hb'|]. subst t'. split; [exact Hs|]. split; assumption.
  - destruct (b_extend_rows_spec rs b Hm) as [Ha Hc1]. eexists; split; [reflexivity|]. rewrite Ha. split; [reflexivity|].
    apply Hfin; [cbn [t_step]; now rewrite Ha|exact Hc1].
  - exists b_empty. split; [reflexivity|]. split; [reflexivity|]. split; [repeat split; constructor|].
    unfold CohM, b_empty; cbn [ax tmapB cmapB tcache ccache]. repeat split; constructor.
Qed.
