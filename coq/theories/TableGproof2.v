(* TableGproof2.v — C08: a read that expands repetitions returns objects WITHOUT a repeat attribute.  The expanding loop
   of Row.traverse / traverse_columns removes the attribute when `repeated > 1 or (x == start and start > 0)`; that this
   covers every repeated run needs the map to be the map of the XML (the run entered in the middle is recognised by
   the distance to its end) — proved here for every well-formed run list. *)
From Coq Require Import List ZArith Lia Bool Arith.
Import ListNotations.
Require Import Vault Vaultproof Vaultproof2 Vaultproof3 Vaultproof4 Row Table Grid Tableabs TableB TableG TableGspec TableGproof.
Open Scope Z_scope.

Section TR.
Variable A : Type.
Notation rep_of := (fun p : Z * nat * A => snd (fst p)).

(* runs entered at their first position: the loop sees the full repeat *)
Lemma trav_objs_aligned (v : runs A) : forall B x en start, wf v ->
  Forall (fun p => rep_of p = 1%nat) (trav_objs false x en B start (cmap_from B v) v).
Proof.
  induction v as [|[n c] v IH]; intros B x en start Hwf; cbn [cmap_from trav_objs]; [constructor|].
  inversion Hwf as [|? ? Hn Hwf']; subst. cbn [fst] in Hn.
  apply Forall_app. split; [|apply IH; exact Hwf'].
  apply Forall_map', Forall_all. intros d. cbn [fst snd].
  replace (B + Z.of_nat n - B) with (Z.of_nat n) by lia.
  destruct (Z.ltb_spec 1 (Z.of_nat n)); [reflexivity|]. cbn [orb].
  destruct ((x + Z.of_nat d + 0 =? start) && (0 <? start)); [reflexivity|lia].
Qed.

Lemma vault_traverse_reps (v : runs A) s e : wf v -> Forall (fun p => rep_of p = 1%nat) (vault_traverse false s e v).
Proof.
  intros Hwf. unfold vault_traverse.
  set (s' := Z.max 0 (match s with Some s0 => s0 | None => 0 end)).
  set (e' := match e with Some e0 => e0 | None => hmap (cmap v) - 1 end).
  destruct (find_idx (cmap v) s') as [i|] eqn:Ef; [|constructor].
  assert (Hs0 : 0 <= s') by (unfold s'; lia).
  assert (Hin : s' < Z.of_nat (width v)).
  { destruct (Z.ltb_spec s' (Z.of_nat (width v))) as [H|H]; [exact H|].
    unfold find_idx in Ef. rewrite (bisect_all_lt (cmap v) s') in Ef; [rewrite Nat.ltb_irrefl in Ef; discriminate|].
    unfold cmap. eapply Forall_impl; [|apply (cmap_from_le (-1) v)]. cbv beta. intros; lia. }
  destruct (locate A v s' Hwf ltac:(lia)) as (i' & n & b & Hf & Hn & Hi & Hbef & Hcur & Hr).
  rewrite Ef in Hf. inversion Hf; subst i'.
  unfold cmap. rewrite cmap_from_skipn. rewrite (skipn_cons_nth v i (n, b) Hn).
  set (L := Z.of_nat (length (expand (firstn i v)))) in *.
  cbn [cmap_from trav_objs].
  assert (Hwf' : wf (skipn (S i) v)) by (apply Forall_skipn; exact Hwf).
  assert (Hn1 : (1 <= n)%nat) by (unfold wf in Hwf; rewrite Forall_forall in Hwf; apply nth_error_In in Hn; exact (Hwf _ Hn)).
  apply Forall_app. split.
  - apply Forall_map'. apply Forall_forall. intros d Hd. apply in_seq in Hd. cbn [fst snd].
    destruct (Z.ltb_spec 1 (-1 + L + Z.of_nat n - (s' - 1))); [reflexivity|]. cbn [orb].
    assert (Hk : d = 0%nat) by lia. subst d.
    replace (s' + Z.of_nat 0 + 0) with s' by lia. rewrite Z.eqb_refl. cbn [andb].
    destruct (Z.ltb_spec 0 s'); [reflexivity|]. lia.
  - apply trav_objs_aligned. exact Hwf'.
Qed.
End TR.
Arguments vault_traverse_reps {A}.

Lemma m_row_traverse_reps s e ry cs : wf cs -> Forall (fun c => c_rep c = 1%nat) (m_row_traverse s e ry cs).
Proof.
  intros Hw. unfold m_row_traverse. apply Forall_map'.
  eapply Forall_impl; [|apply (vault_traverse_reps cs s e Hw)]. intros [[x rep] c] H. exact H.
Qed.
Lemma yield_rows_reps p rs : forall i y, Forall (fun r => r_rep r = 1%nat) (yield_rows p i y rs).
Proof.
  induction rs as [|[n r] rs IH]; intros i y; cbn [yield_rows]; [constructor|].
  apply Forall_app. split; [|apply IH]. apply Forall_map', Forall_all. reflexivity.
Qed.
Lemma m_traverse_reps p s e t : Forall (fun r => r_rep r = 1%nat) (m_traverse p s e t).
Proof. unfold m_traverse. destruct e as [e|]; [destruct (e <? _); [constructor|]|]; apply Forall_filter, yield_rows_reps. Qed.
Lemma pad_cells_reps fuel : forall pos w ry, Forall (fun c => c_rep c = 1%nat) (pad_cells pos w ry fuel).
Proof. induction fuel as [|f IH]; intros; cbn [pad_cells]; [constructor|]. destruct (pos <? w); constructor; [reflexivity|apply IH]. Qed.

(* the rows yielded by traverse carry the cells of some row of the table, or are empty *)
Lemma yield_rows_wf p rs : forall i y, Forall (fun r : nat * rowx => wf (snd (snd r))) rs -> Forall (fun r => wf (snd (r_val r))) (yield_rows p i y rs).
Proof.
  induction rs as [|[n r] rs IH]; intros i y H; cbn [yield_rows]; [constructor|]. inversion H; subst.
  apply Forall_app. split; [|apply IH; assumption]. apply Forall_map', Forall_all. intros d. assumption.
Qed.
Lemma m_traverse_wf p s e t : cwf t -> Forall (fun r => wf (snd (r_val r))) (m_traverse p s e t).
Proof. intros H. unfold m_traverse. destruct e as [e|]; [destruct (e <? _); [constructor|]|]; apply Forall_filter, yield_rows_wf; exact H. Qed.
Lemma m_get_row_wf y cl t : cwf t -> wf (snd (r_val (m_get_row y cl t))).
Proof.
  intros H. unfold m_get_row. destruct (theight t <=? _); [constructor|].
  destruct (find_idx _ _) as [i|]; [|constructor]. destruct (nth_error (rows t) i) as [[n [st cs]]|] eqn:E; [|constructor].
  cbn [r_val snd]. unfold cwf in H. rewrite Forall_forall in H. apply nth_error_In in E. exact (H _ E).
Qed.

Theorem expanded_no_repeat pad t q : WF t -> expands q = true -> Forall (fun n => n = 1%nat) (res_reps (m_get false pad t q)).
Proof.
  intros [[Hwr Hwc] Hcw] He. destruct q; cbn [m_get res_reps expands] in *; try discriminate.
  - (* get_cell, keep_repeated = False *) destruct keep; [discriminate|]. cbn [concat app map]. constructor; [|constructor].
    unfold m_get_cell. destruct (theight t <=? _); reflexivity.
  - apply Forall_map', Forall_concat. unfold m_get_cells.
    destruct pad, area as [[[[x y] z] e]|]; apply Forall_map'; (eapply Forall_impl; [|apply (m_traverse_wf false _ _ t Hcw)]); intros r Hr; cbn [negb orb];
      try apply Forall_app; try split; try apply m_row_traverse_reps; try apply pad_cells_reps; exact Hr.
  - apply Forall_map', Forall_concat. unfold m_cells. apply Forall_map'.
    eapply Forall_impl; [|apply (m_traverse_wf false None None t Hcw)]. intros r Hr. apply m_row_traverse_reps. exact Hr.
  - apply Forall_map'. unfold m_get_rows. destruct range as [[y e]|]; apply m_traverse_reps.
  - apply Forall_map', m_traverse_reps.
  - apply Forall_map'. unfold m_get_columns, m_traverse_columns. destruct range as [[x z]|]; cbn [andb]; apply Forall_map';
      (eapply Forall_impl; [|apply (vault_traverse_reps (cols t) _ _ Hwc)]); intros [[x' rep] st] H; exact H.
  - apply Forall_map'. unfold m_traverse_columns. cbn [andb]. apply Forall_map'.
    eapply Forall_impl; [|apply (vault_traverse_reps (cols t) _ _ Hwc)]. intros [[x' rep] st] H; exact H.
  - cbn [concat]. rewrite app_nil_r. apply Forall_map'. unfold m_get_column_cells. apply Forall_map', Forall_all. reflexivity.
  - cbn [concat]. rewrite app_nil_r. apply Forall_map', m_row_traverse_reps, m_get_row_wf. exact Hcw.
  - cbn [concat]. rewrite app_nil_r. apply Forall_map', m_row_traverse_reps, m_get_row_wf. exact Hcw.
Qed.
