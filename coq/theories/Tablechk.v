(* Tablechk.v — the checkers evaluated by vm_compute on every correspondence step (C01 and C07).
   One observation = the raw abstraction of the implementation before and after one API call, the call, the private
   maps after it, and the answers of the reads performed after it.  No proofs here. *)
From Coq Require Import List ZArith NArith Bool Arith.
Import ListNotations.
Require Import Vault Row Table Grid Tableabs Tablexml.
Local Open Scope Z_scope.

Inductive obs := Obs (pre : xtable) (o : top) (post : xtable) (raised : bool)
                     (tmap cmap_ : list Z) (rmaps : list (nat * list Z)) (reads : list (tread * tans)).

Definition grid_eqb (a b : gridT) : bool :=
  (ncols a =? ncols b) && list_eqb cells_eqb (grows a) (grows b).
Definition vcl_of (tab : list (Z * Z)) (v : Z) : Z :=
  match find (fun p => fst p =? v) tab with Some p => snd p | None => v end.
(* model/spec answer (value ids) against the implementation's answer (value classes) *)
Definition ans_eqb (vcl : Z -> Z) (m i : tans) : bool :=
  match m, i with
  | ASize w h, ASize w' h' => (w =? w') && (h =? h')
  | AValue v, AValue v' => vcl v =? v'
  | AList l, AList l' => zl_eqb (map vcl l) l'
  | AMatrix l, AMatrix l' => list_eqb zl_eqb (map (map vcl) l) l'
  | ACell c, ACell c' => cell_eqb c c'
  | _, _ => false end.
Definition maps_ok (t : tstate) (tm cm : list Z) (rmaps : list (nat * list Z)) : bool :=
  zl_eqb (cmap (rows t)) tm && zl_eqb (cmap (cols t)) cm &&
  forallb (fun p : nat * list Z => match nth_error (rows t) (fst p) with
                                   | Some (_, (_, cs)) => zl_eqb (cmap cs) (snd p) | None => false end) rmaps.

(* C01.  0 agree | 2 the grid after the call is not the grid step | 4 a read differs from the grid's answer
   | 5 a private map is not the map of the XML | 10 the call raised | 11 outside the modelled fragment
   | 3 the model fails | 8 the model's grid is not the grid step (a theorem instance) | 9 only the exact run-length shape differs *)
Definition chk_c01 (vcl : Z -> Z) (ob : obs) : nat :=
  let '(Obs pre o post raised tm cm rmaps reads) := ob in
  if negb (in_fragment pre && in_fragment post) then 11%nat
  else if raised then 10%nat
  else
    let tpre := to_tstate pre in let tpost := to_tstate post in
    let want := g_step (abs_t tpre) o in
    if negb (grid_eqb (abs_t tpost) want) then 2%nat
    else if negb (maps_ok tpost tm cm rmaps) then 5%nat
    else if negb (forallb (fun qa : tread * tans => ans_eqb vcl (g_read want (fst qa)) (snd qa)) reads) then 4%nat
    else match t_step tpre o with
         | None => 3%nat
         | Some tm' =>
           if negb (grid_eqb (abs_t tm') want
                    && forallb (fun qa : tread * tans => ans_eqb vcl (t_read tm' (fst qa)) (snd qa)) reads) then 8%nat
           else if tstate_eqb tm' tpost then 0%nat else 9%nat
         end.

(* C07.  0 holds | 1 XmlOK false on the post state | 6 first row added, no column declared
   | 7 reported width/height are not the sums of the repeats | 11 outside the modelled fragment *)
Definition size_ok (t : tstate) (reads : list (tread * tans)) : bool :=
  forallb (fun qa : tread * tans => match qa with
            | (QSize, ASize w h) => (w =? twidth t) && (h =? theight t) | _ => true end) reads.
Definition chk_c07 (ob : obs) : nat :=
  let '(Obs pre o post raised tm cm rmaps reads) := ob in
  if negb (in_fragment pre && in_fragment post) then 11%nat
  else if negb (XmlOK post) then 1%nat
  else if negb (first_row_declares pre post) then 6%nat
  else if negb (size_ok (to_tstate post) reads) then 7%nat
  else 0%nat.

(* the vault functions alone (Row level sweep): pre runs, op, post runs, post map *)
Definition chk_row (pre : rruns) (o : rop) (post : rruns) (postmap : list Z) : nat :=
  match rstep pre o with
  | None => 3%nat
  | Some r => if negb (cells_eqb (expand post) (lstep (expand pre) o)) then 2%nat
              else if negb (zl_eqb (cmap post) postmap) then 5%nat
              else if negb (cells_eqb (expand r) (expand post)) then 8%nat
              else if runs_eqb r post then 0%nat else 9%nat
  end.

(* validation of the PINNED model (used only to show that the ..._refuted theorems speak about the pinned code):
   0 = the pinned model reproduces the implementation's XML exactly, 9 = it does not *)
Definition chk_pinned (ob : obs) : nat :=
  let '(Obs pre o post raised tm cm rmaps reads) := ob in
  match t_step_pinned (to_tstate pre) o with
  | Some t' => if tstate_eqb t' (to_tstate post) then 0%nat else 9%nat
  | None => 9%nat end.

(* validation of the pinned vault model at Row level (set only): 0 = XML runs and _rmap reproduced exactly *)
Definition chk_row_pinned (pre : rruns) (o : rop) (post : rruns) (postmap : list Z) : nat :=
  match o with
  | RSet x c =>
      let x' := norm_coord x (rwidth pre) in
      if x' <? rwidth pre then
        match set_item_pinned 0 x' c pre (cmap pre), set_map_pinned x' (fst c) (cmap pre) with
        | Some v, Some m => if runs_eqb v post && zl_eqb m postmap then 0%nat else 9%nat
        | _, _ => 9%nat end
      else 0%nat
  | _ => 0%nat end.
