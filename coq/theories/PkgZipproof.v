(* The zip writer (_save_zip): every live part is written exactly once, mimetype first and STORED, manifest last. *)
From Coq Require Import List ZArith Bool Arith Lia.
Import ListNotations.
Require Import Package PkgManproof.
Open Scope Z_scope.

Section Z.
Variable bytes : Type.
Notation container := (container bytes).
Notation live := (live bytes).
Notation save_zip := (save_zip bytes).
Notation zip_plain := (zip_plain bytes).
Notation pick := (pick bytes).
Notation drop := (drop bytes).

Lemma lookup_app {V} : forall k (a b : list (Z * V)),
  lookup k (a ++ b) = match lookup k a with Some v => Some v | None => lookup k b end.
Proof. induction a as [|[k' v] a IH]; cbn [app lookup]; intros; [reflexivity|]. destruct (k =? k'); auto. Qed.

Lemma zip_plain_app : forall a b, zip_plain (a ++ b) = zip_plain a ++ zip_plain b.
Proof. intros. unfold Package.zip_plain. apply map_app. Qed.

Lemma lookup_pick : forall n k l, lookup n (zip_plain (pick k l)) = if n =? k then lookup k l else None.
Proof.
  intros. unfold Package.pick. destruct (lookup k l) eqn:E; cbn.
  - destruct (n =? k); reflexivity.
  - destruct (n =? k); reflexivity.
Qed.

Lemma lookup_drop : forall n ks (l : list (name * bytes)), lookup n (drop ks l) = if memz n ks then None else lookup n l.
Proof.
  intros n ks. induction l as [|[k v] l IH]; cbn [Package.drop filter lookup fst].
  - destruct (memz n ks); reflexivity.
  - destruct (memz k ks) eqn:M; cbn [negb].
    + fold (drop ks l). rewrite IH. destruct (n =? k) eqn:E; [|reflexivity].
      apply Z.eqb_eq in E. subst. rewrite M. reflexivity.
    + cbn [lookup]. fold (drop ks l). rewrite IH. destruct (n =? k) eqn:E; [|reflexivity].
      apply Z.eqb_eq in E. subst. rewrite M. reflexivity.
Qed.

Lemma zip_plain_map : forall (l : list (name * bytes)), zip_plain (map (fun p => (fst p, false, snd p)) l) = l.
Proof. induction l as [|[k v] l IH]; cbn; [reflexivity|]. f_equal. exact IH. Qed.

(* what is written under each name is what the container holds under that name: nothing lost, nothing invented *)
Lemma save_zip_lookup : forall (c : container) es, save_zip c = Some es ->
  forall n, lookup n (zip_plain es) = lookup n (live c).
Proof.
  intros c es H n. unfold Package.save_zip in H.
  destruct (lookup MIMETYPE (live c)) as [mb|] eqn:Em; [|discriminate]. inversion H; subst es; clear H.
  change (zip_plain ((MIMETYPE, true, mb) :: ?r)) with ((MIMETYPE, mb) :: zip_plain r).
  cbn [lookup].
  destruct (n =? MIMETYPE) eqn:E0; [apply Z.eqb_eq in E0; subst; symmetry; exact Em|].
  rewrite !zip_plain_app, !lookup_app, !lookup_pick, zip_plain_map, lookup_drop.
  unfold memz. cbn [existsb]. rewrite E0.
  destruct (n =? CONTENT) eqn:E1; [apply Z.eqb_eq in E1; subst; destruct (lookup CONTENT (live c)); reflexivity|].
  destruct (n =? META) eqn:E2; [apply Z.eqb_eq in E2; subst; destruct (lookup META (live c)); reflexivity|].
  destruct (n =? SETTINGS) eqn:E3; [apply Z.eqb_eq in E3; subst; destruct (lookup SETTINGS (live c)); reflexivity|].
  destruct (n =? STYLES) eqn:E4; [apply Z.eqb_eq in E4; subst; destruct (lookup STYLES (live c)); reflexivity|].
  cbn [orb].
  destruct (n =? MANIFEST) eqn:E5; [apply Z.eqb_eq in E5; subst; reflexivity|].
  destruct (lookup n (live c)); reflexivity.
Qed.

(* first entry: mimetype, STORED *)
Lemma save_zip_first : forall (c : container) es, save_zip c = Some es ->
  exists mb r, es = (MIMETYPE, true, mb) :: r /\ lookup MIMETYPE (live c) = Some mb.
Proof.
  intros c es H. unfold Package.save_zip in H.
  destruct (lookup MIMETYPE (live c)) as [mb|] eqn:Em; [|discriminate]. inversion H. eauto.
Qed.

(* only the first entry is STORED *)
Lemma pick_flags : forall k l e, In e (pick k l) -> snd (fst e) = false.
Proof. intros k l e. unfold Package.pick. destruct (lookup k l); cbn; [intros [<-|[]]; reflexivity|tauto]. Qed.

(* unique names *)
Lemma live_keys_incl : forall (c : container) n, In n (map fst (live c)) -> In n (map fst (parts bytes c)).
Proof.
  intros c n. unfold Package.live. induction (parts bytes c) as [|[k [b|]] l IH]; cbn; auto.
  intros [H|H]; auto.
Qed.
Lemma live_keys_nodup : forall (c : container), NoDup (map fst (parts bytes c)) -> NoDup (map fst (live c)).
Proof.
  intros c. unfold Package.live. induction (parts bytes c) as [|[k [b|]] l IH]; cbn; intros H; [constructor| |].
  - inversion H; subst. constructor; [|auto]. intros X. apply H2.
    clear - X. induction l as [|[k' [b'|]] l IH]; cbn in *; auto. destruct X; auto.
  - inversion H; auto.
Qed.

Lemma lookup_in_keys {V} : forall k (l : list (Z * V)) v, lookup k l = Some v -> In k (map fst l).
Proof. induction l as [|[k' v'] l IH]; cbn; intros v H; [discriminate|]. destruct (k =? k') eqn:E; [apply Z.eqb_eq in E; auto|eauto]. Qed.
Lemma lookup_none_keys {V} : forall k (l : list (Z * V)), lookup k l = None -> ~ In k (map fst l).
Proof. induction l as [|[k' v'] l IH]; cbn; intros H; [tauto|]. destruct (k =? k') eqn:E; [discriminate|]. apply Z.eqb_neq in E. intros [X|X]; [congruence|exact (IH H X)]. Qed.

Notation nm := (fun e : name * bool * bytes => fst (fst e)).
Definition optn {V} (k : name) (o : option V) : list name := match o with Some _ => [k] | None => [] end.

Lemma names_pick : forall k l, map nm (pick k l) = optn k (lookup k l).
Proof. intros. unfold Package.pick, optn. destruct (lookup k l); reflexivity. Qed.

Lemma NoDup_filter {A} (f : A -> bool) : forall l, NoDup l -> NoDup (filter f l).
Proof. induction l; cbn; intros H; [constructor|]. inversion H; subst. destruct (f a); auto. constructor; auto. rewrite filter_In. tauto. Qed.

Lemma drop_keys : forall ks (l : list (name * bytes)), map fst (drop ks l) = filter (fun n => negb (memz n ks)) (map fst l).
Proof. intros ks. induction l as [|[k v] l IH]; cbn; [reflexivity|]. destruct (memz k ks); cbn; rewrite <- IH; reflexivity. Qed.

Definition SIX := [MIMETYPE; CONTENT; META; SETTINGS; STYLES; MANIFEST].
Lemma save_zip_names : forall (c : container) es, save_zip c = Some es ->
  map nm es = MIMETYPE :: optn CONTENT (lookup CONTENT (live c)) ++ optn META (lookup META (live c))
              ++ optn SETTINGS (lookup SETTINGS (live c)) ++ optn STYLES (lookup STYLES (live c))
              ++ filter (fun n => negb (memz n SIX)) (map fst (live c)) ++ optn MANIFEST (lookup MANIFEST (live c)).
Proof.
  intros c es H. unfold Package.save_zip in H.
  destruct (lookup MIMETYPE (live c)) as [mb|] eqn:Em; [|discriminate]. inversion H; subst es; clear H.
  cbn [map fst]. f_equal. rewrite !map_app, !names_pick. repeat f_equal.
  rewrite map_map. cbn [fst]. apply drop_keys.
Qed.

Lemma optn_in {V} : forall k (o : option V) x, In x (optn k o) -> x = k.
Proof. intros k [v|] x; cbn; [intros [<-|[]]; reflexivity|tauto]. Qed.
Lemma optn_nodup {V} : forall k (o : option V), NoDup (optn k o).
Proof. intros k [v|]; cbn; repeat constructor; tauto. Qed.

Lemma NoDup_app_intro {A} : forall (a b : list A), NoDup a -> NoDup b -> (forall x, In x a -> ~ In x b) -> NoDup (a ++ b).
Proof.
  induction a as [|x a IH]; cbn; intros b Ha Hb Hd; [exact Hb|].
  inversion Ha; subst. constructor.
  - rewrite in_app_iff. intros [X|X]; [contradiction|]. exact (Hd x (or_introl eq_refl) X).
  - apply IH; auto.
Qed.

Lemma NoDup_optn_app {V} : forall k (o : option V) L, ~ In k L -> NoDup L -> NoDup (optn k o ++ L).
Proof. intros k [v|] L H1 H2; cbn; [constructor; assumption|assumption]. Qed.

Lemma save_zip_nodup : forall (c : container) es, NoDup (map fst (parts bytes c)) -> save_zip c = Some es -> NoDup (map nm es).
Proof.
  intros c es Hn H. pose proof (live_keys_nodup c Hn) as Hl.
  rewrite (save_zip_names c es H).
  set (rest := filter (fun n => negb (memz n SIX)) (map fst (live c))).
  assert (Hr : NoDup rest) by (apply NoDup_filter; exact Hl).
  assert (Hnot : forall k, memz k SIX = true -> ~ In k rest).
  { intros k Hk X. unfold rest in X. apply filter_In in X as [_ X]. rewrite Hk in X. discriminate. }
  assert (Hdisj : forall k x, memz k SIX = true -> forall V (o : option V), In x (optn k o) -> ~ In x rest).
  { intros k x Hk V o X. apply optn_in in X. subst. auto. }
  constructor.
  - rewrite !in_app_iff. intros X.
    repeat (destruct X as [X|X]); try (apply optn_in in X; discriminate).
    exact (Hnot MIMETYPE eq_refl X).
  - assert (Hend : NoDup (rest ++ optn MANIFEST (lookup MANIFEST (live c)))).
    { apply NoDup_app_intro; [exact Hr|apply optn_nodup|]. intros x X Y. apply optn_in in Y. subst. exact (Hnot MANIFEST eq_refl X). }
    apply NoDup_optn_app; [|apply NoDup_optn_app; [|apply NoDup_optn_app; [|apply NoDup_optn_app; [|exact Hend]]]];
      rewrite !in_app_iff; intros Y; repeat (destruct Y as [Y|Y]); try (apply optn_in in Y; discriminate).
    + exact (Hnot CONTENT eq_refl Y).
    + exact (Hnot META eq_refl Y).
    + exact (Hnot SETTINGS eq_refl Y).
    + exact (Hnot STYLES eq_refl Y).
Qed.
End Z.
