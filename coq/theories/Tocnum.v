(* TOC._header_numbering (dict with setdefault / delete-while-present) = array of counters = "previous number's
   prefix bumped at the level" *)
From Coq Require Import List ZArith Bool Arith Lia ZifyBool.
Require Import WS Toc.
Import ListNotations.
Open Scope Z_scope.

(* ---------------------------------------------------------------- the dict *)
Lemma dget_dset k v d j : dget j (dset k v d) = if j =? k then Some v else dget j d.
Proof.
  induction d as [|[k' v'] r IH]; cbn [dset dget].
  - destruct (j =? k); reflexivity.
  - destruct (k =? k') eqn:E; cbn [dget].
    + apply Z.eqb_eq in E; subst. destruct (j =? k'); reflexivity.
    + rewrite IH. destruct (j =? k') eqn:E2; destruct (j =? k) eqn:E3; try reflexivity. lia.
Qed.

Lemma dget_ddel k d j : dget j (ddel k d) = if j =? k then None else dget j d.
Proof.
  unfold ddel. induction d as [|[k' v'] r IH]; cbn [filter dget fst].
  - destruct (j =? k); reflexivity.
  - destruct (k =? k') eqn:E; cbn [negb dget].
    + rewrite IH. destruct (j =? k) eqn:E2; [reflexivity|]. destruct (j =? k') eqn:E3; [lia|reflexivity].
    + rewrite IH. destruct (j =? k') eqn:E3; destruct (j =? k) eqn:E2; try reflexivity. lia.
Qed.

Lemma filter_len {A} (f : A -> bool) l : (length (filter f l) <= length l)%nat.
Proof. induction l as [|x r IH]; cbn; [lia|]. destruct (f x); cbn; lia. Qed.

Lemma ddel_length k d v : dget k d = Some v -> (length (ddel k d) < length d)%nat.
Proof.
  unfold ddel. induction d as [|[k' v'] r IH]; cbn [filter dget fst length]; [discriminate|].
  destruct (k =? k') eqn:E; cbn [negb].
  - intros _. pose proof (filter_len (fun p => negb (k =? fst p)) r). lia.
  - intros H. cbn [length]. apply IH in H. lia.
Qed.

Definition dflt (x : Z) (o : option Z) : Z := match o with Some v => v | None => x end.

Fixpoint zrange (idx : Z) (n : nat) : list Z := match n with O => [] | S n' => idx :: zrange (idx + 1) n' end.
Lemma zrange_in idx n i : In i (zrange idx n) -> idx <= i < idx + Z.of_nat n.
Proof. revert idx; induction n as [|n IH]; intros idx; cbn [zrange In]; [tauto|]. intros [H|H]; [lia|]. apply IH in H. lia. Qed.
Lemma zrange_seq idx n : zrange idx n = map (fun p => idx + Z.of_nat p) (seq 0 n).
Proof.
  revert idx; induction n as [|n IH]; intros idx; [reflexivity|].
  cbn [zrange seq map]. f_equal; [lia|]. rewrite IH, <- seq_shift, map_map. apply map_ext. intros; lia.
Qed.

Lemma before_levels_spec n : forall idx d acc d' nums,
  before_levels n idx d acc = (d', nums) ->
  nums = rev acc ++ map (fun i => dflt 1 (dget i d)) (zrange idx n) /\
  forall j, dget j d' = if (idx <=? j) && (j <? idx + Z.of_nat n) then Some (dflt 1 (dget j d)) else dget j d.
Proof.
  induction n as [|n IH]; intros idx d acc d' nums H; cbn [before_levels] in H.
  - inversion H; subst. cbn [zrange map]. rewrite app_nil_r. split; [reflexivity|]. intros j.
    destruct ((idx <=? j) && (j <? idx + Z.of_nat 0)) eqn:E; [lia|reflexivity].
  - destruct (dget idx d) as [v|] eqn:G.
    + apply IH in H as [Hn Hd]. split.
      * rewrite Hn. cbn [rev zrange map]. rewrite G. cbn [dflt]. now rewrite <- app_assoc.
      * intros j. rewrite Hd.
        destruct ((idx + 1 <=? j) && (j <? idx + 1 + Z.of_nat n)) eqn:E1;
          destruct ((idx <=? j) && (j <? idx + Z.of_nat (S n))) eqn:E2; try reflexivity; try lia.
        assert (j = idx) by lia. subst. now rewrite G.
    + apply IH in H as [Hn Hd]. split.
      * rewrite Hn. cbn [rev zrange map]. rewrite G. cbn [dflt]. rewrite <- app_assoc. cbn [app]. do 2 f_equal.
        apply map_ext_in. intros i Hi. apply zrange_in in Hi. rewrite dget_dset.
        destruct (i =? idx) eqn:E; [lia|reflexivity].
      * intros j. rewrite Hd, dget_dset.
        destruct ((idx + 1 <=? j) && (j <? idx + 1 + Z.of_nat n)) eqn:E1;
          destruct ((idx <=? j) && (j <? idx + Z.of_nat (S n))) eqn:E2;
          destruct (j =? idx) eqn:E3; try reflexivity; try lia.
        assert (j = idx) by lia. subst. now rewrite G.
Qed.

(* the fuel given (size of the dict) suffices: the loop stops on an absent key, having removed a contiguous run *)
Lemma del_after_spec fuel : forall idx d, (length d <= fuel)%nat ->
  exists m : nat,
    (forall j, idx <= j < idx + Z.of_nat m -> dget j d <> None) /\
    dget (idx + Z.of_nat m) d = None /\
    forall j, dget j (del_after fuel idx d) = if (idx <=? j) && (j <? idx + Z.of_nat m) then None else dget j d.
Proof.
  induction fuel as [|f IH]; intros idx d Hl.
  - destruct d; [|cbn in Hl; lia]. exists 0%nat. split; [intros; lia|]. split; [reflexivity|]. intros j. cbn [del_after dget].
    destruct ((idx <=? j) && (j <? idx + Z.of_nat 0)); reflexivity.
  - cbn [del_after]. destruct (dget idx d) as [v|] eqn:G.
    + pose proof (ddel_length _ _ _ G) as Hlt.
      destruct (IH (idx + 1) (ddel idx d) ltac:(lia)) as (m & H1 & H2 & H3).
      exists (S m). split; [|split].
      * intros j Hj. destruct (Z.eq_dec j idx) as [->|Hne]; [congruence|].
        specialize (H1 j ltac:(lia)). rewrite dget_ddel in H1. destruct (j =? idx) eqn:E; [lia|exact H1].
      * rewrite dget_ddel in H2. destruct (idx + 1 + Z.of_nat m =? idx) eqn:E; [lia|].
        replace (idx + Z.of_nat (S m)) with (idx + 1 + Z.of_nat m) by lia. exact H2.
      * intros j. rewrite H3, dget_ddel.
        destruct ((idx + 1 <=? j) && (j <? idx + 1 + Z.of_nat m)) eqn:E1;
          destruct ((idx <=? j) && (j <? idx + Z.of_nat (S m))) eqn:E2;
          destruct (j =? idx) eqn:E3; try reflexivity; try lia.
    + exists 0%nat. split; [intros; lia|]. split; [now rewrite Z.add_0_r|].
      intros j. destruct ((idx <=? j) && (j <? idx + Z.of_nat 0)) eqn:E; [lia|reflexivity].
Qed.

(* ---------------------------------------------------------------- pad1 / next_number *)
Lemma pad1_length n l : length (pad1 n l) = n.
Proof. revert l; induction n as [|n IH]; intros [|x r]; cbn; auto. Qed.
Lemma pad1_seq n : forall l, pad1 n l = map (fun q => dflt 1 (nth_error l q)) (seq 0 n).
Proof.
  induction n as [|n IH]; intros l; [reflexivity|].
  cbn [seq map]. rewrite <- seq_shift, map_map.
  destruct l as [|x r]; cbn [pad1 nth_error dflt]; f_equal; rewrite IH; apply map_ext; intros q; cbn [nth_error]; [now destruct q|reflexivity].
Qed.
Lemma nth_error_map_seq {B} (f : nat -> B) n p : (p < n)%nat -> nth_error (map f (seq 0 n)) p = Some (f p).
Proof.
  intros H. apply map_nth_error. rewrite (nth_error_nth' _ 0%nat) by (now rewrite seq_length).
  now rewrite seq_nth.
Qed.
Lemma nth_dflt {A} (l : list A) p d : nth p l d = match nth_error l p with Some v => v | None => d end.
Proof. revert p; induction l as [|x r IH]; intros [|p]; cbn; auto. Qed.

Lemma next_number_length prev l : 1 <= l -> Z.of_nat (length (next_number prev l)) = l.
Proof. intros H. unfold next_number, level_pos. rewrite app_length, pad1_length. cbn [length]. lia. Qed.

Lemma lex_lt_next_pos p : forall prev, lex_lt prev (pad1 p prev ++ [nth p prev 0 + 1]) = true.
Proof.
  induction p as [|p IH]; intros [|x r]; cbn [pad1 app nth lex_lt]; try reflexivity.
  - apply orb_true_iff. left. lia.
  - rewrite IH. apply orb_true_iff. right. apply andb_true_iff. split; [lia|reflexivity].
Qed.
Lemma lex_lt_next prev l : lex_lt prev (next_number prev l) = true.
Proof. apply lex_lt_next_pos. Qed.

Lemma lex_lt_irrefl a : lex_lt a a = false.
Proof. induction a as [|x a IH]; cbn; [reflexivity|]. rewrite IH. apply orb_false_iff. split; [lia|apply andb_false_r]. Qed.
Lemma lex_lt_trans a : forall b c, lex_lt a b = true -> lex_lt b c = true -> lex_lt a c = true.
Proof.
  induction a as [|x a IH]; intros [|y b] [|z c]; cbn [lex_lt]; try discriminate; auto.
  intros H1 H2. apply orb_true_iff in H1, H2. apply orb_true_iff.
  destruct H1 as [H1|H1], H2 as [H2|H2];
    try apply andb_true_iff in H1 as [H1 H1']; try apply andb_true_iff in H2 as [H2 H2']; try (left; lia).
  right. apply andb_true_iff. split; [lia|]. eapply IH; eauto.
Qed.

(* ---------------------------------------------------------------- dict = previous number *)
Definition Repr (d : dict) (prev : list Z) : Prop := forall p : nat, dget (Z.of_nat p + 1) d = nth_error prev p.

Lemma Repr_nil : Repr [] [].
Proof. intros p. now destruct p. Qed.

Lemma header_numbering_spec d prev l d' nums :
  Repr d prev -> 1 <= l -> header_numbering d l = (d', nums) ->
  nums = next_number prev l /\ Repr d' nums.
Proof.
  intros R Hl H. unfold header_numbering in H.
  destruct (before_levels (Z.to_nat (l - 1)) 1 d []) as [d1 nb] eqn:B.
  apply before_levels_spec in B as [Hnb Hd1]. cbn [rev app] in Hnb.
  set (pos := Z.to_nat (l - 1)) in *.
  assert (Hl' : l = Z.of_nat pos + 1) by lia.
  assert (Enb : nb = pad1 pos prev).
  { rewrite Hnb, pad1_seq, zrange_seq, map_map. apply map_ext. intros q.
    replace (1 + Z.of_nat q) with (Z.of_nat q + 1) by lia. now rewrite R. }
  assert (Eidx : match dget l d1 with Some v => v + 1 | None => 1 end = nth pos prev 0 + 1).
  { rewrite Hd1. destruct ((1 <=? l) && (l <? 1 + Z.of_nat pos)) eqn:E; [lia|].
    rewrite Hl', R, nth_dflt. destruct (nth_error prev pos); reflexivity. }
  rewrite Eidx in H. inversion H; subst d' nums; clear H.
  split; [unfold next_number, level_pos; fold pos; now rewrite Enb|].
  set (index := nth pos prev 0 + 1) in *.
  set (d2 := dset l index d1) in *.
  destruct (del_after_spec (length d2) (l + 1) d2 (le_n _)) as (m & H1 & H2 & H3).
  intros p. rewrite H3. unfold d2. rewrite dget_dset, Hd1.
  assert (Lnb : length nb = pos) by (rewrite Enb; apply pad1_length).
  destruct (Nat.lt_trichotomy p pos) as [Hp|[Hp|Hp]].
  - (* ancestor levels *)
    destruct ((l + 1 <=? Z.of_nat p + 1) && (Z.of_nat p + 1 <? l + 1 + Z.of_nat m)) eqn:E1; [lia|].
    destruct (Z.of_nat p + 1 =? l) eqn:E2; [lia|].
    destruct ((1 <=? Z.of_nat p + 1) && (Z.of_nat p + 1 <? 1 + Z.of_nat pos)) eqn:E3; [|lia].
    rewrite nth_error_app1 by lia. rewrite Enb, pad1_seq.
    rewrite nth_error_map_seq by exact Hp. now rewrite R.
  - (* own level *)
    subst p.
    destruct ((l + 1 <=? Z.of_nat pos + 1) && (Z.of_nat pos + 1 <? l + 1 + Z.of_nat m)) eqn:E1; [lia|].
    destruct (Z.of_nat pos + 1 =? l) eqn:E2; [|lia].
    rewrite nth_error_app2 by lia. rewrite Lnb, Nat.sub_diag. reflexivity.
  - (* deeper levels: deleted while present; beyond the first absent one nothing was there *)
    assert (Enone : nth_error (nb ++ [index]) p = None).
    { apply nth_error_None. rewrite app_length. cbn [length]. lia. }
    rewrite Enone.
    destruct ((l + 1 <=? Z.of_nat p + 1) && (Z.of_nat p + 1 <? l + 1 + Z.of_nat m)) eqn:E1; [reflexivity|].
    destruct (Z.of_nat p + 1 =? l) eqn:E2; [lia|].
    destruct ((1 <=? Z.of_nat p + 1) && (Z.of_nat p + 1 <? 1 + Z.of_nat pos)) eqn:E3; [lia|].
    rewrite R. apply nth_error_None.
    (* the first absent key l+1+m bounds the length of prev *)
    unfold d2 in H2. rewrite dget_dset, Hd1 in H2.
    destruct (l + 1 + Z.of_nat m =? l) eqn:E4; [lia|].
    destruct ((1 <=? l + 1 + Z.of_nat m) && (l + 1 + Z.of_nat m <? 1 + Z.of_nat pos)) eqn:E5; [lia|].
    replace (l + 1 + Z.of_nat m) with (Z.of_nat (pos + 1 + m) + 1) in H2 by lia.
    rewrite R in H2. apply nth_error_None in H2. lia.
Qed.

Lemma numbering_eq_outline levels : forall d prev,
  Repr d prev -> Forall (fun l => 1 <= l) levels -> numbering d levels = outline_numbers prev levels.
Proof.
  induction levels as [|l r IH]; intros d prev R F; [reflexivity|].
  inversion F as [|? ? Hl Fr]; subst. cbn [numbering outline_numbers].
  destruct (header_numbering d l) as [d' n] eqn:E.
  destruct (header_numbering_spec _ _ _ _ _ R Hl E) as [-> R'].
  f_equal. now apply IH.
Qed.

(* ---------------------------------------------------------------- array of counters = the same numbers *)
Lemma bump_shape p : forall prev k, Forall (fun x => 0 < x) prev -> (p < length prev + k)%nat ->
  bump (prev ++ repeat 0 k) p = (pad1 p prev ++ [nth p prev 0 + 1]) ++ repeat 0 (length prev + k - S p).
Proof.
  induction p as [|p IH]; intros [|x r] k F Hp; cbn [length] in Hp.
  - destruct k as [|k]; [lia|]. cbn [app repeat bump pad1 nth length]. rewrite repeat_length.
    do 2 f_equal. lia.
  - cbn [app bump pad1 nth length]. rewrite app_length, repeat_length. do 2 f_equal. lia.
  - destruct k as [|k]; [lia|]. cbn [app repeat bump pad1 nth length].
    change (repeat 0 k) with ([] ++ repeat 0 k). rewrite (IH [] k) by (auto; cbn; lia).
    cbn [Z.eqb nth length app]. replace (0 + S k - S (S p))%nat with (0 + k - S p)%nat by lia.
    destruct p; reflexivity.
  - inversion F as [|? ? Hx Fr]; subst. cbn [app bump pad1 nth length].
    rewrite (IH r k) by (auto; lia).
    destruct (x =? 0) eqn:E; [lia|]. cbn [app]. do 2 f_equal; lia.
Qed.

Lemma next_number_pos prev l : Forall (fun x => 0 < x) prev -> Forall (fun x => 0 < x) (next_number prev l).
Proof.
  intros F. unfold next_number. apply Forall_app. split.
  - generalize (level_pos l) as p. intros p. revert prev F. induction p as [|p IH]; intros [|x r] F; cbn [pad1]; auto.
    + constructor; [lia|]. apply IH. constructor.
    + inversion F; subst. constructor; auto.
  - constructor; [|constructor]. rewrite nth_dflt. destruct (nth_error prev (level_pos l)) eqn:E; [|lia].
    apply nth_error_In in E. rewrite Forall_forall in F. apply F in E. lia.
Qed.

Lemma spec_eq_outline n levels : forall prev,
  Forall (fun x => 0 < x) prev -> (length prev <= n)%nat ->
  Forall (fun l => 1 <= l <= Z.of_nat n) levels ->
  spec_numbering (prev ++ repeat 0 (n - length prev)) levels = outline_numbers prev levels.
Proof.
  induction levels as [|l r IH]; intros prev F Hn FL; [reflexivity|].
  inversion FL as [|? ? Hl Fr]; subst. cbn [spec_numbering outline_numbers].
  assert (Hp : (level_pos l < length prev + (n - length prev))%nat) by (unfold level_pos; lia).
  rewrite (bump_shape _ _ _ F Hp).
  fold (next_number prev l).
  assert (Ln : length (next_number prev l) = S (level_pos l)).
  { unfold next_number. rewrite app_length, pad1_length. cbn [length]. lia. }
  f_equal.
  - rewrite <- Ln. rewrite firstn_app, firstn_all, Nat.sub_diag. cbn [firstn]. apply app_nil_r.
  - replace (length prev + (n - length prev) - S (level_pos l))%nat with (n - length (next_number prev l))%nat by lia.
    apply IH; [now apply next_number_pos| unfold level_pos in *; lia | exact Fr].
Qed.

Theorem numbering_eq_spec_n (n : nat) levels :
  Forall (fun l => 1 <= l <= Z.of_nat n) levels ->
  numbering [] levels = spec_numbering (counters0 n) levels.
Proof.
  intros F. rewrite (numbering_eq_outline levels [] []); [|exact Repr_nil|eapply Forall_impl; [|exact F]; cbn; intros; lia].
  symmetry. change (counters0 n) with ([] ++ repeat 0 n). replace n with (n - length (@nil Z))%nat at 1 by (cbn; lia).
  apply spec_eq_outline; auto. cbn; lia.
Qed.

Theorem numbering_eq_spec levels :
  Forall (fun l => 1 <= l <= 10) levels -> numbering [] levels = spec_numbering (counters0 10) levels.
Proof. exact (numbering_eq_spec_n 10 levels). Qed.

(* ---------------------------------------------------------------- sanity laws of the specification *)
Theorem spec_is_prefix_bumped levels :
  Forall (fun l => 1 <= l <= 10) levels -> spec_numbering (counters0 10) levels = outline_numbers [] levels.
Proof.
  intros F. change (counters0 10) with ([] ++ repeat 0 (10 - length (@nil Z))).
  apply spec_eq_outline; auto. cbn; lia.
Qed.

Lemma outline_numbers_length levels : forall prev, Forall (fun l => 1 <= l) levels ->
  map (fun n => Z.of_nat (length n)) (outline_numbers prev levels) = levels.
Proof.
  induction levels as [|l r IH]; intros prev F; [reflexivity|]. inversion F; subst.
  cbn [outline_numbers map]. f_equal; [now apply next_number_length|now apply IH].
Qed.

Lemma outline_numbers_increasing levels : forall prev, increasing prev (outline_numbers prev levels) = true.
Proof.
  induction levels as [|l r IH]; intros prev; [reflexivity|].
  cbn [outline_numbers increasing]. now rewrite lex_lt_next, IH.
Qed.

Theorem spec_number_length levels :
  Forall (fun l => 1 <= l <= 10) levels ->
  map (fun n => Z.of_nat (length n)) (spec_numbering (counters0 10) levels) = levels.
Proof.
  intros F. rewrite spec_is_prefix_bumped by exact F. apply outline_numbers_length.
  eapply Forall_impl; [|exact F]; cbn; intros; lia.
Qed.

Theorem spec_increasing levels :
  Forall (fun l => 1 <= l <= 10) levels -> increasing [] (spec_numbering (counters0 10) levels) = true.
Proof. intros F. rewrite spec_is_prefix_bumped by exact F. apply outline_numbers_increasing. Qed.

(* adjacent-increasing + transitivity: any two headings, the later one has the larger number *)
Lemma increasing_all prev nums : increasing prev nums = true -> Forall (fun n => lex_lt prev n = true) nums.
Proof.
  revert prev; induction nums as [|n r IH]; intros prev H; constructor; cbn [increasing] in H; apply andb_true_iff in H as [H1 H2]; [exact H1|].
  apply IH in H2. eapply Forall_impl; [|exact H2]. cbn. intros c Hc. eapply lex_lt_trans; eauto.
Qed.

Theorem spec_strictly_sorted levels :
  Forall (fun l => 1 <= l <= 10) levels ->
  forall i j a b, (i < j)%nat -> nth_error (spec_numbering (counters0 10) levels) i = Some a ->
                  nth_error (spec_numbering (counters0 10) levels) j = Some b -> lex_lt a b = true.
Proof.
  intros F. pose proof (spec_increasing levels F) as H.
  generalize dependent (spec_numbering (counters0 10) levels). clear F. intros nums. generalize (@nil Z) as prev.
  induction nums as [|n r IH]; intros prev H i j a b Hij Ha Hb; [destruct i; discriminate|].
  cbn [increasing] in H. apply andb_true_iff in H as [H1 H2].
  destruct i as [|i], j as [|j]; try lia; cbn [nth_error] in Ha, Hb.
  - inversion Ha; subst. apply increasing_all in H2. rewrite Forall_forall in H2. apply H2. eapply nth_error_In; eauto.
  - apply (IH n H2 i j a b); [lia|exact Ha|exact Hb].
Qed.

(* ---------------------------------------------------------------- numbering the listed headings only = numbering the
   whole document and keeping the listed ones, when no level is skipped on the way down *)
Fixpoint wellnested (depth : nat) (levels : list Z) : bool :=
  match levels with
  | [] => true
  | l :: r => (1 <=? l) && (l <=? Z.of_nat depth + 1) && wellnested (Z.to_nat l) r
  end.

Lemma pad1_firstn p : forall o prev, (p < o)%nat ->
  pad1 p (firstn o prev) = pad1 p prev /\ nth p (firstn o prev) 0 = nth p prev 0.
Proof.
  induction p as [|p IH]; intros [|o] [|x r] H; try lia; cbn [firstn pad1 nth]; auto.
  destruct (IH o r ltac:(lia)) as [A B]. split; [now rewrite A|exact B].
Qed.
Lemma firstn_pad1 o : forall p prev tl, (o <= p)%nat -> (o <= length prev)%nat ->
  firstn o (pad1 p prev ++ tl) = firstn o prev.
Proof.
  induction o as [|o IH]; intros p prev tl H1 H2; [reflexivity|].
  destruct p as [|p]; [lia|]. destruct prev as [|x r]; [cbn in H2; lia|].
  cbn [pad1 app firstn]. f_equal. apply IH; cbn in H2; lia.
Qed.
Lemma next_number_len prev l : 1 <= l -> length (next_number prev l) = Z.to_nat l.
Proof. intros H. pose proof (next_number_length prev l H). lia. Qed.

Theorem filter_commutes levels : forall prev ol, 0 <= ol -> wellnested (length prev) levels = true ->
  map snd (filter (fun p => fst p <=? ol) (combine levels (outline_numbers prev levels)))
  = outline_numbers (firstn (Z.to_nat ol) prev) (filter (fun l => l <=? ol) levels).
Proof.
  induction levels as [|l r IH]; intros prev ol Ho W; [reflexivity|].
  cbn [wellnested] in W. apply andb_true_iff in W as [W W3]. apply andb_true_iff in W as [W1 W2].
  cbn [outline_numbers combine filter fst].
  pose proof (next_number_len prev l ltac:(lia)) as Ln.
  destruct (l <=? ol) eqn:E.
  - cbn [map snd outline_numbers].
    assert (Hp : (level_pos l < Z.to_nat ol)%nat) by (unfold level_pos; lia).
    destruct (pad1_firstn _ _ prev Hp) as [A B].
    assert (En : next_number (firstn (Z.to_nat ol) prev) l = next_number prev l).
    { unfold next_number. now rewrite A, B. }
    rewrite En. f_equal.
    rewrite (IH (next_number prev l) ol Ho) by (now rewrite Ln).
    f_equal. apply firstn_all2. lia.
  - rewrite (IH (next_number prev l) ol Ho) by (now rewrite Ln).
    f_equal. unfold next_number. apply firstn_pad1; unfold level_pos; lia.
Qed.

(* the restriction is necessary: levels 1,3,2 with outline 2 *)
Example filter_first_differs_when_a_level_is_skipped :
  map snd (filter (fun p => fst p <=? 2) (combine [1; 3; 2] (outline_numbers [] [1; 3; 2]))) = [[1]; [1; 2]] /\
  outline_numbers [] (filter (fun l => l <=? 2) [1; 3; 2]) = [[1]; [1; 1]].
Proof. split; reflexivity. Qed.
