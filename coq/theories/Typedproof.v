(* Typedproof.v — typed values survive set / get, per carrier; what is written is in the lexical space of its type. *)
From Coq Require Import List ZArith NArith Lia Bool Arith ZifyBool.
Import ListNotations.
Require Import Codec Codecproof CodecDurproof CodecDateproof Typed Typeddecproof.

(* ---- small facts *)
Lemma dtime_eqb_refl d : dtime_eqb d d = true.
Proof.
  unfold dtime_eqb. rewrite !N.eqb_refl. cbn [andb]. destruct (tz d); cbn; [apply Z.eqb_refl | reflexivity].
Qed.
Lemma dec_num_eqb_refl d : dec_num_eqb d d = true.
Proof. unfold dec_num_eqb. apply Z.eqb_refl. Qed.
Lemma dec_eqb_eq a b : dec_eqb a b = true -> a = b.
Proof.
  destruct a as [n1 c1 e1], b as [n2 c2 e2]. unfold dec_eqb. cbn [dneg dcoef dexp]. intros H.
  apply andb_true_iff in H as [H He]. apply andb_true_iff in H as [Hn Hc].
  apply eqb_prop in Hn. apply N.eqb_eq in Hc. apply Z.eqb_eq in He. now subst.
Qed.
(* Element.get_attribute leaves a string alone unless it is "true" or "false" *)
Definition not_tf (s : str) : bool := match s with c :: _ => negb ((c =? 116)%N || (c =? 102)%N) | [] => true end.
Lemma get_attribute_str s : not_tf s = true -> get_attribute (Some s) = VStr s.
Proof.
  unfold get_attribute, not_tf. destruct s as [|c r]; [reflexivity|]. intros H.
  unfold s_true, s_false. cbn [str_eqb].
  destruct (N.eqb_spec c 116); [discriminate|]. destruct (N.eqb_spec c 102); [discriminate|]. reflexivity.
Qed.
Lemma not_tf_digit c r : is_digit c = true -> not_tf (c :: r) = true.
Proof. unfold is_digit, not_tf. intros H. destruct (N.eqb_spec c 116), (N.eqb_spec c 102); try reflexivity; lia. Qed.
Lemma print_N_head n : exists c r, print_N n = c :: r /\ is_digit c = true.
Proof.
  pose proof (print_N_digits n) as D. pose proof (print_N_nonempty n) as NE.
  destruct (print_N n) as [|c r]; [congruence|]. cbn [forallb] in D. apply andb_true_iff in D as [D _]. eauto.
Qed.
Lemma print_fixed_head k n : exists c r, print_fixed (S k) n = c :: r /\ is_digit c = true.
Proof.
  pose proof (print_fixed_digits (S k) n) as D. cbn [print_fixed] in *. cbn [forallb] in D. apply andb_true_iff in D as [D _]. eauto.
Qed.

(* ---- numbers *)
Lemma dec_of_text_print_Z z : dec_of_text (print_Z z) = Some (dec_of_Z z).
Proof.
  unfold print_Z, dec_of_Z.
  assert (Hgen : forall (neg : bool) n, dec_of_text ((if neg then [c_minus] else []) ++ print_N n) = Some (mkdec neg n 0)).
  { intros neg n. destruct (print_N_head n) as (c & r & E & Hc).
    unfold dec_of_text.
    assert (Hs : read_sign ((if neg then [c_minus] else []) ++ print_N n) = (neg, print_N n)).
    { destruct neg; cbn [app]; [reflexivity|]. rewrite E. unfold read_sign. unfold is_digit in Hc.
      destruct (N.eqb_spec c c_minus); [unfold c_minus in *; lia|]. destruct (N.eqb_spec c c_plus); [unfold c_plus in *; lia|]. reflexivity. }
    rewrite Hs. rewrite <- (app_nil_r (print_N n)) at 1. rewrite read_digits_app by (auto using print_N_digits).
    cbn [app]. rewrite app_nil_r. rewrite E. rewrite <- E. cbn [length Z.of_nat Z.opp].
    destruct (print_N n) eqn:E2; [congruence|]. rewrite <- E2. unfold digits_val at 1. fold (digits_val (print_N n)).
    rewrite digits_val_print_N. reflexivity. }
  destruct (Z.ltb_spec z 0).
  - change (c_minus :: print_N (Z.to_N (- z))) with ((if true then [c_minus] else []) ++ print_N (Z.to_N (- z))).
    rewrite Hgen. f_equal. f_equal. lia.
  - change (print_N (Z.to_N z)) with ((if false then [c_minus] else []) ++ print_N (Z.to_N z)).
    rewrite Hgen. f_equal. f_equal. lia.
Qed.

Lemma sign_abs z : ((if z <? 0 then -1 else 1) * Z.of_N (Z.to_N (Z.abs z)) = z)%Z.
Proof. rewrite Z2N.id by lia. destruct (Z.ltb_spec z 0); lia. Qed.

Lemma dec_integral_same d : dec_is_integral d = true -> dec_num_eqb d (dec_of_Z (dec_to_Z d)) = true.
Proof.
  destruct d as [ng c e]. unfold dec_is_integral, dec_num_eqb, dec_scaled, dec_to_Z, dec_of_Z. cbn [dneg dcoef dexp].
  set (sg := (if ng then -1 else 1)%Z).
  destruct (Z.leb_spec 0 e) as [He|He]; cbn [orb].
  - intros _. rewrite Z.min_r by lia. rewrite !Z.sub_0_r.
    set (w := (sg * (Z.of_N c * 10 ^ e))%Z). rewrite sign_abs. apply Z.eqb_eq. unfold w. cbn. lia.
  - intros H. apply N.eqb_eq in H. rewrite Z.min_l by lia. rewrite Z.sub_diag, Z.pow_0_r, Z.mul_1_r.
    set (k := Z.to_N (- e)) in *. set (q := (c / 10 ^ k)%N).
    assert (Hc : c = (10 ^ k * q)%N).
    { pose proof (N.div_mod c (10 ^ k)) as D. rewrite H in D. unfold q. rewrite N.add_0_r in D. apply D. apply N.pow_nonzero. lia. }
    set (w := (sg * Z.of_N q)%Z). rewrite sign_abs. apply Z.eqb_eq. unfold w.
    replace (0 - e)%Z with (Z.of_N k) by (unfold k; lia).
    rewrite Hc at 1. rewrite N2Z.inj_mul, N2Z.inj_pow. change (Z.of_N 10) with 10%Z. lia.
Qed.
Lemma dec_to_Z_of_Z z : dec_is_integral (dec_of_Z z) = true /\ dec_to_Z (dec_of_Z z) = z.
Proof.
  unfold dec_is_integral, dec_to_Z, dec_of_Z. cbn [dneg dcoef dexp]. split; [reflexivity|].
  cbn [Z.leb Z.compare]. rewrite Z.pow_0_r, Z.mul_1_r. apply sign_abs.
Qed.

Definition is_num (v : pyval) : bool := match v with VInt _ | VFloat _ | VDec _ => true | _ => false end.
Lemma read_number_same keep v s d : is_num v = true -> num_of v = Some d -> dec_of_text s = Some d ->
  exists r, read_number keep s = Ok r /\ same_value v r = true.
Proof.
  intros Hn Hv Hs. unfold read_number. rewrite Hs.
  destruct (keep && dec_is_integral d) eqn:E.
  - apply andb_true_iff in E as [_ E]. eexists. split; [reflexivity|].
    pose proof (dec_integral_same d E) as S.
    destruct v; try discriminate; cbn [num_of] in Hv.
    + injection Hv as <-. cbn [same_value num_of]. exact S.
    + cbn [same_value num_of]. rewrite Hv. exact S.
    + injection Hv as <-. cbn [same_value num_of]. exact S.
  - eexists. split; [reflexivity|].
    pose proof (dec_num_eqb_refl d) as S.
    destruct v; try discriminate; cbn [num_of] in Hv.
    + injection Hv as <-. cbn [same_value num_of]. exact S.
    + cbn [same_value num_of]. rewrite Hv. exact S.
    + injection Hv as <-. cbn [same_value num_of]. exact S.
Qed.

(* the text written for a number parses back to the number *)
Lemma num_text v : is_num v = true -> in_domain v = true -> exists d, num_of v = Some d /\ dec_of_text (py_str_num v) = Some d.
Proof.
  destruct v; try discriminate; intros _ Hd; cbn [num_of py_str_num in_domain] in *.
  - eexists. split; [reflexivity | apply dec_of_text_print_Z].
  - unfold float_repr_ok in Hd. destruct (dec_of_text r) as [d|]; [|discriminate]. eauto.
  - eexists. split; [reflexivity | apply dec_text_roundtrip_lemma].
Qed.
(* ... and starts with a digit, a sign or a dot, never with t or f *)
Lemma dec_of_text_not_tf s d : dec_of_text s = Some d -> not_tf s = true.
Proof.
  destruct s as [|c r]; [reflexivity|]. unfold not_tf.
  destruct (N.eqb_spec c 116) as [->|]; [vm_compute; discriminate|]. destruct (N.eqb_spec c 102) as [->|]; [|reflexivity].
  unfold dec_of_text. cbn [read_sign]. change (102 =? c_minus)%N with false. change (102 =? c_plus)%N with false. cbn iota.
  cbn [read_digits]. change (is_digit 102) with false. cbn iota. change (102 =? c_dot)%N with false. cbn iota. cbn [app]. discriminate.
Qed.

(* ---- what each reader does on the element each writer produces *)
Lemma meta_text_back s : match meta_text s with Some x => x | None => [] end = s.
Proof. destruct s; reflexivity. Qed.

(* the element writer k leaves for type t with payload s in slot sl *)
Definition wr (k : setk) (t : str) (sl : slot) (s : str) : elem :=
  match k with SetMeta => build_meta t s | SetCellValue => build false t sl s | SetET | SetETRaw => build true t sl s end.
Definition keeps_int (g : getk) : bool := match g with GetMeta => false | _ => true end.

Lemma get_float k g s : compatible k g = true -> not_tf s = true -> model_get g (wr k t_float SValue s) = read_number (keeps_int g) s.
Proof.
  intros Hc H. destruct k, g; try discriminate; unfold model_get, wr, build, build_meta, get_et, get_et_gen, get_cellvalue, get_meta;
    cbn [vtype a_value etext in_slot]; rewrite ?(get_attribute_str s H), ?meta_text_back; reflexivity.
Qed.
Lemma get_date k g s : compatible k g = true -> not_tf s = true -> model_get g (wr k t_date SDate s) = read_date s.
Proof.
  intros Hc H. destruct k, g; try discriminate; unfold model_get, wr, build, build_meta, get_et, get_et_gen, get_cellvalue, get_meta;
    cbn [vtype a_date etext in_slot]; rewrite ?(get_attribute_str s H), ?meta_text_back; reflexivity.
Qed.
Lemma get_time k g s : compatible k g = true -> not_tf s = true -> model_get g (wr k t_time STime s) = read_dur s.
Proof.
  intros Hc H. destruct k, g; try discriminate; unfold model_get, wr, build, build_meta, get_et, get_et_gen, get_cellvalue, get_meta;
    cbn [vtype a_time etext in_slot]; rewrite ?(get_attribute_str s H), ?meta_text_back; reflexivity.
Qed.
Lemma get_string k g s : compatible k g = true -> model_get g (wr k t_string SString s) = Ok (VStr s).
Proof.
  intros Hc. destruct k, g; try discriminate; unfold model_get, wr, build, build_meta, get_et, get_et_gen, get_cellvalue, get_meta;
    cbn [vtype a_string etext in_slot]; rewrite ?meta_text_back; reflexivity.
Qed.
Lemma get_bool k g b : compatible k g = true -> model_get g (wr k t_boolean SBool (bool_encode b)) = Ok (VBool b).
Proof. intros Hc. destruct k, g; try discriminate; destruct b; reflexivity. Qed.

(* ---- payload texts decode to an equal value *)
Lemma read_date_of_date y m d : valid_date y m d = true ->
  read_date (date_encode y m d) = Ok (VDateTime (mkdt y m d 0 0 0 0 None)) /\ not_tf (date_encode y m d) = true.
Proof.
  intros H. unfold read_date. rewrite has_T_date, date_roundtrip_lemma by exact H. split; [reflexivity|].
  unfold date_encode, format_date. destruct (print_fixed_head 3 y) as (c & r & -> & Hc). now apply not_tf_digit.
Qed.
Lemma read_date_of_datetime d : valid_dt d = true ->
  read_date (datetime_encode d) = Ok (VDateTime d) /\ not_tf (datetime_encode d) = true.
Proof.
  intros H. unfold read_date. rewrite has_T_datetime, datetime_roundtrip_lemma by exact H. split; [reflexivity|].
  unfold datetime_encode. rewrite isoformat_shape. unfold prefix_of. destruct (print_fixed_head 3 (yr d)) as (c & r & E & Hc).
  rewrite E. cbn [app]. destruct (ends_with _ _).
  - cbn [length Nat.sub]. match goal with |- context [firstn ?n (c :: ?l)] => destruct n end.
    + reflexivity.
    + cbn [firstn app]. now apply not_tf_digit.
  - now apply not_tf_digit.
Qed.
Lemma read_dur_of_dur us : read_dur (dur_encode us) = Ok (VDur us) /\ not_tf (dur_encode us) = true.
Proof.
  unfold read_dur, read_dur_gen. rewrite dur_decode_encode. split; [reflexivity|].
  unfold dur_encode. destruct (us <? 0)%Z; reflexivity.
Qed.

(* ---- the round trip, for every carrier and every value of the domain *)
Theorem roundtrip_lemma s g v : compatible s g = true -> in_domain_for s v = true ->
  exists e r, model_set s v = Ok e /\ model_get g e = Ok r /\ same_value v r = true.
Proof.
  intros Hc Hd. unfold in_domain_for in Hd. apply andb_true_iff in Hd as [Hd Hm].
  destruct v.
  - (* None *) destruct s; try discriminate; destruct g; try discriminate; do 2 eexists; repeat split; reflexivity.
  - (* bool *) exists (wr s t_boolean SBool (bool_encode b)), (VBool b). split; [destruct s; reflexivity|]. split; [now apply get_bool|]. cbn. apply eqb_reflx.
  - (* int *)
    destruct (num_text (VInt z) eq_refl Hd) as (d & Hnv & Ht). pose proof (dec_of_text_not_tf _ _ Ht) as Hnt.
    destruct (read_number_same (keeps_int g) (VInt z) _ d eq_refl Hnv Ht) as (r & Hr & S).
    exists (wr s t_float SValue (py_str_num (VInt z))), r. split; [destruct s; reflexivity|]. split; [|exact S]. rewrite get_float by assumption. exact Hr.
  - (* float *)
    destruct (num_text (VFloat r) eq_refl Hd) as (d & Hnv & Ht). pose proof (dec_of_text_not_tf _ _ Ht) as Hnt.
    destruct (read_number_same (keeps_int g) (VFloat r) _ d eq_refl Hnv Ht) as (x & Hr & S).
    exists (wr s t_float SValue (py_str_num (VFloat r))), x. split; [destruct s; reflexivity|]. split; [|exact S]. rewrite get_float by assumption. exact Hr.
  - (* Decimal *)
    destruct (num_text (VDec d) eq_refl Hd) as (d' & Hnv & Ht). pose proof (dec_of_text_not_tf _ _ Ht) as Hnt.
    destruct (read_number_same (keeps_int g) (VDec d) _ d' eq_refl Hnv Ht) as (x & Hr & S).
    exists (wr s t_float SValue (py_str_num (VDec d))), x. split; [destruct s; reflexivity|]. split; [|exact S]. rewrite get_float by assumption. exact Hr.
  - (* str *)
    cbn [in_domain] in Hd. exists (wr s t_string SString s0), (VStr s0). split; [|split; [now apply get_string | cbn; apply str_eqb_refl]].
    destruct s; unfold model_set, set_et, set_cellvalue, set_meta, set_meta_gen;
      cbn [isinstance_bool isinstance_int isinstance_float isinstance_Decimal isinstance_datetime isinstance_date isinstance_str orb]; rewrite Hd; reflexivity.
  - (* date *)
    cbn [in_domain] in Hd. destruct (read_date_of_date y m d Hd) as (Hr & Hnt).
    exists (wr s t_date SDate (date_encode y m d)). eexists. split; [destruct s; reflexivity|]. split; [rewrite get_date by assumption; exact Hr|].
    cbn [same_value]. apply dtime_eqb_refl.
  - (* datetime *)
    cbn [in_domain] in Hd. destruct (read_date_of_datetime d Hd) as (Hr & Hnt).
    exists (wr s t_date SDate (datetime_encode d)). eexists. split; [destruct s; reflexivity|]. split; [rewrite get_date by assumption; exact Hr|].
    cbn [same_value]. apply dtime_eqb_refl.
  - (* timedelta *)
    destruct (read_dur_of_dur us) as (Hr & Hnt).
    exists (wr s t_time STime (dur_encode us)). eexists. split; [destruct s; reflexivity|]. split; [rewrite get_time by assumption; exact Hr|].
    cbn [same_value]. apply Z.eqb_refl.
  - discriminate.
Qed.

(* ---- what is written is in the lexical space of its ODF type *)
Theorem lexical_lemma s v e : in_domain_for s v = true -> lexical_claimed v = true -> model_set s v = Ok e ->
  elem_lexical (is_meta s) e = true.
Proof.
  intros Hd Hl. unfold in_domain_for in Hd. apply andb_true_iff in Hd as [Hd Hm].
  assert (Hnum : forall w, is_num w = true -> in_domain w = true -> decimal_lexical (py_str_num w) = true).
  { intros w Hn Hw. destruct (num_text w Hn Hw) as (d & _ & Ht). unfold decimal_lexical. now rewrite Ht. }
  assert (Hwr : forall t sl p, (t = t_boolean /\ sl = SBool /\ bool_lexical p = true) \/ (t = t_float /\ sl = SValue /\ decimal_lexical p = true) \/
                (t = t_date /\ sl = SDate /\ (date_lexical p || datetime_lexical p) = true) \/ (t = t_time /\ sl = STime /\ dur_lexical p = true) \/
                (t = t_string /\ sl = SString) -> elem_lexical (is_meta s) (wr s t sl p) = true).
  { intros t sl p H. destruct H as [(-> & -> & H)|[(-> & -> & H)|[(-> & -> & H)|[(-> & -> & H)|(-> & ->)]]]];
      destruct s; unfold elem_lexical, wr, build, build_meta; cbn [is_meta vtype a_bool a_value a_date a_time a_string etext in_slot];
      rewrite ?meta_text_back; cbn; rewrite ?H; reflexivity. }
  destruct v.
  - destruct s; try discriminate; intros [= <-]; reflexivity.
  - assert (Hs : model_set s (VBool b) = Ok (wr s t_boolean SBool (bool_encode b))) by (destruct s; reflexivity). rewrite Hs. intros [= <-].
    apply Hwr. left. repeat split. destruct b; reflexivity.
  - assert (Hs : model_set s (VInt z) = Ok (wr s t_float SValue (py_str_num (VInt z)))) by (destruct s; reflexivity). rewrite Hs. intros [= <-].
    apply Hwr. right; left. repeat split. apply (Hnum (VInt z)); [reflexivity | exact Hd].
  - assert (Hs : model_set s (VFloat r) = Ok (wr s t_float SValue (py_str_num (VFloat r)))) by (destruct s; reflexivity). rewrite Hs. intros [= <-].
    apply Hwr. right; left. repeat split. apply (Hnum (VFloat r)); [reflexivity | exact Hd].
  - assert (Hs : model_set s (VDec d) = Ok (wr s t_float SValue (py_str_num (VDec d)))) by (destruct s; reflexivity). rewrite Hs. intros [= <-].
    apply Hwr. right; left. repeat split. apply (Hnum (VDec d)); [reflexivity | exact Hd].
  - cbn [in_domain] in Hd.
    assert (Hs : model_set s (VStr s0) = Ok (wr s t_string SString s0)).
    { destruct s; unfold model_set, set_et, set_cellvalue, set_meta, set_meta_gen;
        cbn [isinstance_bool isinstance_int isinstance_float isinstance_Decimal isinstance_datetime isinstance_date isinstance_str orb]; rewrite Hd; reflexivity. }
    rewrite Hs. intros [= <-].
    apply Hwr. do 4 right. auto.
  - assert (Hs : model_set s (VDate y m d) = Ok (wr s t_date SDate (date_encode y m d))) by (destruct s; reflexivity). rewrite Hs. intros [= <-].
    apply Hwr. do 2 right; left. repeat split. now rewrite date_lexical_lemma.
  - cbn [in_domain] in Hd. assert (Hw : whole_minute (tz d) = true) by (unfold lexical_claimed in Hl; unfold whole_minute; exact Hl).
    assert (Hs : model_set s (VDateTime d) = Ok (wr s t_date SDate (datetime_encode d))) by (destruct s; reflexivity). rewrite Hs. intros [= <-].
    apply Hwr. do 2 right; left. repeat split. rewrite (datetime_lexical_lemma d Hd Hw). apply orb_true_r.
  - assert (Hs : model_set s (VDur us) = Ok (wr s t_time STime (dur_encode us))) by (destruct s; reflexivity). rewrite Hs. intros [= <-].
    apply Hwr. do 3 right; left. repeat split. apply dur_encode_lexical_lemma.
  - discriminate.
Qed.

(* ---- overwriting: the last writer wins *)
(* elements as the writers leave them: nothing but what a writer writes *)
Definition written_shape (k : setk) (p : elem) : Prop :=
  match k with
  | SetMeta => a_bool p = None /\ a_value p = None /\ a_date p = None /\ a_string p = None /\ a_time p = None /\
               a_currency p = None /\ x_type p = None /\ x_value p = None /\ others p = []
  | SetETRaw => etext p = None /\ forallb (fun nv => negb (removed_other (fst nv))) (others p) = true /\ others p = []
  | _ => True
  end.
Lemma set_et_others v e t : set_et v = Ok (e, t) -> others e = [] /\ etext e = None /\ a_currency e = None.
Proof.
  unfold set_et. destruct v; cbn; try (intros [= <- _]; auto); try discriminate.
  destruct (xml_str s); [intros [= <- _]; auto | discriminate].
Qed.
Theorem last_writer_wins_lemma k p v : written_shape k p -> model_set_on k (Some p) v = model_set k v.
Proof.
  intros Hp. unfold model_set_on, set_on_gen. destruct k; try reflexivity.
  - (* metadata: type and text are both replaced *)
    destruct Hp as (H1 & H2 & H3 & H4 & H5 & H6 & H7 & H8 & H9).
    unfold model_set. destruct (set_meta v) as [[e t]|] eqn:E; [|reflexivity]. rewrite H1, H2, H3, H4, H5, H6, H7, H8, H9.
    unfold set_meta, set_meta_gen in E.
    repeat match type of E with (if ?c then _ else _) = _ => destruct c end;
      try (destruct v; try discriminate; destruct (xml_str _); try discriminate); injection E as <- _; reflexivity.
  - (* set_value_and_type on the element as it is (repaired removal list) *)
    destruct Hp as (H1 & _ & H3). unfold model_set. destruct (set_et v) as [[e t]|] eqn:E; [|reflexivity].
    destruct (set_et_others _ _ _ E) as (O1 & O2 & O3). rewrite H1, H3. cbn [filter].
    destruct e as [a b c d f g h i j x o]. cbn in *. subst. destruct x; reflexivity.
Qed.
Theorem overwrite_roundtrip_lemma k g p v : written_shape k p -> compatible k g = true -> in_domain_for k v = true ->
  exists e r, model_set_on k (Some p) v = Ok e /\ model_get g e = Ok r /\ same_value v r = true.
Proof. intros Hp Hc Hd. rewrite last_writer_wins_lemma by exact Hp. now apply roundtrip_lemma. Qed.
(* pinned removal list (F72): a number overwritten through set_value_and_type leaves its calcext:value behind *)
Theorem stale_calcext_value_pinned :
  exists p e, model_set SetETRaw (VFloat [49;46;53]%N) = Ok p /\ model_set_on_pinned SetETRaw (Some p) (VBool true) = Ok e /\
              x_value e = Some [49;46;53]%N /\ model_set SetETRaw (VBool true) <> Ok e.
Proof. do 2 eexists. repeat split; try reflexivity. discriminate. Qed.

(* ---- the pinned code: F12 (user-defined metadata tests date before datetime) and F33 (get_attribute on office:string-value) *)
Definition w_noon : dtime := mkdt 2024 1 1 12 0 0 0 None.
Theorem meta_datetime_pinned_loses_time :
  in_domain (VDateTime w_noon) = true /\
  exists e t, set_meta_pinned (VDateTime w_noon) = Ok (e, t) /\ get_meta e = Ok (VDateTime (mkdt 2024 1 1 0 0 0 0 None)) /\
              same_value (VDateTime w_noon) (VDateTime (mkdt 2024 1 1 0 0 0 0 None)) = false.
Proof. split; [reflexivity|]. do 2 eexists. repeat split; reflexivity. Qed.
Theorem string_true_pinned_capitalised :
  in_domain (VStr s_true) = true /\
  exists e t, set_et (VStr s_true) = Ok (e, t) /\ get_et_pinned e = Ok (VStr s_True) /\ same_value (VStr s_true) (VStr s_True) = false.
Proof. split; [reflexivity|]. do 2 eexists. repeat split; reflexivity. Qed.

(* ---- set_value_and_type with arguments (percentage, currency, formula) and the type reported with the value *)
Lemma set_et_full_default v : set_et_full None None None v = model_set SetET v.
Proof.
  destruct v; try reflexivity. unfold set_et_full, model_set, set_et, payload_of.
  cbn [isinstance_bool isinstance_int isinstance_float isinstance_Decimal isinstance_datetime isinstance_date isinstance_str orb default_type].
  destruct (xml_str s); reflexivity.
Qed.
Definition numeric_type (t : str) : bool := str_eqb t t_float || str_eqb t t_percentage || str_eqb t t_currency.
Theorem typed_number_roundtrip_lemma vt cur fo v e : is_num v = true -> in_domain v = true -> numeric_type vt = true ->
  set_et_full (Some vt) cur fo v = Ok e ->
  exists r, get_et_typed e = Ok (r, Some vt) /\ same_value v r = true /\ a_currency e = (if str_eqb vt t_currency then cur else None) /\
            others e = match fo with Some f => [(n_formula, f)] | None => [] end.
Proof.
  intros Hn Hd Ht. destruct (num_text v Hn Hd) as (d & Hnv & Htx). pose proof (dec_of_text_not_tf _ _ Htx) as Hnt.
  destruct (read_number_same true v _ d Hn Hnv Htx) as (r & Hr & S).
  assert (Hp : payload_of v = Ok (py_str_num v)) by (destruct v; try discriminate; reflexivity).
  remember (py_str_num v) as s eqn:Es.
  assert (Hset : set_et_full (Some vt) cur fo v =
    Ok (mkelem (Some vt) (if str_eqb vt t_boolean then Some s else None)
               (if str_eqb vt t_float || str_eqb vt t_percentage || str_eqb vt t_currency then Some s else None)
               (if str_eqb vt t_date then Some s else None) (if str_eqb vt t_string then Some s else None) (if str_eqb vt t_time then Some s else None) None
               (if str_eqb vt t_currency then cur else None) (Some vt) (if str_eqb vt t_float || str_eqb vt t_percentage then Some s else None)
               (match fo with Some f => [(n_formula, f)] | None => [] end))).
  { unfold set_et_full. rewrite Hp. destruct v; try discriminate; reflexivity. }
  rewrite Hset. intros [= <-]. exists r. split; [|split; [exact S | split; reflexivity]].
  unfold numeric_type in Ht. unfold get_et_typed.
  assert (Hget : forall t, t = t_float \/ t = t_percentage \/ t = t_currency ->
     get_et (mkelem (Some t) (if str_eqb t t_boolean then Some s else None)
               (if str_eqb t t_float || str_eqb t t_percentage || str_eqb t t_currency then Some s else None)
               (if str_eqb t t_date then Some s else None) (if str_eqb t t_string then Some s else None) (if str_eqb t t_time then Some s else None) None
               (if str_eqb t t_currency then cur else None) (Some t) (if str_eqb t t_float || str_eqb t t_percentage then Some s else None)
               (match fo with Some f => [(n_formula, f)] | None => [] end)) = read_number true s).
  { intros t [-> | [-> | ->]]; unfold get_et, get_et_gen; cbn [vtype a_value];
      match goal with |- context [get_attribute ?a] => change a with (Some s) end; rewrite (get_attribute_str s Hnt); reflexivity. }
  assert (Hvt : vt = t_float \/ vt = t_percentage \/ vt = t_currency).
  { destruct (str_eqb vt t_float) eqn:E1; [left; now apply str_eqb_eq|]. destruct (str_eqb vt t_percentage) eqn:E2; [right; left; now apply str_eqb_eq|].
    destruct (str_eqb vt t_currency) eqn:E3; [right; right; now apply str_eqb_eq | discriminate]. }
  rewrite (Hget vt Hvt), Hr. reflexivity.
Qed.
(* without a type argument the type reported is the one of the Python type *)
Theorem default_type_reported_lemma v : in_domain v = true ->
  exists e r, model_set SetET v = Ok e /\ get_et_typed e = Ok (r, default_type v) /\ same_value v r = true.
Proof.
  intros Hd. destruct (roundtrip_lemma SetET GetET v eq_refl) as (e & r & Hs & Hg & S).
  { unfold in_domain_for. rewrite Hd. destruct v; reflexivity. }
  exists e, r. split; [exact Hs|]. split; [|exact S]. unfold get_et_typed. unfold model_get in Hg. rewrite Hg. f_equal. f_equal.
  destruct v; cbn in Hs; try (injection Hs as <-; reflexivity); try discriminate.
  unfold model_set, set_et in Hs. cbn [isinstance_bool isinstance_int isinstance_float isinstance_Decimal isinstance_datetime isinstance_date isinstance_str orb] in Hs.
  destruct (xml_str s); [injection Hs as <-; reflexivity | discriminate].
Qed.

(* ---- writing into a repeated run changes exactly one logical cell *)
Lemma repeat_elem_length n : length (repeat_elem n) = n.
Proof. induction n; cbn; auto. Qed.
Theorem grid_set_same i e l : nth i (grid_set i e l) empty_elem = e.
Proof.
  unfold grid_set.
  assert (Hl : length (firstn i (l ++ repeat_elem (i - length l))) = i).
  { rewrite firstn_length, app_length, repeat_elem_length. lia. }
  rewrite app_nth2 by lia. rewrite Hl, Nat.sub_diag. reflexivity.
Qed.
Lemma nth_firstn_lt' {A} (l : list A) : forall i j d, j < i -> nth j (firstn i l) d = nth j l d.
Proof. induction l as [|x l IH]; intros [|i] [|j] d H; cbn; try lia; auto. apply IH. lia. Qed.
Lemma nth_skipn' {A} (l : list A) : forall n k d, nth k (skipn n l) d = nth (n + k) l d.
Proof. induction l as [|x l IH]; intros [|n] k d; cbn; auto. destruct k; reflexivity. Qed.
Theorem grid_set_other i j e l : j <> i -> nth j (grid_set i e l) empty_elem = nth j l empty_elem.
Proof.
  intros Hne. unfold grid_set.
  assert (Hl : length (firstn i (l ++ repeat_elem (i - length l))) = i).
  { rewrite firstn_length, app_length, repeat_elem_length. lia. }
  assert (Hrep : forall n k, nth k (repeat_elem n) empty_elem = empty_elem).
  { induction n; destruct k; cbn; auto. }
  destruct (Nat.lt_ge_cases j i) as [Hlt|Hge].
  - rewrite app_nth1 by lia. rewrite nth_firstn_lt' by exact Hlt.
    destruct (Nat.lt_ge_cases j (length l)).
    + now rewrite app_nth1.
    + rewrite app_nth2 by lia. rewrite Hrep. now rewrite nth_overflow.
  - rewrite app_nth2 by lia. rewrite Hl. destruct (j - i) as [|k] eqn:E; [lia|]. cbn [nth].
    rewrite nth_skipn'. f_equal. lia.
Qed.
Theorem grid_set_length i e l : length (grid_set i e l) = Nat.max (S i) (length l).
Proof.
  unfold grid_set. rewrite app_length, firstn_length, app_length, repeat_elem_length. cbn [length]. rewrite skipn_length. lia.
Qed.

(* ---- UserDefined(from_document=doc): the field shows the value of the metadata entry *)
Lemma set_et_full_own_type v : v <> VNone -> v <> VOther -> set_et_full (default_type v) None None v = set_et_full None None None v.
Proof. destruct v; intros H1 H2; try congruence; reflexivity. Qed.
Theorem from_document_lemma v me : in_domain_for SetMeta v = true -> model_set SetMeta v = Ok me ->
  exists e r, set_ud_from_doc (Some me) None VNone = Ok e /\ get_et e = Ok r /\ same_value v r = true.
Proof.
  intros Hd Hs. destruct (roundtrip_lemma SetMeta GetMeta v eq_refl Hd) as (me' & r1 & Hs' & Hg & S1).
  rewrite Hs in Hs'. injection Hs' as <-. unfold set_ud_from_doc. change (get_meta me) with (model_get GetMeta me). rewrite Hg.
  unfold in_domain_for in Hd. apply andb_true_iff in Hd as [Hd Hm].
  (* the value Meta reads, r1, is again in the domain, of the type the entry declares, and equal to v *)
  assert (Hkey : in_domain r1 = true /\ r1 <> VNone /\ r1 <> VOther /\ vtype me = default_type r1 /\
                 (forall r, same_value r1 r = true -> same_value v r = true)).
  { destruct v; try discriminate.
    - (* bool *) destruct b; cbn in Hs; injection Hs as <-; cbn in Hg; injection Hg as <-; repeat split; try discriminate; auto.
    - (* int *) destruct (num_text (VInt z) eq_refl Hd) as (d & Hnv & Ht).
      assert (Hw : model_set SetMeta (VInt z) = Ok (wr SetMeta t_float SValue (py_str_num (VInt z)))) by reflexivity. rewrite Hw in Hs. assert (Hme : me = wr SetMeta t_float SValue (py_str_num (VInt z))) by congruence. subst me.
      rewrite (get_float SetMeta GetMeta) in Hg by (reflexivity || now apply (dec_of_text_not_tf _ _ Ht)).
      unfold read_number in Hg. rewrite Ht in Hg. cbn in Hg. injection Hg as <-. repeat split; try discriminate; try reflexivity.
      intros r Hr. cbn [same_value num_of] in *. cbn [num_of] in Hnv. injection Hnv as <-. exact Hr.
    - (* float *) destruct (num_text (VFloat r) eq_refl Hd) as (d & Hnv & Ht).
      assert (Hw : model_set SetMeta (VFloat r) = Ok (wr SetMeta t_float SValue (py_str_num (VFloat r)))) by reflexivity. rewrite Hw in Hs. assert (Hme : me = wr SetMeta t_float SValue (py_str_num (VFloat r))) by congruence. subst me.
      rewrite (get_float SetMeta GetMeta) in Hg by (reflexivity || now apply (dec_of_text_not_tf _ _ Ht)).
      unfold read_number in Hg. rewrite Ht in Hg. cbn in Hg. injection Hg as <-. repeat split; try discriminate; try reflexivity.
      intros x Hx. cbn [same_value num_of] in *. cbn [num_of py_str_num] in Hnv, Ht. rewrite Hnv. exact Hx.
    - (* Decimal *) destruct (num_text (VDec d) eq_refl Hd) as (d' & Hnv & Ht).
      assert (Hw : model_set SetMeta (VDec d) = Ok (wr SetMeta t_float SValue (py_str_num (VDec d)))) by reflexivity. rewrite Hw in Hs. assert (Hme : me = wr SetMeta t_float SValue (py_str_num (VDec d))) by congruence. subst me.
      rewrite (get_float SetMeta GetMeta) in Hg by (reflexivity || now apply (dec_of_text_not_tf _ _ Ht)).
      unfold read_number in Hg. rewrite Ht in Hg. cbn in Hg. injection Hg as <-. cbn [num_of] in Hnv. injection Hnv as <-.
      repeat split; try discriminate; try reflexivity. auto.
    - (* str *) cbn [in_domain] in Hd.
      assert (Hw : model_set SetMeta (VStr s) = Ok (wr SetMeta t_string SString s)).
      { unfold model_set, set_meta, set_meta_gen. cbn [isinstance_bool isinstance_int isinstance_float isinstance_Decimal isinstance_datetime isinstance_date isinstance_str orb].
        rewrite Hd. reflexivity. }
      rewrite Hw in Hs. assert (Hme : me = wr SetMeta t_string SString s) by congruence. subst me.
      rewrite (get_string SetMeta GetMeta) in Hg by reflexivity. injection Hg as <-. repeat split; try discriminate; auto.
    - (* date *) cbn [in_domain] in Hd. destruct (read_date_of_date y m d Hd) as (Hr & Hnt).
      assert (Hw : model_set SetMeta (VDate y m d) = Ok (wr SetMeta t_date SDate (date_encode y m d))) by reflexivity. rewrite Hw in Hs. assert (Hme : me = wr SetMeta t_date SDate (date_encode y m d)) by congruence. subst me.
      rewrite (get_date SetMeta GetMeta) in Hg by (reflexivity || exact Hnt). rewrite Hr in Hg. injection Hg as <-.
      repeat split; try discriminate; try reflexivity.
      + cbn [in_domain]. unfold valid_dt. cbn [yr mo dy hh mi ss us tz]. rewrite Hd. reflexivity.
      + intros r Hr'. destruct r; try discriminate. cbn [same_value] in *. exact Hr'.
    - (* datetime *) cbn [in_domain] in Hd. destruct (read_date_of_datetime d Hd) as (Hr & Hnt).
      assert (Hw : model_set SetMeta (VDateTime d) = Ok (wr SetMeta t_date SDate (datetime_encode d))) by reflexivity. rewrite Hw in Hs. assert (Hme : me = wr SetMeta t_date SDate (datetime_encode d)) by congruence. subst me.
      rewrite (get_date SetMeta GetMeta) in Hg by (reflexivity || exact Hnt). rewrite Hr in Hg. injection Hg as <-.
      repeat split; try discriminate; auto.
    - (* timedelta *) destruct (read_dur_of_dur us) as (Hr & Hnt).
      assert (Hw : model_set SetMeta (VDur us) = Ok (wr SetMeta t_time STime (dur_encode us))) by reflexivity. rewrite Hw in Hs. assert (Hme : me = wr SetMeta t_time STime (dur_encode us)) by congruence. subst me.
      rewrite (get_time SetMeta GetMeta) in Hg by (reflexivity || exact Hnt). rewrite Hr in Hg. injection Hg as <-.
      repeat split; try discriminate; auto. }
  destruct Hkey as (Hd1 & Hn1 & Ho1 & Hvt & Htrans).
  rewrite Hvt. assert (Hdt : exists t, default_type r1 = Some t) by (destruct r1; try congruence; eexists; reflexivity).
  destruct Hdt as [t Ht]. rewrite Ht. rewrite <- Ht, set_et_full_own_type by assumption. rewrite set_et_full_default.
  destruct (roundtrip_lemma SetET GetET r1 eq_refl) as (e & r & Hse & Hge & S2).
  { unfold in_domain_for. rewrite Hd1. destruct r1; reflexivity. }
  exists e, r. split; [exact Hse|]. split; [exact Hge|]. now apply Htrans.
Qed.
