"""C10: a clone is equal at birth and independent for life — both halves.

  Element / Cell / Row / Table   harness/c10_tab.py   theorems coq/theories/C10tab.v  (model TableC.v: heap of list objects)
  XmlPart / Container / Document harness/c10_doc.py   theorems coq/theories/C10doc.v  (model Package.v)

Each half builds and re-checks its own theorem file, drives its twin histories on the current source and has Coq evaluate
them; this module merges proofs, coverage, violations and known findings into evidence/C10.json.  A replay file is
dispatched to the half it came from ("tabcase" = table half; "ops" / "xmlpart_case" = document half)."""
import json, sys, time
from pathlib import Path
sys.path.insert(0, str(Path(__file__).resolve().parent))
import common, c10_doc, c10_tab

PROP = 'C10'


def merge_proofs(a, b):
    if a is None: return b
    if b is None: return a
    return dict(ok=a['ok'] and b['ok'], log=(a['log'] or '')[-3000:] + (b['log'] or '')[-3000:],
                obligations=a['obligations'] + b['obligations'], discharged=a['discharged'] + b['discharged'],
                theorems=a['theorems'] + b['theorems'], closed=a['closed'] + b['closed'], axioms=sorted(set(a['axioms']) | set(b['axioms'])),
                forbidden=a['forbidden'] + [x for x in b['forbidden'] if x not in a['forbidden']],
                cmd=a['cmd'] + '   AND   ' + b['cmd'], wall=round(a['wall'] + b['wall'], 2))


def run(tier, seed, replay=None):
    t0 = time.time()
    halves = []
    which = ('tab', 'doc')
    if replay:
        j = json.load(open(replay))
        if 'tabcase' in j or str(j.get('theorem_file', '')).endswith('C10tab.v'):
            which = ('tab',)
        elif 'ops' in j or 'xmlpart_case' in j or str(j.get('theorem_file', '')).endswith('C10doc.v'):
            which = ('doc',)
    if 'tab' in which:
        halves.append(('table half', c10_tab.run_half(tier, seed, replay, finish=False)))
    if 'doc' in which:
        halves.append(('document half', c10_doc.run_half(tier, seed, replay, finish=False)))
    proofs, violations, known_seen, assumptions = None, [], [], []
    cov = dict(trusted_base=[], evaluations=0, distinct_nontrivial=0, rule='', samples=[], exhaustive=False, halves={})
    for name, h in halves:
        proofs = merge_proofs(proofs, h['proofs'])
        violations += h['violations']; known_seen += h['known_seen']
        assumptions += [a for a in h['assumptions'] if a not in assumptions]
        c = dict(h['coverage'])
        cov['trusted_base'] += [x for x in c.pop('trusted_base', []) if x not in cov['trusted_base']]
        cov['evaluations'] += c.pop('evaluations', 0)
        cov['distinct_nontrivial'] += c.pop('distinct_nontrivial', 0)
        cov['rule'] += ('%s: %s  ' % (name.upper(), c.pop('rule', '')))
        cov['samples'] += [{name: s} for s in c.pop('samples', [])]
        c.pop('exhaustive', None)
        cov['halves'][name] = c
    cov['which_half_proves_what'] = ('table half (C10tab.v): Row.clone equal at birth / original untouched / no list object shared, independence of any interleaving (C10_independent), '
                                     'get_elements aliasing vs clone, Table.clone with in-place append; document half (C10doc.v): lazily loaded parts, path-less clone, independence of documents, refuted equal-at-birth on the pinned code')
    return common.finish(PROP, tier, seed, proofs, cov, violations, known_seen, t0, assumptions=assumptions)


if __name__ == '__main__':
    common.main(run)
