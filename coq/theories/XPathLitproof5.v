(* C14 — query skeleton with an arbitrary (lexable) rest after the identifier *)
From Coq Require Import List NArith Bool Lia Arith.
Import ListNotations.
Require Import XPathLit XPathLitproof XPathLitproof4.
Open Scope N_scope.

Definition prepend (c : str) (ts : list tok) : list tok :=
  match ts with
  | TOther x :: r => TOther (c ++ x) :: r
  | _ => other c ++ ts
  end.

Lemma prepend_nil ts : prepend [] ts = ts.
Proof. destruct ts as [|[x|x] r]; reflexivity. Qed.

Definition no_empty (ts : list tok) : Prop := Forall (fun t => t <> TOther []) ts.

Lemma other_no_empty s : no_empty (other s).
Proof. destruct s; constructor; [discriminate|constructor]. Qed.

Lemma lex_no_empty : forall s m cur ts, lex m cur s = Some ts ->
  no_empty ts /\ (match m with LIn _ => exists a r, ts = TStr a :: r | LOut => True end).
Proof.
  induction s as [|c s IH]; intros m cur ts H.
  - destruct m; [|discriminate]. cbn [lex] in H. injection H as <-. split; [apply other_no_empty|exact I].
  - cbn [lex] in H. destruct m as [|q].
    + destruct (is_quote c).
      * destruct (lex (LIn c) [] s) as [t|] eqn:E; [|discriminate]. cbn [option_map] in H. injection H as <-.
        destruct (IH _ _ _ E) as [Hn _]. split; [|exact I]. apply Forall_app. split; [apply other_no_empty|exact Hn].
      * destruct (is_ws c); destruct (IH _ _ _ H) as [Hn _]; (split; [exact Hn|exact I]).
    + destruct (c =? q).
      * destruct (lex LOut [] s) as [t|] eqn:E; [|discriminate]. cbn [option_map] in H. injection H as <-.
        destruct (IH _ _ _ E) as [Hn _]. split; [constructor; [discriminate|exact Hn]|]. eauto.
      * exact (IH _ _ _ H).
Qed.

Lemma other_app_ne a b0 b : other (a ++ b0 :: b) = [TOther (a ++ b0 :: b)].
Proof. destruct a; reflexivity. Qed.

Lemma prepend_prepend a b ts : b <> [] -> prepend a (prepend b ts) = prepend (a ++ b) ts.
Proof.
  intros Hb. destruct b as [|b0 b]; [congruence|].
  destruct ts as [|[x|x] r]; cbn [prepend].
  - rewrite other_app_ne. cbn [other app prepend]. rewrite ?app_nil_r. reflexivity.
  - now rewrite app_assoc.
  - rewrite other_app_ne. cbn [other app prepend]. rewrite ?app_nil_r. reflexivity.
Qed.

Lemma lex_cur : forall s cur, lex LOut cur s = option_map (prepend (rev cur)) (lex LOut [] s).
Proof.
  induction s as [|c s IH]; intros cur.
  - cbn [lex option_map rev other prepend]. now rewrite app_nil_r.
  - cbn [lex]. destruct (is_quote c).
    + destruct (lex (LIn c) [] s) as [t|] eqn:E; [|reflexivity]. cbn [option_map rev other app].
      destruct (lex_no_empty _ _ _ _ E) as [_ (a & r & ->)]. reflexivity.
    + destruct (is_ws c); [apply IH|].
      rewrite (IH (c :: cur)), (IH [c]). destruct (lex LOut [] s); [|reflexivity]. cbn [option_map rev app].
      now rewrite prepend_prepend by discriminate.
Qed.

Lemma strip_prefix_snoc : forall p y c, has c p = false ->
  strip_prefix p (y ++ [c]) = option_map (fun r => r ++ [c]) (strip_prefix p y).
Proof.
  induction p as [|a p IH]; intros y c H; [reflexivity|].
  cbn [has existsb] in H. apply orb_false_elim in H as [H1 H2].
  destruct y as [|b y].
  - cbn [app strip_prefix]. rewrite N.eqb_sym, H1. reflexivity.
  - cbn [app strip_prefix]. destruct (a =? b); [apply IH, H2|reflexivity].
Qed.

Lemma strip_suffix_rpar x : strip_suffix s_concat (RPAR :: x) = option_map (cons RPAR) (strip_suffix s_concat x).
Proof.
  unfold strip_suffix. cbn [rev]. rewrite strip_prefix_snoc by reflexivity.
  destruct (strip_prefix (rev s_concat) (rev x)); [|reflexivity]. cbn [option_map]. now rewrite rev_app_distr.
Qed.

Definition F := fold_right fold_step [].

Lemma fold_prepend_rpar tp : no_empty tp ->
  exists r rest, F (prepend [RPAR] tp) = TOther (RPAR :: r) :: rest /\ other r ++ rest = F tp.
Proof.
  intros Hn. destruct tp as [|[x|a] tp'].
  - exists [], []. split; reflexivity.
  - inversion Hn as [|? ? Hx Hn']; subst.
    destruct x as [|x0 x]; [congruence|].
    unfold F. cbn [prepend app fold_right]. set (A := fold_right fold_step [] tp').
    cbn [fold_step]. rewrite strip_suffix_rpar.
    destruct (strip_suffix s_concat (x0 :: x)) as [o|]; cbn [option_map].
    + destruct A as [|[y|a] rest0].
      * exists (x0 :: x), []. split; reflexivity.
      * exists (x0 :: x), (TOther y :: rest0). split; reflexivity.
      * destruct (cargs rest0 a false) as [[[v' r'] rest']|].
        -- exists o, (TStr v' :: other r' ++ rest'). split; reflexivity.
        -- exists (x0 :: x), (TStr a :: rest0). split; reflexivity.
    + exists (x0 :: x), A. split; reflexivity.
  - exists [], (F (TStr a :: tp')). split; [|reflexivity].
    unfold F. cbn [prepend other app fold_right]. cbn [fold_step].
    replace (strip_suffix s_concat [RPAR]) with (@None str) by reflexivity. reflexivity.
Qed.

Theorem query_skeleton_gen pre v post ts cur tp :
  lexp LOut [] pre = (ts, LOut, cur) ->
  strip_suffix s_concat (rev cur) = None ->
  lex LOut [] post = Some tp ->
  skeleton (pre ++ quote v ++ post)
  = Some (fold_right fold_step (other (rev cur) ++ TStr v :: fold_right fold_step [] tp) ts).
Proof.
  intros Hpre Hsuf Hpost. unfold skeleton. rewrite lex_app, Hpre.
  destruct (has DQ v) eqn:E1.
  2:{ unfold quote. rewrite E1. cbn [negb]. rewrite lex_dq_lit by exact E1.
      rewrite Hpost. cbn [option_map]. f_equal.
      rewrite fold_right_app_step. f_equal.
      rewrite fold_right_app. cbn [fold_right]. cbn [fold_step]. apply fold_other_keep, Hsuf. }
  destruct (has SQ v) eqn:E2.
  2:{ unfold quote. rewrite E1, E2. cbn [negb]. unfold sq_lit. cbn [app lex]. change (is_quote SQ) with true. cbn iota.
      rewrite <- app_assoc. cbn [app]. rewrite lex_in by exact E2.
      rewrite Hpost. cbn [rev app option_map]. f_equal.
      rewrite fold_right_app_step. f_equal.
      rewrite fold_right_app. cbn [fold_right]. cbn [fold_step]. apply fold_other_keep, Hsuf. }
  unfold quote. rewrite E1, E2. cbn [negb]. rewrite <- !app_assoc.
  rewrite lex_app. rewrite (lexp_noquote s_concat cur eq_refl).
  change (nows s_concat) with s_concat.
  pose proof (split_dq_nodq v [] eq_refl) as Hall.
  pose proof (split_dq_ne v []) as Hne.
  pose proof (split_dq_join v []) as Hjoin. cbn [rev app] in Hjoin.
  destruct (split_dq [] v) as [|p ps]; [congruence|].
  rewrite lex_pieces by exact Hall. cbn [app].
  change (lex LOut [] (RPAR :: post)) with (lex LOut [RPAR] post).
  rewrite lex_cur, Hpost. cbn [rev app option_map]. f_equal.
  rewrite fold_right_app_step. f_equal.
  rewrite rev_app_distr, rev_involutive.
  assert (Hne' : rev cur ++ s_concat <> []) by (intros H; apply app_eq_nil in H as [_ H]; discriminate).
  destruct (rev cur ++ s_concat) as [|x0 o0] eqn:Eo; [congruence|]. cbn [other app fold_right].
  rewrite fold_right_app.
  destruct (lex_no_empty _ _ _ _ Hpost) as [Hn _].
  destruct (fold_prepend_rpar tp Hn) as (r & rest & HF & Hrest). unfold F in HF, Hrest. rewrite HF.
  rewrite fold_sep.
  cbn [fold_step]. rewrite <- Eo, strip_suffix_app.
  rewrite sep_toks_cargs.
  2:{ right. intros ->. cbn [join_dq] in Hjoin. subst p.
      inversion Hall as [|? ? Hp _]. rewrite E1 in Hp. discriminate. }
  pose proof (fold_left_join ps p []) as Hfl. cbn [app] in Hfl. rewrite Hfl. rewrite Hrest.
  f_equal. f_equal. f_equal. exact Hjoin.
Qed.
