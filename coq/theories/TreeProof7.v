(* TreeProof7.v — replace(formatted=True), part 2: the rebuild loop of append_plain_text gives back the item list it was
   fed, so the container is in normal form and reads the same. *)
From Coq Require Import List Arith Bool ZArith Lia.
Import ListNotations.
Require Import WS WSproof WSnfproof WSenc7 Tree TreeNF TreeProof TreeProof2 TreeProof3 TreeProof4 TreeProof6.

Definition st_items (st : option str * list node) : list item := items_of (fst st) (snd st).
Definition last_empty (st : option str * list node) : Prop :=
  match rev (snd st) with [] => oget (fst st) = [] | l :: _ => oget (tail_of l) = [] end.

Lemma ostr_empty o : oget o = [] -> ostr o = [].
Proof. destruct o as [[|t s]|]; [reflexivity|discriminate|reflexivity]. Qed.
Lemma node_item_set_tail l t : node_item (set_tail l t) = node_item l.
Proof. destruct l as [k a s tx ks tl]. destruct k; reflexivity. Qed.
Lemma rev_nil_inv {A} (l : list A) : rev l = [] -> l = [].
Proof. destruct l; [reflexivity|]. intros H. apply (f_equal (@length _)) in H. rewrite rev_length in H. discriminate. Qed.
Lemma rev_cons_inv {A} (l : list A) x r : rev l = x :: r -> l = rev r ++ [x].
Proof. intros H. rewrite <- (rev_involutive l), H. reflexivity. Qed.

Lemma st_items_PN st n : st_items (append_piece collapse st (PN n)) = st_items st ++ node_item n :: ostr (tail_of n).
Proof. destruct st as [tx ks]. unfold st_items. cbn [append_piece fst snd]. rewrite items_of_app. cbn [flat_map]. now rewrite app_nil_r. Qed.
Lemma last_empty_PN st n : oget (tail_of n) = [] -> last_empty (append_piece collapse st (PN n)).
Proof. destruct st as [tx ks]. unfold last_empty. cbn [append_piece fst snd]. rewrite rev_app_distr. cbn [rev app]. auto. Qed.
Lemma st_items_PS st s : last_empty st -> s <> [] -> no_dsp s = true ->
  st_items (append_piece collapse st (PS s)) = st_items st ++ [IStr s].
Proof.
  destruct st as [tx ks]. unfold last_empty, st_items. cbn [append_piece fst snd]. intros L Hs Hd.
  destruct (rev ks) as [|l rk] eqn:E.
  - apply rev_nil_inv in E. subst ks. unfold add_text. rewrite L. cbn [app fst snd]. rewrite collapse_id by exact Hd.
    unfold items_of. cbn [flat_map]. rewrite !app_nil_r, (ostr_empty _ L). destruct s; [contradiction|reflexivity].
  - apply rev_cons_inv in E. subst ks. cbn [fst snd]. unfold add_text. rewrite L. cbn [app]. rewrite collapse_id by exact Hd.
    rewrite !items_of_app. cbn [flat_map]. rewrite !app_nil_r, node_item_set_tail, tail_set_tail, (ostr_empty _ L).
    rewrite <- app_assoc. cbn [app]. destruct s; [contradiction|reflexivity].
Qed.

Lemma rebuild_items : forall its E st p, good p its = true -> (p = false -> last_empty st) ->
  elems its = map node_item E -> forallb nonspacer E = true ->
  st_items (rebuild its E st) = st_items st ++ map canon its.
Proof.
  induction its as [|it its IH]; intros E st p G L HE HN; [cbn; now rewrite app_nil_r|].
  destruct it as [s|n| | |i t]; cbn [rebuild good map canon] in *.
  - apply andb_true_iff in G as [G G4]. apply andb_true_iff in G as [G G3]. apply andb_true_iff in G as [G1 G2].
    destruct p; [discriminate|]. specialize (L eq_refl).
    rewrite (IH E _ true G4); [|discriminate|exact HE|exact HN].
    rewrite st_items_PS; [now rewrite <- app_assoc|exact L|destruct s; [discriminate|discriminate]|exact G3].
  - rewrite (IH E _ false G); [|intros _; now apply last_empty_PN|exact HE|exact HN].
    rewrite st_items_PN. now rewrite <- app_assoc.
  - rewrite (IH E _ false G); [|intros _; now apply last_empty_PN|exact HE|exact HN].
    rewrite st_items_PN. now rewrite <- app_assoc.
  - rewrite (IH E _ false G); [|intros _; now apply last_empty_PN|exact HE|exact HN].
    rewrite st_items_PN. now rewrite <- app_assoc.
  - change (elems (IElem i t :: its)) with (IElem i t :: elems its) in HE.
    destruct E as [|e es]; [discriminate|]. cbn [map] in HE. injection HE as He Hes.
    cbn [forallb] in HN. apply andb_true_iff in HN as [HN1 HN2].
    rewrite (IH es _ false G); [|intros _; apply last_empty_PN; now rewrite tail_set_tail|exact Hes|exact HN2].
    rewrite st_items_PN, node_item_set_tail, tail_set_tail, <- He. cbn [ostr]. now rewrite <- app_assoc.
Qed.

(* leaves stay leaves *)
Lemma leaf_set_tail l t : leaf_spacer (set_tail l t) = leaf_spacer l.
Proof. destruct l as [k a s tx ks tl]. reflexivity. Qed.
Lemma nonspacer_leaf e : nonspacer e = true -> leaf_spacer e = true.
Proof. destruct e as [k a s tx ks tl]. destruct k; try reflexivity. discriminate. Qed.
Lemma append_piece_leaf st p : forallb leaf_spacer (snd st) = true ->
  (match p with PN n => leaf_spacer n = true | PS _ => True end) ->
  forallb leaf_spacer (snd (append_piece collapse st p)) = true.
Proof.
  destruct st as [tx ks]. cbn [snd]. intros H Hp. destruct p as [s|n]; cbn [append_piece].
  - destruct (rev ks) as [|l rk] eqn:E; [exact H|]. apply rev_cons_inv in E. subst ks. cbn [snd].
    rewrite forallb_app in *. cbn [forallb] in *. now rewrite leaf_set_tail.
  - cbn [snd]. rewrite forallb_app. cbn [forallb]. now rewrite H, Hp.
Qed.
Lemma rebuild_leaf : forall its E st, forallb leaf_spacer (snd st) = true -> forallb nonspacer E = true ->
  forallb leaf_spacer (snd (rebuild its E st)) = true.
Proof.
  induction its as [|it its IH]; intros E st H HN; [exact H|].
  destruct it as [s|n| | |i t]; cbn [rebuild]; try (apply IH; [apply append_piece_leaf|]; auto; reflexivity).
  - destruct E as [|e es]; [now apply IH|]. cbn [forallb] in HN. apply andb_true_iff in HN as [HN1 HN2].
    apply IH; [|exact HN2]. apply append_piece_leaf; [exact H|]. rewrite leaf_set_tail. now apply nonspacer_leaf.
Qed.

(* the flags of the children *)
Lemma nf_flags_set_tail l t : nf_flags (set_tail l t) = nf_flags l.
Proof. destruct l as [k a s tx ks tl]. reflexivity. Qed.
Lemma append_piece_flags st p :
  flat_map nf_flags (snd (append_piece collapse st p)) = flat_map nf_flags (snd st) ++ (match p with PN n => nf_flags n | PS _ => [] end).
Proof.
  destruct st as [tx ks]. cbn [snd]. destruct p as [s|n]; cbn [append_piece].
  - rewrite app_nil_r. destruct (rev ks) as [|l rk] eqn:E; [reflexivity|]. apply rev_cons_inv in E. subst ks. cbn [snd].
    rewrite !flat_map_app. cbn [flat_map]. now rewrite nf_flags_set_tail.
  - cbn [snd]. rewrite flat_map_app. cbn [flat_map]. now rewrite app_nil_r.
Qed.
Lemma rebuild_flags : forall its E st, elems its = map node_item E ->
  flat_map nf_flags (snd (rebuild its E st)) = flat_map nf_flags (snd st) ++ flat_map nf_flags E.
Proof.
  induction its as [|it its IH]; intros E st HE.
  - destruct E; [|discriminate]. cbn. now rewrite app_nil_r.
  - destruct it as [s|n| | |i t]; cbn [rebuild]; try (rewrite (IH E _ HE), append_piece_flags; cbn; now rewrite ?app_nil_r).
    change (elems (IElem i t :: its)) with (IElem i t :: elems its) in HE.
    destruct E as [|e es]; [discriminate|]. cbn [map] in HE. injection HE as He Hes.
    rewrite (IH es _ Hes), append_piece_flags, nf_flags_set_tail. cbn [flat_map]. now rewrite <- app_assoc.
Qed.

(* ---------------------------------------------------------------- normalise = append_plain_text("") on a container *)
Lemma filter_nonspacer_forall ks : forallb nonspacer (filter nonspacer ks) = true.
Proof. induction ks as [|c ks IH]; [reflexivity|]. cbn [filter]. destruct (nonspacer c) eqn:E; [cbn [forallb]; now rewrite E|exact IH]. Qed.
Lemma normalise_spec k a sel tx ks tl : forallb leaf_spacer ks = true ->
  exists tx' ks', normalise (Node k a sel tx ks tl) = Node k a sel tx' ks' tl
    /\ NFb true (items_of tx' ks') = true
    /\ readable_ 0 (otxt tx' ++ flat_map flat ks') = readable_ 0 (otxt tx ++ flat_map flat ks)
    /\ flat_map nf_flags ks' = flat_map nf_flags (filter nonspacer ks).
Proof.
  intros HL. cbn [normalise].
  set (its := append_plain_text (items_of tx ks) []).
  assert (E1 : elems its = map node_item (filter nonspacer ks)) by (unfold its; now rewrite elems_append, elems_items_of).
  assert (N1 : NFb true its = true) by apply C05_nf.
  assert (G1 : good false its = true) by (eapply NFb_good; exact N1).
  pose proof (rebuild_items its (filter nonspacer ks) (Some [], []) false G1 (fun _ => eq_refl) E1 (filter_nonspacer_forall ks)) as RI.
  pose proof (rebuild_leaf its (filter nonspacer ks) (Some [], []) eq_refl (filter_nonspacer_forall ks)) as RL.
  pose proof (rebuild_flags its (filter nonspacer ks) (Some [], []) E1) as RF.
  change (fun c : node => negb (is_spacer (kind_of c))) with nonspacer.
  destruct (rebuild its (filter nonspacer ks) (Some [], [])) as [tx' ks'] eqn:ER.
  unfold st_items in RI. cbn [fst snd app flat_map] in RI, RL, RF.
  change (items_of (Some []) []) with (@nil item) in RI. cbn [app] in RI.
  exists tx', ks'. split; [reflexivity|]. split; [now rewrite RI, NFb_canon|]. split; [|exact RF].
  rewrite <- (readable_items_of tx' ks' RL), <- (readable_items_of tx ks HL), RI, readable_canon.
  unfold its. rewrite C05_text_step. apply app_nil_r.
Qed.
