(* Property C11 — statements only.  Each is closed by [exact] of a lemma proved elsewhere. *)
From Coq Require Import List ZArith Bool. Import ListNotations.
Require Import WS PrettyTree PrettyTreeproof Gen_TextContent C11inst.

(* the repaired pretty_indent, with the TEXT_CONTENT table read from the source on this run: the ODF reading
   (section 6.1.2 consumer of C05) of every paragraph and heading of every tree is unchanged *)
Theorem C11_pretty_text : forall root : node, readable_ws (pretty textual crefill true root) = readable_ws root.
Proof. exact gen_pretty_text. Qed.
Print Assumptions C11_pretty_text.

(* element structure and every attribute are unchanged (pinned and repaired code alike) *)
Theorem C11_pretty_attrs_skeleton : forall (fx : bool) (root : node), skeleton (pretty textual crefill fx root) = skeleton root.
Proof. exact gen_pretty_skeleton. Qed.
Print Assumptions C11_pretty_attrs_skeleton.

(* for any TEXT_CONTENT table containing the paragraph-level and inline tags *)
Theorem C11_pretty_text_any_table : forall (tx : tagid -> bool) (refill : nat -> nat -> str -> str),
  (forall t, is_ph t || inline t = true -> tx t = true) ->
  forall root, readable_ws (pretty tx refill true root) = readable_ws root.
Proof. exact pretty_text_fixed. Qed.
Print Assumptions C11_pretty_text_any_table.

(* F15 on the pinned code: <text:p>a<text:s/><text:span>b</text:span></text:p> reads "a  b" after pretty_indent *)
Theorem C11_pretty_text_pinned_refuted : exists root : node, readable_ws (pretty textual crefill false root) <> readable_ws root.
Proof. exact gen_pretty_text_pinned_refuted. Qed.
Print Assumptions C11_pretty_text_pinned_refuted.

Example C11_f15_witness : readable_ws f15_witness = [[Ch 1; Sp; Ch 2]]
  /\ readable_ws (pretty textual crefill false f15_witness) = [[Ch 1; Sp; Sp; Ch 2]]
  /\ readable_ws (pretty textual crefill true f15_witness) = [[Ch 1; Sp; Ch 2]].
Proof. exact f15_witness_reads. Qed.
