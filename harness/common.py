"""Shared driver for every property check.

build_proofs   full .vo build of the property's theorem file (and its dependencies) under a lock, then
               a forced re-check of the property file itself; reads the Print Assumptions answers.
run_shards     correspondence: writes cases_k.v files, evaluates them with vm_compute inside coqc
               (16 processes), returns the (case index, code) pairs Coq printed.  Nothing else is parsed.
Decision       finish(): evidence file, KNOWN-FINDING / VIOLATION lines, exit status.
"""
import fcntl, hashlib, json, os, re, shutil, subprocess, sys, time
from pathlib import Path

ROOT = Path(__file__).resolve().parent.parent
COQ = ROOT / "coq"
TH = COQ / "theories"
WORK = ROOT / ".work"
REPLAYS = ROOT / "replays"
PY = "/venv/bin/python"
REPO = Path(os.environ.get("ODFDO_REPO", "/repo"))
SRC = REPO / "src"
GUARD = "ODFDO_VERIF"

KERNEL_TB = [
    "Coq 8.16.1 kernel (coqc), including its vm_compute machine (used by finite obligations and by the "
    "evaluation of the model on correspondence cases); native_compute not used; no axioms declared by the development",
    "Python harness: generators, abstraction of implementation objects by an independent lxml walk, cases.v printer, "
    "parsing of the (index, code) pairs printed by Coq",
]


def repo_env():
    e = dict(os.environ)
    e["PYTHONPATH"] = str(SRC)
    e["PYTHONHASHSEED"] = "0"
    e[GUARD] = "1"
    return e


def use_repo():
    """make `import odfdo` resolve to /repo's working tree inside the current process"""
    p = str(SRC)
    if p in sys.path:
        sys.path.remove(p)
    sys.path.insert(0, p)
    os.environ[GUARD] = "1"
    import odfdo  # noqa
    assert str(Path(odfdo.__file__).resolve()).startswith(str(SRC.resolve())), odfdo.__file__
    return odfdo


def sh(cmd, timeout, cwd=None, env=None):
    try:
        p = subprocess.run(cmd, shell=True, cwd=cwd, env=env, capture_output=True, text=True, timeout=timeout)
        return p.returncode, p.stdout + p.stderr
    except subprocess.TimeoutExpired as e:
        return 124, "TIMEOUT after %ss: %s" % (timeout, cmd)


FORBIDDEN = re.compile(r"\b(Admitted|admit|Axiom|Axioms|Parameter|Parameters|Conjecture|Conjectures|Admit Obligations|"
                       r"Unset Guard Checking|Unset Positivity Checking|Unset Universe Checking|bypass_check|"
                       r"type-in-type|impredicative-set)\b")


def strip_comments(src):
    out, depth, i = [], 0, 0
    while i < len(src):
        if src.startswith("(*", i):
            depth += 1; i += 2
        elif src.startswith("*)", i) and depth:
            depth -= 1; i += 2
        else:
            if not depth:
                out.append(src[i])
            i += 1
    return "".join(out)


def forbidden_scan():
    bad = []
    for f in sorted(TH.glob("*.v")):
        s = strip_comments(f.read_text())
        s = re.sub(r'"[^"]*"', '""', s)
        for m in FORBIDDEN.finditer(s):
            bad.append("%s: %s" % (f.name, m.group(0)))
        # a Variable / Hypothesis outside a section declares an axiom
        depth = 0
        for line in s.splitlines():
            if re.match(r"\s*Section\b", line): depth += 1
            elif re.match(r"\s*End\b", line) and depth: depth -= 1
            elif depth == 0 and re.match(r"\s*(Variable|Variables|Hypothesis|Hypotheses|Context)\b", line):
                bad.append("%s: %s outside a section" % (f.name, line.strip()))
    return bad


def coq_project():
    files = sorted(p.name for p in TH.glob("*.v"))
    txt = '-Q theories ""\n' + "".join("theories/%s\n" % f for f in files)
    cp = COQ / "_CoqProject"
    if not cp.exists() or cp.read_text() != txt or not (COQ / "Makefile").exists():
        cp.write_text(txt)
        rc, out = sh("coq_makefile -f _CoqProject -o Makefile", 120, cwd=COQ)
        if rc:
            raise RuntimeError(out)


class Lock:
    def __enter__(self):
        WORK.mkdir(exist_ok=True)
        self.f = open(WORK / "build.lock", "w")
        fcntl.flock(self.f, fcntl.LOCK_EX)
        return self

    def __exit__(self, *a):
        fcntl.flock(self.f, fcntl.LOCK_UN)
        self.f.close()


def build_proofs(prop_file, extra_targets=()):
    """Full .vo build of the property file's dependency cone, then a forced re-check of the property file.
    obligations = theorems stated in the property file; discharged = Print Assumptions answers obtained."""
    t0 = time.time()
    src_path = TH / (prop_file + ".v")
    src = src_path.read_text()
    names = re.findall(r"^\s*Theorem\s+(\w+)", strip_comments(src), re.M)
    with Lock():
        coq_project()
        vo = TH / (prop_file + ".vo")
        if vo.exists():
            vo.unlink()
        targets = " ".join(["theories/%s.vo" % prop_file] + ["theories/%s.vo" % t for t in extra_targets])
        cmd = "timeout 1500 make -j16 %s" % targets
        rc, out = sh(cmd, 1600, cwd=COQ)
    bad = forbidden_scan()
    closed, axioms, n_answers, in_ax = 0, set(), 0, False
    for ln in out.splitlines():
        if "Closed under the global context" in ln:
            closed += 1; n_answers += 1; in_ax = False
        elif ln.strip() == "Axioms:":
            n_answers += 1; in_ax = True
        elif in_ax:
            m = re.match(r"^([A-Za-z_][\w.']*)\s*(:|$)", ln)
            if m:
                axioms.add(m.group(1))
            elif not ln.startswith(" "):
                in_ax = False
    axioms = sorted(axioms)
    ok = rc == 0 and n_answers >= len(names) and not bad and len(names) > 0
    return dict(ok=ok, log=out[-6000:], obligations=len(names), discharged=min(n_answers, len(names)) if rc == 0 else 0,
                theorems=names, closed=closed, axioms=axioms, forbidden=bad,
                cmd="cd %s && coq_makefile -f _CoqProject -o Makefile && %s   (the .vo of %s.v is deleted first, so it is re-checked on every run)" % (COQ, cmd, prop_file),
                wall=round(time.time() - t0, 2))


SHARD_HEADER = "From Coq Require Import List ZArith Bool Arith. Import ListNotations.\n"


def run_shards(header, cases, checker, tag, shard=250, timeout=900, post=""):
    """cases: list of Coq terms (strings).  checker: Coq function : case -> nat (0 = agree).
    Returns ({case index: code}, [coqc error outputs])."""
    tmp = WORK / ("%s-%d" % (tag, os.getpid()))
    if tmp.exists():
        shutil.rmtree(tmp)
    tmp.mkdir(parents=True)
    files = []
    for k in range(0, len(cases), shard):
        name = "Cases_%d" % (k // shard)
        body = [header,
                "Definition cases := [\n" + ";\n".join(cases[k:k + shard]) + "\n].",
                "Fixpoint bad_ (i : nat) l := match l with [] => [] | c :: r => match %s c with O => bad_ (S i) r "
                "| k => (i, k) :: bad_ (S i) r end end." % checker,
                "Set Printing Width 1000000.",
                "Eval vm_compute in bad_ 0 cases.",
                "Eval vm_compute in length (bad_ 0 cases).", post]
        (tmp / (name + ".v")).write_text("\n".join(body))
        files.append((k, name))
    procs, bad, errors = [], {}, []
    pending = list(files)
    running = []
    while pending or running:
        while pending and len(running) < 16:
            k, name = pending.pop(0)
            p = subprocess.Popen('ulimit -s unlimited 2>/dev/null; timeout %d coqc -Q %s "" %s.v' % (timeout, TH, name),
                                 shell=True, cwd=tmp, stdout=subprocess.PIPE, stderr=subprocess.STDOUT, text=True)
            running.append((k, name, p))
        still = []
        for k, name, p in running:
            if p.poll() is None:
                still.append((k, name, p)); continue
            out = p.stdout.read()
            if p.returncode != 0:
                errors.append("%s: rc=%s %s" % (name, p.returncode, out[-1500:])); continue
            m = re.search(r"=\s*(\[.*?\])\s*:\s*list", out, re.S)
            if not m:
                errors.append("%s: unparsable %s" % (name, out[-500:])); continue
            pairs = re.findall(r"\(\s*(\d+)(?:%nat)?\s*,\s*(\d+)(?:%nat)?\s*\)", m.group(1))
            mc = re.search(r"=\s*(\d+)(?:%nat)?\s*:\s*nat\b", out[m.end():])
            if not mc or int(mc.group(1)) != len(pairs):   # never lose a failing case to the pretty-printer
                errors.append("%s: %s failing cases counted by Coq, %d parsed" % (name, mc.group(1) if mc else "?", len(pairs))); continue
            for i, code in pairs:
                bad[k + int(i)] = int(code)
        running = still
        if running:
            time.sleep(0.05)
    if errors and os.environ.get("VERIF_DEBUG"):
        print("run_shards errors:", *errors[:3], sep="\n", file=sys.stderr)
    if not os.environ.get("VERIF_KEEP"):
        shutil.rmtree(tmp, ignore_errors=True)
    return bad, errors


def coq_eval(header, exprs, tag, timeout=300):
    """Evaluate a few closed Coq terms; returns raw outputs (used only by replays / sanity)."""
    tmp = WORK / ("%s-e%d" % (tag, os.getpid()))
    tmp.mkdir(parents=True, exist_ok=True)
    (tmp / "E.v").write_text(header + "\n" + "\n".join("Eval vm_compute in (%s)." % e for e in exprs))
    rc, out = sh('timeout %d coqc -Q %s "" E.v' % (timeout, TH), timeout + 10, cwd=tmp)
    shutil.rmtree(tmp, ignore_errors=True)
    return rc, out


# ---------------------------------------------------------------- known findings

def known_findings(prop):
    """entries of the committed known-findings file (and of per-property fragments not yet consolidated into it)"""
    out, seen = [], set()
    files = [ROOT / "known_findings.json"] + sorted((ROOT / "known_findings.d").glob("*.json"))
    for f in files:
        if not f.exists():
            continue
        for e in json.loads(f.read_text()).get("findings", []):
            if e["property"] == prop and e["key"] not in seen:
                seen.add(e["key"]); out.append(e)
    return out


def write_replay(prop, seed, tag, payload):
    REPLAYS.mkdir(exist_ok=True)
    p = REPLAYS / ("%s-%s-%s.json" % (prop, seed, tag))
    payload = dict(payload, property=prop, seed=seed, how_to_run="cd /verif && ./check %s --replay %s" % (prop, p))
    p.write_text(json.dumps(payload, indent=1, ensure_ascii=False, default=str))
    return p


def digest(x):
    return hashlib.md5(repr(x).encode()).hexdigest()


def finish(prop, tier, seed, proofs, coverage, violations, known_seen, t0, assumptions=()):
    """violations: list of (replay path, no_input_found: bool).  known_seen: list of strings."""
    cov = dict(coverage)
    tb = list(cov.pop("trusted_base", []))
    if proofs is not None:
        tb = KERNEL_TB + tb + ["Print Assumptions: %d theorem(s) closed under the global context; axioms used: %s"
                               % (proofs["closed"], ", ".join(proofs["axioms"]) or "none")]
        cov.update(obligations=proofs["obligations"], discharged=proofs["discharged"], checker_cmd=proofs["cmd"],
                   theorems=proofs["theorems"], proof_wall_s=proofs["wall"])
    cov["trusted_base"] = tb
    ev = dict(property_id=prop, tier=tier, seed=seed, level="proof", wall_s=round(time.time() - t0, 2),
              violations=len(violations), coverage=cov, assumptions=list(assumptions))
    (ROOT / "evidence").mkdir(exist_ok=True)
    (ROOT / "evidence" / ("%s.json" % prop)).write_text(json.dumps(ev, indent=1, ensure_ascii=False, default=str) + "\n")
    for k in known_seen:
        print("KNOWN-FINDING: property=%s %s" % (prop, k))
    for path, none_found in violations:
        print("VIOLATION property=%s replay=%s" % (prop, path) + (" no-failing-input-found" if none_found else ""))
    sys.stdout.flush()
    return 1 if violations else 0


def proof_violation(prop, seed, proofs, errors, hard_found):
    """When a proof obligation or the Coq evaluation itself broke and no failing input was found."""
    if (proofs is None or proofs["ok"]) and not errors:
        return []
    if hard_found:
        return []
    p = write_replay(prop, seed, "proof", dict(layer="proof-or-correspondence",
                     theorem_file="coq/theories/%s.v" % prop,
                     theorems=(proofs or {}).get("theorems"), forbidden=(proofs or {}).get("forbidden"),
                     coqc_log=(proofs or {}).get("log"), correspondence_errors=errors[:5]))
    return [(p, True)]


def main(run):
    tier = "thorough" if "--thorough" in sys.argv else "quick"
    tier = os.environ.get("VERIF_TIER", tier)
    if tier not in ("quick", "thorough"):
        tier = "quick"
    replay = sys.argv[sys.argv.index("--replay") + 1] if "--replay" in sys.argv else None
    seed = int(os.environ.get("VERIF_SEED", "1"))
    sys.exit(run(tier, seed, replay))
