From Coq Require Import List Arith Bool Lia.
Import ListNotations.
Require Import WS WSproof WSnfproof WSenc1.

Definition is_strb (x : item) := match x with IStr _ => true | _ => false end.
Definition is_ISpos (x : item) := match x with IS n => 1 <=? n | _ => false end.

(* well-formed output of _sub_merge_spaces; [open] allows the last text item to end with one space *)
Fixpoint W (open : bool) (l : list item) : bool :=
  match l with
  | [] => true
  | IStr s :: r => negb (is_nil s) && no_dsp s && negb (starts_sp s)
                   && (if lastsp s then match r with [] => open | x :: _ => is_ISpos x end else true)
                   && negb (hd_str r) && W open r
  | IS n :: r => (1 <=? n) && W open r
  | _ :: r => false
  end.
(* a prefix is well formed given the item that follows it *)
Fixpoint Wp (pre : list item) (nxt : item) : bool :=
  match pre with
  | [] => true
  | IStr s :: r => negb (is_nil s) && no_dsp s && negb (starts_sp s)
                   && (if lastsp s then match r with [] => is_ISpos nxt | x :: _ => is_ISpos x end else true)
                   && negb (match r with [] => is_strb nxt | _ => hd_str r end) && Wp r nxt
  | IS n :: r => (1 <=? n) && Wp r nxt
  | _ :: r => false
  end.

Lemma W_split open pre x l : W open (pre ++ x :: l) = Wp pre x && W open (x :: l).
Proof.
  induction pre as [|y pre IH]; [reflexivity|].
  destruct y as [s|n| | |k t]; cbn [app W Wp]; try reflexivity.
  - rewrite IH. destruct pre as [|z pre']; cbn [app hd_str].
    + destruct x; cbn [is_strb hd_str]; rewrite <- ?andb_assoc; reflexivity.
    + rewrite <- ?andb_assoc; reflexivity.
  - rewrite IH, andb_assoc. reflexivity.
Qed.

Lemma Wp_cls pre x y : is_strb x = is_strb y -> is_ISpos x = is_ISpos y -> Wp pre x = Wp pre y.
Proof.
  intros H1 H2. induction pre as [|z pre IH]; [reflexivity|].
  destruct z; cbn [Wp]; try reflexivity; rewrite IH; destruct pre; rewrite ?H1, ?H2; reflexivity.
Qed.

Lemma merge_text_snoc_str pre w t : merge_text (pre ++ [IStr w]) t = pre ++ [IStr (w ++ t)].
Proof.
  induction pre as [|x pre IH]; [reflexivity|].
  destruct pre as [|y pre'].
  - cbn [app]. rewrite merge_text_cons2. reflexivity.
  - cbn [app] in *. rewrite merge_text_cons2. now rewrite IH.
Qed.
Lemma merge_text_snoc_IS pre n t : merge_text (pre ++ [IS n]) t = pre ++ [IS n; IStr t].
Proof.
  induction pre as [|x pre IH]; [reflexivity|].
  destruct pre as [|y pre'].
  - cbn [app]. rewrite merge_text_cons2. reflexivity.
  - cbn [app] in *. rewrite merge_text_cons2. now rewrite IH.
Qed.

(* string facts *)
Lemma lastsp_app_sp w : lastsp (w ++ [Sp]) = true.
Proof. induction w as [|t w IH]; [reflexivity|]. destruct w; [reflexivity|]. cbn [app lastsp] in *. exact IH. Qed.
Lemma lastsp_app_ne w c : c <> [] -> lastsp (w ++ c) = lastsp c.
Proof.
  intros Hc. induction w as [|t w IH]; [reflexivity|].
  cbn [app]. destruct (w ++ c) as [|x l] eqn:E.
  - apply app_eq_nil in E as [_ E]. congruence.
  - cbn [lastsp]. exact IH.
Qed.
Lemma nosp_lastsp c : nosp c = true -> lastsp c = false.
Proof.
  induction c as [|t c IH]; [reflexivity|]. intros H. unfold nosp in *. cbn [forallb] in H.
  apply andb_true_iff in H as [Ht Hc]. destruct c as [|u c']; [destruct t; cbn in *; congruence|].
  cbn [lastsp]. apply IH. exact Hc.
Qed.
Lemma nosp_no_dsp c : nosp c = true -> no_dsp c = true.
Proof.
  induction c as [|t c IH]; [reflexivity|]. intros H. unfold nosp in *. cbn [forallb] in H.
  apply andb_true_iff in H as [Ht Hc]. destruct t; cbn in Ht; try discriminate; cbn [no_dsp]; auto.
Qed.
Lemma nosp_starts c : nosp c = true -> starts_sp c = false.
Proof. destruct c as [|[| | |] c]; cbn; intros; congruence. Qed.
Lemma starts_app w c : w <> [] -> starts_sp (w ++ c) = starts_sp w.
Proof. destruct w; [congruence|reflexivity]. Qed.
Lemma is_nil_app {A} (w c : list A) : w <> [] -> is_nil (w ++ c) = false.
Proof. destruct w; [congruence|reflexivity]. Qed.
(* no double space survives appending when the seam is safe *)
Lemma no_dsp_app w c : no_dsp w = true -> no_dsp c = true -> (lastsp w = true -> starts_sp c = false) -> no_dsp (w ++ c) = true.
Proof.
  induction w as [|t w IH]; intros Hw Hc Hs; [exact Hc|].
  destruct w as [|u w'].
  - cbn [app]. destruct t; cbn [no_dsp]; try exact Hc; try (destruct c; exact Hc).
    specialize (Hs eq_refl). destruct c as [|[| | |] c']; cbn in *; try discriminate; auto.
  - assert (IH' : no_dsp ((u :: w') ++ c) = true).
    { apply IH; auto. destruct t; cbn [no_dsp] in Hw; auto. destruct u; try discriminate; auto. }
    cbn [app] in *. destruct t; cbn [no_dsp]; auto. destruct u; cbn [no_dsp] in Hw; try discriminate; auto.
Qed.

Lemma W_false_true l : W false l = true -> W true l = true.
Proof.
  induction l as [|x l IH]; [reflexivity|].
  destruct x as [s|n| | |k t]; cbn [W]; try discriminate.
  - intros H. apply andb_true_iff in H as [H Hr]. apply andb_true_iff in H as [H Hh].
    apply andb_true_iff in H as [H Hl]. rewrite H, Hh, (IH Hr). cbn [andb]. rewrite !andb_true_r.
    destruct (lastsp s); [|reflexivity]. destruct l; [discriminate|exact Hl].
  - intros H. apply andb_true_iff in H as [H1 H2]. now rewrite H1, IH.
Qed.
