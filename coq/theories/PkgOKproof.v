(* PkgOKproof.v — the invariant of C04 on the pair (set of package files, manifest entry list), and the zip shape *)
From Coq Require Import List ZArith Bool Arith Lia.
Import ListNotations.
Require Import Package PkgManproof PkgZipproof.
Open Scope Z_scope.

(* files : which names are files of the package (not mimetype, not the manifest, not directories) *)
Definition coherent (files : name -> bool) (es : mentries) : Prop :=
  NoDup (declared es) /\ forall n, In n (declared es) <-> (is_dir n = false /\ files n = true).

Lemma declared_app : forall a b, declared (a ++ b) = declared a ++ declared b.
Proof. intros. unfold declared. rewrite map_app, filter_app. reflexivity. Qed.
Lemma declared_names : forall es es', map fst es' = map fst es -> declared es' = declared es.
Proof. intros es es' H. unfold declared. rewrite H. reflexivity. Qed.
Lemma in_declared : forall n es, In n (declared es) <-> (is_dir n = false /\ In n (map fst es)).
Proof. intros. unfold declared. rewrite filter_In. split; intros [A B]; split; auto; destruct (is_dir n); auto; discriminate. Qed.

Lemma all_mt_app : forall a b, all_mt (a ++ b) = all_mt a && all_mt b.
Proof. intros. unfold all_mt. apply forallb_app. Qed.

Lemma m_add_all_mt : forall p m es, m <> NOMT -> all_mt es = true -> all_mt (m_add true p m es) = true.
Proof.
  intros p m es Hm Ha. unfold m_add. destruct (m_get p es) eqn:G.
  - destruct (m_set p m es) as [es'|] eqn:S; [|exact Ha]. eapply m_set_all_mt; eauto.
  - rewrite all_mt_app, Ha. cbn. rewrite andb_true_r. apply negb_true_iff, Z.eqb_neq, Hm.
Qed.

(* repaired add_full_path on a coherent pair: the new file is listed, once *)
Lemma add_coherent : forall files es n m, coherent files es -> all_mt es = true -> is_dir n = false ->
  coherent (fun k => (k =? n) || files k) (m_add true n m es).
Proof.
  intros files es n m [Hnd Hin] Ha Hd.
  assert (Hnames := m_add_fixed_names n m es Ha).
  destruct (memz n (map fst es)) eqn:M.
  - assert (D : declared (m_add true n m es) = declared es) by (apply declared_names; exact Hnames).
    unfold coherent. rewrite D. split; [exact Hnd|]. intros k. rewrite Hin. split; intros [A B]; split; auto.
    + rewrite B. apply orb_true_r.
    + apply orb_true_iff in B as [B|B]; [|exact B]. apply Z.eqb_eq in B. subst k.
      apply memz_In in M. apply Hin. apply in_declared. auto.
  - assert (D : declared (m_add true n m es) = declared es ++ [n]).
    { unfold declared. rewrite Hnames, filter_app. cbn. rewrite Hd. reflexivity. }
    unfold coherent. rewrite D. split.
    + apply NoDup_snoc; [exact Hnd|]. intros X. apply in_declared in X as [_ X]. apply memz_In in X. congruence.
    + intros k. rewrite in_app_iff, Hin. cbn. split.
      * intros [[A B]|[<-|[]]]; split; auto; [rewrite B; apply orb_true_r|rewrite Z.eqb_refl; reflexivity].
      * intros [A B]. apply orb_true_iff in B as [B|B]; [right; left; apply Z.eqb_eq in B; auto|left; auto].
Qed.

Lemma m_del_names : forall n es es', NoDup (map fst es) -> m_del n es = Some es' ->
  NoDup (map fst es') /\ forall k, In k (map fst es') <-> (k <> n /\ In k (map fst es)).
Proof.
  induction es as [|[q m0] r IH]; cbn [m_del]; intros es' Hn H; [discriminate|].
  cbn [map fst] in Hn. inversion Hn; subst.
  destruct (q =? n) eqn:E.
  - apply Z.eqb_eq in E. subst q. inversion H; subst es'. split; [assumption|]. intros k. cbn [map fst In]. split.
    + intros Hk. split; [intros ->; contradiction|auto].
    + intros [A [B|B]]; [congruence|exact B].
  - apply Z.eqb_neq in E. destruct (m_del n r) as [r'|] eqn:D; [|discriminate]. inversion H; subst es'.
    destruct (IH r' H3 eq_refl) as [N I]. cbn [map fst]. split.
    + constructor; [|exact N]. intros X. apply I in X as [_ X]. contradiction.
    + intros k. cbn [In]. rewrite I. split.
      * intros [<-|[A B]]; [split; [exact E|auto]|split; auto].
      * intros [A [B|B]]; auto.
Qed.

(* repaired del_part on a coherent pair whose entry paths are unique: the entry goes with the file *)
Lemma del_coherent : forall files es n, coherent files es -> NoDup (map fst es) ->
  coherent (fun k => negb (k =? n) && files k) (match m_del n es with Some es' => es' | None => es end).
Proof.
  intros files es n [Hnd Hin] Hn.
  destruct (m_del n es) as [es'|] eqn:D.
  - destruct (m_del_names n es es' Hn D) as [N I]. split.
    + unfold declared. apply NoDup_filter. exact N.
    + intros k. rewrite in_declared, I. split.
      * intros [A [B C]]. assert (X : In k (declared es)) by (apply in_declared; auto). apply Hin in X as [_ X].
        split; [exact A|]. rewrite X. apply Z.eqb_neq in B. rewrite B. reflexivity.
      * intros [A B]. apply andb_true_iff in B as [B C]. apply negb_true_iff, Z.eqb_neq in B.
        assert (X : In k (declared es)) by (apply Hin; auto). apply in_declared in X as [_ X]. auto.
  - (* no such entry: then the path was not a listed file either *)
    assert (Hno : ~ In n (map fst es)).
    { clear - D. induction es as [|[q m0] r IH]; cbn in *; [tauto|]. destruct (q =? n) eqn:E; [discriminate|].
      apply Z.eqb_neq in E. destruct (m_del n r); [discriminate|]. intros [X|X]; [congruence|tauto]. }
    split; [exact Hnd|]. intros k. rewrite Hin. split.
    + intros [A B]. split; [exact A|]. rewrite B, andb_true_r. apply negb_true_iff, Z.eqb_neq. intros ->.
      apply Hno. assert (X : In n (declared es)) by (apply Hin; auto). apply in_declared in X. tauto.
    + intros [A B]. apply andb_true_iff in B as [_ B]. auto.
Qed.

(* F10 / F11 on the pinned code *)
Lemma add_pinned_incoherent : exists files es n m, coherent files es /\ all_mt es = true /\ is_dir n = false /\
  ~ coherent (fun k => (k =? n) || files k) (m_add false n m es).
Proof.
  exists (fun k => k =? 1000), [(1000, 7)], 1000, 7.
  split; [|split; [reflexivity|split; [reflexivity|]]].
  - split; [repeat constructor; cbn; tauto|]. intros k. cbn. split.
    + intros [<-|[]]. split; reflexivity.
    + intros [_ H]. left. apply Z.eqb_eq in H. auto.
  - intros [H _]. cbn in H. inversion H; subst. apply H2. left. reflexivity.
Qed.

(* ---------- the zip ---------- *)
Section Zip.
Variable xml bytes : Type.
Variable par : bytes -> xml.
Variable entries : xml -> mentries.
Variable mime : bytes -> mtype.

(* the container is coherent with the manifest it holds *)
Definition CPkgOK (c : container bytes) : Prop :=
  NoDup (map fst (parts _ c)) /\
  exists mb manb, lookup MIMETYPE (live _ c) = Some mb /\ lookup MANIFEST (live _ c) = Some manb /\
    coherent (fun n => negb (n =? MIMETYPE) && negb (n =? MANIFEST) && match lookup n (live _ c) with Some _ => true | None => false end)
             (entries (par manb)) /\
    m_get ROOT (entries (par manb)) = Some (mime mb).

Definition ZipShape (es : list (name * bool * bytes)) : Prop :=
  (exists mb r, es = (MIMETYPE, true, mb) :: r /\
     exists manb, lookup MANIFEST (zip_plain _ es) = Some manb /\
       coherent (fun n => negb (n =? MIMETYPE) && negb (n =? MANIFEST) && match lookup n (zip_plain _ es) with Some _ => true | None => false end)
                (entries (par manb)) /\
       m_get ROOT (entries (par manb)) = Some (mime mb))
  /\ NoDup (map (fun e : name * bool * bytes => fst (fst e)) es).

Theorem zip_shape : forall c es, CPkgOK c -> save_zip _ c = Some es -> ZipShape es.
Proof.
  intros c es [Hk [mb [manb [Hm [Hman [Hco Hroot]]]]]] Hs.
  pose proof (save_zip_lookup bytes c es Hs) as L.
  destruct (save_zip_first bytes c es Hs) as [mb' [r [E Hm']]]. rewrite Hm in Hm'. inversion Hm'; subst mb'.
  split; [|apply (save_zip_nodup bytes c es Hk Hs)].
  exists mb, r. split; [exact E|]. exists manb. split; [rewrite L; exact Hman|]. split; [|exact Hroot].
  destruct Hco as [A B]. split; [exact A|]. intros n. rewrite B, L. reflexivity.
Qed.
End Zip.
