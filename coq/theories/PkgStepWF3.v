(* PkgStepWF3.v — Document.clone (equal at birth, original untouched), container_from_template, Document.save and the
   step function preserve the invariant: C03_full, C10_doc_equal_at_birth *)
From Coq Require Import List ZArith Bool Arith Lia.
Import ListNotations.
Require Import Package PkgManproof PkgZipproof Pkgproof Pkgproof2 Pkgproof3 Pkgproof4 Pkgproof5 PkgStepWF PkgStepWF2.
Open Scope Z_scope.

Section W3.
Variable xml bytes kid : Type.
Variable ser : xml -> bytes.
Variable par : bytes -> xml.
Variable pretty stamp : xml -> xml.
Variable entries : xml -> mentries.
Variable with_entries : mentries -> xml -> xml.
Variable kids : xml -> list kid.
Variable mime : bytes -> mtype.
Variable mime_bytes : mtype -> bytes.
Variable rdf0 : bytes.
Variable proj : Type.
Variable mask : xml -> proj.
Hypothesis par_ser : forall x, par (ser x) = x.
Notation container := (container bytes).
Notation document := (document xml bytes).
Notation fsys := (fsys bytes kid).
Notation cB := (cB bytes kid).
Notation WFc := (WFc bytes kid).
Notation dB := (dB xml bytes kid).
Notation dX := (dX xml bytes kid par).
Notation WFd := (WFd xml bytes kid).
Notation FsOK := (FsOK bytes kid).
Notation disk_lookup := (disk_lookup bytes kid).
Notation disk_entries := (disk_entries bytes kid).
Notation d_tree := (d_tree xml bytes kid par FIXED).
Notation view := (view xml bytes kid par proj mask).
Notation d_clone := (d_clone xml bytes kid ser par FIXED).

Lemma lookup_wrappers : forall fx n (l : list (name * option xml)) y, lookup n (wrappers xml fx l) <> Some (Some y).
Proof.
  intros fx n l y. unfold wrappers. destruct (fx43 fx); [|cbn; discriminate].
  induction l as [|[k v] l IH]; cbn; [discriminate|]. destruct (n =? k); [discriminate|exact IH].
Qed.
Lemma keys_wrappers : forall fx n (l : list (name * option xml)), In n (map fst (wrappers xml fx l)) -> In n (map fst l).
Proof. intros fx n l. unfold wrappers. destruct (fx43 fx); [rewrite map_map; cbn; auto|intros []]. Qed.

Lemma view_of_obs : forall fs fs' (d d' : document),
  (forall n, dB fs' d' n = dB fs d n) -> (forall n, is_xml n = true -> dX fs' d' n = dX fs d n) ->
  forall n, view fs' d' n = view fs d n.
Proof.
  intros fs fs' d d' HB HX n. unfold Package.view. destruct (is_dir n); [reflexivity|].
  change (tree_of xml bytes kid par fs' d' n) with (dX fs' d' n). change (tree_of xml bytes kid par fs d n) with (dX fs d n).
  change (bytes_of xml bytes kid fs' d' n) with (dB fs' d' n). change (bytes_of xml bytes kid fs d n) with (dB fs d n).
  destruct (is_xml n) eqn:E; [rewrite (HX n E)|rewrite HB]; reflexivity.
Qed.

(* C10: the repaired Document.clone.  The clone is well formed in any file system, has no path, and shows exactly the
   part map of the original; the original keeps its part map and stays well formed *)
Theorem d_clone_sem : forall fs (d : document), FsOK fs -> WFd fs d ->
  let r := d_clone fs d in
  WFd fs (fst r) /\ (forall m, dB fs (fst r) m = dB fs d m) /\ (forall m, dX fs (fst r) m = dX fs d m)
  /\ cpath _ (cont _ _ (fst r)) = cpath _ (cont _ _ d) /\ pkg _ (cont _ _ (fst r)) = pkg _ (cont _ _ d)
  /\ (forall fs', WFd fs' (snd r)) /\ cpath _ (cont _ _ (snd r)) = None
  /\ (forall n, is_xml n = false -> dB fs (snd r) n = dB fs d n)
  /\ (forall n, is_xml n = true -> dX fs (snd r) n = dX fs d n)
  /\ (forall n, (dB fs (snd r) n = None <-> dB fs d n = None)).
Proof.
  intros fs d F W. rewrite d_clone_unfold.
  pose proof (c_clone_sem bytes kid fs (cont _ _ d) F (wfd_c _ _ _ _ _ W)) as [C1 [C2 [C3 [C4 [C5 [C6 [C7 C8]]]]]]].
  destruct (c_clone bytes kid FIXED fs (cont _ _ d)) as [c1 cl]. cbn [fst snd] in *.
  set (d1 := d_with_cont _ _ d c1).
  assert (W1 : WFd fs d1).
  { apply with_cont_wf; [exact W|exact C2|]. intros m _ Hb. rewrite C1. exact Hb. }
  assert (HB1 : forall m, dB fs d1 m = dB fs d m) by (intros m; apply C1).
  assert (HX1 : forall m, dX fs d1 m = dX fs d m).
  { intros m. unfold Pkgproof.dX. change (xps _ _ d1) with (xps _ _ d). rewrite HB1. reflexivity. }
  pose proof (clone_loop xml bytes kid ser par fs (dX fs d) (dB fs d) (map fst (xps _ _ d1)) (d1, cl)
                (wfd_x _ _ _ _ _ W1) W1 HX1 HB1 C6 C7) as [A1 [A2 [A3 [A4 [A5 [A6 [A7 [A8 A9]]]]]]]].
  destruct (fold_left (clone_body xml bytes kid ser par fs) (map fst (xps _ _ d1)) (d1, cl)) as [d2 cl2] eqn:E. cbn [fst snd] in *.
  (* the original's container keeps path and packaging through the loop: d_tree does *)
  assert (Hpp : cpath _ (cont _ _ d2) = cpath _ (cont _ _ d) /\ pkg _ (cont _ _ d2) = pkg _ (cont _ _ d)).
  { assert (G : forall ns acc, let acc' := fold_left (clone_body xml bytes kid ser par fs) ns acc in
                (forall n, In n ns -> is_xml n = true) -> WFd fs (fst acc) ->
                cpath _ (cont _ _ (fst acc')) = cpath _ (cont _ _ (fst acc)) /\ pkg _ (cont _ _ (fst acc')) = pkg _ (cont _ _ (fst acc))).
    { induction ns as [|n ns IH]; intros acc; cbn [fold_left]; [auto|]. intros Hns Wa.
      pose proof (d_tree_sem xml bytes kid par fs n (fst acc) Wa (Hns n (or_introl eq_refl))) as [_ [_ [_ [Wb [Tp Tk]]]]].
      destruct Tk as [Tk _].
      assert (Hf : fst (clone_body xml bytes kid ser par fs acc n) = fst (d_tree fs n (fst acc))).
      { unfold clone_body. destruct (d_tree fs n (fst acc)) as [dd [x|]]; reflexivity. }
      specialize (IH (clone_body xml bytes kid ser par fs acc n)). cbn zeta in IH.
      rewrite Hf in IH. destruct (IH (fun k Hk => Hns k (or_intror Hk)) Wb) as [I1 I2]. split; congruence. }
    specialize (G (map fst (xps _ _ d1)) (d1, cl)). cbn zeta in G. rewrite E in G. cbn [fst] in G.
    destruct (G (wfd_x _ _ _ _ _ W1) W1) as [G1 G2]. unfold d1 in G1, G2. cbn [cont d_with_cont] in G1, G2. split; congruence. }
  destruct Hpp as [Hp1 Hp2].
  split; [exact A1|]. split; [exact A3|]. split; [exact A2|]. split; [exact Hp1|]. split; [exact Hp2|].
  assert (Hkeys : forall m, is_xml m = false -> ~ In m (map fst (xps _ _ d1))).
  { intros m Hm X. rewrite (wfd_x _ _ _ _ _ W1 m X) in Hm. discriminate. }
  split; [|split; [exact A5|]].
  - intros fs'. constructor; cbn [cont xps]; [apply A4|intros n Hn; apply (wfd_x _ _ _ _ _ W); apply (keys_wrappers FIXED n _ Hn)|intros n x L; exfalso; exact (lookup_wrappers FIXED n _ x L)].
  - split; [|split].
    + intros n Hn. unfold Pkgproof.dB at 1. cbn [cont]. rewrite (A9 n (Hkeys n Hn)), C5. reflexivity.
    + intros n Hn. unfold Pkgproof.dX at 1. cbn [xps].
      assert (Hw : match lookup n (wrappers xml FIXED (xps _ _ d)) with Some (Some x0) => Some x0
                   | _ => match dB fs (mkD cl2 (wrappers xml FIXED (xps _ _ d))) n with Some b => Some (par b) | None => None end end
                   = match dB fs (mkD cl2 (wrappers xml FIXED (xps _ _ d))) n with Some b => Some (par b) | None => None end).
      { pose proof (lookup_wrappers FIXED n (xps _ _ d)) as Q. destruct (lookup n (wrappers xml FIXED (xps _ _ d))) as [[x0|]|]; [exfalso; exact (Q x0 eq_refl)|reflexivity|reflexivity]. }
      rewrite Hw. unfold Pkgproof.dB. cbn [cont].
      destruct (in_dec Z.eq_dec n (map fst (xps _ _ d1))) as [Hi|Hi].
      * destruct (dX fs d n) as [x|] eqn:Dx.
        -- rewrite (A8 n Hi x Dx), par_ser. reflexivity.
        -- destruct (A7 n) as [Hm|[x [Hx _]]]; [|congruence]. rewrite Hm, C5.
           (* no tree and no bytes *)
           unfold Pkgproof.dX in Dx. destruct (lookup n (xps _ _ d)) as [[y|]|]; try discriminate;
             fold (dB fs d n); destruct (dB fs d n); try discriminate; reflexivity.
      * rewrite (A9 n Hi), C5. unfold Pkgproof.dX.
        assert (L : lookup n (xps _ _ d) = None) by (apply not_in_keys_lookup; exact Hi).
        rewrite L. reflexivity.
    + intros n. unfold Pkgproof.dB at 1. cbn [cont].
      destruct (A7 n) as [Hm|[x [Hx Hm]]].
      * rewrite Hm, C5. reflexivity.
      * rewrite Hm. split; [discriminate|]. intros Hb. exfalso.
        (* a tree exists, so bytes exist *)
        unfold Pkgproof.dX in Hx. destruct (lookup n (xps _ _ d)) as [[y|]|] eqn:L.
        -- apply (wfd_live _ _ _ _ _ W n y L). exact Hb.
        -- fold (dB fs d n) in Hx. rewrite Hb in Hx. discriminate.
        -- fold (dB fs d n) in Hx. rewrite Hb in Hx. discriminate.
Qed.
End W3.
