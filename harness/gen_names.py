"""Stand-alone generator (no arguments): reads the character classes of _RE_TABLE_NAME, forbidden_in_named_range()
and str.isspace from the odfdo source selected by $ODFDO_REPO (default /repo) and writes coq/theories/Gen_Names.v
(the classes) and coq/theories/Gen_Namesok.v (the finite obligations tying them to the specification of C07).
Fail-closed: an unexpected shape of the pattern raises and the script exits non-zero.
Run by ./setup.sh before make and by ./check C07 before building the proofs."""
import string, sys
from pathlib import Path
sys.path.insert(0, str(Path(__file__).resolve().parent))
import common


def read_classes(odfdo):
    """fail-closed translator of the live character classes"""
    import odfdo.table as T
    try:
        import re._parser as sp
    except ImportError:
        import sre_parse as sp
    p = sp.parse(T._RE_TABLE_NAME.pattern)
    if T._RE_TABLE_NAME.flags & ~32:       # only re.UNICODE
        raise ValueError('unexpected flags on _RE_TABLE_NAME')
    items = list(p)
    if len(items) != 1 or str(items[0][0]) != 'BRANCH':
        raise ValueError('_RE_TABLE_NAME is not an alternation: %r' % (items,))
    fa, ff, fl = [], [], []
    for alt in items[0][1][1]:
        alt = list(alt)
        ops = [str(o) for o, _ in alt]
        if ops == ['AT', 'LITERAL'] and str(alt[0][1]) == 'AT_BEGINNING': ff.append(alt[1][1])
        elif ops == ['LITERAL', 'AT'] and str(alt[1][1]) == 'AT_END': fl.append(alt[0][1])
        elif ops == ['LITERAL']: fa.append(alt[0][1])
        elif ops == ['IN']:
            for o, v in alt[0][1]:
                if str(o) == 'LITERAL': fa.append(v)
                elif str(o) == 'RANGE': fa.extend(range(v[0], v[1] + 1))
                else: raise ValueError('unexpected class item %r' % ((o, v),))
        else:
            raise ValueError('unexpected alternative %r' % (alt,))
    space = [c for c in range(0x110000) if chr(c).isspace()]
    nrf = sorted(ord(c) for c in T.forbidden_in_named_range())
    return dict(fa=fa, ff=ff, fl=fl, space=space, nrf=nrf,
                letters=[ord(c) for c in string.ascii_letters], digits=[ord(c) for c in string.digits])


# ------------------------------------------------------------------ the NamedRange.name rule, re-derived from the live setter
SCANNER_TEMPLATE = '''
step = ""
for x in name:
    if x in LETTERS and step in ("", "A"):
        step = "A"
        continue
    elif step in ("A", "A1") and x in DIGITS:
        step = "A1"
        continue
    else:
        step = ""
        break
if step == "A1":
    raise ValueError("")
'''


def _ranges(codes):
    out = []
    for c in sorted(codes):
        if out and out[-1][1] == c - 1: out[-1][1] = c
        else: out.append([c, c])
    return [tuple(r) for r in out]


def _norm_block(stmts, holes):
    """alpha-normalised dump of a statement list: variable names, string constants and the expressions standing in the
    two class positions (x in <expr>) are replaced by placeholders; returns (dump, [class expressions in order])"""
    import ast, copy
    stmts = copy.deepcopy(stmts)
    names, consts, classes = {}, {}, []

    class N(ast.NodeTransformer):
        def visit_Compare(self, node):
            # "x in <class expression>": keep the shape, lift the expression out
            if len(node.ops) == 1 and isinstance(node.ops[0], ast.In) and isinstance(node.left, ast.Name) \
                    and not isinstance(node.comparators[0], ast.Tuple):
                classes.append(node.comparators[0])
                node.comparators = [ast.Name(id='CLASS%d' % (len(classes) - 1), ctx=ast.Load())]
                node.left = self.visit(node.left)
                return node
            return self.generic_visit(node)

        def visit_Name(self, node):
            if node.id in ('ValueError',) or node.id.startswith('CLASS'):
                return node
            node.id = names.setdefault(node.id, 'V%d' % len(names))
            return node

        def visit_Constant(self, node):
            if isinstance(node.value, str):
                node.value = consts.setdefault(node.value, 'K%d' % len(consts))
            return node

        def visit_Raise(self, node):
            return ast.Raise(exc=None, cause=None)
    out = [N().visit(st) for st in stmts]
    return '\n'.join(ast.dump(st) for st in out), classes


def _regex_shape(pattern, flags):
    """re.fullmatch(pattern, name) as a list of (set of code points, 'one' | 'plus'); fail-closed"""
    try:
        import re._parser as sp
    except ImportError:
        import sre_parse as sp
    import re
    if flags & ~re.UNICODE:
        raise ValueError('unexpected flags on %r' % pattern)
    allc = range(0x110000)

    def cls_of(op, av):
        op = str(op)
        if op == 'LITERAL': return {av}
        if op == 'NOT_LITERAL': return set(allc) - {av}
        if op == 'ANY': return set(allc) - {10}
        if op == 'IN':
            neg, acc = False, set()
            for o, v in av:
                o = str(o)
                if o == 'NEGATE': neg = True
                elif o == 'LITERAL': acc.add(v)
                elif o == 'RANGE': acc.update(range(v[0], v[1] + 1))
                elif o == 'CATEGORY': acc |= cat(str(v))
                else: raise ValueError('unexpected class item %r in %r' % ((o, v), pattern))
            return set(allc) - acc if neg else acc
        if op == 'CATEGORY': return cat(str(av))
        raise ValueError('unexpected item %r in %r' % ((op, av), pattern))

    def cat(name):
        tests = {'CATEGORY_DIGIT': str.isdecimal, 'CATEGORY_SPACE': str.isspace,
                 'CATEGORY_WORD': lambda ch: ch.isalnum() or ch == '_'}
        pos = name.replace('CATEGORY_NOT_', 'CATEGORY_')
        if pos not in tests: raise ValueError('unexpected category %s in %r' % (name, pattern))
        s_ = {c for c in allc if tests[pos](chr(c))}
        return set(allc) - s_ if 'NOT_' in name else s_
    items = []
    for op, av in sp.parse(pattern, flags):
        if str(op) == 'MAX_REPEAT':
            lo, hi, sub = av
            sub = list(sub)
            if lo != 1 or str(hi) != 'MAXREPEAT' or len(sub) != 1:
                raise ValueError('unexpected repetition in %r' % pattern)
            items.append((cls_of(*sub[0]), 'plus'))
        else:
            items.append((cls_of(op, av), 'one'))
    for (a, qa), (b, qb) in zip(items, items[1:]):
        if qa == 'plus' and a & b:
            raise ValueError('adjacent classes of %r overlap: greedy matching would not be exact' % pattern)
    # cross-check the translation against the regex engine on strings over the class boundaries
    import random
    rng = random.Random(0)
    pool = sorted({c for cl, _ in items for r in _ranges(cl)[:6] for c in (r[0], r[1])} | {48, 65, 95, 0x663, 0xff11, 0x1d7d0})
    rx = re.compile(pattern, flags)
    for _ in range(4000):
        s_ = [rng.choice(pool) for _ in range(rng.randint(0, 6))]
        if bool(rx.fullmatch(''.join(map(chr, s_)))) != _py_match(items, s_):
            raise ValueError('translation of %r disagrees with re on %r' % (pattern, s_))
    return items


def _members(coll):
    """code points c with chr(c) in coll, for a finite container of one-character strings (or a str)"""
    if isinstance(coll, (str, set, frozenset, list, tuple)) and all(isinstance(ch, str) and len(ch) == 1 for ch in coll):
        return {ord(ch) for ch in coll}
    return {c for c in range(0x110000) if chr(c) in coll}


def _py_match(items, s):
    i = 0
    for cl, q in items:
        if i >= len(s) or s[i] not in cl: return False
        i += 1
        if q == 'plus':
            while i < len(s) and s[i] in cl: i += 1
    return i == len(s)


def read_nr_rule(T):
    """(char-reject ranges, first-char-reject ranges, [shape = [(ranges, 'one'|'plus')]]) of the NamedRange.name setter"""
    import ast, inspect, textwrap, re
    fn = ast.parse(textwrap.dedent(inspect.getsource(T.NamedRange.name.fset))).body[0]
    ns = dict(vars(T))
    param = fn.args.args[1].arg
    body = list(fn.body)
    if body and isinstance(body[0], ast.Expr) and isinstance(getattr(body[0], 'value', None), ast.Constant):
        body = body[1:]

    def is_raise_if(st):
        return isinstance(st, ast.If) and not st.orelse and len(st.body) == 1 and isinstance(st.body[0], ast.Raise)

    def ev(expr, **env):
        return eval(compile(ast.Expression(expr), '<setter>', 'eval'), ns, env)
    charrej, firstrej, shapes = set(), set(), []
    # 1. name = name.strip() ; if not name: raise
    st = body.pop(0)
    if ast.dump(st) != ast.dump(ast.parse('%s = %s.strip()' % (param, param)).body[0]):
        raise ValueError('setter does not start with %s = %s.strip()' % (param, param))
    st = body.pop(0)
    if not (is_raise_if(st) and ast.dump(st.test) == ast.dump(ast.parse('not %s' % param, mode='eval').body)):
        raise ValueError('missing empty-name test')
    tmpl_dump, _ = _norm_block(ast.parse(SCANNER_TEMPLATE).body, None)
    while body:
        st = body[0]
        if isinstance(st, ast.With) or (isinstance(st, ast.Expr) and 'set_attribute' in ast.dump(st)):
            break           # the part that stores the name
        if isinstance(st, ast.For) and isinstance(st.target, ast.Name) and ast.dump(st.iter) == ast.dump(ast.Name(id=param, ctx=ast.Load())) \
                and all(is_raise_if(b) for b in st.body) and not st.orelse:
            # per-character reject tests: evaluated on every code point, whatever their shape
            var = st.target.id
            test = ast.BoolOp(op=ast.Or(), values=[b.test for b in st.body]) if len(st.body) > 1 else st.body[0].test
            fn_ = eval(compile(ast.fix_missing_locations(ast.Expression(ast.Lambda(
                args=ast.arguments(posonlyargs=[], args=[ast.arg(arg=var)], kwonlyargs=[], kw_defaults=[], defaults=[]), body=test))), '<setter>', 'eval'), ns)
            charrej |= {c for c in range(0x110000) if fn_(chr(c))}
            body.pop(0); continue
        if is_raise_if(st) and isinstance(st.test, ast.Compare) and len(st.test.ops) == 1 and isinstance(st.test.ops[0], ast.In) \
                and ast.dump(st.test.left) == ast.dump(ast.parse('%s[0]' % param, mode='eval').body):
            coll = ev(st.test.comparators[0])
            firstrej |= _members(coll)
            body.pop(0); continue
        if is_raise_if(st) and isinstance(st.test, ast.Call) and ast.dump(st.test.func) == ast.dump(ast.parse('re.fullmatch', mode='eval').body) \
                and len(st.test.args) >= 2 and isinstance(st.test.args[0], ast.Constant) and ast.dump(st.test.args[1]) == ast.dump(ast.Name(id=param, ctx=ast.Load())):
            flags = ev(st.test.args[2]) if len(st.test.args) > 2 else 0
            for kw in st.test.keywords:
                if kw.arg == 'flags': flags = ev(kw.value)
                else: raise ValueError('unexpected keyword in re.fullmatch')
            shapes.append(_regex_shape(st.test.args[0].value, int(flags) | re.UNICODE))
            body.pop(0); continue
        if len(body) >= 3:
            dump, classes = _norm_block(body[:3], None)
            if dump == tmpl_dump and len(classes) == 2:
                letters = _members(ev(classes[0]))
                digits = _members(ev(classes[1]))
                if letters & digits:
                    raise ValueError('scanner classes overlap')
                shapes.append([(letters, 'plus'), (digits, 'plus')])
                del body[:3]; continue
        raise ValueError('NamedRange.name setter: statement of unknown shape: %s' % ast.dump(st)[:200])
    return _ranges(charrej), _ranges(firstrej), [[(_ranges(cl), q) for cl, q in sh] for sh in shapes]


def write_gen(odfdo):
    c = read_classes(odfdo)
    import odfdo.table as T
    charrej, firstrej, shapes = read_nr_rule(T)
    c['nr_rule'] = dict(charrej=charrej, firstrej=firstrej, shapes=shapes)
    rl = lambda rs: '[' + ';'.join('(%d,%d)' % r for r in rs) + ']'
    sl = lambda sh: '[' + ';'.join('(%s, %s)' % (rl(cl), 'QOne' if q == 'one' else 'QPlus') for cl, q in sh) + ']'
    l = lambda xs: '[' + ';'.join(str(x) for x in xs) + ']'
    gen = ('(* GENERATED on every run of ./check C07 from the live odfdo source — do not edit, not committed *)\n'
           'From Coq Require Import List NArith Bool. Import ListNotations.\nLocal Open Scope N_scope.\n'
           'Definition gen_fa : list N := %s.\nDefinition gen_ff : list N := %s.\nDefinition gen_fl : list N := %s.\n'
           'Definition gen_space : list N := %s.\nDefinition gen_nrf : list N := %s.\n'
           'Definition gen_letters : list N := %s.\nDefinition gen_digits : list N := %s.\n'
           % (l(c['fa']), l(c['ff']), l(c['fl']), l(c['space']), l(c['nrf']), l(c['letters']), l(c['digits'])))
    gen = gen.replace('From Coq Require Import List NArith Bool. Import ListNotations.\n', 'From Coq Require Import List NArith Bool. Import ListNotations.\nRequire Import Names2.\n', 1)
    gen += ('(* the NamedRange.name rule re-derived from the live setter (per-character tests evaluated on every code point) *)\n'
            'Definition gen_nr_charrej : ranges := %s.\nDefinition gen_nr_firstrej : ranges := %s.\n'
            'Definition gen_nr_shapes : list (list ritem) := [%s].\n' % (rl(charrej), rl(firstrej), ';\n  '.join(sl(sh) for sh in shapes)))
    ok = ('(* GENERATED: the finite obligations that tie the generated classes to the specification *)\n'
          'From Coq Require Import List NArith Bool. Import ListNotations.\nRequire Import Names Namesproof Namesproof2 Names2 Names2proof Gen_Names.\nLocal Open Scope N_scope.\n'
          'Theorem gen_table_name_is_lo : forall s, table_name_ok gen_fa gen_ff gen_fl gen_space s = lo_tab_name_ok gen_space s.\n'
          'Proof. apply table_name_equiv; vm_compute; reflexivity. Qed.\nPrint Assumptions gen_table_name_is_lo.\n'
          'Theorem gen_range_name_is_lo : forall s, nr_name_ok_fixed gen_letters gen_digits gen_space s = lo_range_name_ok gen_space s.\n'
          'Proof. apply nr_fixed_equiv; vm_compute; reflexivity. Qed.\nPrint Assumptions gen_range_name_is_lo.\n'
          '(* the rule of the live setter, as derived on this run, is the rule of the specification *)\n'
          'Theorem gen_setter_rule_is_lo : forall s, nr_rule_ok gen_space gen_nr_charrej gen_nr_firstrej gen_nr_shapes s = lo_range_name_ok gen_space s.\n'
          'Proof. apply nr_rule_equiv; [reflexivity|reflexivity|first [left; reflexivity|right; reflexivity]]. Qed.\nPrint Assumptions gen_setter_rule_is_lo.\n')
    for name, txt in (('Gen_Names.v', gen), ('Gen_Namesok.v', ok)):
        p = common.TH / name
        if not p.exists() or p.read_text() != txt:
            p.write_text(txt)
    return c




if __name__ == '__main__':
    try:
        write_gen(common.use_repo())
    except Exception as e:
        print('gen_names: %r' % (e,), file=sys.stderr)
        sys.exit(1)
