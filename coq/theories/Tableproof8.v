(* Tableproof8.v — locality, proved on the specification and transported to the run-length model by step_refines:
   a cell operation changes that row / those cells only (even when the row is stored inside a repeated run — the
   statement is about every well-formed state), a column insertion or deletion shifts every row alike. *)
From Coq Require Import List ZArith Lia Bool Arith.
Import ListNotations.
Require Import Vault Vaultproof Row Table Grid Tableabs Tableproof Tableproof2 Tableproof3 Tableproof4 Tableproof5 Tableproof6.
Open Scope Z_scope.

(* the cell read at (x,y), padded with empty cells outside what is stored *)
Definition g_cell (x y : Z) (g : gridT) : cell := nth (Z.to_nat x) (g_row y g) empty_cell.

Section Lists.
Context {A : Type}.
Lemma nth_repeat_lt (c d : A) n k : (n < k)%nat -> nth n (repeat c k) d = c.
Proof. revert n; induction k; intros [|n] H; cbn; try lia; auto. apply IHk. lia. Qed.
Lemma nth_repeat_same (d : A) n k : nth n (repeat d k) d = d.
Proof. revert n; induction k; intros [|n]; cbn; auto. Qed.
Lemma nth_app_pad (l : list A) d n k : nth n (l ++ repeat d k) d = nth n l d.
Proof.
  destruct (Nat.lt_ge_cases n (length l)).
  - now rewrite app_nth1.
  - rewrite app_nth2 by lia. rewrite nth_repeat_same. now rewrite nth_overflow.
Qed.
Lemma nth_firstn_lt (l : list A) d n k : (n < k)%nat -> nth n (firstn k l) d = nth n l d.
Proof. revert n k; induction l; intros [|n] [|k] H; cbn; try lia; auto. apply IHl. lia. Qed.
Lemma nth_skipn' (l : list A) d n k : nth n (skipn k l) d = nth (k + n) l d.
Proof. revert l; induction k; intros [|a l]; cbn; auto. destruct n; reflexivity. Qed.
Lemma length_firstn_pad (l : list A) d x : length (firstn x (l ++ repeat d (x - length l))) = x.
Proof. rewrite firstn_length, app_length, repeat_length. lia. Qed.

Lemma nth_l_set_out (d c : A) x rep l n : (n < x \/ x + rep <= n)%nat -> nth n (l_set d x rep c l) d = nth n l d.
Proof.
  intros H. unfold l_set. pose proof (length_firstn_pad l d x) as HL. destruct H as [H|H].
  - rewrite app_nth1 by lia. rewrite nth_firstn_lt by lia. apply nth_app_pad.
  - rewrite app_nth2 by lia. rewrite HL. rewrite app_nth2 by (rewrite repeat_length; lia).
    rewrite repeat_length, nth_skipn'. f_equal. lia.
Qed.
Lemma nth_l_set_in (d c : A) x rep l n : (x <= n < x + rep)%nat -> nth n (l_set d x rep c l) d = c.
Proof.
  intros H. unfold l_set. pose proof (length_firstn_pad l d x) as HL.
  rewrite app_nth2 by lia. rewrite HL. rewrite app_nth1 by (rewrite repeat_length; lia). apply nth_repeat_lt. lia.
Qed.
Lemma nth_l_insert (d c : A) x rep l n :
  nth n (l_insert d x rep c l) d = if (n <? x)%nat then nth n l d else if (n <? x + rep)%nat then c else nth (n - rep) l d.
Proof.
  unfold l_insert. pose proof (length_firstn_pad l d x) as HL.
  destruct (Nat.ltb_spec n x).
  - rewrite app_nth1 by lia. rewrite nth_firstn_lt by lia. apply nth_app_pad.
  - rewrite app_nth2 by lia. rewrite HL. destruct (Nat.ltb_spec n (x + rep)).
    + rewrite app_nth1 by (rewrite repeat_length; lia). apply nth_repeat_lt. lia.
    + rewrite app_nth2 by (rewrite repeat_length; lia). rewrite repeat_length, nth_skipn'. f_equal. lia.
Qed.
Lemma nth_l_delete (d : A) x l n : (x < length l)%nat ->
  nth n (l_delete x l) d = if (n <? x)%nat then nth n l d else nth (S n) l d.
Proof.
  intros Hx. unfold l_delete. assert (HL : length (firstn x l) = x) by (rewrite firstn_length; lia).
  destruct (Nat.ltb_spec n x).
  - rewrite app_nth1 by lia. now rewrite nth_firstn_lt by lia.
  - rewrite app_nth2 by lia. rewrite HL, nth_skipn'. f_equal. lia.
Qed.
Lemma map_nth_fix (f : A -> A) l d n : f d = d -> nth n (map f l) d = f (nth n l d).
Proof. intros H. rewrite <- H at 1. apply map_nth. Qed.
End Lists.

(* ---- rows ---- *)
Lemma grows_count (b : bool) w g' : grows (if b then g_grow w g' else g_declare w g') = grows g'.
Proof. destruct b; reflexivity. Qed.
Lemma g_row_set_row_other y rep r g y' : 0 <= y -> 0 <= y' -> (y' < y \/ y + Z.of_nat rep <= y') ->
  g_row y' (g_set_row y rep r g) = g_row y' g.
Proof.
  intros Hy Hy' H. unfold g_row, g_set_row. cbv zeta. rewrite grows_count. cbn [grows].
  change (g_set_rows (Z.to_nat y) rep r (grows g)) with (l_set [] (Z.to_nat y) rep r (grows g)).
  apply nth_l_set_out. lia.
Qed.
Lemma g_row_set_row_same y rep r g y' : 0 <= y -> y <= y' < y + Z.of_nat rep -> g_row y' (g_set_row y rep r g) = r.
Proof.
  intros Hy H. unfold g_row, g_set_row. cbv zeta. rewrite grows_count. cbn [grows].
  change (g_set_rows (Z.to_nat y) rep r (grows g)) with (l_set [] (Z.to_nat y) rep r (grows g)).
  apply nth_l_set_in. lia.
Qed.

(* an edit of row y leaves every other row as it was *)
Theorem edit_row_other_rows y f g y' : 0 <= y -> 0 <= y' -> y' <> y -> g_row y' (g_edit_row y f g) = g_row y' g.
Proof. intros Hy Hy' H. unfold g_edit_row. apply g_row_set_row_other; lia. Qed.
Theorem edit_row_that_row y f g : 0 <= y -> g_row y (g_edit_row y f g) = f (g_row y g).
Proof. intros Hy. unfold g_edit_row. apply g_row_set_row_same; lia. Qed.

(* set_cell: the rep addressed cells become the new cell, every other coordinate of the table keeps its content *)
Theorem set_cell_spec_local x y c g x' y' : 0 <= x -> 0 <= y -> 0 <= x' -> 0 <= y' ->
  g_cell x' y' (g_set_cell x y c g) =
    if (y' =? y) && (x <=? x') && (x' <? x + Z.of_nat (fst c)) then snd c else g_cell x' y' g.
Proof.
  intros Hx Hy Hx' Hy'. unfold g_cell, g_set_cell.
  destruct (Z.eqb_spec y' y) as [->|Hne].
  - rewrite edit_row_that_row by lia. cbn [andb].
    destruct (Z.leb_spec x x'); destruct (Z.ltb_spec x' (x + Z.of_nat (fst c))); cbn [andb].
    + apply nth_l_set_in. lia.
    + apply nth_l_set_out. lia.
    + apply nth_l_set_out. lia.
    + apply nth_l_set_out. lia.
  - cbn [andb]. now rewrite edit_row_other_rows by lia.
Qed.

(* ---- columns: every row is shifted alike, short (ragged) rows included because reads pad with empty cells ---- *)
Theorem insert_column_shifts_every_row x rep g x' y' : 0 <= x -> 0 <= x' ->
  g_cell x' y' (g_insert_column x rep g) =
    if x' <? x then g_cell x' y' g else if x' <? x + Z.of_nat rep then empty_cell else g_cell (x' - Z.of_nat rep) y' g.
Proof.
  intros Hx Hx'. unfold g_cell, g_row, g_insert_column. cbn [grows].
  set (f := fun r : list cell => if x <? Z.of_nat (length r) then l_insert empty_cell (Z.to_nat x) rep empty_cell r else r).
  rewrite (map_nth_fix f) by (unfold f; cbn [length]; destruct (Z.ltb_spec x (Z.of_nat 0)); [lia|reflexivity]).
  set (r := nth (Z.to_nat y') (grows g) []). unfold f.
  destruct (Z.ltb_spec x (Z.of_nat (length r))) as [Hlt|Hge].
  - rewrite nth_l_insert.
    destruct (Z.ltb_spec x' x); destruct (Nat.ltb_spec (Z.to_nat x') (Z.to_nat x)); try lia; [reflexivity|].
    destruct (Z.ltb_spec x' (x + Z.of_nat rep)); destruct (Nat.ltb_spec (Z.to_nat x') (Z.to_nat x + rep)); try lia; [reflexivity|].
    f_equal. lia.
  - destruct (Z.ltb_spec x' x); [reflexivity|].
    rewrite (nth_overflow r) by lia.
    destruct (Z.ltb_spec x' (x + Z.of_nat rep)); [reflexivity|]. rewrite nth_overflow by lia. reflexivity.
Qed.
Theorem delete_column_shifts_every_row x g x' y' : 0 <= x < ncols g -> 0 <= x' ->
  g_cell x' y' (g_delete_column x g) = if x' <? x then g_cell x' y' g else g_cell (x' + 1) y' g.
Proof.
  intros Hx Hx'. unfold g_cell, g_row, g_delete_column. destruct (Z.leb_spec (ncols g) x); [lia|]. cbn [grows].
  set (f := fun r : list cell => if x <? Z.of_nat (length r) then l_delete (Z.to_nat x) r else r).
  rewrite (map_nth_fix f) by (unfold f; cbn [length]; destruct (Z.ltb_spec x (Z.of_nat 0)); [lia|reflexivity]).
  set (r := nth (Z.to_nat y') (grows g) []). unfold f.
  destruct (Z.ltb_spec x (Z.of_nat (length r))) as [Hlt|Hge].
  - rewrite nth_l_delete by lia.
    destruct (Z.ltb_spec x' x); destruct (Nat.ltb_spec (Z.to_nat x') (Z.to_nat x)); try lia; [reflexivity|]. f_equal. lia.
  - destruct (Z.ltb_spec x' x); [reflexivity|]. rewrite !(nth_overflow r) by lia. reflexivity.
Qed.

(* ---- transported to the run-length model ---- *)
Theorem set_cell_local t x y c t' : WF t -> (1 <= fst c)%nat -> t_step t (OSetCell x y c) = Some t' ->
  forall x' y', 0 <= x' -> 0 <= y' ->
  g_cell x' y' (abs_t t') =
    if (y' =? ny y t) && (nx x t <=? x') && (x' <? nx x t + Z.of_nat (fst c)) then snd c else g_cell x' y' (abs_t t).
Proof.
  intros Hwf Hc Hs x' y' Hx' Hy'. destruct (step_refines t (OSetCell x y c) Hwf Hc) as (t2 & Hs2 & _ & Ha).
  rewrite Hs in Hs2. inversion Hs2; subst t2. rewrite Ha. cbn [g_step]. rewrite gheight_abs, ncols_abs.
  apply set_cell_spec_local; auto; [apply norm_coord_nonneg, twidth_nonneg|apply norm_coord_nonneg, theight_nonneg].
Qed.
Theorem cell_ops_change_that_row_only t o y t' : WF t -> op_ok o ->
  (exists x c, o = OSetCell x y c \/ o = OInsertCell x y c \/ o = OAppendCell y c \/ o = ODeleteCell x y) ->
  t_step t o = Some t' -> forall y', 0 <= y' -> y' <> ny y t -> g_row y' (abs_t t') = g_row y' (abs_t t).
Proof.
  intros Hwf Hok (x & c & Ho) Hs y' Hy' Hne. destruct (step_refines t o Hwf Hok) as (t2 & Hs2 & _ & Ha).
  rewrite Hs in Hs2. inversion Hs2; subst t2. rewrite Ha.
  assert (Hny : 0 <= ny y t) by apply norm_coord_nonneg, theight_nonneg.
  destruct Ho as [Ho|[Ho|[Ho|Ho]]]; subst o; cbn [g_step]; rewrite gheight_abs, ?ncols_abs.
  - apply edit_row_other_rows; auto.
  - apply edit_row_other_rows; auto.
  - apply edit_row_other_rows; auto.
  - unfold g_delete_cell. destruct (gheight (abs_t t) <=? _); [reflexivity|apply edit_row_other_rows; auto].
Qed.
Theorem insert_column_shifts t x rep st t' : WF t -> (1 <= rep)%nat -> t_step t (OInsertColumn x rep st) = Some t' ->
  forall x' y', 0 <= x' ->
  g_cell x' y' (abs_t t') = if x' <? nx x t then g_cell x' y' (abs_t t)
                            else if x' <? nx x t + Z.of_nat rep then empty_cell else g_cell (x' - Z.of_nat rep) y' (abs_t t).
Proof.
  intros Hwf Hc Hs x' y' Hx'. destruct (step_refines t (OInsertColumn x rep st) Hwf Hc) as (t2 & Hs2 & _ & Ha).
  rewrite Hs in Hs2. inversion Hs2; subst t2. rewrite Ha. cbn [g_step]. rewrite ncols_abs.
  apply insert_column_shifts_every_row; auto. apply norm_coord_nonneg, twidth_nonneg.
Qed.
Theorem delete_column_shifts t x t' : WF t -> nx x t < twidth t -> t_step t (ODeleteColumn x) = Some t' ->
  forall x' y', 0 <= x' ->
  g_cell x' y' (abs_t t') = if x' <? nx x t then g_cell x' y' (abs_t t) else g_cell (x' + 1) y' (abs_t t).
Proof.
  intros Hwf Hin Hs x' y' Hx'. destruct (step_refines t (ODeleteColumn x) Hwf I) as (t2 & Hs2 & _ & Ha).
  rewrite Hs in Hs2. inversion Hs2; subst t2. rewrite Ha. cbn [g_step]. rewrite ncols_abs.
  apply delete_column_shifts_every_row; auto. split; [apply norm_coord_nonneg, twidth_nonneg|exact Hin].
Qed.

(* set_row: exactly the rep addressed rows become the new row, every other row keeps its content *)
Theorem set_row_local t y rep r t' : WF t -> (1 <= rep)%nat -> rwf r -> t_step t (OSetRow y rep r) = Some t' ->
  forall y', 0 <= y' ->
  g_row y' (abs_t t') = if (ny y t <=? y') && (y' <? ny y t + Z.of_nat rep) then grow_of r else g_row y' (abs_t t).
Proof.
  intros Hwf Hrep Hr Hs y' Hy'. destruct (step_refines t (OSetRow y rep r) Hwf (conj Hrep Hr)) as (t2 & Hs2 & _ & Ha).
  rewrite Hs in Hs2. inversion Hs2; subst t2. rewrite Ha. cbn [g_step]. rewrite gheight_abs.
  change (norm_coord y (theight t)) with (ny y t).
  assert (Hny : 0 <= ny y t) by apply norm_coord_nonneg, theight_nonneg.
  destruct (Z.leb_spec (ny y t) y'); destruct (Z.ltb_spec y' (ny y t + Z.of_nat rep)); cbn [andb].
  - apply g_row_set_row_same; lia.
  - apply g_row_set_row_other; lia.
  - apply g_row_set_row_other; lia.
  - apply g_row_set_row_other; lia.
Qed.
