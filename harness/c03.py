"""C03: saving and reopening loses nothing, in every packaging.

Theorems: coq/theories/C03.v (model Package.v).  Correspondence: histories over get_part / set_part / del_part /
add_file / XML part access and edits / save (zip, folder, flat XML; path, BytesIO, in place; pretty or not) / reopen /
clone on the four templates, every sample and generated content.  After every operation the state is abstracted from
private fields; after every save the written file is re-read with zipfile / os.walk / bare lxml (C14N, generator stamp
masked).  Coq evaluates: part map of the implementation = part map of the model's step; file read back = part map in
memory; file = the model's file."""
import sys
from pathlib import Path
sys.path.insert(0, str(Path(__file__).resolve().parent))
import common, pkglib

PROP = "C03"
LAYER = {1: "part-map: what a reader of the document in memory sees after this operation is not what the operation should leave (model's step from the same state)",
         2: "result: get_part returned other bytes / raised where the model does not",
         3: "roundtrip: the saved file, read back independently, is not the part map of the document (part lost, invented or changed)",
         4: "file: the saved file differs from the model's file",
         5: "abstraction: duplicate keys in the abstracted state",
         6: "reads-neutral: a part set in memory has no current time stamp, the next get_part replaces it by the file's content",
         7: "rdf-replaced: save replaced a manifest.rdf held in memory and listed in the manifest by the default one"}
WEIGHTS = dict(get=3, touch=4, edit=5, set=2, setxml=3, setnew=2, **{"del": 2}, addfile=2, save=7, saveself=2, reopen=6, clone=2, shrink=2, grow=1, merge=1, delpic=1, editobj=2, addobject=1, importnew=2)


def make_histories(tier, rng):
    S = pkglib.samples(common.REPO); Tm = pkglib.templates(common.REPO)
    small = [s for s in S if not s.endswith("big.ods")]
    starts = [dict(op="new", src=p, template=k) for k, p in Tm.items()]
    hs = []
    n_rand = 100 if tier == "quick" else 2400
    L = 6 if tier == "quick" else 10
    for st in starts + [dict(op="open", src=s, buf=False) for s in S] + [dict(op="open", src=s, buf=True) for s in small]:
        hs.append(pkglib.gen_history(rng, [st], WEIGHTS, L))
    # unmodified open -> save -> reopen -> save, every sample, each packaging
    for s in small:
        for pk, tg in (("zip", "buf"), ("zip", "path"), ("folder", "path")):
            hs.append([dict(op="open", src=s, buf=False), dict(op="save", packaging=pk, target=tg, pretty=False), dict(op="reopen", r=1),
                       dict(op="save", packaging="zip", target="buf", pretty=False), dict(op="reopen", r=2)])
    # a copy opened by path and saved in place after touching only some parts (lazy loading)
    for s in small[:: (3 if tier == "quick" else 1)]:
        hs.append([dict(op="open", src=s, buf=False), dict(op="save", packaging="zip", target="path", pretty=False), dict(op="reopen", r=1),
                   dict(op="touch", r=3), dict(op="edit", r=5), dict(op="saveself", r=1), dict(op="reopen", r=7), dict(op="get", r=9)])
    all_starts = starts * 5 + [dict(op="open", src=s, buf=b) for s in small for b in (False, True)]
    for _ in range(n_rand):
        hs.append(pkglib.gen_history(rng, all_starts, WEIGHTS, rng.randint(3, L + 2)))
    # edge stream: bytes given for an XML part that was / was not read before; folder packaging; flat XML
    for st in starts[:2] + [dict(op="open", src=small[3], buf=False)]:
        for first in ("touch", "get", None):
            for name in ("content.xml", "styles.xml", "meta.xml"):
                h = [dict(st)] + ([dict(op=first, name=name)] if first else []) + [dict(op="set", name=name, variant=2), dict(op="save", packaging="zip", target="buf", pretty=False), dict(op="reopen", r=1), dict(op="touch", name=name)]
                hs.append(h)
        # the body element is cached by Document: bytes set for content.xml must also replace it
        hs.append([dict(st), dict(op="edit", name="content.xml", how="par", arg="before"), dict(op="set", name="content.xml", variant=3),
                   dict(op="edit", name="content.xml", how="par", arg="after  set_part"), dict(op="save", packaging="zip", target="buf", pretty=False), dict(op="reopen", r=1)])
        hs.append([dict(st), dict(op="save", packaging="folder", target="path", pretty=False), dict(op="reopen", r=1), dict(op="set", name="content.xml", variant=1),
                   dict(op="touch", name="content.xml"), dict(op="save", packaging="zip", target="buf", pretty=False), dict(op="reopen", r=2)])
        hs.append([dict(st), dict(op="edit", name="content.xml", how="par", arg="x  y"), dict(op="save", packaging="xml", target="path", pretty=False),
                   dict(op="save", packaging="xml", target="buf", pretty=True), dict(op="save", packaging="folder", target="path", pretty=None), dict(op="reopen", r=1)])
    # repeated saves into the SAME target (buffer object, file path, folder) with the document shrinking / growing in between,
    # then reopen: the target must hold the last state only
    for st in starts + [dict(op="open", src=s, buf=b) for s in small[:: (9 if tier == "quick" else 1)] for b in (False, True)]:
        for pk, tg in (("zip", "buf"), ("zip", "path"), ("folder", "path")):
            for first, second in (("grow", "shrink"), ("shrink", "grow"), ("grow", "grow")):
                h = [dict(st), dict(op=first, r=rng.randrange(1 << 30)), dict(op="save", packaging=pk, target=tg, pretty=False),
                     dict(op=second, r=rng.randrange(1 << 30)), dict(op="shrink", r=rng.randrange(1 << 30)) if second == "shrink" else dict(op="touch", r=1),
                     dict(op="save", packaging=pk, target=tg, pretty=False, reuse=0), dict(op="reopen", r=1), dict(op="touch", name="content.xml"),
                     dict(op="get", r=rng.randrange(1 << 30)), dict(op="save", packaging=pk, target=tg, pretty=False, reuse=0), dict(op="reopen", r=1)]
                hs.append(h)
    # the real merge_styles_from (images of master-page / fill-image styles are copied) around del_part / add_file of the same names
    PIC = pkglib.POOL[0]
    A = dict(op="addfile", content=PIC, ext=".png", filelike=False)
    SVB = dict(op="save", packaging="zip", target="buf", pretty=False)
    img_samples = [s for s in S if s.endswith(("background.odp", "example.odp"))]
    for st, src in [(starts[0], dict(base="text", ext=".png", fill=[PIC], master=[PIC])), (starts[2], dict(base=img_samples[0]))] + \
                   [(dict(op="open", src=s, buf=b), dict(base=s)) for s in img_samples for b in (False, True)]:
        M = dict(op="merge", source=src)
        hs.append([dict(st), dict(M), dict(SVB), dict(op="delpic", r=3), dict(M), dict(SVB), dict(op="reopen", r=1), dict(op="get", r=5)])
        hs.append([dict(st), dict(A), dict(op="delpic", r=4), dict(M), dict(SVB), dict(op="reopen", r=1), dict(op="touch", name="styles.xml")])
    # XML parts of embedded objects (class chosen by base name): is the edit saved, in every packaging; set_part after a read
    objs = [s for s in S if s.endswith("chart.odt")]
    for st, gen in [(dict(op="open", src=s, buf=b), False) for s in objs for b in (False, True)] + [(dict(st0), True) for st0 in starts[:2]]:
        pre = [dict(op="addobject", r=1)] if gen else []
        for pk, tg in (("zip", "buf"), ("folder", "path")):
            hs.append([dict(st)] + pre + [dict(op="editobj", r=rng.randrange(1 << 30)), dict(op="save", packaging=pk, target=tg, pretty=False), dict(op="reopen", r=1),
                       dict(op="editobj", r=rng.randrange(1 << 30)), dict(op="editobj", r=rng.randrange(1 << 30)), dict(op="clone"), dict(op="save", packaging="zip", target="buf", pretty=False),
                       dict(op="reopen", r=2), dict(op="touch", r=rng.randrange(1 << 30))])
    # part names in every directory / spelling the code treats specially: set_part / import of such names on templates and samples, and
    # packages built with zipfile that already hold them (a signed document's META-INF/documentsignatures.xml ...); every packaging
    extra = [(n, "payload of " + n) for n in pkglib.SPECIAL_NAMES if not n.endswith("/")][:9] + [("EmptyDir/", "")]
    for base in small[:2]:
        for buf in (False, True):
            for pk, tg in (("zip", "buf"), ("zip", "path"), ("folder", "path")):
                hs.append([dict(op="buildopen", base=base, extra=extra, buf=buf), dict(op="get", r=rng.randrange(1 << 30)), dict(op="save", packaging=pk, target=tg, pretty=False),
                           dict(op="reopen", r=1), dict(op="importnew", r=rng.randrange(1 << 30)), dict(op="setnew", r=rng.randrange(1 << 30)),
                           dict(op="save", packaging="zip", target="buf", pretty=False), dict(op="reopen", r=2), dict(op="get", r=rng.randrange(1 << 30))])
    for st in starts[:2] + [dict(op="open", src=small[4], buf=True)]:
        for i in range(0, len(pkglib.SPECIAL_NAMES), 4):
            ops = []
            for n in pkglib.SPECIAL_NAMES[i:i + 4]:
                ops.append(dict(op="set", name=n, variant=1) if n.endswith("/") or i % 8 else dict(op="import", name=n, data="x " + n, mt="application/octet-stream"))
            hs.append([dict(st)] + ops + [dict(op="save", packaging="zip", target="buf", pretty=False), dict(op="reopen", r=1), dict(op="get", r=rng.randrange(1 << 30)),
                       dict(op="save", packaging="folder", target="path", pretty=False), dict(op="reopen", r=2), dict(op="get", r=rng.randrange(1 << 30))])
    # every accepted spelling of a part name (shortcut, "./" prefix) in get_part / set_part / del_part, then edits through doc.body /
    # doc.meta / doc.styles fetched again, save, reopen
    for st in starts[:2] + [dict(op="open", src=small[5], buf=False)]:
        for sp in ("shortcut", "dotslash", "dotshortcut", None):
            for name, how in (("content.xml", "par"), ("meta.xml", "title"), ("styles.xml", "attr")):
                hs.append([dict(st), dict(op="edit", name=name, how=how, arg="before"), dict(op="set", name=name, variant=2, spell=sp),
                           dict(op="edit", name=name, how=how, arg="after"), dict(op="touch", name=name, spell=sp),
                           dict(op="save", packaging="zip", target="buf", pretty=False), dict(op="reopen", r=1), dict(op="touch", name=name, spell=sp)])
        for sp in ("dotslash", None):
            hs.append([dict(st), dict(op="get", name="Thumbnails/thumbnail.png", spell=sp), dict(op="set", name="Thumbnails/thumbnail.png", variant=1, spell=sp),
                       dict(op="del", name="Thumbnails/thumbnail.png", spell=sp), dict(op="save", packaging="zip", target="buf", pretty=False), dict(op="reopen", r=1)])
    # comments / processing instructions / DOCTYPE standing OUTSIDE the root element of an XML part (packages built with zipfile that
    # hold them; parts set with them): read or not read, parsed or not, every packaging, plain and pretty, clone
    XMLS = ["content.xml", "styles.xml", "meta.xml", "settings.xml"]
    for base in small[:2]:
        for buf in (False, True):
            for dt in (False, True):
                for pk, tg, pty in (("zip", "buf", False), ("zip", "path", True), ("folder", "path", False), ("folder", "path", True), ("xml", "buf", None)):
                    B = dict(op="buildopen", base=base, extra=[], dress=XMLS, doctype=dt, buf=buf)
                    SV = dict(op="save", packaging=pk, target=tg, pretty=pty)
                    hs.append([dict(B), dict(op="touch", name="styles.xml"), dict(op="get", name="meta.xml"), dict(op="edit", name="content.xml", how="par", arg="x"),
                               dict(SV), dict(op="reopen", r=1), dict(op="touch", name="content.xml"), dict(op="touch", name="settings.xml")] if pk != "xml" else
                              [dict(B), dict(op="touch", name="styles.xml"), dict(SV)])
                hs.append([dict(op="buildopen", base=base, extra=[], dress=XMLS, doctype=dt, buf=buf), dict(op="touch", name="styles.xml"), dict(op="clone"),
                           dict(op="touch", name="styles.xml"), dict(op="touch", name="content.xml"), dict(op="save", packaging="zip", target="buf", pretty=False), dict(op="reopen", r=1)])
    for st in starts[:2]:
        for v in (4, 6):
            for pk, tg, pty in (("zip", "buf", False), ("zip", "buf", True), ("folder", "path", False), ("folder", "path", True)):
                hs.append([dict(st)] + [dict(op="set", name=n, variant=v) for n in XMLS] + [dict(op="touch", name="styles.xml"), dict(op="touch", name="content.xml"),
                          dict(op="save", packaging=pk, target=tg, pretty=pty), dict(op="reopen", r=1), dict(op="touch", name="meta.xml"), dict(op="touch", name="settings.xml")])
    hs += pkglib.flat_image_histories(S, Tm["text"], tier)
    hs += pkglib.object_pretty_histories(S, starts, rng)
    hs += pkglib.resave_histories([starts[0], dict(op="open", src=small[5], buf=False)], rng)
    # F35: a package without manifest.rdf, opened by path / by buffer; the user provides one and lists it; save
    import zipfile
    nordf = [s for s in small if "manifest.rdf" not in zipfile.ZipFile(s).namelist()][:2]
    RDFX = '<rdf:RDF xmlns:rdf="http://www.w3.org/1999/02/22-rdf-syntax-ns#"><rdf:Description rdf:about="user"/></rdf:RDF>'
    for s in nordf:
        for st in (dict(op="copyopen", src=s), dict(op="open", src=s, buf=True)):
            hs.append([st, dict(op="import", name="manifest.rdf", data=RDFX, mt="application/rdf+xml"), dict(op="save", packaging="zip", target="buf", pretty=False),
                       dict(op="reopen", r=1), dict(op="get", name="manifest.rdf")])
    return hs


def key_of(recs, i, code):
    c = recs[i]["concrete"]; k = c["op"]
    cls = k
    if k == "del" and c.get("spell") in ("dotslash", "dotshortcut"):
        cls = "del-dotslash"
    elif k == "set" and pkglib.is_xml_name(c["name"]):
        cls = "set-xml-part"
    elif k == "save" and code == 7:
        first = recs[0]["concrete"]["op"]
        cls = "save/%s" % ("path-opened" if first == "copyopen" or (first == "open" and not recs[0]["concrete"].get("buf")) else "other")
    elif k == "save":
        cls = "save-%s%s" % (c.get("packaging", "zip"), "-pretty" if (c.get("pretty") or (c.get("pretty") is None and c.get("packaging") in ("folder", "xml"))) else "")
    elif k in ("touch", "get", "edit") and any(r["concrete"]["op"] == "open" and isinstance(r["concrete"].get("src"), int) for r in recs[:i]):
        cls = k + "-after-reopen"
    return "%s/%s" % (cls, {1: "part-map", 2: "result", 3: "roundtrip", 4: "file", 5: "abstraction", 6: "stale-time-stamp", 7: "manifest-rdf-replaced"}.get(code, str(code)))


def run(tier, seed, replay=None):
    return pkglib.run_check(
        PROP, "chk03", LAYER, make_histories, key_of, tier, seed, replay,
        trusted_base=pkglib.PKG_TRUSTED,
        rule="histories: every template and every sample (path-opened = lazy, buffer-opened) followed by random ops over %s; unmodified open/save/reopen/save cycles of every sample in zip (buffer, path) and folder packaging; in-place save of a path-opened copy after partial reads; edge stream (bytes set for an XML part read / fetched / not read before, folder reopen + set_part, flat XML). One Coq evaluation per executed operation. non-trivial = state-changing op or a save; distinct = distinct (op, pre-state)" % sorted(WEIGHTS),
        assumptions=["XML parts are compared as infosets (C14N with comments, plus the comments / processing instructions outside the root element; the DOCTYPE is not compared) with the meta:generator text masked at saves (nothing masked at a clone); after a pretty save by the layout-insensitive projection of C11",
                     "directory entries are not parts", "in-place saves are exercised for zip packaging only (folder time stamps have one-second resolution)"],
        extra_prefixes=("clone/", "save-"),
        nontrivial_kinds=("get", "touch", "edit", "set", "del", "addfile", "save", "clone", "open", "new"))


if __name__ == "__main__":
    common.main(run)
