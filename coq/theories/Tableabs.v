(* Tableabs.v — the abstraction from the run-length model to the grid specification, and the grid meaning of the
   operation alphabet and of the reads (definitions only). *)
From Coq Require Import List ZArith Bool Arith.
Import ListNotations.
Require Import Vault Row Table Grid.
Local Open Scope Z_scope.

Definition grow_of (r : rowx) : list cell := expand (snd r).
Definition abs_t (t : tstate) : gridT := {| ncols := twidth t; grows := map grow_of (expand (rows t)) |}.
Definition abs_rows (rs : list (nat * rowx)) : list (nat * list cell) := map (fun r => (fst r, grow_of (snd r))) rs.

(* the same operation on the grid; coordinates are translated with the grid's own size *)
Definition g_step (g : gridT) (o : top) : gridT :=
  let ny y := norm_coord y (gheight g) in
  let nx x := norm_coord x (ncols g) in
  match o with
  | OAppendRow rep r => g_append_row rep (grow_of r) g
  | OSetRow y rep r => g_set_row (ny y) rep (grow_of r) g
  | OInsertRow y rep r => g_insert_row (ny y) rep (grow_of r) g
  | ODeleteRow y => g_delete_row (ny y) g
  | OSetCell x y c => g_set_cell (nx x) (ny y) c g
  | OInsertCell x y c => g_insert_cell (nx x) (ny y) c g
  | OAppendCell y c => g_append_cell (ny y) c g
  | ODeleteCell x y => g_delete_cell (nx x) (ny y) g
  | OInsertColumn x rep _ => g_insert_column (nx x) rep g
  | ODeleteColumn x => g_delete_column (nx x) g
  | OAppendColumn rep _ => g_append_column rep g
  | OSetColumn x rep _ => g_set_column (nx x) rep g
  | OSetLines cl x y ls => g_set_lines cl (nx x) (ny y) ls g
  | OExtendRows rs => g_extend_rows (abs_rows rs) g
  | OClear => g_empty
  end.

(* the reads on the grid *)
Definition g_read (g : gridT) (q : tread) : tans :=
  let ny y := norm_coord y (gheight g) in
  let nx x := norm_coord x (ncols g) in
  match q with
  | QSize => ASize (ncols g) (gheight g)
  | QGetValue x y => AValue (g_value (nx x) (ny y) g)
  | QRowValues y => AList (gpad (ncols g) (map fst (g_row (ny y) g)))
  | QValues => AMatrix (map (fun r => gpad (ncols g) (map fst r)) (grows g))
  | QColumnValues x => AList (map (fun r => fst (nth (Z.to_nat (nx x)) r empty_cell)) (grows g))
  | QRowWidth y => ASize (Z.of_nat (length (g_row (ny y) g))) 0
  | QArea x y z t =>
      let x := nx x in let z := nx z in let y := ny y in let t := ny t in
      AMatrix (map (fun r => gpad (Z.min (z + 1) (ncols g) - x) (map fst (firstn (Z.to_nat (z + 1 - x)) (skipn (Z.to_nat x) r))))
                   (firstn (Z.to_nat (t + 1 - y)) (skipn (Z.to_nat y) (grows g))))
  | QGetCell x y => ACell (nth (Z.to_nat (nx x)) (g_row (ny y) g) empty_cell)
  end.

(* well-formedness of a model state: every repeat >= 1, at the three levels *)
Definition rwf (r : rowx) : Prop := wf (snd r).
Definition twf (t : tstate) : Prop := wf (rows t) /\ wf (cols t).
Definition cwf (t : tstate) : Prop := Forall (fun r : nat * rowx => wf (snd (snd r))) (rows t).
Definition WF (t : tstate) : Prop := twf t /\ cwf t.
Definition WFb (t : tstate) : bool :=
  wfb (rows t) && wfb (cols t) && forallb (fun r : nat * rowx => wfb (snd (snd r))) (rows t).

(* admissible arguments: repeats >= 1, argument rows well formed (coordinates are unrestricted) *)
Definition cells_ok (cs : list (nat * cell)) : Prop := Forall (fun c => (1 <= fst c)%nat) cs.
Definition op_ok (o : top) : Prop :=
  match o with
  | OAppendRow rep r => (1 <= rep)%nat /\ rwf r
  | OSetRow _ rep r => (1 <= rep)%nat /\ rwf r
  | OInsertRow _ rep r => (1 <= rep)%nat /\ rwf r
  | ODeleteRow _ => True
  | OSetCell _ _ c => (1 <= fst c)%nat
  | OInsertCell _ _ c => (1 <= fst c)%nat
  | OAppendCell _ c => (1 <= fst c)%nat
  | ODeleteCell _ _ => True
  | OInsertColumn _ rep _ => (1 <= rep)%nat
  | ODeleteColumn _ => True
  | OAppendColumn rep _ => (1 <= rep)%nat
  | OSetColumn _ rep _ => (1 <= rep)%nat
  | OSetLines _ _ _ ls => Forall cells_ok ls
  | OExtendRows rs => Forall (fun r : nat * rowx => (1 <= fst r)%nat /\ rwf (snd r)) rs
  | OClear => True
  end.
