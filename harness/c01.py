"""C01: the table editing API behaves like a plain grid of cells under every history.

Theorems: coq/theories/C01.v (models Vault.v/Row.v/Table.v, specification Grid.v).  Correspondence: histories are
driven on the implementation; after every step its XML is abstracted by an independent lxml walk (child order,
attribute strings, interned cell contents), the private maps are dumped, reads are performed; Coq (vm_compute)
compares, per step, the expanded grid of the implementation with the grid step from the implementation's own
pre-state, the read answers with the grid's answers, the maps with the map of the XML, and the model's step with
both (Tablechk.chk_c01)."""
import sys
from pathlib import Path
sys.path.insert(0, str(Path(__file__).resolve().parent))
import common, tablelib as tl, tablerun as tr

LAYERS = {2: ('grid', 'property: the grid after the call is not what the same call gives on the list-of-lists grid'),
          4: ('read', 'property: a read (size / value / row / matrix / column) differs from the grid\'s answer'),
          5: ('map', 'property: a private position map (_tmap/_cmap/_rmap of a cached row) is not the map of the XML, so reads and later calls address the wrong run'),
          10: ('raised', 'property: the call raised on an input of the property\'s domain'),
          13: ('accepted', 'property: the call was accepted although its coordinate does not resolve / its list has the wrong length'),
          15: ('raised-changed', 'property: the call raised after having changed the table (tables with table:table-columns / header wrappers)'),
          16: ('group', 'property: a table:table-row-group / table:table-column-group element was changed by a call that cannot address it'),
          14: ('live', 'property: a Row-level call on a live row handle did not rewrite exactly the stored run that holds the row')}
SOFT = {3: 'the model returned None on an implementation state (C01_step says it cannot on a well-formed one)',
        8: 'the model\'s own grid differs from the grid step (a theorem instance fails)',
        11: 'state outside the modelled fragment', 12: 'initial state invalid'}
TRUSTED = ['lxml parse/serialise (the abstraction walks etree.fromstring(table.serialize()))',
           'Cell.get_value on a detached cell (used once per distinct cell content to learn its Python value; the table addressing under test is not involved)',
           'the grid specification Grid.v (150 lines) is the meaning of "plain grid"; F5 rule: a first row declares max(1,width) columns']
MODELLED = ('element_cached.py: find_odf_idx, make_cache_map, set/insert/delete_item_in_vault (repaired overlap loop and map update); '
            'row.py: set_cell insert_cell append_cell delete_cell set_cells set_values extend_cells clear width get_value get_values; '
            'table.py: append_row set_row insert_row delete_row set_cell set_value insert_cell append_cell delete_cell insert_column '
            'delete_column append_column set_column set_values set_cells set_row_values set_row_cells extend_rows clear _update_width, '
            'reads size width height get_value get_row_values get_values get_column_values get_row().width; negative coordinates. '
            'NOT modelled: table:table-rows / header rows / row and column groups, set_cell_image, string coordinates (C19), '
            'the repeated setters on live handles (F8, C02), get_cells(area) (F30), wrapper caches beyond the _rmap of cached rows (C02)')


def run(tier, seed, replay=None):
    return tr.run_table_check('C01', tier, seed, replay, 'chk01', LAYERS, SOFT, tl.OPS_CORE, trusted=TRUSTED, modelled=MODELLED, extra_targets=('Tablechk', 'TableExtchk', 'Tablexml2chk', 'TableXfchk'),
                              assumptions=['operations carry repeats >= 1 and integer coordinates of either sign',
                                           'tables consist of table:table-column elements followed by table:table-row elements'])


if __name__ == '__main__':
    common.main(run)
