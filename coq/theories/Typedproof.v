(* Typedproof.v — lemmas about Typed.v *)
From Coq Require Import List ZArith NArith Lia Bool Arith ZifyBool.
Import ListNotations.
Require Import Codec Codecproof Typed.

Lemma et_bool_roundtrip b : match set_et (VBool b) with Ok (e, _) => get_et e = Ok (VBool b) | Err => False end.
Proof. destruct b; reflexivity. Qed.
