(* CodecUnitproof.v — Unit: str then parse is the identity on lengths without exponent; the pinned pair is not. *)
From Coq Require Import List ZArith NArith Lia Bool Arith ZifyBool.
Import ListNotations.
Require Import Codec Codecproof Typed CodecUnit.

Lemma forallb_firstn {A} (p : A -> bool) n l : forallb p l = true -> forallb p (firstn n l) = true.
Proof. revert n. induction l as [|x l IH]; intros [|n] H; cbn in *; auto. apply andb_true_iff in H as [H1 H2]. now rewrite H1, IH. Qed.
Lemma forallb_skipn {A} (p : A -> bool) n l : forallb p l = true -> forallb p (skipn n l) = true.
Proof. revert n. induction l as [|x l IH]; intros [|n] H; cbn in *; auto. apply andb_true_iff in H as [H1 H2]. now apply IH. Qed.
Lemma zeros_digits k : forallb is_digit (zeros k) = true.
Proof. induction k; cbn; auto. Qed.
Lemma zeros_length k : length (zeros k) = k.
Proof. induction k; cbn; auto. Qed.
Lemma digits_val_zero s : digits_val (48%N :: s) = digits_val s.
Proof. reflexivity. Qed.
Lemma digits_val_zeros k s : digits_val (zeros k ++ s) = digits_val s.
Proof. induction k; cbn [zeros app]; [reflexivity|]. now rewrite digits_val_zero. Qed.
Lemma letter_not_digit c : is_letter c = true -> is_digit c = false /\ (c =? c_dot)%N = false /\ (c =? c_minus)%N = false.
Proof. unfold is_letter, is_digit, c_dot, c_minus. intros H. repeat split; lia. Qed.

(* the numeric part, without sign: body ++ u parses to (coef, exp) and leaves u *)
Definition unit_body (t1 : str) : option (N * Z * str) :=
  let '(ip, t2) := read_digits t1 in
  let '(fp, t3, dot) := match t2 with
                        | c :: r => if (c =? c_dot)%N then let '(f, r') := read_digits r in (f, r', true) else ([], t2, false)
                        | [] => ([], t2, false) end in
  match ip, fp with
  | [], [] => None
  | [], _ :: _ => Some (digits_val fp, (- Z.of_nat (length fp))%Z, t3)
  | _ :: _, _ => Some (digits_val (ip ++ fp), (- Z.of_nat (length fp))%Z, t3)
  end.
Lemma unit_parse_body (neg : bool) t1 c e u : unit_body t1 = Some (c, e, u) -> forallb is_letter u = true -> u <> [] ->
  (match t1 with x :: _ => (x =? c_minus)%N = false | [] => True end) ->
  unit_parse ((if neg then [c_minus] else []) ++ t1) = Some (mkdec neg c e, u).
Proof.
  intros Hb Hu Hne Hfirst. unfold unit_parse.
  assert (Hs : match (if neg then [c_minus] else []) ++ t1 with
               | x :: r => if (x =? c_minus)%N then (true, r) else (false, (if neg then [c_minus] else []) ++ t1)
               | [] => (false, (if neg then [c_minus] else []) ++ t1) end = (neg, t1)).
  { destruct neg; cbn [app]; [reflexivity|]. destruct t1 as [|x r]; [reflexivity|]. now rewrite Hfirst. }
  rewrite Hs. unfold unit_body in Hb.
  destruct (read_digits t1) as [ip t2].
  destruct (match t2 with
            | [] => ([], t2, false)
            | c0 :: r => if (c0 =? c_dot)%N then let '(f, r') := read_digits r in (f, r', true) else ([], t2, false)
            end) as [[fp t3] dot].
  destruct ip as [|i0 ip]; destruct fp as [|f0 fp]; try discriminate; injection Hb as <- <- Ht3; subst t3; rewrite Hu;
    (destruct u; [congruence | reflexivity]).
Qed.

Theorem unit_roundtrip_lemma d u : (dexp d <= 0)%Z -> u <> [] -> forallb is_letter u = true ->
  unit_parse (unit_str d u) = Some (d, u).
Proof.
  intros He Hne Hu. destruct d as [neg coef e]. cbn [dexp] in He. unfold unit_str, dec_format_f. cbn [dneg dcoef dexp].
  set (digits := print_N coef).
  assert (Hdig : forallb is_digit digits = true) by apply print_N_digits.
  assert (Hnz : digits <> []) by apply print_N_nonempty.
  assert (Hval : digits_val digits = coef) by apply digits_val_print_N.
  destruct u as [|u0 ur]; [congruence|]. cbn [forallb] in Hu. apply andb_true_iff in Hu as [Hu0 Hur].
  destruct (letter_not_digit _ Hu0) as (Hud & Hudot & Humin).
  assert (Hstart : starts_digit (u0 :: ur) = false) by (cbn; exact Hud).
  assert (HuAll : forallb is_letter (u0 :: ur) = true) by (cbn [forallb]; now rewrite Hu0, Hur).
  rewrite <- app_assoc.
  assert (Hhead : forall b, match digits ++ b with x :: _ => (x =? c_minus)%N = false | [] => True end).
  { intros b. destruct digits as [|x r]; [congruence|]. cbn [app]. cbn [forallb] in Hdig. apply andb_true_iff in Hdig as [Hx _].
    unfold is_digit, c_minus in *. lia. }
  destruct (Z.leb_spec 0 e) as [H0|Hneg].
  - (* no fraction *)
    assert (e = 0%Z) by lia. subst e.
    assert (Hbody : (if (coef =? 0)%N then digits else digits ++ zeros (Z.to_nat 0)) = digits) by (destruct (coef =? 0)%N; [reflexivity | apply app_nil_r]).
    rewrite Hbody. apply unit_parse_body; [ | exact HuAll | discriminate | apply Hhead ].
    unfold unit_body. rewrite read_digits_app by assumption. rewrite Hudot.
    destruct digits as [|x r] eqn:E; [congruence|]. rewrite app_nil_r, Hval. reflexivity.
  - set (k := Z.to_nat (- e)). assert (Hk : e = (- Z.of_nat k)%Z) by (unfold k; lia). assert (Hk1 : (1 <= k)%nat) by (unfold k; lia).
    destruct (Nat.ltb_spec k (length digits)) as [Hlt|Hge].
    + (* the point falls inside the digits *)
      rewrite <- app_assoc. cbn [app]. apply unit_parse_body; [ | exact HuAll | discriminate | ].
      2:{ pose proof (Hhead []) as HH. rewrite app_nil_r in HH. destruct digits as [|x r]; [congruence|].
          destruct (length (x :: r) - k)%nat eqn:En; [cbn [length] in *; lia|]. cbn [firstn app]. exact HH. }
      unfold unit_body.
      rewrite read_digits_app; [ | now apply forallb_firstn | reflexivity ].
      change (c_dot =? c_dot)%N with true. cbn iota.
      rewrite read_digits_app; [ | now apply forallb_skipn | assumption ].
      assert (Hl : length (skipn (length digits - k) digits) = k) by (rewrite skipn_length; lia).
      destruct (firstn (length digits - k) digits) as [|i0 ip] eqn:Ei.
      { apply (f_equal (@length N)) in Ei. rewrite firstn_length in Ei. cbn in Ei. lia. }
      rewrite <- Ei, firstn_skipn, Hval, Hl, Hk. reflexivity.
    + (* 0.000ddd *)
      cbn [app]. apply unit_parse_body; [ | exact HuAll | discriminate | reflexivity ].
      unfold unit_body.
      change (read_digits (48%N :: c_dot :: (zeros (k - length digits) ++ digits) ++ u0 :: ur))
        with (read_digits ([48%N] ++ c_dot :: (zeros (k - length digits) ++ digits) ++ u0 :: ur)).
      rewrite read_digits_app by reflexivity.
      change (c_dot =? c_dot)%N with true. cbn iota.
      rewrite read_digits_app; [ | rewrite forallb_app, zeros_digits; exact Hdig | assumption ].
      cbn [app]. rewrite digits_val_zero, digits_val_zeros, Hval, app_length, zeros_length.
      replace (k - length digits + length digits)%nat with k by lia. rewrite Hk. reflexivity.
Qed.

(* F70: the pinned pair loses the sign and misreads an exponent *)
Theorem unit_pinned_unsound :
  unit_parse_pinned [45;48;46;53;99;109]%N = Some (mkdec false 5 (-1), [45;99;109]%N) /\              (* "-0.5cm" -> 0.5 "-cm" *)
  unit_parse_pinned (unit_str_pinned (mkdec false 1 5) s_cm) = Some (mkdec false 15 0, [69;43;99;109]%N).   (* 1E+5 cm -> "1E+5cm" -> 15 "E+cm" *)
Proof. split; reflexivity. Qed.

(* ---- Unit.convert("px"): truncation toward zero of the exact quotient *)
Theorem unit_convert_in_lemma d dpi px : unit_convert_px d s_in dpi = Some px -> (dexp d <= 0)%Z ->
  px = Z.quot (dec_signed_coef d * dpi) (10 ^ (- dexp d)).
Proof.
  unfold unit_convert_px. change (str_eqb s_in s_in) with true. cbn iota. intros [= <-] He.
  destruct (Z.leb_spec 0 (dexp d)); [|reflexivity].
  assert (dexp d = 0)%Z by lia. rewrite H0. cbn [Z.opp Z.pow Z.pow_pos Pos.iter]. now rewrite Z.mul_1_r, Z.quot_1_r.
Qed.
Theorem unit_convert_cm_lemma d dpi px : unit_convert_px d s_cm dpi = Some px -> (dexp d <= 0)%Z ->
  px = Z.quot (dec_signed_coef d * dpi * 100) (254 * 10 ^ (- dexp d)).
Proof.
  unfold unit_convert_px. change (str_eqb s_cm s_in) with false. change (str_eqb s_cm s_cm) with true. cbn iota. intros [= <-] He.
  destruct (Z.leb_spec 0 (dexp d)); [|reflexivity].
  assert (dexp d = 0)%Z by lia. rewrite H0. cbn [Z.opp Z.pow Z.pow_pos Pos.iter]. now rewrite !Z.mul_1_r.
Qed.
