(* PkgHistproof.v — the per-state theorems of C03 / C10 for every state reachable by a history *)
From Coq Require Import List ZArith Bool Arith Lia.
Import ListNotations.
Require Import Package Pkgproof Pkgproof4 Pkgproof5 PkgStepWF PkgStepWF3 PkgStepWF4 PkgPairproof PkgOKstep4.
Open Scope Z_scope.

Section H.
Variable xml bytes kid : Type.
Variable ser : xml -> bytes.
Variable par : bytes -> xml.
Variable pretty stamp : xml -> xml.
Variable entries : xml -> mentries.
Variable with_entries : mentries -> xml -> xml.
Variable kids : xml -> list kid.
Variable mime : bytes -> mtype.
Variable mime_bytes : mtype -> bytes.
Variable rdf0 : bytes.
Variable proj : Type.
Variable mask : xml -> proj.
Hypothesis par_ser : forall x, par (ser x) = x.
Notation document := (document xml bytes).
Notation fsys := (fsys bytes kid).
Notation SInv := (SInv xml bytes kid).
Notation view := (view xml bytes kid par proj mask).
Notation run := (run xml bytes kid ser par pretty stamp entries with_entries kids mime mime_bytes rdf0 FIXED).
Notation d_save := (d_save xml bytes kid ser par pretty stamp entries kids mime rdf0 FIXED).
Notation d_clone := (d_clone xml bytes kid ser par FIXED).

Theorem roundtrip_reachable : forall (s0 : fsys * document) os, SInv s0 ->
  forall t pk pty fs' d' c, pk <> PXml -> (pty = true -> forall x, mask (pretty x) = mask x) ->
  d_save (fst (run s0 os)) (snd (run s0 os)) t pk pty = (fs', d', true) ->
  c_open bytes kid fs' (tgt_id t) false = Some c ->
  forall n, view fs' (mkD c []) n = view (fst (run s0 os)) d' n.
Proof.
  intros s0 os I t pk pty fs' d' c Hpk Hm Hs Ho n.
  pose proof (run_inv xml bytes kid ser par pretty stamp entries with_entries kids mime mime_bytes rdf0 par_ser os s0 I) as [F W].
  apply (roundtrip xml bytes kid ser par pretty stamp entries kids mime rdf0 proj mask par_ser _ _ t pk pty fs' d' c W Hpk Hm Hs Ho).
Qed.

(* opening by path or from a buffer (Document(io.BytesIO(...)): every member read at once) *)
Lemma open_any_view : forall (fs : fsys) p b c, FsOK bytes kid fs -> c_open bytes kid fs p b = Some c ->
  forall n, view fs (mkD c []) n = file_view xml bytes kid par proj mask (lookup p fs) n.
Proof.
  intros fs p b c F O n. unfold Package.view, Package.file_view. destruct (is_dir n); [reflexivity|].
  change (tree_of xml bytes kid par fs (mkD c []) n) with (dX xml bytes kid par fs (mkD c []) n).
  change (bytes_of xml bytes kid fs (mkD c []) n) with (dB xml bytes kid fs (mkD c []) n).
  rewrite (open_obs_X xml bytes kid par fs p b c F O n), (open_obs xml bytes kid fs p b c F O n).
  destruct (lookup n (file_entries bytes kid (lookup p fs))); destruct (is_xml n); reflexivity.
Qed.

Theorem roundtrip_reachable_any : forall (s0 : fsys * document) os, SInv s0 ->
  forall t pk pty fs' d' b c, pk <> PXml -> (pty = true -> forall x, mask (pretty x) = mask x) ->
  d_save (fst (run s0 os)) (snd (run s0 os)) t pk pty = (fs', d', true) ->
  c_open bytes kid fs' (tgt_id t) b = Some c ->
  forall n, view fs' (mkD c []) n = view (fst (run s0 os)) d' n.
Proof.
  intros s0 os I t pk pty fs' d' b c Hpk Hm Hs Ho n.
  pose proof (run_inv xml bytes kid ser par pretty stamp entries with_entries kids mime mime_bytes rdf0 par_ser os s0 I) as [F W].
  pose proof (d_save_inv xml bytes kid ser par pretty stamp entries kids mime rdf0 _ _ t pk pty (conj F W)) as I'. cbn zeta in I'.
  rewrite Hs in I'. cbn [fst snd] in I'. destruct I' as [F' _].
  rewrite (open_any_view fs' (tgt_id t) b c F' Ho).
  apply (save_file_is_memory xml bytes kid ser par pretty stamp entries kids mime rdf0 proj mask par_ser _ _ t pk pty fs' d' W Hpk Hm Hs).
Qed.

Theorem save_pure_reachable : forall (s0 : fsys * document) os, SInv s0 -> (forall x, mask (stamp x) = mask x) ->
  forall t pk pty fs' d', d_save (fst (run s0 os)) (snd (run s0 os)) t pk pty = (fs', d', true) ->
  forall n, n <> RDF -> view (fst (run s0 os)) d' n = view (fst (run s0 os)) (snd (run s0 os)) n.
Proof.
  intros s0 os I Hst t pk pty fs' d' Hs n Hn.
  pose proof (run_inv xml bytes kid ser par pretty stamp entries with_entries kids mime mime_bytes rdf0 par_ser os s0 I) as [F W].
  apply (save_pure xml bytes kid ser par pretty stamp entries kids mime rdf0 proj mask Hst _ _ t pk pty fs' d' W Hs n Hn).
Qed.

Theorem clone_equal_at_birth_reachable : forall (s0 : fsys * document) os, SInv s0 ->
  let fs := fst (run s0 os) in let d := snd (run s0 os) in
  (forall n, view fs (snd (d_clone fs d)) n = view fs d n) /\ (forall n, view fs (fst (d_clone fs d)) n = view fs d n).
Proof.
  intros s0 os I.
  pose proof (run_inv xml bytes kid ser par pretty stamp entries with_entries kids mime mime_bytes rdf0 par_ser os s0 I) as [F W].
  apply (clone_equal_at_birth xml bytes kid ser par proj mask par_ser _ _ F W).
Qed.
End H.
