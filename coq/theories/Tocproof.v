(* Lemmas about Toc.v : fill is idempotent, keeps the title, touches nothing else *)
From Coq Require Import List ZArith Bool Arith Lia.
Require Import WS Toc.
Import ListNotations.
Open Scope Z_scope.

Lemma upd_upd {A} (l : list A) k f g : upd (upd l k f) k g = upd l k (fun x => g (f x)).
Proof. revert k; induction l as [|x r IH]; intros [|k]; cbn; try reflexivity. now rewrite IH. Qed.
Lemma upd_ext {A} (l : list A) k f g : (forall x, f x = g x) -> upd l k f = upd l k g.
Proof. intros E; revert k; induction l as [|x r IH]; intros [|k]; cbn; try reflexivity; [now rewrite E | now rewrite IH]. Qed.
Lemma upd_length {A} (l : list A) k f : length (upd l k f) = length l.
Proof. revert k; induction l as [|x r IH]; intros [|k]; cbn; auto. Qed.
Lemma upd_nth_same {A} (l : list A) k f : nth_error (upd l k f) k = option_map f (nth_error l k).
Proof. revert k; induction l as [|x r IH]; intros [|k]; cbn; auto. Qed.
Lemma upd_nth_other {A} (l : list A) k j f : j <> k -> nth_error (upd l k f) j = nth_error l j.
Proof. revert k j; induction l as [|x r IH]; intros [|k] [|j] H; cbn; auto; try congruence. Qed.

Lemma keep_title_idem t : keep_title (keep_title t) = keep_title t.
Proof. destruct t as [[id [|]]|]; reflexivity. Qed.

Lemma fill_gen_idem p t hs : fill_gen p (fill_gen p t hs) hs = fill_gen p t hs.
Proof. unfold fill_gen; cbn. now rewrite keep_title_idem. Qed.

Lemma fill_doc_idem p d k : fill_doc p (fill_doc p d k) k = fill_doc p d k.
Proof.
  unfold fill_doc; cbn. f_equal. rewrite upd_upd. apply upd_ext. intros t. apply fill_gen_idem.
Qed.

Lemma fill_doc_heads p d k : dheads (fill_doc p d k) = dheads d.
Proof. reflexivity. Qed.
Lemma fill_doc_other p d k j : j <> k -> nth_error (dtocs (fill_doc p d k)) j = nth_error (dtocs d) j.
Proof. intros H. unfold fill_doc; cbn. now apply upd_nth_other. Qed.
Lemma fill_title_kept p t hs id : ttitle t = Some (id, true) -> ttitle (fill_gen p t hs) = Some (id, true).
Proof. intros H. unfold fill_gen; cbn. now rewrite H. Qed.
Lemma fill_outline_kept p t hs : toutline (fill_gen p t hs) = toutline t.
Proof. reflexivity. Qed.

(* ================================================================ entries of a filled TOC *)
Require Import WSproof WSnfproof WSenc7 Tocnum.

Definition entry_of (pinned : bool) (p : list Z * heading) : entry :=
  (hlevel (snd p), append_plain_text [] (number_str (fst p) ++ Sp :: header_text pinned (snd p))).

Lemma fill_loop_spec pinned ol hs : forall d prev, Repr d prev -> Forall (fun h => 1 <= hlevel h) hs ->
  fill_loop pinned d ol hs =
  map (entry_of pinned) (combine (outline_numbers prev (map hlevel (listed ol hs))) (listed ol hs)).
Proof.
  induction hs as [|h r IH]; intros d prev R F; [reflexivity|].
  inversion F as [|? ? Hl Fr]; subst. cbn [fill_loop listed filter].
  fold (listed ol r).
  destruct (hlevel h >? ol) eqn:E.
  - assert (E' : (hlevel h <=? ol) = false) by lia. rewrite E'. now apply IH.
  - assert (E' : (hlevel h <=? ol) = true) by lia. rewrite E'.
    destruct (header_numbering d (hlevel h)) as [d' n] eqn:HN.
    destruct (header_numbering_spec _ _ _ _ _ R Hl HN) as [-> R'].
    cbn [map outline_numbers combine]. unfold entry_of at 1. cbn [fst snd]. f_equal. now apply IH.
Qed.

Lemma listed_levels ol hs (P : Z -> Prop) :
  Forall (fun h => P (hlevel h)) hs -> Forall P (map hlevel (listed ol hs)).
Proof.
  intros F. apply Forall_map. unfold listed. apply Forall_forall. intros h Hin. apply filter_In in Hin as [Hin _].
  rewrite Forall_forall in F. now apply F.
Qed.

Lemma consume_fresh s : consume (append_plain_text [] s) = s.
Proof. now rewrite C05_consumer. Qed.

Definition in_domain (hs : list heading) : Prop := Forall (fun h => 1 <= hlevel h <= 10) hs.

Theorem fill_entries_gen pinned t hs : in_domain hs ->
  let ol := eff_outline (toutline t) in
  let es := tentries (fill_gen pinned t hs) in
  map (fun e => consume (snd e)) es = map (fun s => s ++ (if pinned then [Nl] else [])) (spec_entries ol hs)
  /\ Forall (fun e => NFb true (snd e) = true) es
  /\ map fst es = map hlevel (listed ol hs).
Proof.
  intros D ol es. unfold es, fill_gen; cbn [tentries]. fold ol.
  rewrite (fill_loop_spec pinned ol hs [] []); [|exact Repr_nil|eapply Forall_impl; [|exact D]; cbn; intros; lia].
  unfold spec_entries.
  rewrite spec_is_prefix_bumped by (apply (listed_levels ol hs (fun l => 1 <= l <= 10)); exact D).
  set (ps := combine _ _). repeat split.
  - rewrite !map_map. apply map_ext. intros [n h]. unfold entry_of; cbn [fst snd]. rewrite consume_fresh.
    unfold header_text. rewrite <- app_assoc. reflexivity.
  - apply Forall_map. apply Forall_forall. intros p _. unfold entry_of; cbn [snd]. apply C05_nf.
  - rewrite map_map. unfold entry_of; cbn [fst].
    unfold ps. clear. generalize (listed ol hs) as l. generalize (@nil Z) as prev.
    intros prev l; revert prev; induction l as [|h r IH]; intros prev; [reflexivity|].
    cbn [map outline_numbers combine snd]. f_equal. apply IH.
Qed.

Theorem fill_entries t hs : in_domain hs ->
  let ol := eff_outline (toutline t) in
  let es := tentries (fill t hs) in
  map (fun e => consume (snd e)) es = spec_entries ol hs
  /\ Forall (fun e => NFb true (snd e) = true) es
  /\ map fst es = map hlevel (listed ol hs).
Proof.
  intros D ol es. destruct (fill_entries_gen false t hs D) as (H1 & H2 & H3). repeat split; auto.
  fold ol in H1. unfold es, fill. rewrite H1. rewrite <- (map_id (spec_entries ol hs)) at 2.
  apply map_ext. intros s. apply app_nil_r.
Qed.

(* the code as pinned: every entry reads one line break too many *)
Theorem fill_pinned_entries t hs : in_domain hs ->
  map (fun e => consume (snd e)) (tentries (fill_pinned t hs))
  = map (fun s => s ++ [Nl]) (spec_entries (eff_outline (toutline t)) hs).
Proof. intros D. exact (proj1 (fill_entries_gen true t hs D)). Qed.

(* ================================================================ odfdo-headers *)
Lemma tool_loop_spec depth hs : forall d prev, Repr d prev -> Forall (fun h => 1 <= hlevel h) hs ->
  tool_loop d depth hs =
  flat_map (fun p => number_str (fst p) ++ Sp :: header_text true (snd p))
           (combine (outline_numbers prev (map hlevel (listed depth hs))) (listed depth hs)).
Proof.
  induction hs as [|h r IH]; intros d prev R F; [reflexivity|].
  inversion F as [|? ? Hl Fr]; subst. cbn [tool_loop listed filter]. fold (listed depth r).
  destruct (hlevel h >? depth) eqn:E.
  - assert (E' : (hlevel h <=? depth) = false) by lia. rewrite E'. now apply IH.
  - assert (E' : (hlevel h <=? depth) = true) by lia. rewrite E'.
    destruct (header_numbering d (hlevel h)) as [d' n] eqn:HN.
    destruct (header_numbering_spec _ _ _ _ _ R Hl HN) as [-> R'].
    cbn [map outline_numbers combine flat_map fst snd]. f_equal. now apply IH.
Qed.

Theorem headers_tool_spec depth hs : in_domain hs ->
  headers_tool depth hs = flat_map (fun s => s ++ [Nl]) (spec_entries depth hs).
Proof.
  intros D. unfold headers_tool.
  rewrite (tool_loop_spec depth hs [] []); [|exact Repr_nil|eapply Forall_impl; [|exact D]; cbn; intros; lia].
  unfold spec_entries.
  rewrite spec_is_prefix_bumped by (apply (listed_levels depth hs (fun l => 1 <= l <= 10)); exact D).
  rewrite flat_map_concat_map, (flat_map_concat_map _ (map _ _)), map_map. f_equal. apply map_ext.
  intros [n h]; cbn [fst snd]. unfold header_text. rewrite <- app_assoc. reflexivity.
Qed.

Theorem headers_tool_agrees t hs depth : in_domain hs -> eff_outline (toutline t) = depth ->
  headers_tool depth hs = flat_map (fun e => consume (snd e) ++ [Nl]) (tentries (fill t hs)).
Proof.
  intros D E. rewrite headers_tool_spec by exact D.
  destruct (fill_entries t hs D) as (H1 & _ & _). rewrite E in H1. rewrite <- H1.
  rewrite !flat_map_concat_map, map_map. reflexivity.
Qed.

Lemma listed_ge10 depth hs : in_domain hs -> 10 <= depth -> listed depth hs = hs.
Proof.
  intros D H. unfold listed. induction D as [|h r Hh Dr IH]; [reflexivity|]. cbn [filter].
  assert (E : (hlevel h <=? depth) = true) by lia. rewrite E. now f_equal.
Qed.
(* the tool's default depth (999) shows what a TOC with outline level 0 shows: everything *)
Theorem headers_tool_all depth hs : in_domain hs -> 10 <= depth -> headers_tool depth hs = headers_tool 10 hs.
Proof.
  intros D H. rewrite !headers_tool_spec by exact D. unfold spec_entries. now rewrite !listed_ge10 by (auto; lia).
Qed.

(* ================================================================ the whole property on the document model *)
Definition C20_statement (pinned : bool) : Prop :=
  forall (d : doc) (k : nat) (t : toc),
    nth_error (dtocs d) k = Some t -> in_domain (dheads d) ->
    let d' := fill_doc pinned d k in
    let ol := eff_outline (toutline t) in
    exists t', nth_error (dtocs d') k = Some t'
      (* exactly the headings with level <= outline, in order, each "number text", nothing else *)
      /\ map (fun e => consume (snd e)) (tentries t') = spec_entries ol (dheads d)
      /\ Forall (fun e => NFb true (snd e) = true) (tentries t')
      (* title kept *)
      /\ (forall id, ttitle t = Some (id, true) -> ttitle t' = Some (id, true))
      (* nothing else touched; filling again changes nothing *)
      /\ dheads d' = dheads d
      /\ (forall j, j <> k -> nth_error (dtocs d') j = nth_error (dtocs d) j)
      /\ fill_doc pinned d' k = d'
      (* the heading-listing tool prints the same outline *)
      /\ headers_tool ol (dheads d') = flat_map (fun e => consume (snd e) ++ [Nl]) (tentries t').

Theorem C20_holds_repaired : C20_statement false.
Proof.
  intros d k t Hk D d' ol.
  exists (fill t (dheads d)).
  assert (Hk' : nth_error (dtocs d') k = Some (fill t (dheads d))).
  { unfold d', fill_doc; cbn [dtocs]. now rewrite upd_nth_same, Hk. }
  destruct (fill_entries t (dheads d) D) as (H1 & H2 & _).
  repeat split; auto.
  - intros id Hid. now apply fill_title_kept.
  - intros j Hj. now apply fill_doc_other.
  - apply fill_doc_idem.
  - now apply headers_tool_agrees.
Qed.
