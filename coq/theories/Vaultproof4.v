(* Vaultproof4.v — the incremental map updates of insert_item_in_vault and delete_item_in_vault are
   make_cache_map of the new runs (with set_map_correct: all three vault mutators keep the map coherent). *)
From Coq Require Import List ZArith Lia Bool Arith.
Import ListNotations.
Require Import Vault Vaultproof Vaultproof2.
Local Open Scope Z_scope.

Section VP4.
Variable A : Type.
Notation runs := (runs A).

Lemma locate (v : runs) p : wf v -> 0 <= p < Z.of_nat (width v) ->
  exists i n b, find_idx (cmap v) p = Some i /\ nth_error v i = Some (n, b) /\ (i < length v)%nat /\
    let L := Z.of_nat (length (expand (firstn i v))) in
    before (cmap v) i = -1 + L /\ nth i (cmap v) (-1) = -1 + L + Z.of_nat n /\ -1 + L < p <= -1 + L + Z.of_nat n.
Proof.
  intros Hwf Hp.
  pose proof (bisect_spec v (-1) p Hwf ltac:(lia) ltac:(lia)) as Hs.
  cbv zeta in Hs. destruct Hs as (b & n & Hnth & Hrange & Hcur & Hbef).
  set (i := bisect (cmap_from (-1) v) p) in *.
  assert (Hi : (i < length v)%nat) by (apply nth_error_Some; congruence).
  exists i, n, b. unfold find_idx, cmap. fold i. rewrite cmap_from_length.
  destruct (Nat.ltb_spec i (length v)); [|lia].
  split; [reflexivity|]. split; [exact Hnth|]. split; [exact Hi|]. cbv zeta.
  split; [unfold before; destruct i; exact Hbef|]. split; [exact Hcur|exact Hrange].
Qed.

Lemma firstn_firstn_app (l1 l2 : runs) i : i = length l1 -> firstn i (l1 ++ l2) = l1.
Proof. intros ->. apply firstn_app_exact. reflexivity. Qed.
Lemma skipn_firstn_app (l1 l2 : runs) i : i = length l1 -> skipn i (l1 ++ l2) = l2.
Proof. intros ->. apply skipn_app_exact. reflexivity. Qed.

Theorem insert_map_correct (p : Z) (x : nat * A) (v : runs) :
  wf v -> 0 <= p < Z.of_nat (width v) ->
  exists v', insert_item p x v (cmap v) = Some v' /\ insert_map p (fst x) (cmap v) = Some (cmap v').
Proof.
  intros Hwf Hp. destruct x as [r a]. cbn [fst].
  destruct (locate v p Hwf Hp) as (i & n & b & Hf & Hnth & Hi & Hbef & Hcur & Hrange). cbv zeta in *.
  set (L := Z.of_nat (length (expand (firstn i v)))) in *.
  unfold insert_item, insert_map. rewrite Hf, Hnth, Hbef, Hcur.
  assert (Hlen : length (firstn i v) = i) by (rewrite firstn_length; lia).
  destruct (Z.leb_spec 1 (p - (-1 + L + 1))) as [Hrb|Hrb].
  - eexists; split; [reflexivity|]. f_equal.
    set (rb := p - (-1 + L + 1)) in *. set (ra := -1 + L + Z.of_nat n - (-1 + L) - rb).
    rewrite (erase_map_once_cmap v i Hwf Hi).
    set (w0 := firstn i v ++ skipn (S i) v).
    assert (H0 : (i <= length w0)%nat) by (unfold w0; rewrite app_length; lia).
    replace rb with (Z.of_nat (Z.to_nat rb)) at 1 by lia.
    rewrite (insert_map_once_cmap w0 i (Z.to_nat rb) b H0).
    set (w1 := firstn i w0 ++ (Z.to_nat rb, b) :: skipn i w0).
    assert (Hw1 : w1 = firstn i v ++ (Z.to_nat rb, b) :: skipn (S i) v).
    { unfold w1, w0. rewrite firstn_firstn_app, skipn_firstn_app by (symmetry; exact Hlen). reflexivity. }
    assert (H1 : (S i <= length w1)%nat) by (rewrite Hw1, app_length; cbn [length]; lia).
    rewrite (insert_map_once_cmap w1 (S i) r a H1).
    set (w2 := firstn (S i) w1 ++ (r, a) :: skipn (S i) w1).
    assert (Hw2 : w2 = firstn i v ++ (Z.to_nat rb, b) :: (r, a) :: skipn (S i) v).
    { unfold w2. rewrite Hw1.
      replace (firstn i v ++ (Z.to_nat rb, b) :: skipn (S i) v) with ((firstn i v ++ [(Z.to_nat rb, b)]) ++ skipn (S i) v)
        by (rewrite <- app_assoc; reflexivity).
      rewrite firstn_firstn_app, skipn_firstn_app by (rewrite app_length; cbn [length]; lia).
      rewrite <- app_assoc. reflexivity. }
    assert (H2 : (S (S i) <= length w2)%nat) by (rewrite Hw2, app_length; cbn [length]; lia).
    replace ra with (Z.of_nat (Z.to_nat ra)) by (unfold ra, rb in *; lia).
    rewrite (insert_map_once_cmap w2 (S (S i)) (Z.to_nat ra) b H2). f_equal.
    rewrite Hw2.
    replace (firstn i v ++ (Z.to_nat rb, b) :: (r, a) :: skipn (S i) v)
      with ((firstn i v ++ [(Z.to_nat rb, b); (r, a)]) ++ skipn (S i) v) by (rewrite <- app_assoc; reflexivity).
    rewrite firstn_firstn_app, skipn_firstn_app by (rewrite app_length; cbn [length]; lia).
    rewrite ?Nat2Z.id, <- app_assoc. reflexivity.
  - eexists; split; [reflexivity|]. f_equal.
    rewrite (insert_map_once_cmap v i r a ltac:(lia)). reflexivity.
Qed.

Lemma cmap_from_dec acc n b (tl : runs) : (1 <= n)%nat ->
  map (fun x => x - 1) (cmap_from acc ((n, b) :: tl)) = cmap_from acc (((n - 1)%nat, b) :: tl).
Proof.
  intros Hn. cbn [cmap_from map]. f_equal; [lia|].
  rewrite (map_ext (fun x => x - 1) (fun x => x + (-1))) by (intros; lia).
  rewrite cmap_from_shift. f_equal. lia.
Qed.

Theorem delete_map_correct (p : Z) (v : runs) :
  wf v -> 0 <= p < Z.of_nat (width v) ->
  exists v', delete_item p v (cmap v) = Some v' /\ delete_map p (cmap v) = Some (cmap v').
Proof.
  intros Hwf Hp.
  destruct (locate v p Hwf Hp) as (i & n & b & Hf & Hnth & Hi & Hbef & Hcur & Hrange). cbv zeta in *.
  set (L := Z.of_nat (length (expand (firstn i v)))) in *.
  unfold delete_item, delete_map. rewrite Hf, Hnth, Hbef, Hcur.
  destruct (Z.leb_spec 1 (-1 + L + Z.of_nat n - (-1 + L) - 1)) as [H|H].
  - eexists; split; [reflexivity|]. f_equal. unfold cmap.
    rewrite cmap_from_app, <- cmap_from_firstn. f_equal. fold L.
    rewrite cmap_from_skipn. fold L. rewrite (skipn_cons_nth v i (n, b) Hnth).
    rewrite cmap_from_dec by lia. f_equal. f_equal. f_equal. lia.
  - eexists; split; [reflexivity|]. f_equal.
    rewrite <- (erase_map_once_cmap v i Hwf Hi). unfold erase_map_once. rewrite Hbef, Hcur.
    f_equal. apply map_ext. intros; lia.
Qed.
End VP4.
Arguments insert_map_correct {A}. Arguments delete_map_correct {A}.
