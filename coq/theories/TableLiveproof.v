(* TableLiveproof.v — what a live row handle does, precisely: the whole stored run is rewritten, nothing else. *)
From Coq Require Import List ZArith Lia Bool Arith.
Import ListNotations.
Require Import Vault Vaultproof Vaultproof2 Vaultproof4 Row Table Grid Tableabs Coord TableExt TableLive Tablexml Tablexmlproof
               Tableproof Tableproof2 Tableproof3 Tableproof4 Tableproof5 Tableproof6 Tableproof8.
Open Scope Z_scope.

Lemma live_ok_rop_ok o : live_ok o -> rop_ok o.
Proof.
  unfold live_ok. destruct o as [x c|x c|x|c|cl s cs|cs|]; cbn; intros H; try discriminate; try exact I; apply Nat.leb_le, H.
Qed.
Lemma live_ok_no_clear v o : live_ok o -> clears v o = false.
Proof. unfold live_ok. destruct o; cbn; intros H; try discriminate; reflexivity. Qed.
Lemma rowx_run_live os : forall r, Forall live_ok os -> forall r', rowx_run r os = Some r' -> fst r' = fst r.
Proof.
  induction os as [|o os IH]; intros r Hok r' H; cbn [rowx_run] in H.
  - now inversion H.
  - inversion Hok; subst. destruct (rstep (snd r) o) as [v'|]; [|discriminate].
    rewrite (live_ok_no_clear (snd r) o) in H by assumption. apply IH in H; [|assumption]. exact H.
Qed.

Theorem live_row_spec y os t : WF t -> 0 <= y -> Forall live_ok os ->
  exists t', t_live_row y os t = Some t' /\ WF t' /\ cols t' = cols t /\
    (theight t <= y -> t' = t) /\
    (y < theight t ->
       exists (lo rep : nat), (1 <= rep)%nat /\ Z.of_nat lo <= y < Z.of_nat (lo + rep) /\
         (exists r0, row_at y t = Some (rep, r0)) /\ (lo + rep <= length (grows (abs_t t)))%nat /\
         grows (abs_t t') = firstn lo (grows (abs_t t)) ++ repeat (fold_left lstep os (g_row y (abs_t t))) rep
                            ++ skipn (lo + rep) (grows (abs_t t))).
Proof.
  intros [[Hr Hc] Hcw] Hy Hok. unfold t_live_row.
  destruct (Z.leb_spec (theight t) y) as [Hout|Hin].
  - exists t. repeat split; auto. intros; lia.
  - assert (Hp : 0 <= y < Z.of_nat (width (rows t))) by (unfold theight in Hin; lia).
    destruct (locate _ (rows t) y Hr Hp) as (i & n & r & Hf & Hnth & Hi & Hbef & Hcur & Hrange). cbv zeta in *.
    set (L := length (expand (firstn i (rows t)))) in *.
    rewrite Hf, Hnth.
    assert (Hwr : rwf r).
    { unfold cwf in Hcw. rewrite Forall_forall in Hcw. apply (Hcw (n, r)). eapply nth_error_In; eauto. }
    assert (Hrok : Forall rop_ok os) by (eapply Forall_impl; [|exact Hok]; apply live_ok_rop_ok).
    destruct (rowx_run_refines os r Hwr Hrok) as (r' & Hrun & He & Hw'). rewrite Hrun.
    pose proof (firstn_skipn_nth_error (rows t) i (n, r) Hnth) as Hv.
    assert (Hn1 : (1 <= n)%nat).
    { unfold wf in Hr. rewrite Forall_forall in Hr. apply (Hr (n, r)). eapply nth_error_In; eauto. }
    eexists. split; [reflexivity|]. split; [|split; [reflexivity|split; [intros; lia|]]].
    + split; [split|]; cbn [rows cols].
      * apply Forall_app; split; [now apply Forall_firstn|]. constructor; [exact Hn1|now apply Forall_skipn].
      * exact Hc.
      * unfold cwf in *. cbn [rows]. apply Forall_app; split; [now apply Forall_firstn|].
        constructor; [exact Hw'|now apply Forall_skipn].
    + intros _. exists L, n. split; [exact Hn1|]. split; [lia|]. split; [exists r; unfold row_at; rewrite Hf; exact Hnth|].
      assert (HG : grows (abs_t t) = map grow_of (expand (firstn i (rows t))) ++ repeat (grow_of r) n ++ map grow_of (expand (skipn (S i) (rows t)))).
      { cbn [abs_t grows]. rewrite Hv at 1. rewrite expand_app, map_app. cbn [expand]. rewrite map_app, map_repeat'. reflexivity. }
      assert (HL : length (map grow_of (expand (firstn i (rows t)))) = L) by (rewrite map_length; reflexivity).
      split; [rewrite HG, !app_length, HL, repeat_length; lia|].
      assert (Hrow : g_row y (abs_t t) = grow_of r).
      { unfold g_row. rewrite HG. rewrite app_nth2 by lia. rewrite HL. rewrite app_nth1 by (rewrite repeat_length; lia).
        apply nth_repeat_lt. lia. }
      rewrite Hrow, HG. cbn [abs_t grows rows]. rewrite expand_app, map_app. cbn [expand]. rewrite map_app, map_repeat'.
      rewrite (firstn_app_exact _ _ L) by (symmetry; exact HL).
      replace (L + n)%nat with (length (map grow_of (expand (firstn i (rows t))) ++ repeat (grow_of r) n) + 0)%nat
        by (rewrite app_length, repeat_length, HL; lia).
      rewrite (app_assoc (map grow_of (expand (firstn i (rows t)))) (repeat (grow_of r) n)), skipn_app_2, skipn_O.
      unfold grow_of at 2 4. rewrite He. reflexivity.
Qed.

(* rows outside the stored run keep their content; every row of the run gets the same edit *)
Theorem live_row_touches_its_run_only y os t t' : WF t -> 0 <= y < theight t -> Forall live_ok os ->
  t_live_row y os t = Some t' ->
  exists (lo rep : nat), Z.of_nat lo <= y < Z.of_nat (lo + rep) /\ (exists r0, row_at y t = Some (rep, r0)) /\
    ncols (abs_t t') = ncols (abs_t t) /\ gheight (abs_t t') = gheight (abs_t t) /\
    forall y', 0 <= y' ->
      g_row y' (abs_t t') = if (Z.of_nat lo <=? y') && (y' <? Z.of_nat (lo + rep))
                            then fold_left lstep os (g_row y (abs_t t)) else g_row y' (abs_t t).
Proof.
  intros Hwf [Hy Hin] Hok Hs.
  destruct (live_row_spec y os t Hwf Hy Hok) as (t2 & Hs2 & Hw2 & Hc2 & _ & Hrun). rewrite Hs in Hs2. inversion Hs2; subst t2.
  destruct (Hrun Hin) as (lo & rep & Hrep & Hr & Hra & Hlen & HG). exists lo, rep. split; [exact Hr|]. split; [exact Hra|].
  split; [unfold abs_t, twidth; cbn [ncols]; now rewrite Hc2|].
  split.
  { unfold gheight. rewrite HG, !app_length, firstn_length, repeat_length, skipn_length. lia. }
  intros y' Hy'. unfold g_row at 1. rewrite HG.
  assert (HLf : length (firstn lo (grows (abs_t t))) = lo) by (rewrite firstn_length; lia).
  destruct (Z.leb_spec (Z.of_nat lo) y'); destruct (Z.ltb_spec y' (Z.of_nat (lo + rep))); cbn [andb].
  - rewrite app_nth2 by lia. rewrite HLf. rewrite app_nth1 by (rewrite repeat_length; lia). apply nth_repeat_lt. lia.
  - rewrite app_nth2 by lia. rewrite HLf. rewrite app_nth2 by (rewrite repeat_length; lia). rewrite repeat_length, nth_skipn'.
    unfold g_row. f_equal. lia.
  - rewrite app_nth1 by lia. rewrite nth_firstn_lt by lia. reflexivity.
  - lia.
Qed.

(* a handle on a row that is stored unrepeated edits exactly that row *)
Corollary live_row_unrepeated y os t t' r0 : WF t -> 0 <= y < theight t -> Forall live_ok os ->
  row_at y t = Some (1%nat, r0) -> t_live_row y os t = Some t' ->
  forall y', 0 <= y' -> g_row y' (abs_t t') = if y' =? y then fold_left lstep os (g_row y (abs_t t)) else g_row y' (abs_t t).
Proof.
  intros Hwf Hy Hok Hra Hs y' Hy'.
  destruct (live_row_touches_its_run_only y os t t' Hwf Hy Hok Hs) as (lo & rep & Hr & (r1 & Hra') & _ & _ & H).
  rewrite Hra in Hra'. inversion Hra'; subst rep. rewrite (H y' Hy').
  destruct (Z.eqb_spec y' y); destruct (Z.leb_spec (Z.of_nat lo) y'); destruct (Z.ltb_spec y' (Z.of_nat (lo + 1))); cbn [andb]; try reflexivity; lia.
Qed.

(* ---- refuted: a live-handle edit is NOT a function of the plain grid (two encodings of the same grid give different
        grids), and it can leave a row wider than the declared columns (C07's invariant) ---- *)
Lemma live_row_not_a_grid_function_w : exists (t1 t2 : tstate) (y : Z) (os : list rop) t1' t2',
  WF t1 /\ WF t2 /\ abs_t t1 = abs_t t2 /\ Forall live_ok os /\
  t_live_row y os t1 = Some t1' /\ t_live_row y os t2 = Some t2' /\ abs_t t1' <> abs_t t2'.
Proof.
  exists {| cols := [(1%nat, 0)]; rows := [(2%nat, (0, [(1%nat, (5, 0))]))] |},
         {| cols := [(1%nat, 0)]; rows := [(1%nat, (0, [(1%nat, (5, 0))])); (1%nat, (0, [(1%nat, (5, 0))]))] |},
         0, [RSet 0 (1%nat, (9, 0))].
  eexists. eexists. split; [repeat split; repeat constructor; cbn; lia|]. split; [repeat split; repeat constructor; cbn; lia|].
  split; [reflexivity|]. split; [repeat constructor|]. split; [vm_compute; reflexivity|]. split; [vm_compute; reflexivity|].
  vm_compute. discriminate.
Qed.
Lemma live_row_breaks_fit_w : exists (t : tstate) (y : Z) (os : list rop) t',
  WF t /\ fits t = true /\ Forall live_ok os /\ t_live_row y os t = Some t' /\ XmlOK (render t') = false.
Proof.
  exists {| cols := [(1%nat, 0)]; rows := [(1%nat, (0, [(1%nat, (5, 0))]))] |}, 0, [RApp (1%nat, (9, 0))].
  eexists. split; [repeat split; repeat constructor; cbn; lia|]. split; [reflexivity|]. split; [repeat constructor|].
  split; [vm_compute; reflexivity|]. vm_compute. reflexivity.
Qed.

(* ---- the handle written back with set_row ---- *)
Lemma cmap_from_same_reps {A B} (v : list (nat * A)) (v' : list (nat * B)) : map fst v = map fst v' -> forall acc, cmap_from acc v = cmap_from acc v'.
Proof.
  revert v'; induction v as [|[n a] v IH]; intros [|[n' b] v'] H acc; try discriminate; [reflexivity|].
  cbn [map fst] in H. inversion H; subst. cbn [cmap_from]. f_equal. apply IH. assumption.
Qed.
Lemma width_same_reps {A B} (v : list (nat * A)) (v' : list (nat * B)) : map fst v = map fst v' -> width v = width v'.
Proof.
  revert v'; induction v as [|[n a] v IH]; intros [|[n' b] v'] H; try discriminate; [reflexivity|].
  cbn [map fst] in H. inversion H; subst. unfold width in *. cbn [expand]. rewrite !app_length, !repeat_length. f_equal. apply IH. assumption.
Qed.

(* written back, the edit through a live handle IS the Table-level row edit (hence within the plain-grid contract,
   edit_row_refines) exactly when the handle is a fresh row beyond the table or the row is stored unrepeated *)
Theorem live_row_back_is_table_edit y os t : WF t -> 0 <= y -> Forall live_ok os ->
  (theight t <= y \/ exists r0, row_at y t = Some (1%nat, r0)) -> t_live_row_back y os t = t_edit_row y os t.
Proof.
  intros [[Hr Hc] Hcw] Hy Hok Hcase. unfold t_live_row_back.
  destruct (Z.leb_spec (theight t) y) as [Hout|Hin]; [reflexivity|].
  destruct Hcase as [Hc1|(r0 & Hra)]; [lia|].
  assert (Hp : 0 <= y < Z.of_nat (width (rows t))) by (unfold theight in Hin; lia).
  destruct (locate _ (rows t) y Hr Hp) as (i & n & r & Hf & Hnth & Hi & Hbef & Hcur & Hrange). cbv zeta in *.
  set (L := length (expand (firstn i (rows t)))) in *.
  unfold row_at in Hra. rewrite Hf, Hnth in Hra. inversion Hra; subst n r. clear Hra.
  unfold t_live_row. destruct (Z.leb_spec (theight t) y); [lia|]. rewrite Hf, Hnth.
  assert (Hwr : rwf r0). { unfold cwf in Hcw. rewrite Forall_forall in Hcw. apply (Hcw (1%nat, r0)). eapply nth_error_In; eauto. }
  assert (Hrok : Forall rop_ok os) by (eapply Forall_impl; [|exact Hok]; apply live_ok_rop_ok).
  destruct (rowx_run_refines os r0 Hwr Hrok) as (r' & Hrun & _ & _). rewrite Hrun.
  set (rows1 := firstn i (rows t) ++ (1%nat, r') :: skipn (S i) (rows t)).
  pose proof (firstn_skipn_nth_error (rows t) i (1%nat, r0) Hnth) as Hv.
  assert (Hreps : map fst rows1 = map fst (rows t)).
  { unfold rows1. rewrite Hv at 3. rewrite !map_app. reflexivity. }
  assert (Hcm : cmap rows1 = cmap (rows t)) by (apply cmap_from_same_reps, Hreps).
  assert (Hnth1 : nth_error rows1 i = Some (1%nat, r')).
  { unfold rows1. rewrite nth_error_app2 by (rewrite firstn_length; lia). rewrite firstn_length. replace (i - Nat.min i (length (rows t)))%nat with 0%nat by lia. reflexivity. }
  unfold row_at. cbn [rows]. fold rows1. rewrite Hcm, Hf, Hnth1.
  (* the Table-level edit *)
  unfold t_edit_row, base_row. destruct (Z.leb_spec (theight t) y); [lia|]. unfold row_at. rewrite Hf, Hnth, Hrun.
  (* both set_row calls are in range and replace the same one-position run *)
  assert (Hh1 : theight {| cols := cols t; rows := rows1 |} = theight t).
  { unfold theight. cbn [rows]. now rewrite (width_same_reps rows1 (rows t) Hreps). }
  unfold set_row. cbn [rows cols]. rewrite !Hh1.
  destruct (Z.eqb_spec (y - theight t) 0); [lia|]. destruct (Z.ltb_spec 0 (y - theight t)); [lia|].
  assert (Hset : set_item y (1%nat, r') rows1 (cmap rows1) = set_item y (1%nat, r') (rows t) (cmap (rows t))).
  { unfold set_item. rewrite Hcm, Hf, Hnth1, Hnth, Hbef, Hcur. cbn [fst].
    assert (HyL : y = Z.of_nat L) by lia.
    replace (y - (-1 + Z.of_nat L + 1)) with 0 by lia.
    replace (-1 + Z.of_nat L + Z.of_nat 1 - (-1 + Z.of_nat L) - 0) with 1 by lia.
    change (Z.to_nat 1) with 1%nat. cbn [drop_pos Nat.leb Nat.sub]. change (1 <=? 0) with false. cbv iota.
    assert (Hd0 : forall (v : list (nat * rowx)), drop_pos 0 v = v) by (intros v; destruct v; reflexivity).
    rewrite !Hd0.
    unfold rows1. rewrite firstn_app_exact by (rewrite firstn_length; lia).
    replace (S i) with (length (firstn i (rows t)) + 1)%nat at 1 by (rewrite firstn_length; lia).
    rewrite skipn_app_2. reflexivity. }
  rewrite Hset. destruct (set_item y (1%nat, r') (rows t) (cmap (rows t))); reflexivity.
Qed.
