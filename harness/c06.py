"""C06: typed values survive the trip through Cell / Row / Table / VarSet / UserFieldDecl / UserDefined / user-defined metadata.

Theorems: coq/theories/C06.v (model Typed.v on top of Codec.v).  Correspondence: boundary values x carriers x three legs
(direct, re-parse of the element, document save / reload through BytesIO).  After every write and before every read the
element is abstracted by an independent lxml walk (for the reload leg: of the bytes in the saved zip) to its type and payload
attributes; Coq (TypedChk.chk06) evaluates on those: the model's set, the lexical predicate, the model's get from the same
element, and "equal value of the corresponding type"."""
import sys, io, json, random, time, zipfile
from pathlib import Path
sys.path.insert(0, str(Path(__file__).resolve().parent))
import common
from codec_gen import cstr, cz, copt, limited
from datetime import date, datetime, timedelta, timezone
from decimal import Decimal
from lxml import etree

PROP = "C06"
HEADER = ("Require Import Codec Typed TypedChk. From Coq Require Import List ZArith NArith Bool. Import ListNotations.\n"
          "Open Scope N_scope.\nDefinition chk := chk06all.\n")
LAYER = {1: "value: the value read back is not an equal value of the corresponding type",
         2: "lexical: the attribute written is outside the ODF lexical space of its value type",
         6: "overwrite: the attribute set left by a write on an occupied carrier is not the one the same write leaves on a fresh carrier (something of the previous value survives)",
         3: "set: the attribute set written differs from the model's set from the same previous state",
         4: "get: the value read differs from the model's reading of the same attributes",
         5: "persistence: the stored attributes changed through re-parse or save / reload",
         9: "neighbours: writing one cell of a repeated run changed another logical cell (or the width)"}
FIDELITY = 8
MODEL_ERR = 7
NS = dict(office="urn:oasis:names:tc:opendocument:xmlns:office:1.0", text="urn:oasis:names:tc:opendocument:xmlns:text:1.0",
          table="urn:oasis:names:tc:opendocument:xmlns:table:1.0", meta="urn:oasis:names:tc:opendocument:xmlns:meta:1.0")
Q = lambda p, n: "{%s}%s" % (NS[p], n)
US = timedelta(microseconds=1)
import datetime as _dtmod
EVAL_NS = dict(datetime=_dtmod, Decimal=Decimal)       # values are stored in replays / corpus as their repr


# ---------------------------------------------------------------- abstraction (independent of odfdo's getters)
def node_of(obj):
    return obj._Element__element


CALCEXT = "urn:org:documentfoundation:names:experimental:calc:xmlns:calcext:1.0"
# attributes that say where / how the carrier is shown, not what value it holds
IGNORED = {Q("text", "name"), Q("text", "display"), Q("meta", "name"), Q("table", "style-name"),
           Q("table", "number-columns-repeated"), Q("table", "number-rows-repeated"), "{urn:oasis:names:tc:opendocument:xmlns:style:1.0}data-style-name"}
EMPTY_E = "(E None None None None None None None None None None [])"


def qname(node, clark):
    """{ns}local -> prefix:local with the prefix the document declares (fixed ones for the namespaces the model names)"""
    ns, _, local = clark[1:].partition("}") if clark.startswith("{") else ("", "", clark)
    fixed = {NS["table"]: "table", NS["office"]: "office", NS["text"]: "text", NS["meta"]: "meta", CALCEXT: "calcext",
             "urn:org:documentfoundation:names:experimental:office:xmlns:loext:1.0": "loext"}
    if ns in fixed:
        return fixed[ns] + ":" + local
    for pre, uri in (node.nsmap or {}).items():
        if uri == ns and pre:
            return pre + ":" + local
    return clark


def abs_elem(node, meta=False):
    """lxml node -> Coq term  E type bool value date string time text currency calcext-type calcext-value others.
    Every attribute of the node is accounted for: the ten known ones by field, the rest (minus IGNORED) in `others`."""
    if node is None:
        return EMPTY_E
    a = dict(node.attrib)
    take = lambda k: a.pop(k, None)
    o = lambda n: take(Q("office", n))
    if meta:
        f = [take(Q("meta", "value-type")), o("boolean-value"), o("value"), o("date-value"), o("string-value"), o("time-value"), node.text or None]
    else:
        f = [o("value-type"), o("boolean-value"), o("value"), o("date-value"), o("string-value"), o("time-value"), None]
    f += [o("currency"), take("{%s}value-type" % CALCEXT), take("{%s}value" % CALCEXT)]
    rest = sorted((qname(node, k), v) for k, v in a.items() if k not in IGNORED)
    return "(E %s [%s])" % (" ".join(copt(x, cstr) for x in f), "; ".join("(%s, %s)" % (cstr(n), cstr(v)) for n, v in rest))


def c_dt(d):
    off = d.utcoffset()
    if off is not None:
        off = off // US                      # microseconds
    return "(DT %d %d %d %d %d %d %d %s)" % (d.year, d.month, d.day, d.hour, d.minute, d.second, d.microsecond, copt(off, cz))


def c_val(v):
    if v is None: return "VNone"
    if v is True: return "(VBool true)"
    if v is False: return "(VBool false)"
    if type(v) is int: return "(VInt %s)" % cz(v)
    if type(v) is float:
        return "(VFloat %s)" % cstr(repr(v))
    if type(v) is Decimal:
        if not v.is_finite(): return "VOther"
        sg, digits, exp = v.as_tuple()
        return "(VDec (mkdec %s %d %s))" % ("true" if sg else "false", int("".join(map(str, digits)) or "0"), cz(exp))
    if type(v) is str: return "(VStr %s)" % cstr(v)
    if type(v) is datetime:
        t = c_dt(v)
        return "VOther" if t is None else "(VDateTime %s)" % t
    if type(v) is date: return "(VDate %d %d %d)" % (v.year, v.month, v.day)
    if type(v) is timedelta: return "(VDur %s)" % cz(v // US)
    return "VOther"


def c_res(ok, r):
    return "(Ok %s)" % c_val(r) if ok else "(@Err pyval)"


def vclass(v):
    if v is None: return "None"
    if isinstance(v, bool): return "bool"
    if isinstance(v, int): return "int" + ("-huge" if abs(v) >= 2 ** 63 else "")
    if isinstance(v, float): return "float" + ("-exp" if "e" in repr(v) else "")
    if isinstance(v, Decimal): return "Decimal" + ("-exp" if "E" in str(v) else "")
    if isinstance(v, str):
        if v in ("true", "false"): return "str-true-false"
        if any(not (c in "\t\n\r" or 32 <= ord(c) <= 0xD7FF or 0xE000 <= ord(c) <= 0xFFFD or ord(c) >= 0x10000) for c in v): return "str-not-xml"
        return "str" + ("-empty" if v == "" else "-ws" if v != v.strip() or "\n" in v or "\t" in v else "")
    if isinstance(v, datetime):
        off = v.utcoffset()
        return "datetime" + ("" if off is None else "-tz" if off.seconds % 60 == 0 and not off.microseconds else "-tz-seconds") + ("-micro" if v.microsecond else "")
    if isinstance(v, date): return "date"
    if isinstance(v, timedelta): return "timedelta" + ("-subsecond" if v.microseconds else "") + ("-neg" if v < timedelta(0) else "")
    return "other"


# ---------------------------------------------------------------- values
def boundary_values(tier, rng):
    tzs = [None, timezone.utc, timezone(timedelta(hours=5, minutes=30)), timezone(timedelta(hours=-11)), timezone(timedelta(hours=14)),
           timezone(timedelta(hours=-14)), timezone(timedelta(hours=23, minutes=59)), timezone(timedelta(seconds=1))]
    vals = [None, True, False,
            0, 1, -1, 7, 10, 255, -255, 2 ** 31, -2 ** 31, 2 ** 63, 10 ** 30, -10 ** 30, 10 ** 100 + 1, 123456789012345678901234567890,
            0.5, -0.0, 0.0, 1.0, 3.0, -2.5, 1e300, 1e-300, 0.1, 123456789.123456789, 1e16, 1e15, 123456789012345680.0, 1e-5, 0.0001, 5e-324,
            1.7976931348623157e308, 1e22, 1e21, 2.5e-7, -1e-7, 100.0, 1e100,
            Decimal("1.10"), Decimal("-0.001"), Decimal("1E+5"), Decimal("100"), Decimal("0"), Decimal("0.00"), Decimal("-0"), Decimal("1E-7"),
            Decimal("0.000001"), Decimal("0.0000001"), Decimal("123456789.123456789"), Decimal("1E+30"), Decimal("12345678901234567890.5"),
            Decimal("5E-1"), Decimal("-1E+2"), Decimal("0E+3"), Decimal("0E-8"), Decimal("10.0"), Decimal("-7"),
            "", " ", "  a  b ", "a\tb\nc", "<&>\"'", "é€", "true", "false", "True", "2024-01-01", "12", "None", "\r", "a\rb", "\U0001F600",
            " leading", "\n", "PT1S", "nan", "2024-01-01T00:00:00", "x" * 300, "]]>", "&amp;", " ", " ",
            date(1, 1, 1), date(9999, 12, 31), date(2024, 2, 29), date(1900, 3, 1), date(999, 9, 9),
            datetime(1, 1, 1), datetime(9999, 12, 31, 23, 59, 59, 999999), datetime(2024, 1, 1, 12, 0, tzinfo=timezone.utc),
            datetime(2024, 1, 1, 12, 0, 0, 1, tzinfo=tzs[2]), datetime(2024, 1, 1), datetime(2024, 2, 29, 23, 59, 59, tzinfo=tzs[3]),
            datetime(5, 6, 7, 8, 9, 10, 123000, tzinfo=tzs[4]), datetime(2024, 12, 31, 0, 0, 0, 500000, tzinfo=tzs[5]),
            datetime(2000, 1, 1, 0, 0, 1, tzinfo=tzs[6]), datetime(2024, 1, 1, 12, 0, 0, 999999),
            timedelta(0), timedelta(seconds=1), timedelta(seconds=-1), timedelta(days=3, seconds=5), timedelta(days=-2, seconds=7), timedelta(days=400),
            timedelta(seconds=3599), timedelta(seconds=3600), timedelta(seconds=86399), timedelta(days=1), timedelta(days=-1), timedelta(days=36500, seconds=86399),
            timedelta(days=999999999, seconds=86399), timedelta(days=-999999999), timedelta(hours=100, seconds=-1),
            # outside the domain of the property (compared with the model only)
            "\x00", "a\x0bb", "\ud800", "￾",
            # sub-second durations (F71) and second-granular offsets (no lexical claim)
            timedelta(seconds=1, microseconds=500000), timedelta(microseconds=1), timedelta(microseconds=-500000),
            datetime(2024, 1, 1, 12, 0, tzinfo=tzs[7])]
    n = 40 if tier == "quick" else 1500
    for _ in range(n):
        k = rng.randint(0, 7)
        if k == 0: vals.append(rng.randint(-10 ** rng.randint(1, 40), 10 ** rng.randint(1, 40)))
        elif k == 1: vals.append(rng.choice([rng.random(), rng.uniform(-1e6, 1e6), rng.uniform(-1, 1) * 10 ** rng.randint(-300, 300), float(rng.randint(-10 ** 6, 10 ** 6))]))
        elif k == 2:
            vals.append(Decimal((rng.randint(0, 1), tuple(rng.randint(0, 9) for _ in range(rng.randint(1, 25))), rng.randint(-30, 12))))
        elif k == 3:
            vals.append("".join(rng.choice("a é<&\"'\t\n  0true 中") for _ in range(rng.randint(0, 12))))
        elif k == 4:
            y = rng.randint(1, 9999); m = rng.randint(1, 12); vals.append(date(y, m, rng.randint(1, 28)))
        elif k in (5, 6):
            y = rng.randint(1, 9999)
            vals.append(datetime(y, rng.randint(1, 12), rng.randint(1, 28), rng.randint(0, 23), rng.randint(0, 59), rng.randint(0, 59),
                                 rng.choice([0, 0, 1, 999999, rng.randint(0, 999999)]),
                                 tzinfo=rng.choice(tzs[:7] + [timezone(timedelta(minutes=rng.randint(-1439, 1439)))])))
        else:
            vals.append(timedelta(seconds=rng.choice([rng.randint(-10 ** 5, 10 ** 5), rng.randint(-10 ** 9, 10 ** 9), rng.randint(-86399999913600, 86399999999999)])))
    return vals


# ---------------------------------------------------------------- carriers
# name -> (setk, build(v) -> object, [(getk, read(obj))], reparse(obj) -> object, node(obj) -> lxml node holding the attributes)
def carriers(O):
    Cell, Row, Table, Element = O.Cell, O.Row, O.Table, O.Element
    from odfdo.variable import VarSet, UserFieldDecl, UserDefined, VarGet, UserFieldGet, UserFieldInput
    reparse = lambda o: Element.from_tag(o.serialize())
    ident = lambda o: node_of(o)

    def cell_setter(v):
        c = Cell(); c.value = v; return c

    def cell_set_value(v):
        c = Cell(42); c.set_value(v); return c

    def row_build(v):
        r = Row(); r.set_value(1, v); return r

    def table_build(v):
        t = Table("t"); t.set_value((1, 2), v); return t

    def varset2(v):
        e = VarSet(name="n", value="before"); e.set_value(v); return e

    def ufd2(v):
        e = UserFieldDecl(name="n", value=12); e.set_value(v); return e

    def cell_in(node, x, y=None):
        """independent walk: the x-th logical cell of a row node (of the y-th logical row of a table node)"""
        if y is not None:
            k = 0
            for r in node.iter(Q("table", "table-row")):
                rep = int(r.get(Q("table", "number-rows-repeated")) or 1)
                if k <= y < k + rep:
                    node = r; break
                k += rep
            else:
                return None
        k = 0
        for c in node:
            if c.tag != Q("table", "table-cell"):
                continue
            rep = int(c.get(Q("table", "number-columns-repeated")) or 1)
            if k <= x < k + rep:
                return c
            k += rep
        return None

    cellreads = [("GetET", lambda c: c.get_value()), ("GetCellValue", lambda c: c.value)]
    et = [("GetET", lambda e: e.get_value())]
    return {
        "Cell(v)": ("SetET", lambda v: Cell(v), cellreads, reparse, ident),
        "Cell.set_value": ("SetET", cell_set_value, cellreads, reparse, ident),
        "Cell.value=": ("SetCellValue", cell_setter, cellreads, reparse, ident),
        "Row.set_value": ("SetET", row_build, [("GetET", lambda r: r.get_value(1))], reparse, lambda r: cell_in(node_of(r), 1)),
        "Table.set_value": ("SetET", table_build, [("GetET", lambda t: t.get_value((1, 2)))], reparse, lambda t: cell_in(node_of(t), 1, 2)),
        "VarSet(v)": ("SetET", lambda v: VarSet(name="n", value=v), et, reparse, ident),
        "VarSet.set_value": ("SetET", varset2, et, reparse, ident),
        "UserFieldDecl(v)": ("SetET", lambda v: UserFieldDecl(name="n", value=v), et, reparse, ident),
        "UserFieldDecl.set_value": ("SetET", ufd2, et, reparse, ident),
        "UserDefined(v)": ("SetET", lambda v: UserDefined(name="n", value=v), et, reparse, ident),
        "VarGet(v)": ("SetET", lambda v: VarGet(name="n", value=v), et, reparse, ident),
        "UserFieldGet(v)": ("SetET", lambda v: UserFieldGet(name="n", value=v), et, reparse, ident),
        "UserFieldInput(v)": ("SetET", lambda v: UserFieldInput(name="n", value=v), et, reparse, ident),
    }, cell_in


def drive(O, vals, with_docs=True):
    """returns list of (carrier, value index, coq case, value class)"""
    Document, Element = O.Document, O.Element
    CAR, cell_in = carriers(O)
    out = []
    per = {}        # (carrier, i) -> dict(setk, v, written, reads=[...])
    for name, (setk, build, readers, reparse, nodef) in CAR.items():
        for i, v in enumerate(vals):
            ok, obj = limited(lambda: build(v))
            if not ok:
                if isinstance(obj, (MemoryError, KeyboardInterrupt)): raise obj
                per[(name, i)] = dict(setk=setk, written="(@Err elem)", reads=[], obj=None)
                continue
            okn, node = limited(lambda: nodef(obj))
            rec = dict(setk=setk, written="(Ok %s)" % abs_elem(node if okn else None), reads=[], obj=obj)
            for gk, rd in readers:                                  # leg 1: direct
                okr, r = limited(lambda: rd(obj))
                rec["reads"].append("(%s, %s, %s)" % (gk, abs_elem(node if okn else None), c_res(okr, r)))
            ok2, obj2 = limited(lambda: reparse(obj))                # leg 2: re-parse of the serialised element
            if ok2:
                okn2, node2 = limited(lambda: nodef(obj2))
                for gk, rd in readers:
                    okr, r = limited(lambda: rd(obj2))
                    rec["reads"].append("(%s, %s, %s)" % (gk, abs_elem(node2 if okn2 else None), c_res(okr, r)))
            else:
                rec["reads"].append("(GetET, %s, @Err pyval)" % EMPTY_E)
            per[(name, i)] = rec
    # Meta: direct leg
    meta_doc = Document("text")
    for i, v in enumerate(vals):
        ok, _ = limited(lambda: meta_doc.meta.set_user_defined_metadata("k%d" % i, v))
        if not ok:
            per[("Meta", i)] = dict(setk="SetMeta", written="(@Err elem)", reads=[], obj=None); continue
        node = [n for n in node_of(meta_doc.meta.root).iter(Q("meta", "user-defined")) if n.get(Q("meta", "name")) == "k%d" % i]
        a = abs_elem(node[0] if node else None, meta=True)
        okr, r = limited(lambda: meta_doc.meta.get_user_defined_metadata()["k%d" % i])
        if not okr:      # one unreadable entry must not hide the others: read it alone
            okr, r = limited(lambda: meta_doc.meta.get_user_defined_metadata_of_name("k%d" % i)["value"])
        reads = ["(GetMeta, %s, %s)" % (a, c_res(okr, r))]
        if okr:          # the other readers of the same entry: by name, the property, as_dict()
            for rd in (lambda: meta_doc.meta.get_user_defined_metadata_of_name("k%d" % i)["value"],
                       lambda: meta_doc.meta.user_defined_metadata["k%d" % i],
                       lambda: [x for x in meta_doc.meta.as_dict()["meta:user-defined"] if x["meta:name"] == "k%d" % i][0]["value"]):
                ok2, r2 = limited(rd); reads.append("(GetMeta, %s, %s)" % (a, c_res(ok2, r2)))
        per[("Meta", i)] = dict(setk="SetMeta", written="(Ok %s)" % a, reads=reads, obj=True)
        if not okr:
            limited(lambda: meta_doc.meta.set_user_defined_metadata("k%d" % i, "unreadable"))
    # Meta.user_defined_metadata = {...}: all readable values at once through the dict setter of a second document
    dict_doc = Document("text")
    good = {"k%d" % i: v for i, v in enumerate(vals) if per[("Meta", i)]["obj"] is not None and "@Err" not in per[("Meta", i)]["reads"][0]}
    okd, _ = limited(lambda: setattr(dict_doc.meta, "user_defined_metadata", good))
    for i, v in enumerate(vals):
        key = "k%d" % i
        if key not in good:
            continue
        if not okd:
            per[("Meta dict setter", i)] = dict(setk="SetMeta", written="(@Err elem)", reads=[], obj=None); continue
        node = [n for n in node_of(dict_doc.meta.root).iter(Q("meta", "user-defined")) if n.get(Q("meta", "name")) == key]
        a = abs_elem(node[0] if node else None, meta=True)
        okr, r = limited(lambda: dict_doc.meta.user_defined_metadata[key])
        per[("Meta dict setter", i)] = dict(setk="SetMeta", written="(Ok %s)" % a, reads=["(GetMeta, %s, %s)" % (a, c_res(okr, r))], obj=None)
    if with_docs:
        # leg 3: documents saved to BytesIO and reopened; the stored attributes are read from the zip bytes with lxml
        sheet = Document("spreadsheet"); sheet.body.clear()
        tabs = {}
        for name in ("Cell(v)", "Cell.value=", "Table.set_value", "Row.set_value"):
            t = O.Table(name); tabs[name] = t
            for i, v in enumerate(vals):
                rec = per[(name, i)]
                if rec["obj"] is None:
                    if name == "Row.set_value": t.append_row(O.Row())
                    else: t.set_value((0, i), "unset")
                    continue
                if name.startswith("Cell"):
                    limited(lambda: t.set_cell((0, i), rec["obj"]))
                elif name == "Table.set_value":
                    limited(lambda: t.set_value((0, i), v))
                else:
                    r = O.Row(); r.set_value(0, v); limited(lambda: t.append_row(r))
            sheet.body.append(t)
        bio = io.BytesIO(); sheet.save(bio)
        raw = etree.fromstring(zipfile.ZipFile(io.BytesIO(bio.getvalue())).read("content.xml"))
        rawtabs = {t.get(Q("table", "name")): t for t in raw.iter(Q("table", "table"))}
        doc2 = Document(io.BytesIO(bio.getvalue()))
        for name in tabs:
            t2 = doc2.body.get_table(name=name)
            for i, v in enumerate(vals):
                rec = per[(name, i)]
                if rec["obj"] is None: continue
                a = abs_elem(cell_in(rawtabs[name], 0, i))
                okr, r = limited(lambda: t2.get_value((0, i)))
                rec["reads"].append("(GetET, %s, %s)" % (a, c_res(okr, r)))
                if name.startswith("Cell"):
                    okr, r = limited(lambda: t2.get_cell((0, i)).value)
                    rec["reads"].append("(GetCellValue, %s, %s)" % (a, c_res(okr, r)))
        # text document with the fields
        tdoc = Document("text"); tdoc.body.clear()
        kinds = [("VarSet(v)", "variable-set"), ("UserFieldDecl(v)", "user-field-decl"), ("UserDefined(v)", "user-defined")]
        for name, tag in kinds:
            for i, v in enumerate(vals):
                rec = per[(name, i)]
                if rec["obj"] is None: continue
                p = O.Paragraph(""); rec["obj"].set_attribute("text:name", "%s%d" % (tag, i)); p.append(rec["obj"]); tdoc.body.append(p)
        bio = io.BytesIO(); tdoc.save(bio)
        raw = etree.fromstring(zipfile.ZipFile(io.BytesIO(bio.getvalue())).read("content.xml"))
        doc2 = Document(io.BytesIO(bio.getvalue()))
        for name, tag in kinds:
            rawn = {n.get(Q("text", "name")): n for n in raw.iter(Q("text", tag))}
            got = {e.get_attribute("text:name"): e for e in doc2.body.get_elements("descendant::text:" + tag)}
            for i, v in enumerate(vals):
                rec = per[(name, i)]
                if rec["obj"] is None: continue
                key = "%s%d" % (tag, i)
                okr, r = limited(lambda: got[key].get_value())
                rec["reads"].append("(GetET, %s, %s)" % (abs_elem(rawn.get(key)), c_res(okr, r)))
        # metadata
        bio = io.BytesIO(); meta_doc.save(bio)
        raw = etree.fromstring(zipfile.ZipFile(io.BytesIO(bio.getvalue())).read("meta.xml"))
        rawn = {n.get(Q("meta", "name")): n for n in raw.iter(Q("meta", "user-defined"))}
        doc2 = Document(io.BytesIO(bio.getvalue()))
        for i, v in enumerate(vals):
            rec = per[("Meta", i)]
            if rec["obj"] is None or "@Err" in rec["reads"][0]: continue
            okr, r = limited(lambda: doc2.meta.get_user_defined_metadata_of_name("k%d" % i)["value"])
            rec["reads"].append("(GetMeta, %s, %s)" % (abs_elem(rawn.get("k%d" % i), meta=True), c_res(okr, r)))
    for (name, i), rec in per.items():
        out.append((name, i, "(%s, @None elem, %s, %s, %s, %s)" % (rec["setk"], c_val(vals[i]), rec["written"], rec["written"], "[%s]" % "; ".join(rec["reads"]) if rec["reads"] else "@nil read"), vclass(vals[i])))
    return out


# ---------------------------------------------------------------- histories: a value stored on a carrier that already holds one
def history_values():
    """one representative per ODF value type (two where the lattice has a corner), plus None and the empty string"""
    return [None, True, False, 42, 0, 1.5, 0.0, Decimal("2.50"), Decimal("0.00"), "x", "true", "", date(2024, 2, 29), date(1, 1, 1), timedelta(0),
            datetime(2024, 1, 1, 12, 0, 0, 1, tzinfo=timezone.utc), datetime(1999, 12, 31, 23, 59, 59), timedelta(hours=3, seconds=5, microseconds=7)]


def history_carriers(O):
    """name -> dict(start: {start name: (setk | None, fn(v) -> obj)}, methods: {method: (setk, fn(obj, v), fresh(v) -> obj)}, readers, node)"""
    Cell, Row, Table = O.Cell, O.Row, O.Table
    from odfdo.variable import VarSet, UserFieldDecl, UserDefined
    CAR, cell_in = carriers(O)
    ident = lambda o: node_of(o)
    cellreads = [("GetET", lambda c: c.get_value()), ("GetCellValue", lambda c: c.value)]
    et = [("GetET", lambda e: e.get_value())]

    def cell_value(c, v): c.value = v
    def fresh_value(v):
        c = Cell(); c.value = v; return c
    def fresh_raw(cls):
        def f(v):
            e = cls() if cls is Cell else cls(name="n"); e.set_value_and_type(v); return e
        return f
    def row_fresh(v):
        r = Row(); r.set_value(1, v); return r
    def table_fresh(v):
        t = Table("t"); t.set_value((1, 2), v); return t
    def formula_cell(v):
        c = Cell(v); c.formula = "of:=1+1"; return c
    return {
        "Cell": dict(
            starts={"Cell(v)": lambda v: Cell(v), "currency": lambda v: Cell(42, cell_type="currency", currency="EUR"),
                    "percentage": lambda v: Cell(0.5, cell_type="percentage"), "formula": formula_cell},
            methods={"set_value": ("SetET", lambda c, v: c.set_value(v), lambda v: Cell(v)),
                     "value=": ("SetCellValue", cell_value, fresh_value),
                     "set_value_and_type": ("SetETRaw", lambda c, v: c.set_value_and_type(v), fresh_raw(Cell))},
            readers=cellreads, node=ident),
        "Row": dict(starts={"set_value": row_fresh}, methods={"set_value": ("SetET", lambda r, v: r.set_value(1, v), row_fresh)},
                    readers=[("GetET", lambda r: r.get_value(1))], node=lambda r: cell_in(node_of(r), 1)),
        "Table": dict(starts={"set_value": table_fresh}, methods={"set_value": ("SetET", lambda t, v: t.set_value((1, 2), v), table_fresh)},
                      readers=[("GetET", lambda t: t.get_value((1, 2)))], node=lambda t: cell_in(node_of(t), 1, 2)),
        "VarSet": dict(starts={"VarSet(v)": lambda v: VarSet(name="n", value=v)},
                       methods={"set_value": ("SetET", lambda e, v: e.set_value(v), lambda v: VarSet(name="n", value=v)),
                                "set_value_and_type": ("SetETRaw", lambda e, v: e.set_value_and_type(v), fresh_raw(VarSet))},
                       readers=et, node=ident),
        "UserFieldDecl": dict(starts={"UserFieldDecl(v)": lambda v: UserFieldDecl(name="n", value=v)},
                              methods={"set_value": ("SetET", lambda e, v: e.set_value(v), lambda v: UserFieldDecl(name="n", value=v)),
                                       "set_value_and_type": ("SetETRaw", lambda e, v: e.set_value_and_type(v), fresh_raw(UserFieldDecl))},
                              readers=et, node=ident),
        "UserDefined": dict(starts={"UserDefined(v)": lambda v: UserDefined(name="n", value=v)},
                            methods={"set_value_and_type": ("SetETRaw", lambda e, v: e.set_value_and_type(v), fresh_raw(UserDefined))},
                            readers=et, node=ident),
    }


def gen_histories(tier, rng, HC):
    """[(carrier, start name, first value, [(method, value), ...])]: every ordered pair of representatives on every carrier / method,
    mixed-method and three-step histories, special starting states (currency, percentage, formula cells)"""
    vals = history_values()
    out = []
    for cname, c in HC.items():
        for sname in c["starts"]:
            special = sname in ("currency", "percentage", "formula")
            for mname in c["methods"]:
                for v1 in ([42] if special else vals):
                    for v2 in vals:
                        out.append((cname, sname, v1, [(mname, v2)]))
        ms = list(c["methods"])
        n3 = (12 if tier == "quick" else 150) * len(ms)
        for _ in range(n3):
            out.append((cname, rng.choice([k for k in c["starts"]]), rng.choice(vals), [(rng.choice(ms), rng.choice(vals)) for _ in range(rng.choice([2, 2, 3]))]))
    meta = []
    mvals = [v for v in vals if v is not None]
    for v1 in mvals:
        for v2 in mvals:
            meta.append([v1, v2])
    for _ in range(20 if tier == "quick" else 300):
        meta.append([rng.choice(mvals) for _ in range(3)])
    return out, meta


def drive_histories(O, hist, meta_hist, with_docs=True):
    """one Coq case per overwriting step:  (setk, Some previous state, value, written, fresh-carrier write of the same value, reads).
    Direct reads after every step; re-parse and save / reload reads after the last step."""
    Document, Element = O.Document, O.Element
    HC = history_carriers(O)
    CAR, cell_in = carriers(O)
    out = []
    fresh_cache = {}

    def fresh_written(cname, mname, v):
        key = (cname, mname, repr(v))
        if key not in fresh_cache:
            c = HC[cname]
            ok, obj = limited(lambda: c["methods"][mname][2](v))
            if ok:
                okn, node = limited(lambda: c["node"](obj))
                fresh_cache[key] = "(Ok %s)" % abs_elem(node if okn else None)
            else:
                fresh_cache[key] = "(@Err elem)"
        return fresh_cache[key]

    finals = []      # (carrier, object, last value, reads list of the last case, case index in out)
    for hi, (cname, sname, v1, steps) in enumerate(hist):
        c = HC[cname]
        ok, obj = limited(lambda: c["starts"][sname](v1))
        if not ok:
            continue
        alive = True
        for k, (mname, v) in enumerate(steps):
            setk, apply, _ = c["methods"][mname]
            okn, node = limited(lambda: c["node"](obj))
            prev = abs_elem(node if okn else None)
            ok, _r = limited(lambda: apply(obj, v))
            payload = dict(carrier=cname, start=sname, first=repr(v1), steps=[[m, repr(x)] for m, x in steps[:k + 1]])
            key = "%s.%s/%s-over-%s" % (cname, mname, vclass(v), sname if sname in ("currency", "percentage", "formula") else vclass(v1 if k == 0 else steps[k - 1][1]))
            if mname == "set_value_and_type" and okn and node is not None and node.get("{%s}value" % CALCEXT) is not None:
                key = "ElementTyped.set_value_and_type/over-a-number-" + vclass(v)     # the class of F72: calcext:value of the previous number
            if not ok:
                out.append((cname, payload, "(%s, Some %s, %s, @Err elem, %s, @nil read)" % (setk, prev, c_val(v), fresh_written(cname, mname, v)), key))
                alive = False
                break
            okn, node = limited(lambda: c["node"](obj))
            written = abs_elem(node if okn else None)
            reads = []
            for gk, rd in c["readers"]:
                okr, r = limited(lambda: rd(obj))
                reads.append("(%s, %s, %s)" % (gk, written, c_res(okr, r)))
            if k == len(steps) - 1:
                ok2, obj2 = limited(lambda: Element.from_tag(obj.serialize()))
                if ok2:
                    okn2, node2 = limited(lambda: c["node"](obj2))
                    for gk, rd in c["readers"]:
                        okr, r = limited(lambda: rd(obj2))
                        reads.append("(%s, %s, %s)" % (gk, abs_elem(node2 if okn2 else None), c_res(okr, r)))
                finals.append((cname, obj, len(out), reads))
            out.append([cname, payload, (setk, prev, c_val(v), written, fresh_written(cname, mname, v)), key, reads])
    # save / reload of the final states: cells and rows go into one table each, fields into a text document
    if with_docs and finals:
        sheet = Document("spreadsheet"); sheet.body.clear()
        tcell = O.Table("cells"); trow = O.Table("rows"); sheet.body.append(tcell); sheet.body.append(trow)
        tdoc = Document("text"); tdoc.body.clear()
        nrow = 0
        where = {}
        for n, (cname, obj, idx, reads) in enumerate(finals):
            if cname == "Cell":
                limited(lambda: tcell.set_cell((0, n), obj)); where[idx] = ("cells", 0, n)
            elif cname == "Row":
                limited(lambda: trow.append_row(obj)); where[idx] = ("rows", 1, nrow); nrow += 1
            elif cname == "Table":
                obj.name = "t%d" % n; limited(lambda: sheet.body.append(obj)); where[idx] = ("t%d" % n, 1, 2)
            else:
                p = O.Paragraph(""); obj.set_attribute("text:name", "f%d" % n); p.append(obj); tdoc.body.append(p); where[idx] = ("field", "f%d" % n, obj.tag.split(":")[1])
        bio = io.BytesIO(); sheet.save(bio)
        raw = etree.fromstring(zipfile.ZipFile(io.BytesIO(bio.getvalue())).read("content.xml"))
        rawtabs = {t.get(Q("table", "name")): t for t in raw.iter(Q("table", "table"))}
        doc2 = Document(io.BytesIO(bio.getvalue()))
        tabs2 = {}
        bio = io.BytesIO(); tdoc.save(bio)
        rawt = etree.fromstring(zipfile.ZipFile(io.BytesIO(bio.getvalue())).read("content.xml"))
        tdoc2 = Document(io.BytesIO(bio.getvalue()))
        for idx, w in where.items():
            reads = out[idx][4]
            if w[0] == "field":
                rawn = [n for n in rawt.iter(Q("text", w[2])) if n.get(Q("text", "name")) == w[1]]
                got = [e for e in tdoc2.body.get_elements("descendant::text:" + w[2]) if e.get_attribute("text:name") == w[1]]
                okr, r = limited(lambda: got[0].get_value())
                reads.append("(GetET, %s, %s)" % (abs_elem(rawn[0] if rawn else None), c_res(okr, r)))
            else:
                tname, x, y = w
                t2 = tabs2.get(tname) or doc2.body.get_table(name=tname); tabs2[tname] = t2
                a = abs_elem(cell_in(rawtabs[tname], x, y))
                okr, r = limited(lambda: t2.get_value((x, y)))
                reads.append("(GetET, %s, %s)" % (a, c_res(okr, r)))
                if tname == "cells":
                    okr, r = limited(lambda: t2.get_cell((x, y)).value)
                    reads.append("(GetCellValue, %s, %s)" % (a, c_res(okr, r)))
    # user-defined metadata: the same name set again and again
    mdoc = Document("text")
    mfinal = {}
    find = lambda root, key: next((n for n in root.iter(Q("meta", "user-defined")) if n.get(Q("meta", "name")) == key), None)
    for hi, seq in enumerate(meta_hist):
        key = "h%d" % hi
        for k, v in enumerate(seq):
            node = find(node_of(mdoc.meta.root), key)
            prev = "(@None elem)" if node is None else "(Some %s)" % abs_elem(node, meta=True)
            ok, _r = limited(lambda: mdoc.meta.set_user_defined_metadata(key, v))
            payload = dict(carrier="Meta", steps=[["set_user_defined_metadata", repr(x)] for x in seq[:k + 1]])
            fkey = "Meta.set_user_defined_metadata/%s-over-%s" % (vclass(v), "fresh" if k == 0 else vclass(seq[k - 1]))
            if ("Meta", repr(v)) not in fresh_cache:
                fd = Document("text"); okf, _x = limited(lambda: fd.meta.set_user_defined_metadata("k", v))
                fresh_cache[("Meta", repr(v))] = "(Ok %s)" % abs_elem(find(node_of(fd.meta.root), "k"), meta=True) if okf else "(@Err elem)"
            fresh = fresh_cache[("Meta", repr(v))]
            if not ok:
                out.append(["Meta", payload, ("SetMeta", prev, c_val(v), None, fresh), fkey, []]); break
            written = abs_elem(find(node_of(mdoc.meta.root), key), meta=True)
            okr, r = limited(lambda: mdoc.meta.get_user_defined_metadata_of_name(key)["value"])
            reads = ["(GetMeta, %s, %s)" % (written, c_res(okr, r))]
            if k == len(seq) - 1:
                mfinal[key] = len(out)
            if k > 0:
                out.append(["Meta", payload, ("SetMeta", prev, c_val(v), written, fresh), fkey, reads])
            elif k == len(seq) - 1:
                mfinal.pop(key, None)
    if with_docs and mfinal:
        bio = io.BytesIO(); mdoc.save(bio)
        raw = etree.fromstring(zipfile.ZipFile(io.BytesIO(bio.getvalue())).read("meta.xml"))
        doc2 = Document(io.BytesIO(bio.getvalue()))
        for key, idx in mfinal.items():
            node = find(raw, key)
            if node is None or idx >= len(out) or out[idx][0] != "Meta":
                continue
            okr, r = limited(lambda: doc2.meta.get_user_defined_metadata_of_name(key)["value"])
            out[idx][4].append("(GetMeta, %s, %s)" % (abs_elem(node, meta=True), c_res(okr, r)))
    res = []
    for item in out:
        if isinstance(item, tuple):
            res.append(item)
        else:
            name, payload, (setk, prev, cv, written, fresh), key, reads = item
            prev_t = prev if prev.startswith("(Some") or prev.startswith("(@None") else "(Some %s)" % prev
            w = "(@Err elem)" if written is None else "(Ok %s)" % written
            res.append((name, payload, "(%s, %s, %s, %s, %s, %s)" % (setk, prev_t, cv, w, fresh, "[%s]" % "; ".join(reads) if reads else "@nil read"), key))
    return res


# ---------------------------------------------------------------- arguments (cell_type / currency / text / formula), typed reads, repeated runs
def c_tres(ok, r):
    if not ok:
        return "(@Err (pyval * option (list N)))"
    if not (isinstance(r, tuple) and len(r) == 2):
        return "(Ok (VOther, @None (list N)))"
    return "(Ok (%s, %s))" % (c_val(r[0]), copt(r[1], cstr) if r[1] is None or isinstance(r[1], str) else "(Some [0])")


def drive_typed(O, tier, rng):
    """K2 cases: set_value_and_type with value_type / currency / text / formula arguments through Cell, Row, Table, VarSet;
    reads through get_value(get_type=True): direct and after re-parse"""
    Cell, Row, Table, Element = O.Cell, O.Row, O.Table, O.Element
    from odfdo.variable import VarSet, VarGet, UserFieldGet, UserDefined, UserFieldDecl
    CAR, cell_in = carriers(O)
    nums = [0, 1, -7, 42, 10 ** 20, 0.5, -0.25, 1e-7, 1e21, 12.5, Decimal("2.50"), Decimal("-0.001"), Decimal("1E+3"), Decimal("15")]
    reps = history_values()
    combos = []
    for v in nums:
        for vt, cur in [("percentage", None), ("currency", "EUR"), ("currency", None), ("currency", "US$"), ("float", None)]:
            for text, fo in [(None, None), ("shown", None), (None, "of:=[.A1]*2")]:
                combos.append((v, vt, cur, text, fo))
    for v in reps:
        for text, fo in [(None, None), ("shown text", None), (None, "of:=1+1"), ("t", "of:=SUM([.A1:.A2])")]:
            combos.append((v, None, None, text, fo))
    for v, vt in [("x", "float"), (True, "string"), (5, "boolean"), (timedelta(seconds=5), "float"), ("2024-01-01", "date"), (3, "date"), (1.5, "time"), (None, "float")]:
        combos.append((v, vt, None, None, None))
    out = []
    for (v, vt, cur, text, fo) in combos:
        builders = {
            "Cell(v, cell_type, currency, text, formula)": (lambda: Cell(v, text=text, cell_type=vt, currency=cur, formula=fo), lambda c: node_of(c), lambda c: c.get_value(get_type=True)),
        }
        if text is None and fo is None:
            def rowb():
                r = Row(); r.set_value(1, v, cell_type=vt, currency=cur); return r
            def tabb():
                t = Table("t"); t.set_value((1, 2), v, cell_type=vt, currency=cur); return t
            builders["Row.set_value(cell_type, currency)"] = (rowb, lambda r: cell_in(node_of(r), 1), lambda r: r.get_value(1, get_type=True))
            builders["Table.set_value(cell_type, currency)"] = (tabb, lambda t: cell_in(node_of(t), 1, 2), lambda t: t.get_value((1, 2), get_type=True))
        if cur is None and fo is None:
            # every constructor of the text fields that takes value= / value_type= / text=
            tget = lambda e: e.get_value(get_type=True)
            nd = lambda e: node_of(e)
            builders["VarSet(value, value_type, text, display)"] = (lambda: VarSet(name="n", value=v, value_type=vt, text=text, display=bool(text)), nd, tget)
            builders["VarGet(value, value_type, text)"] = (lambda: VarGet(name="n", value=v, value_type=vt, text=text), nd, tget)
            builders["UserFieldGet(value, value_type, text)"] = (lambda: UserFieldGet(name="n", value=v, value_type=vt, text=text), nd, tget)
            builders["UserDefined(value, value_type, text)"] = (lambda: UserDefined(name="n", value=v, value_type=vt, text=text), nd, tget)
            if text is None:
                builders["UserFieldDecl(value, value_type)"] = (lambda: UserFieldDecl(name="n", value=v, value_type=vt), nd, tget)
        for name, (build, nodef, rd) in builders.items():
            payload = dict(carrier=name, typed=dict(value=repr(v), cell_type=vt, currency=cur, text=text, formula=fo))
            key = "typed/%s-as-%s%s%s" % (vclass(v), vt or "default", "-currency" if cur else "", "-text" if text else "-formula" if fo else "")
            args = "%s %s %s" % (copt(vt, cstr), copt(cur, cstr), copt(fo if name.startswith("Cell") else None, cstr))
            ok, obj = limited(build)
            if not ok:
                out.append((name, payload, "(K2 %s %s (@Err elem) (@nil tread))" % (args, c_val(v)), key)); continue
            okn, node = limited(lambda: nodef(obj))
            w = abs_elem(node if okn else None)
            reads = []
            okr, r = limited(lambda: rd(obj)); reads.append("(%s, %s)" % (w, c_tres(okr, r)))
            ok2, obj2 = limited(lambda: Element.from_tag(obj.serialize()))
            if ok2:
                okn2, node2 = limited(lambda: nodef(obj2)); okr, r = limited(lambda: rd(obj2))
                reads.append("(%s, %s)" % (abs_elem(node2 if okn2 else None), c_tres(okr, r)))
            out.append((name, payload, "(K2 %s %s (Ok %s) [%s])" % (args, c_val(v), w, "; ".join(reads)), key))
    return out


def drive_from_document(O, vals):
    """K4 cases: UserDefined(name, from_document=doc) for every value stored in the document's user-defined metadata (the entry wins over the
    constructor arguments, whatever its value), and for a name the document does not have (the arguments are used)"""
    Document, Element = O.Document, O.Element
    from odfdo.variable import UserDefined
    out = []
    doc = Document("text")
    keys = {}
    for i, v in enumerate(vals):
        ok, _ = limited(lambda: doc.meta.set_user_defined_metadata("m%d" % i, v))
        if ok:
            okr, _r = limited(lambda: doc.meta.get_user_defined_metadata_of_name("m%d" % i))
            if okr:
                keys[i] = "m%d" % i
            else:
                limited(lambda: doc.meta.set_user_defined_metadata("m%d" % i, "unreadable"))
    find = lambda key: next((n for n in node_of(doc.meta.root).iter(Q("meta", "user-defined")) if n.get(Q("meta", "name")) == key), None)
    ctor_variants = [("none", lambda key: UserDefined(name=key, from_document=doc), "None", "VNone"),
                     ("ctor-value", lambda key: UserDefined(name=key, value="ctor", value_type=None, text="ctor text", from_document=doc), "None", c_val("ctor"))]
    for i, key in keys.items():
        v = vals[i]
        me = abs_elem(find(key), meta=True)
        for vname, build, vt0, v0 in ctor_variants:
            payload = dict(carrier="UserDefined(from_document)", fromdoc=dict(value=repr(v), ctor=vname))
            fkey = "UserDefined.from_document/%s%s" % (vclass(v), "-falsy" if not v else "")
            ok, obj = limited(lambda: build(key))
            if not ok:
                out.append(("UserDefined(from_document)", payload, "(K4 (Some %s) %s %s %s (@Err elem) (@nil read))" % (me, vt0, v0, c_val(v)), fkey)); continue
            w = abs_elem(node_of(obj))
            reads = []
            okr, r = limited(lambda: obj.get_value()); reads.append("(GetET, %s, %s)" % (w, c_res(okr, r)))
            ok2, obj2 = limited(lambda: Element.from_tag(obj.serialize()))
            if ok2:
                okr, r = limited(lambda: obj2.get_value()); reads.append("(GetET, %s, %s)" % (abs_elem(node_of(obj2)), c_res(okr, r)))
            out.append(("UserDefined(from_document)", payload, "(K4 (Some %s) %s %s %s (Ok %s) [%s])" % (me, vt0, v0, c_val(v), w, "; ".join(reads)), fkey))
    # a name the document does not know: the constructor's value is used
    for v in vals[:40]:
        payload = dict(carrier="UserDefined(from_document)", fromdoc=dict(value=repr(v), ctor="absent-name"))
        ok, obj = limited(lambda: UserDefined(name="no such entry", value=v, from_document=doc))
        if not ok:
            out.append(("UserDefined(from_document)", payload, "(K4 (@None elem) None %s %s (@Err elem) (@nil read))" % (c_val(v), c_val(v)), "UserDefined.from_document/absent-" + vclass(v))); continue
        w = abs_elem(node_of(obj)); okr, r = limited(lambda: obj.get_value())
        out.append(("UserDefined(from_document)", payload, "(K4 (@None elem) None %s %s (Ok %s) [(GetET, %s, %s)])" % (c_val(v), c_val(v), w, w, c_res(okr, r)), "UserDefined.from_document/absent-" + vclass(v)))
    return out


def expand_row(rownode):
    cells = []
    for c in rownode:
        if c.tag != Q("table", "table-cell"):
            continue
        cells += [abs_elem(c)] * int(c.get(Q("table", "number-columns-repeated")) or 1)
    return cells


def expand_table(tnode, width):
    grid = []
    for r in tnode.iter(Q("table", "table-row")):
        cells = expand_row(r)
        cells += [EMPTY_E] * (width - len(cells))
        for _ in range(int(r.get(Q("table", "number-rows-repeated")) or 1)):
            grid += cells[:width]
    return grid


def drive_runs(O, tier, rng):
    """K3 cases: Row.set_value / Table.set_value into repeated runs; the logical cells before and after are expanded by an lxml walk"""
    Cell, Row, Table = O.Cell, O.Row, O.Table
    vals = history_values()

    def make_row():
        r = Row()
        r.append_cell(Cell("a", repeated=3)); r.append_cell(Cell(1)); r.append_cell(Cell(True, repeated=2)); r.append_cell(Cell(repeated=2)); r.append_cell(Cell(1.5))
        return r                                             # width 9

    def make_table():
        t = Table("t")
        for rep, base in [(2, "p"), (1, "q"), (3, "r")]:
            r = Row(); r.append_cell(Cell(base, repeated=2)); r.append_cell(Cell(7)); r.append_cell(Cell(repeated=2)); r.append_cell(Cell(False))
            r.repeated = rep
            t.append_row(r)
        return t                                             # 6 x 6 logical cells
    out = []
    xs = list(range(0, 12))
    for x in xs:
        for v in (vals if tier == "thorough" or x in (1, 4, 7, 10) else [vals[(x * 5) % len(vals)], "x"]):
            r = make_row(); before = expand_row(node_of(r))
            ok, _ = limited(lambda: r.set_value(x, v))
            if not ok: continue
            after = expand_row(node_of(r)); okr, got = limited(lambda: r.get_value(x))
            payload = dict(carrier="Row.set_value into runs", runs=dict(x=x, value=repr(v)))
            out.append(("Row.set_value into runs", payload, "(K3 %d%%nat [%s] [%s] %s %s)" % (x, "; ".join(before), "; ".join(after), c_val(v), c_res(okr, got)), "runs/Row-" + vclass(v)))
    for y in range(6):
        for x in range(6):
            if tier != "thorough" and (x + y) % 2:
                continue                                      # quick: a chequerboard of the 36 positions
            for v in (vals if tier == "thorough" else [vals[(x + 3 * y) % len(vals)]]):
                t = make_table(); before = expand_table(node_of(t), 6)
                ok, _ = limited(lambda: t.set_value((x, y), v))
                if not ok: continue
                after = expand_table(node_of(t), 6); okr, got = limited(lambda: t.get_value((x, y)))
                payload = dict(carrier="Table.set_value into runs", runs=dict(x=x, y=y, value=repr(v)))
                out.append(("Table.set_value into runs", payload, "(K3 %d%%nat [%s] [%s] %s %s)" % (y * 6 + x, "; ".join(before), "; ".join(after), c_val(v), c_res(okr, got)), "runs/Table-" + vclass(v)))
    return out


def py_same(v, r):
    """direct Python oracle of 'equal value of the corresponding type' (DESIGN.md C06)"""
    if v is None: return r is None
    if isinstance(v, bool): return r is v
    if isinstance(v, (int, Decimal)): return type(r) in (int, Decimal) and r == v
    if isinstance(v, float): return type(r) in (int, Decimal) and r == Decimal(repr(v))
    if isinstance(v, str): return type(r) is str and r == v
    if isinstance(v, datetime): return isinstance(r, datetime) and r == v and r.utcoffset() == v.utcoffset() and (r.tzinfo is None) == (v.tzinfo is None)
    if isinstance(v, date): return isinstance(r, datetime) and r == datetime(v.year, v.month, v.day) and r.tzinfo is None
    if isinstance(v, timedelta): return r == v
    return False


def py_oracle(O, vals):
    """first (carrier, value) on which the property fails on the direct leg, or None; used only when the Coq side broke"""
    from odfdo.variable import VarSet, UserFieldDecl, UserDefined
    def cellv(v):
        c = O.Cell(); c.value = v; return c.value
    def meta(v):
        d = py_oracle.doc = getattr(py_oracle, "doc", None) or O.Document("text")
        d.meta.set_user_defined_metadata("k", v); return d.meta.get_user_defined_metadata_of_name("k")["value"]
    legs = {"Cell(v)": lambda v: O.Cell(v).get_value(), "Cell.value=": cellv, "VarSet(v)": lambda v: VarSet(name="n", value=v).get_value(),
            "UserFieldDecl(v)": lambda v: UserFieldDecl(name="n", value=v).get_value(), "UserDefined(v)": lambda v: UserDefined(name="n", value=v).get_value(), "Meta": meta}
    for v in vals:
        vc = vclass(v)
        if vc in ("str-not-xml", "other") or (isinstance(v, float) and v != v) or (isinstance(v, float) and v in (float("inf"), float("-inf"))):
            continue
        for name, f in legs.items():
            if name == "Meta" and v is None:
                continue
            ok, r = limited(lambda: f(v))
            if not ok or not py_same(v, r):
                return name, v
    return None


def finding_key(name, vc):
    group = "Meta" if name.startswith("Meta") else "Cell.value" if name == "Cell.value=" else "ElementTyped"
    return "%s/%s" % (group, vc)


def run(tier, seed, replay=None):
    t0 = time.time(); rng = random.Random(seed)
    O = common.use_repo()
    proofs = common.build_proofs(PROP, extra_targets=("TypedChk",))
    corpus = [json.load(open(f))["case"] for f in sorted((common.ROOT / "corpus" / PROP).glob("*.json"))]
    ev = lambda r: eval(r, EVAL_NS)
    hist, meta_hist, vals, only = [], [], [], None
    if replay:
        rp = json.load(open(replay))["case"]
        if "typed" in rp or "runs" in rp or "fromdoc" in rp:
            pass
        elif "steps" in rp:
            if rp["carrier"] == "Meta":
                meta_hist = [[ev(x) for _m, x in rp["steps"]]]
            else:
                hist = [(rp["carrier"], rp["start"], ev(rp["first"]), [(m, ev(x)) for m, x in rp["steps"]])]
        else:
            vals = [ev(rp["value"])]; only = rp["carrier"]
    else:
        for c in corpus:
            if "fromdoc" in c:
                vals.append(ev(c["fromdoc"]["value"]))          # every value also goes through UserDefined(from_document=)
            elif "typed" in c or "runs" in c:
                continue
            elif "steps" in c:
                if c["carrier"] == "Meta": meta_hist.append([ev(x) for _m, x in c["steps"]])
                else: hist.append((c["carrier"], c["start"], ev(c["first"]), [(m, ev(x)) for m, x in c["steps"]]))
            else:
                vals.append(ev(c["value"]))
        vals += boundary_values(tier, rng)
        h2, m2 = gen_histories(tier, rng, history_carriers(O))
        hist += h2; meta_hist += m2
    driven = []          # (carrier, replay payload, coq case, input class)
    chunk = 150
    for k in range(0, len(vals), chunk):
        for n, i, c, vc in drive(O, vals[k:k + chunk]):
            if only is None or n == only:
                driven.append((n, dict(carrier=n, value=repr(vals[k + i])), c, finding_key(n, vc)))
    n_single = len(driven)
    for k in range(0, max(len(hist), 1), 400):
        driven += drive_histories(O, hist[k:k + 400], meta_hist if k == 0 else [])
    driven = [(n, pl, "(K1 %s)" % c, k) for n, pl, c, k in driven]
    n_k1 = len(driven)
    if not replay:
        driven += drive_typed(O, tier, rng)
        driven += drive_runs(O, tier, rng)
        driven += drive_from_document(O, [v for v in vals if v is not None])
    elif "typed" in rp or "runs" in rp:
        which = drive_typed(O, "thorough", rng) if "typed" in rp else drive_runs(O, "thorough", rng)
        driven = [d for d in which if d[1] == rp]
    elif "fromdoc" in rp:
        driven = [d for d in drive_from_document(O, [eval(rp["fromdoc"]["value"], EVAL_NS)]) if d[1] == rp]
    cases = [d[2] for d in driven]
    bad, errors = common.run_shards(HEADER, cases, "chk", "c06", shard=120)
    hard = {i: c for i, c in bad.items() if c not in (FIDELITY, MODEL_ERR)}
    for i, c in bad.items():
        if c == MODEL_ERR:
            errors.append("model error: Typed.dec_of_text (str_of_dec d) is not d for %s" % driven[i][2][:200])
    known = {e["key"]: e for e in common.known_findings(PROP)}
    violations, known_seen, reported, per_group = [], [], set(), {}
    for i in sorted(hard):
        name, payload, coq, key = driven[i]
        kf = next((k for k in known if key == k or key.startswith(k)), None)
        if kf and hard[i] in (3, 6):
            if kf not in reported:
                reported.add(kf); known_seen.append("%s (%s): %s" % (kf, LAYER[hard[i]].split(":")[0], known[kf]["description"]))
            continue
        group = key.split("-")[0]          # writer group / type
        if (key, hard[i]) in reported or per_group.get(group, 0) >= 2 or len(violations) >= 16:
            continue
        reported.add((key, hard[i])); per_group[group] = per_group.get(group, 0) + 1
        rp = common.write_replay(PROP, seed, "%d" % i, dict(layer=LAYER[hard[i]], code=hard[i], input_class=key,
                                 case=payload, coq_case=coq, known_finding_key=None))
        violations.append((rp, False))
    hard_found = bool(violations)
    if ((not proofs["ok"]) or errors) and not hard_found:
        # look for a concrete failing input with the direct oracle before giving the no-input verdict
        pool = vals if tier == "thorough" or replay else vals + boundary_values("thorough", random.Random(seed))
        found = py_oracle(O, pool)
        if found:
            rp = common.write_replay(PROP, seed, "oracle", dict(layer="python-oracle: the property fails on this input (direct leg)",
                                     case=dict(carrier=found[0], value=repr(found[1])), input_class=finding_key(found[0], vclass(found[1]))))
            violations.append((rp, False)); hard_found = True
    violations += common.proof_violation(PROP, seed, proofs, errors, hard_found)
    khist, chist = {}, {}
    for n, payload, c, key in driven:
        khist[key.split("/")[-1] if "steps" not in payload else "overwrite:" + key.split("/")[0]] = khist.get(key.split("/")[-1] if "steps" not in payload else "overwrite:" + key.split("/")[0], 0) + 1
        chist[n] = chist.get(n, 0) + 1
    distinct = len({common.digest((n, json.dumps(payload, sort_keys=True))) for n, payload, c, key in driven if payload.get("value") != "None"})
    reads = sum(c.count("(Get") for c in cases)
    pick = driven[5:6] + driven[n_single + 7:n_single + 8] + driven[-1:]
    coverage = dict(
        trusted_base=["lxml (parse / serialise; attribute and text escaping) and zipfile on the re-parse and save / reload legs",
                      "CPython repr(float) (a float is identified with its repr; float(repr(x)) == x) and decimal.Decimal's parser / printer, modelled by Typed.dec_of_text / str_of_dec and compared here on every numeric case",
                      "the abstraction of an element to its whole attribute set (value-type, boolean-value, value, date-value, string-value, time-value, currency, calcext:value-type, calcext:value, every other attribute | meta text) by an lxml walk",
                      "modelled in Typed.v: ElementTyped.set_value_and_type (also on an occupied element) / _get_typed_value, Cell.value setter and getter, Meta.set_user_defined_metadata (also on an existing name) / _get_meta_value_full; Codec.v for the codecs"],
        evaluations=len(cases), distinct_nontrivial=distinct, reads_checked=reads, single_write_cases=n_single, overwrite_step_cases=n_k1 - n_single, argument_and_run_cases=len(cases) - n_k1,
        rule="(a) boundary values of every type (huge / negative ints, floats with exponents, Decimals with trailing zeros and exponents, empty / white-space / XML-special / non-BMP strings, "
             "years 1 and 9999, offsets up to +-23:59, microseconds, multi-day, negative and sub-second durations, values outside the domain) plus random values, each through 11 carriers "
             "(Cell(v), Cell.set_value, Cell.value=, Row.set_value, Table.set_value, VarSet(v), VarSet.set_value, UserFieldDecl(v), UserFieldDecl.set_value, UserDefined(v), Meta) "
             "and three legs (direct, re-parse, document save/reload); (b) overwrite histories: every ordered pair of one representative per value type (and None, '') written one after the other on the same "
             "cell (set_value, .value=, set_value_and_type, mixed), the same cell of a row / table, the same variable, user field, user-defined field and metadata name, from fresh, currency, percentage and formula cells, "
             "plus random 2-3 step histories; one case per overwriting step, checked from the implementation's own previous state; direct read after every step, re-parse and save/reload after the last. "
             "(c) cell_type / currency / text / formula arguments (numbers as percentage, currency with and without a currency name, float; every representative with text and formula; ill-fitting types) through Cell, Row.set_value, "
             "Table.set_value, VarSet, read with get_value(get_type=True) directly and after re-parse; (d) Row.set_value / Table.set_value into repeated runs of cells and of rows, every logical cell expanded before and after. "
             "distinct = distinct (carrier, value or history); non-trivial = not the single write of None",
        samples=[dict(carrier=n, case=payload, coq=c) for n, payload, c, key in pick],
        input_classes=khist, carriers=chist, corpus_cases=len(corpus),
        fidelity_divergences=sum(1 for c in bad.values() if c == FIDELITY),
        layers={LAYER[c].split(":")[0]: sum(1 for v in hard.values() if v == c) for c in LAYER},
        exhaustive=False)
    return common.finish(PROP, tier, seed, proofs, coverage, violations, known_seen, t0,
                         assumptions=["a stored date reads back as the datetime at 00:00 of that day (DESIGN.md C06)",
                                      "numbers read back as a numerically equal int or Decimal (user-defined metadata documents Decimal)",
                                      "domain: finite numbers, XML 1.0 strings, valid dates of years 1..9999, every timedelta, None not for user-defined metadata"])


if __name__ == "__main__":
    common.main(run)
