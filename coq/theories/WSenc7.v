From Coq Require Import List Arith Bool Lia.
Import ListNotations.
Require Import WS WSproof WSnfproof WSenc1 WSenc2 WSenc3 WSenc4 WSenc5 WSenc6.

Lemma hd_str_replace r : hd_str r = false -> hd_str (replace_tabs_lb r) = false.
Proof. destruct r as [|x r]; [reflexivity|]. destruct x; cbn; try reflexivity; discriminate. Qed.
Lemma hd_solid_replace r : match r with x :: _ => is_ISpos x | [] => false end = true -> hd_solid (replace_tabs_lb r) = true.
Proof. destruct r as [|x r]; [discriminate|]. destruct x; cbn; try discriminate. auto. Qed.

Lemma NF_replace : forall M first, PM M = true -> NFb first (replace_tabs_lb M) = true.
Proof.
  induction M as [|x M IH]; intros first H; [reflexivity|].
  change (replace_tabs_lb (x :: M)) with ((match x with IStr s => split_tl [] s | _ => [x] end) ++ replace_tabs_lb M).
  destruct x as [s|n| | |k t]; cbn [PM] in H.
  - apply andb_true_iff in H as [H Hr]. apply andb_true_iff in H as [H Hh].
    apply andb_true_iff in H as [H Hl]. apply andb_true_iff in H as [H Hst]. apply andb_true_iff in H as [Hnn Hd].
    apply split_NF; cbn [rev app]; auto.
    + intros _. destruct (starts_sp s); [discriminate|reflexivity].
    + intros Hls. rewrite Hls in Hl. apply hd_solid_replace. exact Hl.
    + apply hd_str_replace. destruct (hd_str M); [discriminate|reflexivity].
  - apply andb_true_iff in H as [_ Hr]. cbn [app NFb]. apply IH; exact Hr.
  - cbn [app NFb]. apply IH; exact H.
  - cbn [app NFb]. apply IH; exact H.
  - cbn [app NFb]. apply IH; exact H.
Qed.

(* C05, second half: whatever the paragraph held before, after append_plain_text its direct content is in
   ODF white-space normal form ... *)
Theorem C05_nf its added : NFb true (append_plain_text its added) = true.
Proof. unfold append_plain_text. apply NF_replace, PM_merge_spaces, EOK_expand. Qed.

(* ... so an ODF consumer reads back exactly the text the API reports *)
Theorem C05_consumer its added : consume (append_plain_text its added) = readable its ++ added.
Proof. rewrite NF_consume by apply C05_nf. apply C05_text_step. Qed.

Theorem C05_all pieces :
  let p := fold_left append_plain_text pieces [] in
  readable p = concat pieces /\ (pieces <> [] -> NFb true p = true /\ consume p = concat pieces).
Proof.
  cbv zeta. split; [apply C05_text|]. intros Hne.
  destruct pieces as [|x ps] using rev_ind; [congruence|]. clear IHps.
  rewrite fold_left_app. cbn [fold_left]. split; [apply C05_nf|].
  rewrite C05_consumer, concat_app. cbn [concat]. rewrite app_nil_r. f_equal. apply C05_text.
Qed.
Print Assumptions C05_all.
