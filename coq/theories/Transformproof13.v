(* Transformproof13.v — optimize_width (repaired code) is idempotent: a second call leaves the state as it is. *)
From Coq Require Import List ZArith Lia Bool Arith.
Import ListNotations.
Require Import Vault Vaultproof Row Table Grid Tableabs Tableproof Tableproof5 Transform Transformspec Transformproof
               Transformproof2 Transformproof11.
Open Scope Z_scope.

Section OptIdem.
Variable a : calg.
Local Notation E := (rowrun_empty a false).
Local Notation cond := (fun r : rowx => row_is_empty a false (snd r)).

Lemma rwidth_snoc (rr : rruns) n c : rwidth (rev rr ++ [(n, c)]) = rwidth (rev rr) + Z.of_nat n.
Proof. unfold rwidth. rewrite width_app, width_cons. change (width (@nil (nat * cell))) with 0%nat. lia. Qed.
Lemma rev_eq_snoc {A} (v : list A) x rr : rev v = x :: rr -> v = rev rr ++ [x].
Proof. intros H. rewrite <- (rev_involutive v), H. reflexivity. Qed.

(* ---- force_width ---- *)
Lemma force_width_cases w v :
  force_width a w v = v \/
  exists n c rr n', rev v = (n, c) :: rr /\ cell_empty a true c = true /\ (2 <= n)%nat /\ 0 < rwidth v - w /\
                    n' = Nat.max 1 (Z.to_nat (Z.of_nat n - (rwidth v - w))) /\ force_width a w v = rev rr ++ [(n', c)].
Proof.
  unfold force_width. destruct (rev v) as [|[n c] rr] eqn:Er; [left; reflexivity|].
  destruct (cell_empty a true c) eqn:Ec; cbn [andb]; [|left; reflexivity].
  destruct (Nat.leb_spec 2 n); [|left; reflexivity].
  destruct (Z.ltb_spec 0 (rwidth v - w)); [|left; reflexivity].
  right. exists n, c, rr, (Nat.max 1 (Z.to_nat (Z.of_nat n - (rwidth v - w)))). cbn [rev]. repeat split; assumption.
Qed.
Lemma minimized_width_snoc rr n c : minimized_width a (rev rr ++ [(n, c)]) =
  if cell_empty a true c then rwidth (rev rr) + 1 else rwidth (rev rr) + Z.of_nat n.
Proof.
  unfold minimized_width. rewrite rev_app_distr. cbn [rev app]. rewrite rwidth_snoc. destruct (cell_empty a true c); lia.
Qed.
Lemma minw_force_width w v : minimized_width a (force_width a w v) = minimized_width a v.
Proof.
  destruct (force_width_cases w v) as [->|(n & c & rr & n' & Er & Ec & Hn & Hd & Hn' & ->)]; [reflexivity|].
  rewrite (rev_eq_snoc v _ _ Er). rewrite !minimized_width_snoc, Ec. reflexivity.
Qed.
Lemma force_width_idem w v : force_width a w (force_width a w v) = force_width a w v.
Proof.
  destruct (force_width_cases w v) as [H|(n & c & rr & n' & Er & Ec & Hn & Hd & Hn' & H)]; [rewrite H; exact H|].
  rewrite H. pose proof (rev_eq_snoc v _ _ Er) as Hv.
  unfold force_width. rewrite rev_app_distr. cbn [rev app]. rewrite rev_involutive, Ec. cbn [andb].
  destruct (Nat.leb_spec 2 n'); [|reflexivity].
  rewrite rwidth_snoc. rewrite Hv, rwidth_snoc in Hd, Hn'.
  destruct (Z.ltb_spec 0 (rwidth (rev rr) + Z.of_nat n' - w)); [lia|reflexivity].
Qed.
Lemma empty_force_width w v : row_is_empty a false (force_width a w v) = row_is_empty a false v.
Proof.
  destruct (force_width_cases w v) as [->|(n & c & rr & n' & Er & Ec & Hn & Hd & Hn' & ->)]; [reflexivity|].
  rewrite (rev_eq_snoc v _ _ Er). unfold row_is_empty. rewrite !forallb_app. reflexivity.
Qed.

(* ---- columns ---- *)
Lemma trim_cols_idem w cs : wf cs -> 0 <= w -> trim_cols w (trim_cols w cs) = trim_cols w cs.
Proof.
  intros Hw Hw0. destruct (trim_cols_spec w cs Hw Hw0) as [H1 _]. unfold trim_cols at 1.
  destruct (Z.ltb_spec 0 (Z.of_nat (width (trim_cols w cs)) - w)); [lia|reflexivity].
Qed.

(* ---- rows: what _optimize_width_trim_rows leaves is a fixed point of itself, also after force_width on every row ---- *)
Lemma strip_len_snd (l : list (nat * rowx)) :
  length (strip_end E l) = length (strip_end cond (map (fun r : nat * rowx => snd r) l)).
Proof. rewrite strip_end_map, map_length. reflexivity. Qed.

Definition trimmed (l : list (nat * rowx)) : Prop :=
  (length l - length (strip_end E l) <= 1)%nat /\
  match rev l with [] => True | (n, r) :: _ => cond r = false \/ n = 1%nat end.

Lemma trimmed_fixed l : trimmed l -> ow_trim_rows a true l = l.
Proof.
  intros [HA HB]. unfold ow_trim_rows. destruct (Nat.leb_spec 2 (length l - length (strip_end E l))); [lia|].
  unfold unrepeat_last. destruct (rev l) as [|[n r] rr] eqn:Er; [reflexivity|].
  destruct (row_is_empty a false (snd r)) eqn:Ec; [|reflexivity].
  destruct HB as [HB|HB]; [cbn beta in HB; congruence|]. subst n. rewrite <- Er. apply rev_involutive.
Qed.

Lemma unrepeat_last_trimmed l : (length l - length (strip_end E l) <= 1)%nat -> trimmed (unrepeat_last cond l).
Proof.
  intros HA. unfold unrepeat_last. destruct (rev l) as [|[n r] rr] eqn:Er.
  - split; [exact HA|]. rewrite Er. exact I.
  - destruct (row_is_empty a false (snd r)) eqn:Ec.
    + pose proof (rev_eq_snoc l _ _ Er) as Hl. split.
      * rewrite rev_length. cbn [length]. rewrite strip_len_snd.
        assert (Hm : map (fun r0 : nat * rowx => snd r0) (rev ((1%nat, r) :: rr)) = map (fun r0 : nat * rowx => snd r0) l).
        { rewrite Hl. cbn [rev]. rewrite !map_app. reflexivity. }
        rewrite Hm, <- strip_len_snd. assert (Hll : length l = S (length rr)) by (rewrite Hl, app_length, rev_length; cbn [length]; lia). lia.
      * rewrite rev_involutive. right. reflexivity.
    + split; [exact HA|]. rewrite Er. left. exact Ec.
Qed.

Lemma ow_trim_rows_trimmed rs : trimmed (ow_trim_rows a true rs).
Proof.
  unfold ow_trim_rows. apply unrepeat_last_trimmed.
  destruct (Nat.leb_spec 2 (length rs - length (strip_end E rs))) as [Hk|Hk]; [|lia].
  destruct (strip_end_decomp E rs) as (s & Hs & Hp). set (kept := strip_end E rs) in *.
  assert (Hls : (2 <= length s)%nat) by (rewrite Hs, app_length in Hk; lia).
  destruct s as [|x s]; [cbn in Hls; lia|].
  assert (Hf : firstn (S (length kept)) rs = kept ++ [x]).
  { rewrite Hs. rewrite firstn_app. replace (S (length kept) - length kept)%nat with 1%nat by lia.
    rewrite firstn_all2 by lia. reflexivity. }
  rewrite Hf. rewrite strip_end_app. cbn [forallb] in Hp. apply andb_prop in Hp. destruct Hp as [Hx _].
  cbn [strip_end]. rewrite Hx. unfold kept. rewrite strip_end_idem. rewrite app_length. cbn [length]. lia.
Qed.

Lemma trimmed_map (F : rowx -> rowx) l : (forall r, cond (F r) = cond r) ->
  trimmed l -> trimmed (map (fun r : nat * rowx => (fst r, F (snd r))) l).
Proof.
  intros HF [HA HB]. set (G := fun r : nat * rowx => (fst r, F (snd r))). split.
  - rewrite map_length, strip_end_map, map_length.
    rewrite (strip_end_ext_in (fun x => E (G x)) E); [exact HA|]. intros x _. unfold rowrun_empty, G. cbn [snd]. apply HF.
  - rewrite <- map_rev. destruct (rev l) as [|[n r] rr]; [exact I|]. cbn [map G fst snd]. rewrite HF. exact HB.
Qed.

Lemma ow_length_map (F : rowx -> rowx) l : (forall r, minimized_width a (snd (F r)) = minimized_width a (snd r)) ->
  ow_length a (map (fun r : nat * rowx => (fst r, F (snd r))) l) = ow_length a l.
Proof.
  intros HF. unfold ow_length. generalize 0. induction l as [|x l IH]; intros acc; [reflexivity|].
  cbn [map fold_left snd]. rewrite HF. apply IH.
Qed.

Definition G (w : Z) (r : nat * rowx) : nat * rowx := (fst r, (fst (snd r), force_width a w (snd (snd r)))).
Lemma trimmed_G w l : trimmed l -> trimmed (map (G w) l).
Proof.
  intros H. apply (trimmed_map (fun rx : rowx => (fst rx, force_width a w (snd rx))) l); [|exact H].
  intros r. cbn [snd]. apply empty_force_width.
Qed.
Lemma ow_length_G w l : ow_length a (map (G w) l) = ow_length a l.
Proof.
  apply (ow_length_map (fun rx : rowx => (fst rx, force_width a w (snd rx))) l). intros r. cbn [snd]. apply minw_force_width.
Qed.
Lemma G_idem w l : map (G w) (map (G w) l) = map (G w) l.
Proof. rewrite map_map. apply map_ext. intros r. unfold G. cbn [fst snd]. rewrite force_width_idem. reflexivity. Qed.

Definition opt_result (t : tstate) : tstate :=
  let rs1 := ow_trim_rows a true (rows t) in let w := ow_length a rs1 in
  {| cols := trim_cols w (cols t); rows := map (G w) rs1 |}.
Lemma opt_cons t : ow_trim_rows a true (rows t) <> [] -> t_optimize_width a true t = Some (opt_result t).
Proof. intros H. unfold t_optimize_width, opt_result. destruct (ow_trim_rows a true (rows t)); [congruence|reflexivity]. Qed.
Lemma opt_nil t : ow_trim_rows a true (rows t) = [] -> t_optimize_width a true t = Some {| cols := trim_cols 0 (cols t); rows := [] |}.
Proof. intros H. unfold t_optimize_width. rewrite H. reflexivity. Qed.

Theorem optimize_width_idem t t' : WF t -> t_optimize_width a true t = Some t' -> t_optimize_width a true t' = Some t'.
Proof.
  intros [[Hr Hc] Hcw] H.
  pose proof (ow_trim_rows_trimmed (rows t)) as Htr.
  destruct (ow_trim_rows a true (rows t)) as [|r1 rs1'] eqn:E0.
  - rewrite (opt_nil t E0) in H. injection H as <-. rewrite opt_nil by reflexivity. cbn [cols].
    rewrite trim_cols_idem by (assumption || lia). reflexivity.
  - assert (Hne : ow_trim_rows a true (rows t) <> []) by (rewrite E0; discriminate).
    rewrite (opt_cons t Hne) in H. injection H as <-. unfold opt_result at 1 2. rewrite E0.
    set (l := r1 :: rs1') in *. set (w := ow_length a l).
    assert (Hw0 : 0 <= w) by (unfold w, ow_length; apply fmax_ge).
    assert (E1 : ow_trim_rows a true (map (G w) l) = map (G w) l) by (apply trimmed_fixed, trimmed_G; exact Htr).
    rewrite opt_cons by (cbn [rows]; rewrite E1; unfold l; discriminate).
    unfold opt_result. cbn [rows cols]. rewrite E1, ow_length_G. fold w. rewrite G_idem, trim_cols_idem by assumption. reflexivity.
Qed.
End OptIdem.
