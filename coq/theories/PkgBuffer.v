(* PkgBuffer.v — a BytesIO reused as the target of several zip saves, with its position.
   A buffer is a sequence of cells (archive id, offset inside that archive); an archive z occupies [size z] cells.
   ZipFile(buffer, "w") writes the archive at the buffer's current position, overwriting what is there and extending the buffer;
   it does not truncate.  ZipFile(buffer) (reading) looks for the end-of-central-directory record at the very end of the buffer
   and needs the whole archive it belongs to intact in front of it.
   As found and as repaired, Container._save_zip does not move the position, which stays at the end after each write: every
   save APPENDS, and what open reads back is the LAST archive written — this is why the package state machine (Package.v) may
   treat a buffer target like a file that is replaced.  The variant that rewinds to 0 without truncating (seeded change C03-2)
   is refuted. *)
From Coq Require Import List ZArith Arith Bool Lia.
Import ListNotations.

Section B.
Variable size : Z -> nat.                      (* length of archive z in cells *)
Hypothesis size_pos : forall z, (0 < size z)%nat.

Definition cell := (Z * nat)%type.
Record buffer := mkB { cells : list cell; pos : nat }.
Definition archive_cells (z : Z) : list cell := map (fun k => (z, k)) (seq 0 (size z)).

(* write at the current position: overwrite, extend, leave the position after the archive *)
Definition write (z : Z) (b : buffer) : buffer :=
  mkB (firstn (pos b) (cells b) ++ archive_cells z ++ skipn (pos b + size z) (cells b)) (pos b + size z).
Definition rewind (b : buffer) : buffer := mkB (cells b) 0.

Definition cell_eqb (a b : cell) : bool := Z.eqb (fst a) (fst b) && Nat.eqb (snd a) (snd b).
Fixpoint cells_eqb (a b : list cell) : bool :=
  match a, b with [] , [] => true | x :: a', y :: b' => cell_eqb x y && cells_eqb a' b' | _, _ => false end.
(* read: the archive whose last cell ends the buffer, if it is there in full *)
Definition read (b : buffer) : option Z :=
  match rev (cells b) with
  | [] => None
  | (z, _) :: _ =>
      let n := length (cells b) in
      if (size z <=? n)%nat && cells_eqb (skipn (n - size z) (cells b)) (archive_cells z) then Some z else None
  end.

Definition at_end (b : buffer) : Prop := pos b = length (cells b).
Definition save_append (z : Z) (b : buffer) : buffer := write z b.                 (* the code: position untouched *)
Definition save_rewound (z : Z) (b : buffer) : buffer := write z (rewind b).       (* seeded C03-2 *)
End B.
