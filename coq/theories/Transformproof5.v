(* Transformproof5.v — the grid laws of rstrip and transpose transported to the run-length model; the witnesses
   against the pinned code (F21, F22, F122). *)
From Coq Require Import List ZArith Lia Bool Arith.
Import ListNotations.
Require Import Vault Vaultproof Row Table Grid Tableabs Tableproof Transform Transformspec Transformproof Transformproof2
               Transformproof3 Transformproof4.
Open Scope Z_scope.

Section Transport.
Variable a : calg.

Theorem rstrip_idem_model aggr t : WF t ->
  abs_t (t_rstrip a aggr (t_rstrip a aggr t)) = abs_t (t_rstrip a aggr t).
Proof.
  intros Hwf. destruct (rstrip_refines a aggr t Hwf) as [E1 Hwf1].
  destruct (rstrip_refines a aggr _ Hwf1) as [E2 _]. rewrite E2, E1. apply g_rstrip_idem.
Qed.
Theorem rstrip_law_model aggr t : WF t ->
  strip_rows_law a aggr aggr (abs_t t) (abs_t (t_rstrip a aggr t)) = true /\
  rstrip_maximal a aggr (abs_t (t_rstrip a aggr t)) = true.
Proof.
  intros Hwf. destruct (rstrip_refines a aggr t Hwf) as [E1 _]. rewrite E1.
  split; [apply g_rstrip_strip_law|apply g_rstrip_maximal].
Qed.
Theorem rstrip_keeps_model aggr t x y : WF t -> cell_empty a aggr empty_cell = true -> 0 <= x -> 0 <= y ->
  cell_empty a aggr (gcell x y (abs_t t)) = false ->
  gcell x y (abs_t (t_rstrip a aggr t)) = gcell x y (abs_t t).
Proof.
  intros Hwf H0 Hx Hy Hne. destruct (rstrip_refines a aggr t Hwf) as [E1 _]. rewrite E1.
  apply g_rstrip_keeps_nonempty; assumption.
Qed.
End Transport.

Theorem transpose_twice_model t : WF t -> abs_t (t_transpose (t_transpose t)) = rect_closure (abs_t t).
Proof.
  intros Hwf. destruct (transpose_refines t Hwf) as [E1 Hwf1]. destruct (transpose_refines _ Hwf1) as [E2 _].
  rewrite E2, E1. apply g_transpose_twice.
Qed.
Theorem transpose_swaps_model t x y : WF t -> 0 <= x < Z.of_nat (max_length (grows (abs_t t))) -> 0 <= y ->
  gcell y x (abs_t (t_transpose t)) = gcell x y (abs_t t).
Proof. intros Hwf Hx Hy. destruct (transpose_refines t Hwf) as [E1 _]. rewrite E1. apply g_transpose_swaps; assumption. Qed.

(* ---- witnesses against the pinned code ---- *)
(* the algebra in which every content id other than 0 is a valued, unspanned, uncovered cell *)
Definition plain_alg : calg := alg_of [] [] [].
(* F21: two rows, the first of three empty cells, the second of one cell "a" (content 5): zip_longest pads with None *)
Definition f21_table : tstate :=
  {| cols := [(3%nat, 0)]; rows := [(1%nat, (0, [(3%nat, (0, 0))])); (1%nat, (0, [(1%nat, (5, 0))]))] |}.
Lemma f21_witness : WF f21_table /\ t_transpose_pinned f21_table = None /\
  abs_t (t_transpose f21_table) = {| ncols := 2; grows := [[(0,0); (5,0)]; [(0,0); (0,0)]; [(0,0); (0,0)]] |}.
Proof. split; [repeat split; repeat constructor; cbn; lia|]. split; vm_compute; reflexivity. Qed.
(* F22: one row holding "a" (content 5), repeated twice: the pinned optimize_width leaves one row *)
Definition f22_table : tstate := {| cols := [(1%nat, 0)]; rows := [(2%nat, (0, [(1%nat, (5, 0))]))] |}.
Lemma f22_witness : WF f22_table /\
  (exists t', t_optimize_width plain_alg false f22_table = Some t' /\ gheight (abs_t t') = 1 /\
              strip_rows_law plain_alg false true (abs_t f22_table) (abs_t t') = false) /\
  t_optimize_width plain_alg true f22_table = Some f22_table.
Proof.
  split; [repeat split; repeat constructor; cbn; lia|]. split.
  - eexists. split; [vm_compute; reflexivity|]. split; vm_compute; reflexivity.
  - vm_compute. reflexivity.
Qed.
(* F122: the table without rows *)
Lemma f122_witness : t_optimize_width plain_alg false {| cols := [(2%nat, 0)]; rows := [] |} = None /\
  t_optimize_width plain_alg true {| cols := [(2%nat, 0)]; rows := [] |} = Some empty_table.
Proof. split; vm_compute; reflexivity. Qed.
