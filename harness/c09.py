"""C09: inserting or removing markup never alters the paragraph text around it.

Theorems: coq/theories/C09.v (model Tree.v, white-space codec WS.v).  Correspondence: histories of <= 3 mixed insertions
(span / link by offset or regex, bookmark, reference mark, note, annotation by position or regex) followed by every
removal, on generated paragraph trees.  After every step the lxml tree is abstracted by an independent walk; Coq
evaluates, from the abstracted pre-state, the model's step and the property's predicates on the implementation's
post-state."""
import sys, os, json, random, time, re, copy
from pathlib import Path
from datetime import datetime
sys.path.insert(0, str(Path(__file__).resolve().parent))
import common
import treelib as tl
from treelib import T, O, XL

PROP = "C09"
HEADER = '''Require Import WS Tree. From Coq Require Import List ZArith Bool Arith. Import ListNotations.
Definition insertion (o : op) := match o with OWrapOff _ _ _ _ | OWrapRe _ _ _ | OInsert _ _ | OInsertRange _ _ _ _ => true | _ => false end.
Definition stripping (o : op) := match o with OStripTags _ _ | OStripElems | OStripDefault _ _ _ => true | _ => false end.
Definition top_eq (x y : node) := match x, y with Node k a _ _ _ tl, Node k' a' _ _ _ tl' =>
  kind_eqb k k' && Nat.eqb a a' && str_eqb (oget tl) (oget tl') end.
Definition top_ok (o : op) (x y : node) := match o with
  | OStripDefault _ _ a0 => match y with Node k a _ _ _ tl => kind_eqb k KP && Nat.eqb a a0 && str_eqb (oget tl) [] end
  | _ => top_eq x y end.
(* 0 agree | 1 text differs from what the property requires | 2 markup sits elsewhere / wraps something else than the model says
   3 error behaviour (raises or not; partial modification) | 4 strip changed the text exactly as the modelled " +" rewrite does (F16 class)
   5 insertion changed the text exactly as the model predicts (negative offset class) | 6 composite call differs from its two documented steps
   8 pre-state outside the model's domain (not compared) | 9 exact shape (empty text nodes, white-space encoding) differs: fidelity only *)
(* a composite content=regex call must enclose exactly the designated match between its start and end marks:
   encoded as (post, OInsert [Txt expected] (WRe true a1 [[(a2, 0)]]), false, post) — see [range_case] *)
Definition range_case (c : node * op * bool * node) : option (nat * nat * str * node) :=
  match c with
  | (_, OInsert [Txt m] (WRe true a1 [[(a2, 0)]]), false, post) => Some (Z.to_nat a1, a2, m, post)
  | _ => None
  end.
Definition chk (c : node * op * bool * node) : nat :=
  match range_case c with
  | Some (a1, a2, m, post) =>
      match text_between a1 a2 (content post) with
      | Some t => if str_eqb t m then 0 else 7
      | None => 7
      end
  | None =>
  let '(pre, o, raised, post) := c in
  let pc := content pre in let qc := content post in
  if negb (in_domain pc) then 8 else
  match step o pre with
  | None => if raised && evs_eqb (nview qc) (nview pc) then 0 else 3
  | Some m =>
     if raised then 3 else
     let agree := evs_eqb (nview m) (nview qc) && top_ok o pre post in
     if insertion o && negb (str_eqb (readable_ev qc) (readable_ev pc)) then (if agree then 5 else 1)
     else if stripping o && negb (str_eqb (raw qc) (match o with OStripDefault _ _ _ => raw (flat pre) | _ => raw pc end)) then (if agree then 4 else 1)
     else if negb (str_eqb (readable_ev qc) (readable_ev m)) then 1
     else if negb agree then (match o with OSame => 6 | _ => 2 end)
     else if evs_eqb m qc then 0 else 9
  end end.'''

LAYER = {1: "text: the readable text of the paragraph is not what the property requires after this step",
         2: "markup: the element was not inserted/removed where the model (offset/regex arithmetic) says",
         3: "error behaviour: raises where the model does not (or the reverse), or raised after modifying the paragraph",
         4: "strip: removing tags changed the characters (double space collapsed)",
         5: "text: the insertion changed the readable text (and the model of the pinned arithmetic predicts exactly this change)",
         6: "composite: content=/position=(a,b) call differs from its two documented single insertions",
         7: "range: the start and end marks inserted for content=regex do not enclose the designated match"}
DATE = datetime(2020, 1, 2, 3, 4, 5)


# ------------------------------------------------------------------ expected elements, built independently of odfdo
def mark_elem(ctx, tag, name, ns=T):
    full = ns + tag
    attr = {(O if ns == O else T) + 'name': name}
    return ('KMark', ctx.attr(full, attr), False, None, [], None)


def note_xml(nid, cit, body):
    return ('<text:note xmlns:text="%s" text:note-class="footnote" text:id="%s"><text:note-citation>%s</text:note-citation>'
            '<text:note-body><text:p>%s</text:p></text:note-body></text:note>' % (tl.NS['text'], nid, tl.esc(cit), tl.esc(body)))


def annot_xml(name, body, creator):
    return ('<office:annotation xmlns:office="%s" xmlns:text="%s" xmlns:dc="%s" office:name="%s"><text:p>%s</text:p>'
            '<dc:creator>%s</dc:creator><dc:date>2020-01-02T03:04:05</dc:date></office:annotation>'
            % (tl.NS['office'], tl.NS['text'], tl.NS['dc'], name, tl.esc(body), creator))


def fresh_office_name(x):
    used = {e.get(O + 'name') for e in x.iter() if isinstance(e.tag, str) and e.get(O + 'name')}
    i = 1
    while "__Fieldmark__lpod_%d" % i in used: i += 1
    return "__Fieldmark__lpod_%d" % i


def place_coq(st, pre):
    """the `place` argument of Tree.insert_ for a step descriptor"""
    if st.get('before') is not None:
        return 'WRe false (%d) %s' % (st.get('pos', 0), tl.coq_spans(tl.spans_oracle(st['before'], pre, main=True)))
    if st.get('after') is not None:
        return 'WRe true (%d) %s' % (st.get('pos', 0), tl.coq_spans(tl.spans_oracle(st['after'], pre, main=True)))
    return 'WPos (%d)' % st.get('pos', 0)


def where_kwargs(st):
    kw = {}
    if st.get('before') is not None: kw['before'] = st['before']
    if st.get('after') is not None: kw['after'] = st['after']
    kw['position'] = st.get('pos', 0)
    return kw


class Run:
    """executes step descriptors on live odfdo objects and records one Coq case per single model step"""
    def __init__(self, odfdo, ctx):
        self.o, self.ctx = odfdo, ctx
        self.cases = []        # (coq term, meta)
        self.hist = {}

    def abs(self, p, sel=()):
        return tl.abs_node(tl.lx(p), self.ctx, sel)

    def emit(self, pre, op, raised, post, meta):
        c = self.ctx
        term = '(%s, %s, %s, %s)' % (tl.coq_node(pre, c), op, 'true' if raised else 'false', tl.coq_node(post, c))
        self.cases.append((term, dict(meta, pre=pre, post=post, raised=raised, op=op)))

    def call(self, f):
        try:
            with tl.limit(5):
                r = f()
            return False, r, None
        except tl.Timeout:
            raise
        except Exception as e:      # ValueError is the documented way to refuse; anything else also counts as "raised"
            return True, None, repr(e)

    def single(self, p, st, op_of_pre, f, hid, si):
        pre = self.abs(p)
        op = op_of_pre(pre)
        raised, res, err = self.call(f)
        post = self.abs(p)
        self.emit(pre, op, raised, post, dict(hid=hid, step=si, st=st, err=err))
        self.hist[st['k']] = self.hist.get(st['k'], 0) + 1
        return raised

    # ------------------------------------------------------------ insertions
    def insertion(self, p, st, hid, si):
        o, c, k = self.o, self.ctx, st['k']
        if k in ('span_off', 'link_off', 'span_re', 'link_re'):
            if k.startswith('span'):
                kind, a = 'KSpan', c.attr(T + 'span', {T + 'style-name': st['arg']}); meth = p.set_span
            else:
                kind, a = 'KLink', c.attr(T + 'a', {XL + 'href': st['arg']}); meth = p.set_link
            if k.endswith('off'):
                return self.single(p, st, lambda pre: 'OWrapOff %s %d (%d) (%d)' % (kind, a, st['off'], st['len']),
                                   lambda: meth(st['arg'], offset=st['off'], length=st['len']), hid, si)
            return self.single(p, st, lambda pre: 'OWrapRe %s %d %s' % (kind, a, tl.coq_spans(tl.spans_oracle(st['rx'], pre))),
                               lambda: meth(st['arg'], regex=st['rx']), hid, si)
        if k in ('bm', 'ref'):
            role = st.get('role')
            if k == 'bm':
                tag = {None: 'bookmark', 'start': 'bookmark-start', 'end': 'bookmark-end'}[role]
                f = lambda: p.set_bookmark(st['name'], role=role, **where_kwargs(st))
            else:
                tag = 'reference-mark'
                f = lambda: p.set_reference_mark(st['name'], **where_kwargs(st))
            ev = tl.coq_evs(tl.elem_events(mark_elem(c, tag, st['name'])), c)
            return self.single(p, st, lambda pre: 'OInsert %s (%s)' % (ev, place_coq(st, pre)), f, hid, si)
        if k == 'note':
            x = tl.etree.fromstring(note_xml(st['id'], st['cit'], st['body']))
            ev = tl.coq_evs(tl.elem_events(tl.abs_node(x, c)), c)
            st2 = dict(st, pos=0)
            return self.single(p, st, lambda pre: 'OInsert %s (%s)' % (ev, place_coq(st2, pre)),
                               lambda: p.insert_note(after=st['after'], note_id=st['id'], citation=st['cit'], body=st['body']), hid, si)
        if k == 'annot':
            name = fresh_office_name(tl.lx(p))
            x = tl.etree.fromstring(annot_xml(name, st['body'], 'cr'))
            ev = tl.coq_evs(tl.elem_events(tl.abs_node(x, c)), c)
            return self.single(p, st, lambda pre: 'OInsert %s (%s)' % (ev, place_coq(st, pre)),
                               lambda: p.insert_annotation(body=st['body'], creator='cr', date=DATE, **where_kwargs(st)), hid, si)
        if k in ('bm2', 'ref2', 'annot2'):
            return self.composite(p, st, hid, si)
        raise KeyError(k)

    def composite(self, p, st, hid, si):
        """content=regex or position=(a, b): the documented equivalent is two single insertions; they are executed and
        checked one by one on p, the public composite call runs on a clone and must end in the same state"""
        o, c, k = self.o, self.ctx, st['k']
        q = p.clone
        pre0 = self.abs(p)
        if k == 'bm2':
            e1, e2 = o.bookmark.BookmarkStart(st['name']), o.bookmark.BookmarkEnd(st['name'])
            m1, m2 = mark_elem(c, 'bookmark-start', st['name']), mark_elem(c, 'bookmark-end', st['name'])
            pub = lambda kw: q.set_bookmark(st['name'], **kw)
        elif k == 'ref2':
            e1, e2 = o.reference.ReferenceMarkStart(st['name']), o.reference.ReferenceMarkEnd(st['name'])
            m1, m2 = mark_elem(c, 'reference-mark-start', st['name']), mark_elem(c, 'reference-mark-end', st['name'])
            pub = lambda kw: q.set_reference_mark(st['name'], **kw)
        else:
            name = fresh_office_name(tl.lx(p))
            e1 = o.note.Annotation(st['body'], creator='cr', date=DATE, parent=p)
            e2 = o.note.AnnotationEnd(e1)
            m1 = tl.abs_node(tl.etree.fromstring(annot_xml(name, st['body'], 'cr')), c)
            m2 = mark_elem(c, 'annotation-end', name, ns=O)
            pub = lambda kw: q.insert_annotation(body=st['body'], creator='cr', date=DATE, **kw)
        if 'rx' in st:
            # content=regex: one search, one model step (Tree.insert_range); then the range predicate on the result
            ev1, ev2 = tl.coq_evs(tl.elem_events(m1), c), tl.coq_evs(tl.elem_events(m2), c)
            kw = dict(content=st['rx'], position=st.get('pos', 0))
            q = p       # the public call runs on the live paragraph
            raised = self.single(p, st, lambda pre: 'OInsertRange %s %s (%d) %s' % (ev1, ev2, st.get('pos', 0),
                                 tl.coq_spans(tl.spans_oracle(st['rx'], pre, main=True))), lambda: pub(kw), hid, si)
            fresh = not any(e[0] == 'O' and e[2] in (m1[1], m2[1]) for e in tl.flat(pre0))   # marks identifiable by their attributes
            if not raised and st.get('pos', 0) >= 0 and fresh:
                ms = [t[x:y] for t, sp in zip(tl.texts_main(pre0), tl.spans_oracle(st['rx'], pre0, main=True)) for (x, y) in sp]
                if st.get('pos', 0) < len(ms):
                    post = self.abs(p)
                    op = 'OInsert [Txt %s] (WRe true (%d) [[(%d, 0)]])' % (c.cs(ms[st['pos']]), m1[1], m2[1])
                    self.emit(post, op, False, post, dict(hid=hid, step=si, st=dict(st, part='range'), err=None))
            return raised
        else:
            s1, s2 = dict(pos=st['a']), dict(pos=st['b'])
            kw = dict(position=(st['a'], st['b']))
        ev1, ev2 = tl.coq_evs(tl.elem_events(m1), c), tl.coq_evs(tl.elem_events(m2), c)
        r1 = self.single(p, dict(st, part=1), lambda pre: 'OInsert %s (%s)' % (ev1, place_coq(s1, pre)),
                         lambda: p._insert(e1, main_text=True, **where_kwargs(s1)), hid, si)
        r2 = True
        if not r1:
            r2 = self.single(p, dict(st, part=2), lambda pre: 'OInsert %s (%s)' % (ev2, place_coq(s2, pre)),
                             lambda: p._insert(e2, main_text=True, **where_kwargs(s2)), hid, si)
        raised, _, err = self.call(lambda: pub(kw))
        postq = self.abs(q)
        if raised:   # nothing may have been modified
            self.emit(pre0, 'OSame', False, postq, dict(hid=hid, step=si, st=dict(st, part='composite-raised'), err=err))
        else:
            self.emit(self.abs(p), 'OSame', r1 or r2, postq, dict(hid=hid, step=si, st=dict(st, part='composite'), err=err))
        return r1 or r2

    # ------------------------------------------------------------ removals (each on a clone of the state reached)
    def removal(self, p, st, hid, si):
        o, c, k = self.o, self.ctx, st['k']
        q = p.clone
        xs = [e for e in tl.lx(q).iterdescendants() if isinstance(e.tag, str)]
        if k == 'remove_spans':
            return self.strip(q, st, 'OStripTags [KSpan] true', lambda: q.remove_spans(), (), hid, si)
        if k == 'remove_links':
            return self.strip(q, st, 'OStripTags [KLink] false', lambda: q.remove_links(), (), hid, si)
        if k == 'remove_spans_on':      # Span.remove_spans(): the element itself is stripped, a new text:p is returned
            cand = [e for e in xs if e.tag == T + 'span']
            if not cand:
                return None
            x = cand[st['idx'] % len(cand)]
            el = o.Element.from_tag(x)
            pre = tl.abs_node(x, c)
            raised, res, err = self.call(lambda: el.remove_spans())
            if not raised and not isinstance(res, o.Element):
                raised, err = True, "returned %r instead of an element" % type(res)
            post = tl.abs_node(tl.lx(res), c) if not raised else pre
            self.emit(pre, 'OStripDefault [KSpan] true %d' % c.attr(T + 'p', {}), raised, post, dict(hid=hid, step=si, st=st, err=err))
            self.hist[k] = self.hist.get(k, 0) + 1
            return raised
        if k in ('remove_span', 'remove_link'):
            tag = T + ('span' if k == 'remove_span' else 'a')
            cand = [e for e in xs if e.tag == tag]
            chosen = [cand[i % len(cand)] for i in st['idx']] if cand else []
            chosen = [e for i, e in enumerate(chosen) if all(e is not f for f in chosen[:i])]
            if not chosen:
                return None
            els = [o.Element.from_tag(e) for e in chosen]
            arg = els[0] if len(els) == 1 and st.get('single') else els
            meth = q.remove_span if k == 'remove_span' else q.remove_link
            return self.strip(q, st, 'OStripElems', lambda: meth(arg), chosen, hid, si)
        if k in ('delete', 'delete_self'):
            if not xs:
                return None
            i = st['idx'] % len(xs)
            x = xs[i]
            child = o.Element.from_tag(x)
            if k == 'delete':
                if x.getparent() is not tl.lx(q):      # delete(child) is specified for children
                    return None
                return self.single(q, st, lambda pre: 'ODelete %d %s' % (i, 'true' if st['keep'] else 'false'),
                                   lambda: q.delete(child, keep_tail=st['keep']), hid, si)
            # child.delete(): annotations and reference-mark-starts also delete their end mark
            end = None
            if x.tag == O + 'annotation':
                # without a document body the end mark is looked up under the parent only
                ends = [e for e in x.getparent().iterdescendants() if e.tag == O + 'annotation-end' and e.get(O + 'name') == x.get(O + 'name')]
                end = ends[0] if ends else None
            elif x.tag == T + 'reference-mark-start':
                ends = [e for e in x.getparent().iterdescendants() if e.tag == T + 'reference-mark-end' and e.get(T + 'name') == x.get(T + 'name')]
                end = ends[0] if ends else None
            if end is not None:
                if any(a is x for a in end.iterancestors()) or any(a is end for a in x.iterancestors()):
                    return None
                j = xs.index(end)
                removed = 1 + sum(1 for _ in end.iterdescendants())
                i2 = i - removed if j < i else i
                return self.single(q, st, lambda pre: 'ODelete2 %d %d' % (j, i2), lambda: child.delete(), hid, si)
            return self.single(q, st, lambda pre: 'ODelete %d true' % i, lambda: child.delete(), hid, si)
        raise KeyError(k)

    def strip(self, q, st, op, f, sel, hid, si):
        pre = self.abs(q, sel)
        raised, res, err = self.call(f)
        if not raised and not isinstance(res, self.o.Element):
            raised, err = True, "returned %r instead of an element" % type(res)
            post = pre
        else:
            post = self.abs(res if not raised else q)
        self.emit(pre, op, raised, post, dict(hid=hid, step=si, st=st, err=err))
        self.hist[st['k']] = self.hist.get(st['k'], 0) + 1
        return raised


# ------------------------------------------------------------------ generation of histories
def gen_insertion(rng, L, edge):
    k = rng.choice(['span_off', 'span_off', 'link_off', 'span_re', 'span_re', 'link_re', 'bm', 'bm', 'ref', 'note', 'annot',
                    'bm2', 'ref2', 'annot2'])
    rx = rng.choice(tl.REGEXES)
    nm = 'm%d' % rng.randint(1, 3)
    if k.endswith('off'):
        off = rng.randint(0, L + 2) if not edge or rng.random() < .7 else rng.choice([-1, -2, L + 5, L, 0])
        ln = rng.choice([0, 1, 1, 2, 3, 5, 50] + ([-1] if edge else []))
        return dict(k=k, arg=rng.choice(['st', 'u1']), off=off, len=ln)
    if k.endswith('_re'):
        return dict(k=k, arg=rng.choice(['st', 'u1']), rx=rx)
    if k in ('bm', 'ref', 'annot'):
        st = dict(k=k, name=nm)
        r = rng.random()
        if r < .4: st['pos'] = rng.randint(0, L + 1) if rng.random() < .85 else rng.choice([-1, L + 3])
        elif r < .7: st['before'] = rx; st['pos'] = rng.choice([0, 0, 1, 2, -1])
        else: st['after'] = rx; st['pos'] = rng.choice([0, 0, 1, 2, -1])
        if k == 'bm': st['role'] = rng.choice([None, None, 'start', 'end'])
        if k == 'annot': st['body'] = rng.choice(['nb', 'a', 'ab c'])
        return st
    if k == 'note':
        return dict(k=k, after=rx, id='n9', cit=rng.choice(['1', 'a']), body=rng.choice(['nb', 'ab', 'b c']))
    st = dict(k=k, name=nm)
    if rng.random() < .6: st['rx'] = rx; st['pos'] = rng.choice([0, 0, 0, 1, 2])
    else:
        a = rng.randint(0, L + 1); st['a'] = a; st['b'] = rng.randint(a, L + 2)
    if k == 'annot2': st['body'] = rng.choice(['nb', 'a', 'zz'])
    return st


def removals(rng, nel):
    rs = [dict(k='remove_spans'), dict(k='remove_links'),
          dict(k='remove_span', idx=[rng.randint(0, 5)], single=True), dict(k='remove_span', idx=[rng.randint(0, 5), rng.randint(0, 5)]),
          dict(k='remove_link', idx=[rng.randint(0, 5)], single=rng.random() < .5),
          dict(k='remove_spans_on', idx=rng.randint(0, 5)), dict(k='remove_spans_on', idx=rng.randint(0, 5))]
    for i in range(nel):
        rs.append(dict(k='delete_self', idx=i))
        rs.append(dict(k='delete', idx=i, keep=rng.random() < .8))
    return rs


def gen_history(rng, edge):
    xml = tl.gen_paragraph(rng, edge, tag='text:h' if rng.random() < .1 else 'text:p')
    return dict(xml=xml, edge=edge, seed=rng.getrandbits(32))


def run_history(R, h, hid):
    """h: dict(xml, steps?) — steps are generated on the fly (they depend on the text length) unless given (replay)"""
    odfdo = R.o
    p = odfdo.Element.from_tag(h['xml'])
    given = h.get('steps')
    rng = random.Random(h.get('seed', 0))
    steps = []
    if given is None:
        for si in range(rng.randint(1, 3)):
            L = len(tl.raw(R.abs(p)))
            st = gen_insertion(rng, L, h.get('edge', False))
            steps.append(st)
            R.insertion(p, st, hid, si)
        rem = removals(rng, tl.n_elements(R.abs(p)))
        for st in rem:
            steps.append(st)
            R.removal(p, st, hid, len(steps) - 1)
    else:
        for si, st in enumerate(given):
            steps.append(st)
            if st['k'] in ('remove_spans', 'remove_links', 'remove_span', 'remove_link', 'remove_spans_on', 'delete', 'delete_self'):
                R.removal(p, st, hid, si)
            else:
                R.insertion(p, st, hid, si)
    return steps


# ------------------------------------------------------------------ known-finding keys (canonical input classes)
def squeeze(s):
    return re.sub(' +', ' ', s)


def classify(code, meta):
    """returns a known-finding key or None"""
    st = meta['st']
    if code == 4 and squeeze(tl.raw(meta['pre']) + ((meta['pre'][5] or '') if st['k'] == 'remove_spans_on' else '')) == squeeze(tl.raw(meta['post'])):
        return "strip_tags/double-space-created-by-concatenation"
    return None


INSERTIONS = ('span_off', 'link_off', 'span_re', 'link_re', 'bm', 'ref', 'note', 'annot', 'bm2', 'ref2', 'annot2')


def py_oracle(meta):
    """direct Python statement of the property on one executed step (used only to look for a concrete failing input
    when a proof or the Coq evaluation itself broke): None = fine, else a description"""
    st, pre, post = meta['st'], meta['pre'], meta['post']
    nonempty = lambda n: [e for e in tl.flat(n) if e != ('T', '')]
    if meta['raised']:
        return None if nonempty(pre) == nonempty(post) else "raised after modifying the paragraph"
    if st['k'] in INSERTIONS and st.get('part') != 'range':
        if st['k'].endswith('off') and st['off'] < 0:
            return None
        return None if tl.readable(pre) == tl.readable(post) else "insertion changed the readable text"
    if st['k'].startswith('remove'):
        if st['k'] == 'remove_spans_on':     # the element's own tail is embedded too
            return None if squeeze(tl.raw(pre) + (pre[5] or '')) == squeeze(tl.raw(post)) else "stripping changed characters other than runs of spaces"
        if tl.raw(pre) == tl.raw(post): return None
        return None if squeeze(tl.raw(pre)) == squeeze(tl.raw(post)) else "stripping changed characters other than runs of spaces"
    return None


def minimal_history(h, steps, meta):
    """replay payload: the history cut after the failing step, removals before it dropped"""
    si = meta['step']
    keep = [s for i, s in enumerate(steps[:si + 1]) if i == si or not s['k'].startswith(('remove', 'delete'))]
    return dict(xml=h['xml'], steps=keep)


def run(tier, seed, replay=None):
    t0 = time.time(); rng = random.Random(seed)
    odfdo = common.use_repo()
    import odfdo.bookmark, odfdo.reference, odfdo.note  # noqa
    proofs = common.build_proofs(PROP) if (common.TH / (PROP + ".v")).exists() else None
    ctx = tl.Ctx(); R = Run(odfdo, ctx)
    hs = []
    for f in sorted((common.ROOT / "corpus" / PROP).glob("*.json")):
        hs.append(json.load(open(f))["history"])
    ncorpus = len(hs)
    if replay:
        hs = [json.load(open(replay))["history"]]; ncorpus = 0
    else:
        n = 650 if tier == "quick" else 11000
        for i in range(n):
            hs.append(gen_history(rng, edge=(i % 4 == 3)))
    all_steps, abstraction_errors = [], []
    for hid, h in enumerate(hs):
        try:
            all_steps.append(run_history(R, h, hid))
        except Exception as e:   # abstraction / driver failure: not a verdict on the property by itself
            abstraction_errors.append((hid, repr(e))); all_steps.append([])
    terms = [c[0] for c in R.cases]
    bad, errors = common.run_shards(HEADER, terms, "chk", "c09", shard=200)
    violations, known_seen, seen_keys = [], [], {}
    known = {e["key"] for e in common.known_findings(PROP)}
    counts = {}
    for i in sorted(bad):
        code, meta = bad[i], R.cases[i][1]
        counts[code] = counts.get(code, 0) + 1
        if os.environ.get("TREE_DEBUG") and str(code) in os.environ["TREE_DEBUG"].split(","):
            print("DEBUG code", code, meta['st'], meta['err'], "\n   pre ", tl.flat(meta['pre']), "\n   post", tl.flat(meta['post']), "\n   op", meta['op'][:400])
        if code in (8, 9):
            continue
        key = classify(code, meta)
        if key is not None and key in known:
            seen_keys[key] = seen_keys.get(key, 0) + 1
            continue
        if len(violations) < 3:
            h = hs[meta['hid']]
            rp = common.write_replay(PROP, seed, str(i), dict(
                layer=LAYER.get(code, str(code)), code=code, history=minimal_history(h, all_steps[meta['hid']], meta),
                failing_step=meta['st'], implementation_error=meta['err'], known_finding_key=key,
                impl=dict(pre_text=tl.readable(meta['pre']), post_text=tl.readable(meta['post']),
                          pre_raw_nodes=tl.texts(meta['pre']), post_raw_nodes=tl.texts(meta['post'])), model_op=meta['op']))
            violations.append((rp, False))
    for k, n in sorted(seen_keys.items()):
        known_seen.append("%s re-observed on %d step(s)" % (k, n))
    hard = bool(violations)
    proof_broken = (proofs is not None and not proofs["ok"]) or bool(errors) or bool(abstraction_errors)
    if proof_broken and not hard:
        # DESIGN 2.4: before "no failing input found", look for one with the direct oracle over everything that was executed
        for i, (t, meta) in enumerate(R.cases):
            why = py_oracle(meta)
            if why:
                h = hs[meta['hid']]
                rp = common.write_replay(PROP, seed, "py%d" % i, dict(layer="direct oracle: " + why, code=-1,
                     history=minimal_history(h, all_steps[meta['hid']], meta), failing_step=meta['st'], known_finding_key=None))
                violations.append((rp, False)); hard = True
                break
    if abstraction_errors and not hard:
        errors = errors + ["abstraction/driver: %s" % (abstraction_errors[:3],)]
    violations += common.proof_violation(PROP, seed, proofs, errors, hard)
    nontrivial = {common.digest((m['op'], tl.flat(m['pre']))) for t, m in R.cases if m['pre'] != m['post'] or m['raised']}
    coverage = dict(
        trusted_base=["lxml (text/tail/insert/addnext/remove semantics as exercised; XPath descendant::text())",
                      "Python re: finditer/findall give sorted, non-overlapping, in-range spans; the harness computes them per text node of the abstracted pre-state and hands them to the model",
                      "modelled in Tree.v: paragraph.py _by_regex_offset/set_span/set_link, element.py _insert (main text)/_insert_range/_insert_find_text/_search_*_position/delete/_strip_tags/strip_tags (also on a stripped element)/strip_elements/__append/_add_text; Span(match) through WS.append_plain_text"],
        evaluations=len(terms), distinct_nontrivial=len(nontrivial),
        rule="histories: generated paragraph tree (text, nested spans/links, text:s/tab/line-break, marks, notes, annotations; every 4th from the edge stream: raw double spaces, negative/far offsets) then 1-3 insertions of mixed kinds (offset/length in and beyond range, 23 regexes without empty matches, position/before/after/content/(a,b)) then every removal on a clone (remove_spans, remove_links, remove_span(s), remove_link, Span.remove_spans() on inner spans, delete(child, keep_tail), child.delete() for every element). One evaluation = one single model step checked by Coq from the abstracted pre-state. non-trivial = the step changed the tree or raised; distinct = distinct (operation, pre-state)",
        samples=[dict(xml=hs[i]['xml'], steps=all_steps[i][:4]) for i in range(ncorpus, min(len(hs), ncorpus + 3))],
        histories=len(hs), corpus_cases=ncorpus, operation_histogram=R.hist, codes=counts,
        fidelity_divergences=counts.get(9, 0), out_of_domain=counts.get(8, 0), known_findings_reobserved=seen_keys,
        abstraction_errors=len(abstraction_errors), exhaustive=False)
    return common.finish(PROP, tier, seed, proofs, coverage, violations, known_seen, t0,
                         assumptions=["readable text = text nodes with text:s/tab/line-break decoded, note and annotation bodies skipped (DESIGN.md 5/C09)",
                                      "regular expressions without empty matches (property's quantifier)"])


if __name__ == "__main__":
    common.main(run)
