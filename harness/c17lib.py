"""Machinery of the C17 check (whole-table transformations), built on tablelib.

* XDriver: one history of {transpose, transpose(coord), rstrip, optimize_width, set_span, del_span, a probe write of the
  C01 alphabet} on the real implementation, each call preceded by cache-filling reads; after every call the table is
  abstracted by the independent lxml walk of tablelib (values, styles, span attributes and the covered tag are part of
  the interned cell content), the private maps are dumped, get_values() is recorded, the attributes of the table
  element are interned;
* the cell algebra tables (Transform.calg): for every interned cell content the harness edits the cell's XML with
  lxml alone (tag <-> covered, set / delete the two span attributes) and interns the result;
* generators of initial tables (run-length shapes with ragged rows, styled empty cells, trailing empty rows and
  cells, existing spans with their covered cells, also inconsistent ones) and of state-dependent histories;
* Coq term printers for coq/theories/Transformchk.v; a direct Python reference of the laws (search phase only).
A case is JSON: {"kind", "init_xml", "steps": [{"reads": [...], "op": [...]}, ...]} and replays as such."""
import copy, io, json, random, sys
from pathlib import Path
from lxml import etree

sys.path.insert(0, str(Path(__file__).resolve().parent))
import common
import tablelib as tl
from tablelib import T, NSDECL, timed, rep_val

ONS = '{urn:oasis:names:tc:opendocument:xmlns:office:1.0}'
CS, RS = T + 'number-columns-spanned', T + 'number-rows-spanned'
VALUE_TYPES = {'boolean', 'float', 'percentage', 'currency', 'date', 'time', 'string'}
CORE_KINDS = ['set_value', 'set_value', 'set_cell', 'append_cell', 'insert_cell', 'delete_cell', 'append_row', 'set_row',
              'insert_column', 'delete_column', 'delete_row', 'set_values']


# ------------------------------------------------------------------ cell algebra (independent lxml edits)

def _el_of(intern, vid):
    xml = intern.val_xml.get(vid)
    if vid == 0 or xml is None:
        xml = '<table:table-cell/>'
    return etree.fromstring('<r %s>%s</r>' % (NSDECL, xml))[0]


def _int(a):
    if a is None:
        return None
    try:
        return int(a)
    except ValueError:
        return None


def _vid(intern, el):
    return intern.cell(el)[2]


def cell_info(intern, vid):
    """one row of the algebra: what lxml alone says about this cell content, and the ids of its edited versions"""
    el = _el_of(intern, vid)
    cov = el.tag == T + 'covered-table-cell'
    span = el.get(CS) is not None or el.get(RS) is not None
    vt = el.get(ONS + 'value-type')
    valued = vt in VALUE_TYPES or len(el) > 0          # Cell.value is not None, or children
    # ElementTyped.get_value() is not None / is not ""   (merge=True only)
    hasval, nonblank = vt in VALUE_TYPES, vt in VALUE_TYPES
    if vt == 'boolean':
        hasval = nonblank = el.get(ONS + 'boolean-value') is not None
    elif vt == 'string':
        sv = el.get(ONS + 'string-value')
        if sv is None:
            paras = [p for p in el if p.tag == '{urn:oasis:names:tc:opendocument:xmlns:text:1.0}p']
            sv = '\n'.join(''.join(p.itertext()) for p in paras) if paras else None
        hasval = sv is not None
        nonblank = hasval and sv != ''
    e = copy.deepcopy(el); e.tag = T + 'covered-table-cell'; to_cov = _vid(intern, e)
    e = copy.deepcopy(el); e.tag = T + 'table-cell'; to_plain = _vid(intern, e)
    e = copy.deepcopy(el)
    for a in (CS, RS):
        if a in e.attrib: del e.attrib[a]
    rm = _vid(intern, e)
    e.tag = T + 'table-cell'; base = _vid(intern, e)
    return (cov, span, _int(el.get(CS)), _int(el.get(RS)), valued, hasval, nonblank, base, to_cov, to_plain, rm)


def add_span(intern, vid, c, r):
    e = _el_of(intern, vid)
    e.set(CS, str(c)); e.set(RS, str(r))
    return _vid(intern, e)


class Algebra:
    def __init__(self, intern):
        self.intern = intern
        self.rows = {}         # vid -> info tuple
        self.spans = {}        # (vid, c, r) -> vid
        self.joins = {}        # tuple of contributing content ids (row-major) -> content id of the merged first cell

    def close(self):
        """rows for every interned id, until no edit creates a new one"""
        while True:
            todo = [v for v in [0] + sorted(self.intern.val.values()) if v not in self.rows]
            if not todo:
                return
            for v in todo:
                self.rows[v] = cell_info(self.intern, v)

    def want_span(self, vids, c, r):
        for v in set(vids) | {0}:
            if (v, c, r) not in self.spans:
                self.spans[(v, c, r)] = add_span(self.intern, v, c, r)
        self.close()

    def coq(self):
        self.close()
        b = lambda x: 'true' if x else 'false'
        o = lambda x: 'None' if x is None else 'Some (%d)' % x
        rows = ['(%d,(%s,%s,%s,%s,%s,%s,%s,%d,%d,%d,%d))' % ((v, b(i[0]), b(i[1]), o(i[2]), o(i[3]), b(i[4]), b(i[5]), b(i[6])) + tuple(i[7:]))
                for v, i in sorted(self.rows.items())]
        spans = ['(%d,(%d),(%d),%d)' % (v, c, r, w) for (v, c, r), w in sorted(self.spans.items())]
        joins = ['([%s],%d)' % (';'.join('(%d)' % v for v in k), w) for k, w in sorted(self.joins.items())]
        return '[%s]' % ';'.join(rows), '[%s]' % ';'.join(spans), '[%s]' % ';'.join(joins)


# ------------------------------------------------------------------ expansion of the raw abstraction (harness side only)

def expand_nodes(nodes):
    """(declared columns, expanded rows of (vid, sid)) — used by generators, mid, and the search-phase reference"""
    ncols = sum(rep_val(n[1]) for n in nodes if n[0] == 'col')
    rows = []
    for n in nodes:
        if n[0] == 'row':
            r = [(v, s) for f, rep, v, s in n[3] for _ in range(rep_val(rep))]
            rows += [list(r) for _ in range(rep_val(n[1]))]
    return ncols, rows


def cell_of(rows, x, y):
    if 0 <= y < len(rows) and 0 <= x < len(rows[y]):
        return rows[y][x]
    return (0, 0)


# ------------------------------------------------------------------ driver

class XDriver(tl.Driver):
    def __init__(self, odfdo, init_xml):
        self.tattrs = {}
        super().__init__(odfdo, init_xml)
        self.alg = Algebra(self.intern)

    def table_attrs(self):
        x = etree.fromstring('<r %s>%s</r>' % (NSDECL, timed(self.table.serialize)))[0]
        key = tuple(sorted(x.attrib.items()))
        return tl.Intern._id(self.tattrs, key)

    def fill(self, q):
        """cache-filling read before a call; answers are not compared (the read after the call is)"""
        t, k = self.table, q[0]
        if k == 'get_value': timed(t.get_value, (q[1], q[2]))
        elif k == 'get_cell': timed(t.get_cell, (q[1], q[2]))
        elif k == 'get_row': timed(t.get_row, q[1])
        elif k == 'get_row_live': timed(lambda: t.get_row(q[1], clone=False).width)
        elif k == 'get_values': timed(t.get_values)
        elif k == 'get_cells': timed(t.get_cells, (q[1], q[2], q[3], q[4]))
        elif k == 'row_values': timed(t.get_row_values, q[1])
        else: raise KeyError(k)

    def merge_join(self, pre_nodes, x, y, z, t):
        """merge=True: the contents whose values are collected (read off the abstraction of the state before the call:
        row by row, left to right; not empty in the aggressive sense, value not None and not ""), their Python values
        (Cell.get_value on a detached cell, trusted codec), the value-level join rule of set_span re-stated here, and the
        content id of Cell(joined).  The ORDER and the SELECTION are recomputed by the Coq model (Transform.join_ids):
        this table only answers "which content is Cell(join of these values)"."""
        self.alg.close()
        _, rows = expand_nodes(pre_nodes)
        ids = []
        for j in range(y, t + 1):
            for i in range(x, z + 1):
                v, s = cell_of(rows, i, j)
                info = self.alg.rows[v]
                empty_aggr = not info[4] and not info[0] and not info[1]
                if not empty_aggr and info[5] and info[6]:
                    ids.append(v)
        if not ids or tuple(ids) in self.alg.joins:
            return
        vals = [self.odfdo.Element.from_tag(self.intern.val_xml[v]).get_value() for v in ids]
        joined = vals[0] if len(vals) == 1 else ' '.join(str(v) for v in vals if v)
        _, vid, _ = self.a_cell(self.odfdo.Cell(joined))
        self.alg.joins[tuple(ids)] = vid
        self.alg.want_span([vid], z - x + 1, t - y + 1)

    def apply_x(self, op, pre_nodes):
        """returns (abstract op, raised, ret)"""
        t, k = self.table, op[0]
        raised, ret = None, True
        ids = [c[2] for n in pre_nodes if n[0] == 'row' for c in n[3]]
        try:
            if k == 'transpose':
                a = (k,); timed(t.transpose)
            elif k == 'transpose_area':
                a = (k,) + tuple(op[1:5]); timed(t.transpose, tuple(op[1:5]))
            elif k == 'rstrip':
                a = (k, bool(op[1])); timed(t.rstrip, aggressive=bool(op[1]))
            elif k == 'optimize_width':
                a = (k,); timed(t.optimize_width)
            elif k == 'set_span':
                x, y, z, tt, merge = op[1:6]
                self.alg.want_span(ids, z - x + 1, tt - y + 1)
                form = op[6] if len(op) > 6 else 'tuple'
                area = (x, y, z, tt) if form == 'tuple' else '%s:%s' % (a1(x, y), a1(z, tt))
                if merge:
                    self.merge_join(pre_nodes, x, y, z, tt)
                a = (k, x, y, z, tt, bool(merge), 0)
                ret = bool(timed(t.set_span, area, merge=bool(merge)))
            elif k == 'del_span':
                a = (k, op[1], op[2])
                form = op[3] if len(op) > 3 else 'tuple'
                area = {'tuple': (op[1], op[2]), 'str': a1(op[1], op[2]), 'area': (op[1], op[2], op[1] + 1, op[2] + 2),
                        'area_str': '%s:%s' % (a1(op[1], op[2]), a1(op[1] + 2, op[2] + 1))}[form]
                ret = bool(timed(t.del_span, area))
            else:
                a, raised = self.apply(op)
                a = ('core', a)
        except tl.CallTimeout as e:
            raised = repr(e)
        except Exception as e:
            raised = repr(e)
        return a, raised, ret


def a1(x, y):
    """'A1' form of a 0-based (x, y): own base-26 (bijective) conversion, independent of odfdo.utils.coordinates"""
    n, out = x + 1, ''
    while n > 0:
        n, r = divmod(n - 1, 26)
        out = chr(65 + r) + out
    return '%s%d' % (out, y + 1)


def c_xop(a):
    k = a[0]
    if k == 'transpose': return 'XTranspose'
    if k == 'transpose_area': return 'XTransposeArea (%d) (%d) (%d) (%d)' % tuple(a[1:5])
    if k == 'rstrip': return 'XRstrip %s' % ('true' if a[1] else 'false')
    if k == 'optimize_width': return 'XOptimize'
    if k == 'set_span': return 'XSetSpan (%d) (%d) (%d) (%d) %s (%d)' % (a[1], a[2], a[3], a[4], 'true' if a[5] else 'false', a[6])
    if k == 'del_span': return 'XDelSpan (%d) (%d)' % (a[1], a[2])
    if k == 'core': return 'XCore (%s)' % tl.c_op(a[1])
    raise ValueError(k)


HEADER = ('Require Import Vault Row Table Grid Tableabs Tablexml Tablechk Transform Transformspec Transformchk.\n'
          'From Coq Require Import List ZArith NArith Bool Arith. Import ListNotations. Open Scope Z_scope.\n'
          'Definition mkx (ct : list (Z * cinfo)) (st : list (Z * Z * Z * Z)) (jt : list (list Z * Z)) (vt : list (Z * Z)) (init : xtable) (l : list xobs) : xcase := (ct, st, jt, vt, init, l).\n')


def run_case(odfdo, case):
    saved = tl.CALL_TIMEOUT
    res = run_case_once(odfdo, case)
    if any(r['raised'] and 'CallTimeout' in r['raised'] for r in res.get('records', [])) or 'CallTimeout' in str(res.get('error')):
        tl.CALL_TIMEOUT = saved * 10
        try:
            res = run_case_once(odfdo, case)
        finally:
            tl.CALL_TIMEOUT = saved
    return res


def run_case_once(odfdo, case):
    try:
        d = XDriver(odfdo, case['init_xml'])
    except Exception as e:
        return dict(term=None, error='initial table: %r' % (e,), records=[])
    recs, terms = [], []
    pre = d.init_nodes
    for st in case['steps']:
        try:
            ta = d.table_attrs()
            for q in st.get('reads', []):
                try: d.fill(q)
                except tl.CallTimeout: raise
                except Exception: pass
        except Exception as e:
            return dict(term=None, error='before step: %r' % (e,), records=recs, init=d.init_nodes)
        a, raised, ret = d.apply_x(st['op'], pre)
        try:
            post = d.abs()
            tm, cm, rm = tl.abs_maps(d.table)
            tb = d.table_attrs()
        except Exception as e:
            return dict(term=None, error='abstraction: %r' % (e,), records=recs, init=d.init_nodes)
        vals = None
        if not raised:
            try:
                vals = [[d.cls(v) for v in r] for r in timed(d.table.get_values)]
            except Exception as e:
                raised = 'get_values after the call: %r' % (e,)
        recs.append(dict(op=st['op'], abstract_op=a, raised=raised, ret=ret, pre=pre, post=post, tmap=tm, cmap=cm, rmaps=rm,
                         vals=vals, tattrs=(ta, tb)))
        terms.append('XO (%s)\n  %s %s %s %s %s [%s]\n  (%s) %d %d' % (
            c_xop(a), tl.c_xtable(post), 'true' if raised else 'false', 'true' if ret else 'false', tl.c_zlist(tm), tl.c_zlist(cm),
            ';'.join('(%d%%nat,%s)' % (i, tl.c_zlist(m)) for i, m in rm),
            'None' if vals is None else 'Some [%s]' % ';'.join(tl.c_zlist(r) for r in vals), ta, tb))
        pre = post
        if raised:
            break
    ct, stab, jtab = d.alg.coq()
    term = '(mkx %s\n %s\n %s\n [%s] %s\n [%s])' % (ct, stab, jtab, ';'.join('(%d,%d)' % p for p in d.vtab()), tl.c_xtable(d.init_nodes), ';\n '.join(terms))
    return dict(term=term, error=None, records=recs, init=d.init_nodes, alg_rows=dict(d.alg.rows))


# ------------------------------------------------------------------ generators

VALUES = [None, None, None, 1, 2, 3, 'a', 'b', True, '']


def cell_xml17(spec):
    """spec = [rep, value, style, mark]; mark = None | 'cov' | ['span', c, r] | ['cs', c] (only one attribute)"""
    rep, val, st, mark = spec
    x = tl.cell_xml([rep, val if val != '' else None, st])
    if val == '':       # a string cell holding the empty string, with or without the office:string-value attribute
        x = x.replace('<table:table-cell', '<table:table-cell office:value-type="string" calcext:value-type="string"%s'
                      % (' office:string-value=""' if rep % 2 else ''), 1)
    if mark == 'cov':
        x = x.replace('table:table-cell', 'table:covered-table-cell')
    elif mark and mark[0] == 'span':
        x = x.replace('<table:table-cell', '<table:table-cell table:number-columns-spanned="%d" table:number-rows-spanned="%d"' % (mark[1], mark[2]), 1)
    elif mark and mark[0] == 'cs':
        x = x.replace('<table:table-cell', '<table:table-cell table:number-columns-spanned="%d"' % mark[1], 1)
    return x


def table_xml17(cols, rows, name='t', style=None):
    out = ['<table:table table:name="%s"%s>' % (name, ' table:style-name="%s"' % style if style else '')]
    for rep, st in cols:
        out.append('<table:table-column%s%s/>' % (' table:number-columns-repeated="%d"' % rep if rep > 1 else '',
                                                  ' table:style-name="%s"' % st if st else ''))
    for rep, st, cells in rows:
        out.append('<table:table-row%s%s>%s</table:table-row>' % (
            ' table:style-name="%s"' % st if st else '', ' table:number-rows-repeated="%d"' % rep if rep > 1 else '',
            ''.join(cell_xml17(c) for c in cells)))
    out.append('</table:table>')
    return ''.join(out)


def g_cell17(rng, empty_bias=0.0):
    val = None if rng.random() < empty_bias else rng.choice(VALUES)
    return [rng.choice((1, 1, 1, 2, 3, 4)), val, rng.choice([None, None, None, 's1', 's2']), None]


def g_table17(rng, maxw, maxh):
    """run-length shape with the features the property quantifies over: ragged rows, styled empty cells, runs of empty
    cells at the end of rows, (repeated) empty rows at the end and in the middle, existing spans, adjacent equal runs"""
    rows, h = [], 0
    for _ in range(rng.randint(0, 5)):
        ncell = rng.randint(0, 4)
        cells = [g_cell17(rng) for _ in range(ncell)]
        if rng.random() < 0.5:                                   # trailing empties, plain or styled, one or two runs
            for _ in range(rng.randint(1, 2)):
                cells.append([rng.choice((1, 2, 3, 4)), None, rng.choice([None, None, 's1']), None])
        if rng.random() < 0.15:
            cells = [c for c in cells if c[1] is None]           # a row of empties only
        while sum(c[0] for c in cells) > maxw and cells:
            cells.pop()
        r = [rng.choice([1, 1, 1, 2, 3]), rng.choice([None, None, 'rs']), cells]
        if h + r[0] > maxh: r[0] = 1
        if h + r[0] > maxh: break
        h += r[0]; rows.append(r)
        if rng.random() < 0.15 and h + r[0] <= maxh:
            rows.append([r[0], r[1], [list(c) for c in r[2]]]); h += r[0]
    if rng.random() < 0.5:                                       # empty rows at the end: several elements, repeated, styled or not
        for _ in range(rng.randint(1, 3)):
            rep = rng.choice([1, 1, 2, 3])
            if h + rep > maxh: break
            cells = [[rng.choice((1, 2, 3)), None, rng.choice([None, None, None, 's1']), None] for _ in range(rng.randint(0, 2))]
            rows.append([rep, rng.choice([None, None, 'rs']), cells]); h += rep
    # existing spans: on an unrepeated row, an unrepeated cell gets the attributes and the cells it covers the covered tag
    if rows and rng.random() < 0.45:
        for _ in range(rng.randint(1, 2)):
            yi = rng.randrange(len(rows))
            r = rows[yi]
            if r[0] != 1 or not r[2]: continue
            xi = rng.randrange(len(r[2]))
            if r[2][xi][0] != 1 or r[2][xi][3]: continue
            c, rr = rng.choice([(2, 1), (1, 2), (2, 2), (3, 1), (1, 1)])
            r[2][xi][3] = ['span', c, rr] if rng.random() < 0.9 else ['cs', c]
            if rng.random() < 0.85:                              # consistent covered cells to the right (same row only)
                for j in range(xi + 1, min(xi + c, len(r[2]))):
                    if r[2][j][0] == 1: r[2][j][3] = 'cov'
                for dy in range(1, rr):
                    if yi + dy < len(rows) and rows[yi + dy][0] == 1:
                        for j in range(xi, min(xi + c, len(rows[yi + dy][2]))):
                            if rows[yi + dy][2][j][0] == 1: rows[yi + dy][2][j][3] = 'cov'
    if rows and rng.random() < 0.08:                             # an orphan covered cell
        r = rng.choice(rows)
        if r[2]: rng.choice(r[2])[3] = 'cov'
    w = max([sum(c[0] for c in r[2]) for r in rows] + [0])
    if rows:
        w = max(w, 1) + rng.choice([0, 0, 0, 1, 2])
    elif rng.random() < 0.5:
        w = rng.randint(0, 3)                                    # columns declared, no row
    cols, left = [], w
    while left > 0:
        n = rng.randint(1, min(left, 4))
        cols.append((n, rng.choice([None, None, 'cs'])))
        left -= n
    return table_xml17(cols, rows, style=rng.choice([None, 'ts']))


def spans_in(nodes, alg_rows):
    """coordinates of the cells that carry a span attribute (for del_span)"""
    _, rows = expand_nodes(nodes)
    out = []
    for y, r in enumerate(rows):
        for x, (v, s) in enumerate(r):
            i = alg_rows.get(v)
            if i and i[1]:
                out.append((x, y))
    return out


def g_fill(rng, nodes):
    cols, rows = tl.shape_of(nodes)
    cr, rr = [r for r, _ in cols], [r for r, _ in rows]
    qs = []
    for _ in range(rng.randint(0, 3)):
        k = rng.choice(['get_value', 'get_cell', 'get_cell', 'get_row', 'get_row_live', 'get_values', 'row_values', 'get_cells'])
        x, y = max(0, tl.pick_pos(rng, cr, False)), max(0, tl.pick_pos(rng, rr, False))
        if k in ('get_value', 'get_cell'): qs.append([k, x, y])
        elif k in ('get_row', 'get_row_live', 'row_values'): qs.append([k, y])
        elif k == 'get_values': qs.append([k])
        else: qs.append([k, x, y, x + rng.randint(0, 2), y + rng.randint(0, 2)])
    return qs


def row_cellreps(rows, y):
    acc = 0
    for r, cs in rows:
        if acc <= y < acc + r:
            return cs
        acc += r
    return []


def g_xop(rng, nodes, alg_rows, prev, maxw, maxh):
    cols, rows = tl.shape_of(nodes)
    H = sum(r for r, _ in rows); W = sum(r for r, _ in cols)
    rr = [r for r, _ in rows]
    # follow-ups that exercise the pair laws
    if prev is not None and rng.random() < 0.45:
        if prev[0] in ('rstrip', 'optimize_width', 'transpose') and rng.random() < 0.6:
            return list(prev)
        if prev[0] == 'set_span':
            return ['del_span', prev[1], prev[2], rng.choice(['tuple', 'tuple', 'str', 'area'])]
    k = rng.choice(['transpose', 'transpose_area', 'rstrip', 'rstrip', 'optimize_width', 'optimize_width', 'set_span', 'set_span', 'set_span',
                    'del_span', 'del_span', 'core', 'core'])
    y = max(0, tl.pick_pos(rng, rr, False))
    cellreps = row_cellreps(rows, y) if y < H else []
    x = max(0, tl.pick_pos(rng, cellreps if rng.random() < 0.6 else [r for r, _ in cols], False))
    x = min(x, maxw + 1); y = min(y, maxh + 1)
    if k == 'transpose':
        return [k]
    if k == 'transpose_area':
        if W == 0 or H == 0:
            return ['transpose']
        x = min(x, W - 1); y = min(y, H - 1)
        return [k, x, y, min(x + rng.randint(0, 3), W + 1), min(y + rng.randint(0, 3), H + 1)]
    if k == 'rstrip': return [k, rng.random() < 0.5]
    if k == 'optimize_width': return [k]
    if k == 'set_span':
        dx, dy = rng.choice([(0, 0), (1, 0), (0, 1), (1, 1), (2, 0), (0, 2), (2, 1), (1, 2), (3, 3), (rng.randint(0, 4), rng.randint(0, 4))])
        # the right edge on the first / last cell of a run of the row, with some probability
        if cellreps and rng.random() < 0.4:
            b, _ = tl.boundaries(cellreps)
            z = rng.choice(b)
            if z >= x: dx = min(z - x, 5)
        return [k, x, y, x + dx, y + dy, rng.random() < 0.25, 'str' if rng.random() < 0.2 else 'tuple']
    if k == 'del_span':
        sp = spans_in(nodes, alg_rows)
        if sp and rng.random() < 0.75:
            x, y = rng.choice(sp)
        return [k, x, y, rng.choice(['tuple', 'tuple', 'tuple', 'str', 'area', 'area_str'])]
    # probe write of the C01 alphabet, around the (new) edges
    return tl.g_op(rng, nodes, CORE_KINDS, maxw + 2, maxh + 2)


def gen_and_run(odfdo, seed, kind, nsteps, maxw=8, maxh=8):
    rng = random.Random(seed)
    if kind == 'empty':
        init = '<table:table table:name="t"/>'
    elif kind == 'prefilled':
        init = odfdo.Table('t', width=rng.randint(1, 4), height=rng.randint(1, 4)).serialize()
    elif kind == 'rle':
        init = tl.g_rle_table(rng, maxw, maxh)
    elif kind == 'rle17':
        init = g_table17(rng, maxw, maxh)
    else:
        s = tl.sample_tables()
        init = s[rng.randrange(len(s))][1] if s else '<table:table table:name="t"/>'
    case = dict(kind=kind, init_xml=init, steps=[])
    try:
        d = XDriver(odfdo, init)
    except Exception as e:
        return case, dict(term=None, error='initial table: %r' % (e,), records=[])
    nodes = d.init_nodes
    prev = None
    for _ in range(nsteps):
        d.alg.close()
        reads = g_fill(rng, nodes)
        op = g_xop(rng, nodes, d.alg.rows, prev, maxw, maxh)
        for q in reads:
            try: d.fill(q)
            except Exception: pass
        a, raised, ret = d.apply_x(op, nodes)
        case['steps'].append(dict(reads=reads, op=op))
        if raised:
            break
        try:
            nodes = d.abs()
            timed(d.table.get_values)
        except Exception:
            break
        prev = op if (op[0] != 'set_span' or (ret and not op[5])) else None
    return case, None


# ------------------------------------------------------------------ direct Python reference of the laws (search phase ONLY)

def py_law(rec, alg_rows):
    """True when the property's law visibly fails on (pre, post) of an executed step; never used as evidence"""
    if rec['raised']:
        return rec['abstract_op'] is not None and rec['abstract_op'][0] != 'core'
    a = rec['abstract_op']; k = a[0]
    wpre, pre = expand_nodes(rec['pre']); wpost, post = expand_nodes(rec['post'])
    info = lambda v: alg_rows.get(v, (False, False, None, None, v != 0, False, False, v, v, v, v))
    empty = lambda c, aggr: not info(c[0])[4] and not info(c[0])[0] and not info(c[0])[1] and (aggr or c[1] == 0)
    if k == 'transpose':
        L = max([len(r) for r in pre] + [0])
        if L == 0:
            return bool(post)
        return post != [[cell_of(pre, x, y) for y in range(len(pre))] for x in range(L)]
    if k in ('rstrip', 'optimize_width'):
        ar, ac = (a[1], a[1]) if k == 'rstrip' else (False, True)
        if len(post) > len(pre): return True
        if any(not all(empty(c, ar) for c in r) for r in pre[len(post):]): return True
        for r, r2 in zip(pre, post):
            if r[:len(r2)] != r2 or any(not empty(c, ac) for c in r[len(r2):]): return True
        return False
    if k == 'set_span':
        x, y, z, t = a[1:5]
        area = [cell_of(pre, i, j) for j in range(y, t + 1) for i in range(x, z + 1)]
        refuse = (x, y) == (z, t) or any(info(c[0])[0] or info(c[0])[1] for c in area)
        if refuse:
            return rec['ret'] or any(cell_of(pre, i, j) != cell_of(post, i, j) for j in range(len(pre) + 1) for i in range(wpre + 1))
        if not rec['ret']: return True
        for j in range(max(len(pre), len(post), t + 1)):
            for i in range(max([len(r) for r in pre + post] + [z + 1])):
                c, c2 = cell_of(pre, i, j), cell_of(post, i, j)
                if x <= i <= z and y <= j <= t:
                    if (i, j) == (x, y):
                        if info(c2[0])[0] or info(c2[0])[2] != z - x + 1 or info(c2[0])[3] != t - y + 1: return True
                    elif not info(c2[0])[0]: return True
                    if not a[5] and (info(c2[0])[7] != info(c[0])[7] or c2[1] != c[1]): return True
                elif c != c2: return True
        return False
    return False


def python_oracle(res, alg_rows=None):
    alg_rows = alg_rows or {}
    for i, r in enumerate(res.get('records', [])):
        try:
            if py_law(r, alg_rows):
                return i
        except Exception:
            return None
    return None
