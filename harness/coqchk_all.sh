#!/bin/bash
# independent re-check of every compiled file of the development with coqchk, axioms listed (-o); ~5 min
cd "$(dirname "$0")/../coq" || exit 2
mods=$(ls theories/*.vo | xargs -n1 basename | sed "s/\.vo$//" | tr "\n" " ")
{ echo "coqchk -silent -o -Q theories \"\" <all $(echo $mods | wc -w) modules>   (/verif at $(git -C .. rev-parse --short HEAD), /repo at $(git -C /repo rev-parse --short HEAD))"
  timeout 3000 coqchk -silent -o -Q theories "" $mods 2>&1 | sed -n '/CONTEXT SUMMARY/,$p'; echo "exit status: ${PIPESTATUS[0]}"; } | tee ../notes/coqchk.txt
