(* CodecFloat.v — the float leg of Duration.encode.  The code computes  hours = microseconds / (60*60*1000000)  with Python's
   true division (int / int, correctly rounded to binary64 by CPython) and prints it with "%02d", which truncates.
   This file shows that truncation of the rounded quotient is the integer quotient, within explicit bounds.
   It is the only file of the development that depends on the axioms of the standard library's Reals (through Flocq). *)
From Coq Require Import ZArith Reals Lia Lra.
From Flocq Require Import Core.
Open Scope R_scope.

Definition fexp := FLT_exp (-1074) 53.
Global Instance prec53 : Prec_gt_0 53 := eq_refl.
Global Instance fexp_valid : Valid_exp fexp := FLT_exp_valid (-1074) 53.
(* binary64 round-to-nearest-even of a real *)
Definition RN := round radix2 fexp ZnearestE.

Lemma fmt_scaled (m : Z) (e : Z) : (Z.abs m < 2^53)%Z -> (-1074 <= e)%Z -> generic_format radix2 fexp (IZR m * bpow radix2 e).
Proof.
  intros H He. apply generic_format_FLT. exists (Float radix2 m e).
  - unfold F2R; simpl. reflexivity.
  - simpl. exact H.
  - simpl. lia.
Qed.

(* a / b for integers 0 <= a, 0 < b <= 2^k, quotient below 2^(53-k): the rounded real quotient truncates to the integer quotient *)
Theorem div_trunc_exact (k a b : Z) :
  (0 <= k <= 52)%Z -> (0 <= a)%Z -> (0 < b <= 2^k)%Z -> (a < b * 2^(53 - k))%Z ->
  Ztrunc (RN (IZR a / IZR b)) = (a / b)%Z.
Proof.
  intros Hk Ha Hb Hab.
  set (q := (a / b)%Z). set (r := (a mod b)%Z).
  assert (Hq : (0 <= q < 2^(53-k))%Z) by (unfold q; split; [apply Z.div_pos; lia | apply Z.div_lt_upper_bound; lia]).
  assert (Hr : (0 <= r < b)%Z) by (unfold r; apply Z.mod_pos_bound; lia).
  assert (Hsqr : a = (b * q + r)%Z) by (unfold q, r; apply Z.div_mod; lia).
  assert (Hb0 : 0 < IZR b) by (apply IZR_lt; lia).
  assert (Hx : IZR a / IZR b = IZR q + IZR r / IZR b).
  { rewrite Hsqr, plus_IZR, mult_IZR. field. lra. }
  assert (Hr1 : 0 <= IZR r) by (apply IZR_le; lia).
  assert (Hr2 : IZR r <= IZR b - 1) by (rewrite <- minus_IZR; apply IZR_le; lia).
  assert (Hfrac0 : 0 <= IZR r / IZR b) by (apply Rmult_le_pos; [lra | apply Rlt_le, Rinv_0_lt_compat; lra]).
  assert (Hlo : IZR q <= IZR a / IZR b) by (rewrite Hx; lra).
  set (P := (2^k)%Z).
  assert (HP : (0 < P)%Z) by (unfold P; apply Z.pow_pos_nonneg; lia).
  assert (HP0 : 0 < IZR P) by (apply IZR_lt; lia).
  assert (Hbp : bpow radix2 (-k) = / IZR P).
  { rewrite bpow_opp. f_equal. unfold P. rewrite <- (IZR_Zpower radix2) by lia. reflexivity. }
  set (hi := IZR (q * P + (P - 1)) * bpow radix2 (-k)).
  assert (Hhi_val : hi = IZR q + 1 - / IZR P).
  { unfold hi. rewrite Hbp, plus_IZR, mult_IZR, minus_IZR. field. lra. }
  assert (HbP : IZR b <= IZR P) by (apply IZR_le; unfold P; lia).
  assert (Hfrac : IZR r / IZR b <= 1 - / IZR P).
  { (* r/b <= (b-1)/b = 1 - 1/b <= 1 - 1/P *)
    assert (IZR r / IZR b <= (IZR b - 1) / IZR b).
    { unfold Rdiv. apply Rmult_le_compat_r; [apply Rlt_le, Rinv_0_lt_compat; lra | lra]. }
    assert ((IZR b - 1) / IZR b = 1 - / IZR b) by (field; lra).
    assert (/ IZR P <= / IZR b) by (apply Rinv_le_contravar; lra).
    lra. }
  assert (Hhi : IZR a / IZR b <= hi) by (rewrite Hx, Hhi_val; lra).
  assert (Hpow : (2^(53-k) * P = 2^53)%Z) by (unfold P; rewrite <- Z.pow_add_r by lia; f_equal; lia).
  assert (Flo : generic_format radix2 fexp (IZR q)).
  { replace (IZR q) with (IZR q * bpow radix2 0) by (simpl; lra). apply fmt_scaled; [|lia].
    assert (2^(53-k) <= 2^53)%Z by (apply Z.pow_le_mono_r; lia). lia. }
  assert (Fhi : generic_format radix2 fexp hi).
  { unfold hi. apply fmt_scaled; [|lia]. rewrite Z.abs_eq by nia. nia. }
  assert (R1 : IZR q <= RN (IZR a / IZR b)) by (apply round_ge_generic; auto with typeclass_instances).
  assert (R2 : RN (IZR a / IZR b) <= hi) by (apply round_le_generic; auto with typeclass_instances).
  assert (Hq0 : 0 <= IZR q) by (apply IZR_le; lia).
  rewrite Ztrunc_floor by lra.
  apply Zfloor_imp. rewrite plus_IZR. simpl (IZR 1). split; [exact R1|].
  rewrite Hhi_val in R2. assert (0 < / IZR P) by (apply Rinv_0_lt_compat; lra). lra.
Qed.

(* the three divisions of Duration.encode on a whole number of seconds s (microseconds = s * 10^6) *)
Lemma scaled_quotient (a b c : Z) : (0 < b)%Z -> (0 < c)%Z -> IZR (a * c) / IZR (b * c) = IZR a / IZR b.
Proof.
  intros Hb Hc. rewrite !mult_IZR. assert (0 < IZR b) by (apply IZR_lt; lia). assert (0 < IZR c) by (apply IZR_lt; lia). field. lra.
Qed.

Theorem dur_float_hours (s : Z) : (0 <= s < 3600 * 2^41)%Z ->
  Ztrunc (RN (IZR (s * 1000000) / IZR (60 * 60 * 1000000))) = (s / 3600)%Z.
Proof.
  intros H. change (60 * 60 * 1000000)%Z with (3600 * 1000000)%Z. rewrite scaled_quotient by lia.
  apply (div_trunc_exact 12); lia.
Qed.
Theorem dur_float_minutes (r : Z) : (0 <= r < 3600)%Z ->
  Ztrunc (RN (IZR (r * 1000000) / IZR (60 * 1000000))) = (r / 60)%Z.
Proof. intros H. rewrite scaled_quotient by lia. apply (div_trunc_exact 12); lia. Qed.
Theorem dur_float_seconds (r : Z) : (0 <= r < 60)%Z ->
  Ztrunc (RN (IZR (r * 1000000) / IZR 1000000)) = r.
Proof.
  intros H. replace (IZR 1000000) with (IZR (1 * 1000000)) by reflexivity. rewrite scaled_quotient by lia.
  rewrite (div_trunc_exact 12) by lia. apply Z.div_1_r.
Qed.
(* any microsecond count (not only whole seconds) below 2^21 hours *)
Theorem dur_float_hours_us (us : Z) : (0 <= us < 3600000000 * 2^21)%Z ->
  Ztrunc (RN (IZR us / IZR (60 * 60 * 1000000))) = (us / 3600000000)%Z.
Proof. intros H. change (60 * 60 * 1000000)%Z with 3600000000%Z. apply (div_trunc_exact 32); lia. Qed.
Theorem dur_float_minutes_us (a : Z) : (0 <= a < 3600000000)%Z -> Ztrunc (RN (IZR a / IZR (60 * 1000000))) = (a / 60000000)%Z.
Proof. intros H. change (60 * 1000000)%Z with 60000000%Z. apply (div_trunc_exact 26); lia. Qed.
Theorem dur_float_seconds_us (a : Z) : (0 <= a < 60000000)%Z -> Ztrunc (RN (IZR a / IZR 1000000)) = (a / 1000000)%Z.
Proof. intros H. apply (div_trunc_exact 20); lia. Qed.
