(* Property C11 — statements only.  Each is closed by [exact] of a lemma proved elsewhere. *)
From Coq Require Import List ZArith Bool. Import ListNotations.
Require Import WS PrettyTree PrettyTreeproof Gen_TextContent C11inst.
Require Import Package Pkgproof Pkgproof4 Pkgproof5 PkgStepWF4 PkgInstproof.

(* the repaired pretty_indent, with the TEXT_CONTENT table read from the source on this run: the ODF reading
   (section 6.1.2 consumer of C05) of every paragraph and heading of every tree is unchanged *)
Theorem C11_pretty_text : forall root : node, readable_ws (pretty textual crefill true root) = readable_ws root.
Proof. exact gen_pretty_text. Qed.
Print Assumptions C11_pretty_text.

(* element structure and every attribute are unchanged (pinned and repaired code alike) *)
Theorem C11_pretty_attrs_skeleton : forall (fx : bool) (root : node), skeleton (pretty textual crefill fx root) = skeleton root.
Proof. exact gen_pretty_skeleton. Qed.
Print Assumptions C11_pretty_attrs_skeleton.

(* for any TEXT_CONTENT table containing the paragraph-level and inline tags *)
Theorem C11_pretty_text_any_table : forall (tx : tagid -> bool) (refill : nat -> nat -> str -> str),
  (forall t, is_ph t || inline t = true -> tx t = true) ->
  forall root, readable_ws (pretty tx refill true root) = readable_ws root.
Proof. exact pretty_text_fixed. Qed.
Print Assumptions C11_pretty_text_any_table.

(* F15 on the pinned code: <text:p>a<text:s/><text:span>b</text:span></text:p> reads "a  b" after pretty_indent *)
Theorem C11_pretty_text_pinned_refuted : exists root : node, readable_ws (pretty textual crefill false root) <> readable_ws root.
Proof. exact gen_pretty_text_pinned_refuted. Qed.
Print Assumptions C11_pretty_text_pinned_refuted.

(* save never edits memory: after a successful Document.save (repaired code; any packaging, pretty or not, any target) every
   part of the document in memory is what it was, up to the generator stamp ([mask (stamp x) = mask x]); manifest.rdf
   is the one part save reconciles with the manifest on purpose *)
Theorem C11_save_pure : forall (xml bytes kid : Type) (ser : xml -> bytes) (par : bytes -> xml) (pretty stamp : xml -> xml)
    (entries : xml -> mentries) (kids : xml -> list kid) (mime : bytes -> mtype) (rdf0 : bytes) (proj : Type) (mask : xml -> proj),
  (forall x, mask (stamp x) = mask x) ->
  forall (fs : fsys bytes kid) (d : document xml bytes) (t : target) (pk : packaging) (pty : bool) (fs' : fsys bytes kid) (d' : document xml bytes),
  WFd xml bytes kid fs d ->
  d_save xml bytes kid ser par pretty stamp entries kids mime rdf0 FIXED fs d t pk pty = (fs', d', true) ->
  forall n, (n <> RDF)%Z -> view xml bytes kid par proj mask fs d' n = view xml bytes kid par proj mask fs d n.
Proof. exact save_pure. Qed.
Print Assumptions C11_save_pure.

(* what a save writes is the document in memory, whatever was saved before and however: hence save;save and
   save pretty;save plain write the same content (each equals the unchanged memory; pretty up to [mask]) *)
Theorem C11_save_writes_memory : forall (xml bytes kid : Type) (ser : xml -> bytes) (par : bytes -> xml) (pretty stamp : xml -> xml)
    (entries : xml -> mentries) (kids : xml -> list kid) (mime : bytes -> mtype) (rdf0 : bytes) (proj : Type) (mask : xml -> proj),
  (forall x, par (ser x) = x) ->
  forall (fs : fsys bytes kid) (d : document xml bytes) (t : target) (pk : packaging) (pty : bool) (fs' : fsys bytes kid) (d' : document xml bytes),
  WFd xml bytes kid fs d -> pk <> PXml -> (pty = true -> forall x, mask (pretty x) = mask x) ->
  d_save xml bytes kid ser par pretty stamp entries kids mime rdf0 FIXED fs d t pk pty = (fs', d', true) ->
  forall n, file_view xml bytes kid par proj mask (lookup (tgt_id t) fs') n = view xml bytes kid par proj mask fs d' n.
Proof. exact save_file_is_memory. Qed.
Print Assumptions C11_save_writes_memory.

(* C03_roundtrip for pretty saves without the hypothesis on [mask], for the structure / attribute projection: the state machine
   with XML parts = element trees and pretty = the repaired pretty_indent, any reachable state, zip or folder *)
Theorem C11_pretty_save_roundtrip_structure : forall (bytes kid : Type) (ser : node -> bytes) (par : bytes -> node) (stamp : node -> node)
    (entries : node -> mentries) (with_entries : mentries -> node -> node) (kids : node -> list kid) (mime : bytes -> mtype)
    (mime_bytes : mtype -> bytes) (rdf0 : bytes),
  (forall x, par (ser x) = x) ->
  forall (s0 : fsys bytes kid * document node bytes) os, SInv node bytes kid s0 ->
  let s := run node bytes kid ser par (pretty textual crefill true) stamp entries with_entries kids mime mime_bytes rdf0 FIXED s0 os in
  forall t pk pty fs' d' c, pk <> PXml ->
  d_save node bytes kid ser par (pretty textual crefill true) stamp entries kids mime rdf0 FIXED (fst s) (snd s) t pk pty = (fs', d', true) ->
  c_open bytes kid fs' (tgt_id t) false = Some c ->
  forall n, view node bytes kid par node skeleton fs' (mkD c []) n = view node bytes kid par node skeleton (fst s) d' n.
Proof. exact pretty_roundtrip_skeleton. Qed.
Print Assumptions C11_pretty_save_roundtrip_structure.

(* C03_roundtrip for pretty saves with NO hypothesis on the projection: [reading t] = (structure and attributes, ODF reading of
   every paragraph and heading of t) — the projection of C11 — is what a pretty (or plain) save in zip / folder followed by
   re-opening gives back, part by part, for every reachable state; from C11_pretty_text and C11_pretty_attrs_skeleton *)
Theorem C11_pretty_save_roundtrip : forall (bytes kid : Type) (ser : node -> bytes) (par : bytes -> node) (stamp : node -> node)
    (entries : node -> mentries) (with_entries : mentries -> node -> node) (kids : node -> list kid) (mime : bytes -> mtype)
    (mime_bytes : mtype -> bytes) (rdf0 : bytes),
  (forall x, par (ser x) = x) ->
  forall (s0 : fsys bytes kid * document node bytes) os, SInv node bytes kid s0 ->
  let s := run node bytes kid ser par (pretty textual crefill true) stamp entries with_entries kids mime mime_bytes rdf0 FIXED s0 os in
  forall t pk pty fs' d' c, pk <> PXml ->
  d_save node bytes kid ser par (pretty textual crefill true) stamp entries kids mime rdf0 FIXED (fst s) (snd s) t pk pty = (fs', d', true) ->
  c_open bytes kid fs' (tgt_id t) false = Some c ->
  forall n, view node bytes kid par (node * list str) reading fs' (mkD c []) n = view node bytes kid par (node * list str) reading (fst s) d' n.
Proof. exact pretty_roundtrip_reading. Qed.
Print Assumptions C11_pretty_save_roundtrip.

(* F15, memory half, on the pinned code: a pretty save changes the document in memory *)
Theorem C11_save_pure_pinned_refuted : exists fs d t n,
  let '(fs', d', ok) := d_save cxml cbytes Z cser cpar cpretty cstamp centries ckids cmime crdf0 PINNED fs d t PZip true in
  ok = true /\ cview fs d' n <> cview fs d n.
Proof. exact f15_memory_refuted. Qed.
Print Assumptions C11_save_pure_pinned_refuted.

Example C11_save_example : WFd cxml cbytes Z ex_fs ex_doc /\ (forall x, cmask (cstamp x) = cmask x).
Proof. exact (conj ex_doc_wf cmask_cstamp). Qed.

Example C11_f15_witness : readable_ws f15_witness = [[Ch 1; Sp; Ch 2]]
  /\ readable_ws (pretty textual crefill false f15_witness) = [[Ch 1; Sp; Sp; Ch 2]]
  /\ readable_ws (pretty textual crefill true f15_witness) = [[Ch 1; Sp; Ch 2]].
Proof. exact f15_witness_reads. Qed.
