(* Transformproof12.v — from the strip law to "every non-empty value keeps its coordinates" (rstrip and optimize_width);
   the CSV round trip at value level with the csv module as a Section variable. *)
From Coq Require Import List ZArith Lia Bool Arith.
Import ListNotations.
Require Import Vault Vaultproof Row Table Grid Tableabs Tableproof Tableproof8 Transform Transformspec Transformproof Transformproof11.
Open Scope Z_scope.

Lemma cell_eqb_eq (c c' : cell) : cell_eqb c c' = true -> c = c'.
Proof.
  destruct c, c'. unfold cell_eqb. cbn [fst snd]. intros H. apply andb_prop in H. destruct H as [H1 H2].
  apply Z.eqb_eq in H1. apply Z.eqb_eq in H2. congruence.
Qed.
Lemma cells_eqb_eq (l l' : list cell) : cells_eqb l l' = true -> l = l'.
Proof.
  unfold cells_eqb, list_eqb. revert l'. induction l as [|c l IH]; intros [|c' l'] H; cbn in H; try discriminate; [reflexivity|].
  apply andb_prop in H. destruct H as [Hl H]. apply andb_prop in H. destruct H as [Hc H].
  f_equal; [apply cell_eqb_eq; exact Hc|]. apply IH. cbn in Hl. rewrite Hl. exact H.
Qed.

Section Keeps.
Variable a : calg.

Lemma cell_empty_mono c : cell_empty a false c = true -> cell_empty a true c = true.
Proof. unfold cell_empty. cbn [orb]. intros H. apply andb_prop in H. destruct H as [H _]. rewrite H. reflexivity. Qed.
Lemma cell_empty_any ac c : cell_empty a ac c = true -> cell_empty a true c = true.
Proof. destruct ac; [auto|apply cell_empty_mono]. Qed.

Lemma rows_stripped_nth ac : forall pre post y, rows_stripped a ac pre post = true -> (y < length post)%nat ->
  let r := nth y pre [] in let r' := nth y post [] in
  firstn (length r') r = r' /\ forallb (cell_empty a ac) (skipn (length r') r) = true.
Proof.
  induction pre as [|r pre IH]; intros [|r' post] y H Hy; cbn [length] in Hy; try lia; cbn [rows_stripped] in H; [discriminate|].
  apply andb_prop in H. destruct H as [H H4]. apply andb_prop in H. destruct H as [H H3]. apply andb_prop in H. destruct H as [H1 H2].
  destruct y as [|y]; cbn [nth].
  - split; [apply cells_eqb_eq; exact H1|exact H3].
  - apply IH; [exact H4|lia].
Qed.

Theorem strip_law_keeps_nonempty ar ac pre post x y :
  strip_rows_law a ar ac pre post = true -> cell_empty a true empty_cell = true -> 0 <= x -> 0 <= y ->
  cell_empty a true (gcell x y pre) = false -> gcell x y post = gcell x y pre.
Proof.
  intros H H0 Hx Hy Hne. unfold strip_rows_law in H.
  apply andb_prop in H. destruct H as [H _]. apply andb_prop in H. destruct H as [H H3]. apply andb_prop in H. destruct H as [H1 H2].
  unfold gcell, g_row in *.
  destruct (Nat.ltb_spec (Z.to_nat y) (length (grows post))) as [Hlt|Hge].
  - destruct (rows_stripped_nth ac (grows pre) (grows post) (Z.to_nat y) H3 Hlt) as [Hf Hs]. cbv zeta in *.
    set (r := nth (Z.to_nat y) (grows pre) []) in *. set (r' := nth (Z.to_nat y) (grows post) []) in *.
    destruct (Nat.ltb_spec (Z.to_nat x) (length r')) as [Hxl|Hxg].
    + rewrite <- Hf at 1. apply nth_firstn_lt. exact Hxl.
    + exfalso. destruct (Nat.ltb_spec (Z.to_nat x) (length r)) as [Hxr|Hxr].
      * rewrite forallb_forall in Hs. assert (Hin : In (nth (Z.to_nat x) r empty_cell) (skipn (length r') r)).
        { rewrite <- (firstn_skipn (length r') r) at 1. rewrite app_nth2 by (rewrite firstn_length; lia).
          apply nth_In. rewrite firstn_length, skipn_length. lia. }
        rewrite (cell_empty_any ac _ (Hs _ Hin)) in Hne. discriminate.
      * rewrite nth_overflow in Hne by exact Hxr. rewrite H0 in Hne. discriminate.
  - exfalso. destruct (Nat.ltb_spec (Z.to_nat y) (length (grows pre))) as [Hyl|Hyg].
    + set (r := nth (Z.to_nat y) (grows pre) []) in *.
      assert (Hin : In r (skipn (length (grows post)) (grows pre))).
      { unfold r. rewrite <- (firstn_skipn (length (grows post)) (grows pre)) at 1. rewrite app_nth2 by (rewrite firstn_length; lia).
        apply nth_In. rewrite firstn_length, skipn_length. lia. }
      rewrite forallb_forall in H2. pose proof (H2 _ Hin) as Hr. unfold lrow_empty in Hr.
      destruct (Nat.ltb_spec (Z.to_nat x) (length r)) as [Hxr|Hxr].
      * rewrite forallb_forall in Hr. rewrite (cell_empty_any ar _ (Hr _ (nth_In r empty_cell Hxr))) in Hne. discriminate.
      * rewrite nth_overflow in Hne by exact Hxr. rewrite H0 in Hne. discriminate.
    + rewrite (nth_overflow (grows pre)) in Hne by exact Hyg. destruct (Z.to_nat x); cbn [nth] in Hne; rewrite H0 in Hne; discriminate.
Qed.

Theorem optimize_width_keeps_nonempty t t' x y : WF t -> t_optimize_width a true t = Some t' ->
  cell_empty a true empty_cell = true -> 0 <= x -> 0 <= y ->
  cell_empty a true (gcell x y (abs_t t)) = false -> gcell x y (abs_t t') = gcell x y (abs_t t).
Proof.
  intros Hwf H H0 Hx Hy Hne. destruct (optimize_width_law a t t' Hwf H) as [Hlaw _].
  eapply strip_law_keeps_nonempty; eassumption.
Qed.
Theorem optimize_width_total t : exists t', t_optimize_width a true t = Some t'.
Proof. unfold t_optimize_width. destruct (ow_trim_rows a true (rows t)); eauto. Qed.
End Keeps.

(* ---- CSV: to_csv then import_from_csv, at value level.  V = Python values, S = CSV fields (strings); the csv module
   (writer, Sniffer, reader) is the pair (csv_write, csv_read) with its round-trip law on the matrices it is given ---- *)
Section Csv.
Variables (V S T : Type).
Variable none : V.                      (* None *)
Variable field_of : V -> S.             (* to_csv: "" for None, the stripped string, otherwise what csv.writer prints (str) *)
Variable pyval : S -> V.                (* _get_python_value *)
Variable blank : S -> bool.             (* not field.strip() *)
Variable csv_write : list (list S) -> T.
Variable csv_read : T -> list (list S).
Variable csv_ok : list (list S) -> Prop.     (* the dialect is found again by the Sniffer, quoting round-trips *)
Hypothesis csv_roundtrip : forall m, csv_ok m -> csv_read (csv_write m) = m.

Definition csv_export (m : list (list V)) : T := csv_write (map (map field_of) m).
Definition csv_import (t : T) : list (list V) := map (fun line => map pyval (strip_end blank line)) (csv_read t).
Definition vread (m : list (list V)) (x y : nat) : V := nth x (nth y m []) none.
(* the stable domain: the field of a value reads back as that value and is not blank; None is written as a blank field *)
Definition stable (v : V) : Prop := pyval (field_of v) = v /\ blank (field_of v) = false.

Theorem csv_roundtrip_values (m : list (list V)) :
  csv_ok (map (map field_of) m) -> blank (field_of none) = true ->
  (forall r v, In r m -> In v r -> v = none \/ stable v) ->
  length (csv_import (csv_export m)) = length m /\
  forall x y, let v := vread m x y in let v' := vread (csv_import (csv_export m)) x y in
              (v <> none -> v' = v) /\ (v = none -> v' = none \/ v' = pyval (field_of none)).
Proof.
  intros Hok Hb Hdom. unfold csv_import, csv_export. rewrite (csv_roundtrip _ Hok). rewrite !map_length. split; [reflexivity|].
  intros x y. cbv zeta. unfold vread.
  destruct (Nat.ltb_spec y (length m)) as [Hy|Hy].
  2:{ rewrite !nth_overflow with (n := y) by (rewrite ?map_length; exact Hy). destruct x; cbn [nth]; (split; [congruence|auto]). }
  set (f := fun line => map pyval (strip_end blank line)).
  assert (Hlen : (y < length (map f (map (map field_of) m)))%nat) by (rewrite !map_length; exact Hy).
  rewrite (nth_indep _ [] (f (map field_of [])) Hlen).
  rewrite (map_nth f), (map_nth (map field_of)). unfold f.
  set (r := nth y m []). assert (Hr : In r m) by (apply nth_In; exact Hy).
  destruct (strip_end_decomp blank (map field_of r)) as (s & Es & Ps). set (k := strip_end blank (map field_of r)) in *.
  destruct (Nat.ltb_spec x (length k)) as [Hx|Hx].
  - (* inside the kept prefix *)
    assert (Hxr : (x < length r)%nat).
    { assert (length (map field_of r) = length k + length s)%nat by (rewrite Es, app_length; reflexivity). rewrite map_length in H. lia. }
    assert (Ek : nth x k (field_of none) = field_of (nth x r none)).
    { rewrite <- (map_nth field_of). rewrite Es. rewrite app_nth1 by exact Hx. reflexivity. }
    assert (Hxk : (x < length (map pyval k))%nat) by (rewrite map_length; exact Hx).
    rewrite (nth_indep _ none (pyval (field_of none)) Hxk). rewrite (map_nth pyval), Ek.
    destruct (Hdom r (nth x r none) Hr (nth_In r none Hxr)) as [Hn|[Hs1 _]].
    + rewrite Hn. split; [congruence|auto].
    + rewrite Hs1. split; [reflexivity|auto].
  - (* beyond it: the value was None (a blank field) or there was no cell *)
    assert (Hxk : (length (map pyval k) <= x)%nat) by (rewrite map_length; exact Hx).
    rewrite (nth_overflow _ _ Hxk).
    split; [|auto]. intros Hne. exfalso.
    destruct (Nat.ltb_spec x (length r)) as [Hxr|Hxr]; [|apply Hne; apply nth_overflow; exact Hxr].
    destruct (Hdom r (nth x r none) Hr (nth_In r none Hxr)) as [Hn|[_ Hs2]]; [congruence|].
    assert (Hin : In (field_of (nth x r none)) s).
    { assert (E : nth x (map field_of r) (field_of none) = field_of (nth x r none)) by apply map_nth.
      rewrite Es in E. rewrite app_nth2 in E by exact Hx. rewrite <- E. apply nth_In.
      assert (length (map field_of r) = length k + length s)%nat by (rewrite Es, app_length; reflexivity). rewrite map_length in H. lia. }
    rewrite forallb_forall in Ps. rewrite (Ps _ Hin) in Hs2. discriminate.
Qed.
End Csv.
