(* Csv.v — executable model of the csv module for the comma dialect that Table.to_csv writes (dialect "excel":
   delimiter comma, quotechar double quote, doublequote, lineterminator CR LF, QUOTE_MINIMAL) and that import_from_csv reads
   back once the Sniffer has found it (non-strict reader, no escapechar, no skipinitialspace).  Definitions only.
   Mirrors Modules/_csv.c: join_append_data / csv_writerow (writer) and parse_process_char (reader; the synthetic
   end-of-line character that the C reader receives after every physical line is folded into the transitions: lines end
   at LF, CR LF or a lone CR).  Characters are code points (N); the model is validated against the csv module of
   the running CPython by the correspondence check (texts written from random fields, and random texts). *)
From Coq Require Import List NArith Bool.
Import ListNotations.
Local Open Scope N_scope.

Definition comma : N := 44. Definition dq : N := 34. Definition cr : N := 13. Definition lf : N := 10.
Definition field := list N.

(* ---- writer ---- *)
Definition special (c : N) : bool := (c =? comma) || (c =? dq) || (c =? cr) || (c =? lf).
Definition needs_quote (f : field) : bool := existsb special f.
Fixpoint esc (f : field) : list N :=
  match f with [] => [] | c :: r => if c =? dq then dq :: dq :: esc r else c :: esc r end.
Definition wfield (f : field) : list N := if needs_quote f then dq :: esc f ++ [dq] else f.
Fixpoint join (fs : list (list N)) : list N :=
  match fs with [] => [] | [f] => f | f :: r => f ++ comma :: join r end.
(* a record that is one empty field is written as two double quotes (csv_writerow: num_fields > 0 && rec_len == 0) *)
Definition wrow (r : list field) : list N :=
  (match r with [[]] => [dq; dq] | _ => join (map wfield r) end) ++ [cr; lf].
Definition wtext (m : list (list field)) : list N := concat (map wrow m).

(* ---- reader ---- *)
Inductive rstate := SR | SF | IF | QF | QQ | EAT.       (* START_RECORD START_FIELD IN_FIELD IN_QUOTED_FIELD QUOTE_IN_QUOTED_FIELD EAT_CRNL *)
Record racc := { fld : list N; rcd : list field; outp : list (list field) }.     (* all three reversed *)
Definition push (c : N) (a : racc) : racc := {| fld := c :: fld a; rcd := rcd a; outp := outp a |}.
Definition save_field (a : racc) : racc := {| fld := []; rcd := rev (fld a) :: rcd a; outp := outp a |}.
Definition end_record (a : racc) : racc := {| fld := []; rcd := []; outp := rev (rcd a) :: outp a |}.
Definition step_sf (a : racc) (c : N) : rstate * racc :=
  if c =? cr then (EAT, end_record (save_field a))
  else if c =? lf then (SR, end_record (save_field a))
  else if c =? dq then (QF, a)
  else if c =? comma then (SF, save_field a)
  else (IF, push c a).
Definition step_sr (a : racc) (c : N) : rstate * racc :=
  if c =? cr then (EAT, end_record a)
  else if c =? lf then (SR, end_record a)
  else step_sf a c.
Definition rstep (s : rstate) (a : racc) (c : N) : rstate * racc :=
  match s with
  | SR => step_sr a c
  | SF => step_sf a c
  | IF => if c =? cr then (EAT, end_record (save_field a))
          else if c =? lf then (SR, end_record (save_field a))
          else if c =? comma then (SF, save_field a)
          else (IF, push c a)
  | QF => if c =? dq then (QQ, a) else (QF, push c a)
  | QQ => if c =? dq then (QF, push dq a)
          else if c =? comma then (SF, save_field a)
          else if c =? cr then (EAT, end_record (save_field a))
          else if c =? lf then (SR, end_record (save_field a))
          else (IF, push c a)
  | EAT => if c =? lf then (SR, a) else step_sr a c
  end.
Fixpoint rrun (s : rstate) (a : racc) (t : list N) : rstate * racc :=
  match t with [] => (s, a) | c :: r => let '(s', a') := rstep s a c in rrun s' a' r end.
(* end of input: an unterminated last line is closed as the C reader does when it receives the final end-of-line *)
Definition rfinish (sa : rstate * racc) : list (list field) :=
  let '(s, a) := sa in
  match s with
  | SR | EAT => rev (outp a)
  | _ => rev (outp (end_record (save_field a)))
  end.
Definition racc0 : racc := {| fld := []; rcd := []; outp := [] |}.
Definition rtext (t : list N) : list (list field) := rfinish (rrun SR racc0 t).
