(* Vaultproof5.v — Row.traverse(start, end): the loop over the map yields exactly the slice [start, end] of the expansion. *)
From Coq Require Import List ZArith Lia Bool Arith.
Import ListNotations.
Require Import Vault Vaultproof Vaultproof2 Vaultproof3 Vaultproof4.
Local Open Scope Z_scope.

Section Trav.
Variable A : Type.
Notation runs := (runs A).

Lemma trav_done : forall (v : runs) acc x en before, en < x -> before <= acc -> trav x en before (cmap_from acc v) v = [].
Proof.
  induction v as [|[n c] v IH]; intros acc x en before Hx Hb; [reflexivity|].
  cbn [cmap_from trav]. replace (Z.to_nat (Z.min (acc + Z.of_nat n - before) (en - x + 1))) with 0%nat by lia.
  cbn [repeat app]. rewrite Z.add_0_r. apply IH; lia.
Qed.

Lemma firstn_repeat_min (c : A) k n : firstn k (repeat c n) = repeat c (Nat.min k n).
Proof. revert n; induction k; intros [|n]; cbn; auto. now rewrite IHk. Qed.

Lemma trav_spec : forall (v : runs) acc x en off n c,
  (off < n)%nat -> x = acc + Z.of_nat off + 1 -> wf v ->
  trav x en (x - 1) (cmap_from acc ((n, c) :: v)) ((n, c) :: v)
  = firstn (Z.to_nat (en + 1 - x)) (skipn off (expand ((n, c) :: v))).
Proof.
  induction v as [|[n2 c2] v IH]; intros acc x en off n c Hoff Hx Hwf.
  - cbn [cmap_from trav expand]. rewrite !app_nil_r. rewrite skipn_repeat', firstn_repeat_min. f_equal. lia.
  - inversion Hwf as [|? ? Hn2 Hwf']; subst. cbn [fst] in Hn2.
    change (cmap_from acc ((n, c) :: (n2, c2) :: v)) with ((acc + Z.of_nat n) :: cmap_from (acc + Z.of_nat n) ((n2, c2) :: v)).
    cbn [trav]. cbn [expand]. fold (expand ((n2, c2) :: v)).
    rewrite skipn_app, repeat_length, skipn_repeat'. replace (off - n)%nat with 0%nat by lia. rewrite skipn_O.
    set (rest := (n - off)%nat).
    set (k := Z.to_nat (Z.min (acc + Z.of_nat n - (acc + Z.of_nat off + 1 - 1)) (en - (acc + Z.of_nat off + 1) + 1))).
    rewrite firstn_app, repeat_length, firstn_repeat_min.
    assert (Hk : k = Nat.min (Z.to_nat (en + 1 - (acc + Z.of_nat off + 1))) rest) by (unfold k, rest; lia).
    rewrite <- Hk. f_equal.
    destruct (Z.ltb_spec en (acc + Z.of_nat n)) as [Hlt|Hge].
    + (* the range ends inside this run: nothing more is yielded *)
      rewrite trav_done by lia.
      replace (Z.to_nat (en + 1 - (acc + Z.of_nat off + 1)) - rest)%nat with 0%nat by (unfold rest; lia). reflexivity.
    + assert (Hkr : k = rest) by lia. rewrite Hkr.
      replace (acc + Z.of_nat off + 1 + Z.of_nat rest) with (acc + Z.of_nat n + Z.of_nat 0 + 1) by (unfold rest; lia).
      replace (acc + Z.of_nat n) with (acc + Z.of_nat n + Z.of_nat 0 + 1 - 1) at 2 by lia.
      rewrite (IH (acc + Z.of_nat n) (acc + Z.of_nat n + Z.of_nat 0 + 1) en 0%nat n2 c2) by (auto; lia).
      rewrite skipn_O. f_equal. unfold rest. lia.
Qed.

Theorem traverse_range_spec (v : runs) start en : wf v -> 0 <= start ->
  traverse_range start en v = firstn (Z.to_nat (en + 1 - start)) (skipn (Z.to_nat start) (expand v)).
Proof.
  intros Hwf Hs. unfold traverse_range.
  destruct (Z.ltb_spec start (Z.of_nat (width v))) as [Hin|Hout].
  - destruct (locate A v start Hwf ltac:(lia)) as (i & n & b & Hf & Hnth & Hi & Hbef & Hcur & Hrange). cbv zeta in *.
    set (L := length (expand (firstn i v))) in *.
    rewrite Hf. unfold cmap. rewrite cmap_from_skipn. fold L. rewrite (skipn_cons_nth v i (n, b) Hnth).
    rewrite (trav_spec (skipn (S i) v) (-1 + Z.of_nat L) start en (Z.to_nat (start - Z.of_nat L)) n b)
      by (try lia; apply Forall_skipn; exact Hwf).
    f_equal.
    pose proof (firstn_skipn_nth_error v i (n, b) Hnth) as Hv.
    rewrite Hv at 2. rewrite expand_app.
    replace (Z.to_nat start) with (length (expand (firstn i v)) + Z.to_nat (start - Z.of_nat L))%nat by (fold L; lia).
    rewrite skipn_app_2. reflexivity.
  - unfold find_idx, cmap. rewrite bisect_all_lt.
    + rewrite Nat.ltb_irrefl. rewrite skipn_all2 by (unfold width in Hout; lia). now rewrite firstn_nil.
    + eapply Forall_impl; [|apply (cmap_from_le (-1) v)]. cbv beta. intros; lia.
Qed.
End Trav.
Arguments traverse_range_spec {A}.
