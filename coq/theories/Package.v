(* Package.v — executable model of odfdo's package layer (definitions only, no proofs).

   Mirrors   src/odfdo/container.py : Container.__parts (lazy zip / folder loading, None = deleted), __parts_ts,
                                      get_part / set_part / del_part / parts / clone / save, _save_zip order and
                                      compression flags, _save_folder, _xml_content (flat export),
                                      _get_all_zip_part
             src/odfdo/document.py  : Document.__xmlparts, get_part / set_part / del_part, _add_binary_part (add_file),
                                      _check_manifest_rdf, save (branches by packaging / pretty), clone,
                                      container_from_template, the part-copying half of merge_styles_from
             src/odfdo/xmlpart.py   : XmlPart._get_tree (lazy parse), serialize, pretty_serialize / custom_pretty_tree
             src/odfdo/manifest.py  : get_media_type, set_media_type, add_full_path, del_full_path

   Names, media types are [Z] identifiers chosen by the harness; bytes and XML trees are abstract (Section variables
   [ser]/[par]/[pretty]/[stamp]/[entries]/...).  The file system is explicit ([fs]) because containers opened from a
   path read their parts lazily.  A record of switches [fixes] selects, defect by defect, the pinned code or the
   repaired code (fixes/Fnn-*.diff); PINNED = the code as found, FIXED = all repairs. *)
From Coq Require Import List ZArith Bool Arith.
Import ListNotations.
Open Scope Z_scope.

Definition name := Z.
Definition mtype := Z.
(* fixed names.  files >= 0, directory entries (names ending with "/") < 0 *)
Definition MIMETYPE : name := 0.
Definition MANIFEST : name := 1.   (* META-INF/manifest.xml *)
Definition CONTENT : name := 2.
Definition META : name := 3.
Definition SETTINGS : name := 4.
Definition STYLES : name := 5.
Definition RDF : name := 6.        (* manifest.rdf *)
Definition ROOT : name := -1.      (* the "/" manifest entry *)
Definition PICTURES : name := -2.  (* "Pictures/" *)
Definition is_dir (n : name) : bool := n <? 0.
(* _get_part_class(path) is not None: basename in {content,meta,settings,styles,manifest}.xml;
   100..999 = such names in sub-documents ("Object 1/content.xml") *)
Definition is_xml (n : name) : bool := ((1 <=? n) && (n <=? 5)) || ((100 <=? n) && (n <? 1000)).
(* media types: -1 = attribute absent, 0 = "" *)
Definition NOMT : mtype := -1.
Definition EMPTYMT : mtype := 0.

Fixpoint lookup {V} (k : Z) (l : list (Z * V)) : option V :=
  match l with [] => None | (k', v) :: r => if k =? k' then Some v else lookup k r end.
(* dict assignment: an existing key keeps its position, a new key goes last *)
Fixpoint upsert {V} (k : Z) (v : V) (l : list (Z * V)) : list (Z * V) :=
  match l with [] => [(k, v)] | (k', v') :: r => if k =? k' then (k, v) :: r else (k', v') :: upsert k v r end.
Definition remove_key {V} (k : Z) (l : list (Z * V)) : list (Z * V) := filter (fun p => negb (fst p =? k)) l.
Definition memz (k : Z) (l : list Z) : bool := existsb (Z.eqb k) l.
Definition add_once (k : Z) (l : list Z) : list Z := if memz k l then l else l ++ [k].

(* ------------------------------------------------------------------ manifest entry lists (manifest.py) *)
Definition mentries := list (name * mtype).
(* //file-entry[@full-path=p]/@media-type , first result *)
Fixpoint m_get (p : name) (es : mentries) : option mtype :=
  match es with [] => None | (q, m) :: r => if (q =? p) && negb (m =? NOMT) then Some m else m_get p r end.
(* _file_entry(p) = first entry with that path (KeyError if none); set_attribute *)
Fixpoint m_set (p : name) (m : mtype) (es : mentries) : option mentries :=
  match es with [] => None
  | (q, m0) :: r => if q =? p then Some ((q, m) :: r)
                    else match m_set p m r with Some r' => Some ((q, m0) :: r') | None => None end end.
Fixpoint m_del (p : name) (es : mentries) : option mentries :=
  match es with [] => None
  | (q, m0) :: r => if q =? p then Some r
                    else match m_del p r with Some r' => Some ((q, m0) :: r') | None => None end end.
(* add_full_path; [fx10] = the repaired code returns after updating an existing entry *)
Definition m_add (fx10 : bool) (p : name) (m : mtype) (es : mentries) : mentries :=
  match m_get p es with
  | Some _ => match m_set p m es with
              | Some es' => if fx10 then es' else es' ++ [(p, m)]
              | None => es end
  | None => es ++ [(p, m)]
  end.

Record fixes := mkFx { fx9 : bool; fx10 : bool; fx11 : bool; fx14 : bool; fx15 : bool; fx34 : bool; fx37 : bool; fx38 : bool;
                       fx35 : bool; fx42 : bool; fx43 : bool }.
Definition PINNED := mkFx false false false false false false false false false false false.
Definition FIXED := mkFx true true true true true true true true true true true.

Inductive packaging := PZip | PFolder | PXml.
Definition pk_eqb (a b : packaging) := match a, b with PZip, PZip | PFolder, PFolder | PXml, PXml => true | _, _ => false end.
Inductive target := TPath (p : Z) | TBuf (p : Z).
Definition tgt_id (t : target) := match t with TPath p | TBuf p => p end.

Section Pkg.
Variable xml bytes kid : Type.
Variable ser : xml -> bytes.            (* XmlPart.serialize on a tree *)
Variable par : bytes -> xml.            (* lxml parse *)
Variable pretty : xml -> xml.           (* pretty_indent applied to the root *)
Variable stamp : xml -> xml.            (* Meta.set_generator_default *)
Variable entries : xml -> mentries.     (* the manifest:file-entry list of a manifest tree *)
Variable with_entries : mentries -> xml -> xml.
Variable kids : xml -> list kid.        (* children of the root element (flat XML export) *)
Variable mime : bytes -> mtype.         (* bytes_to_str of the mimetype part *)
Variable mime_bytes : mtype -> bytes.
Variable rdf0 : bytes.                  (* Container.default_manifest_rdf *)

Inductive file := FZip (es : list (name * bool * bytes))    (* zip entries in archive order; bool = ZIP_STORED *)
                | FDir (es : list (name * bytes))            (* folder: files (and directories, content ignored) *)
                | FFlat (m : mtype) (ks : list kid).         (* flat XML: office:mimetype and the children of the root *)
Definition fsys := list (Z * file).

Record container := mkC { parts : list (name * option bytes);   (* absent = not loaded yet, None = deleted *)
                          tsl : list name;                       (* names whose __parts_ts entry equals the time stamp on disk *)
                          cpath : option Z;                      (* Container.path *)
                          pkg : packaging }.
(* cached XmlPart wrappers in dict order; None = wrapper created, tree not parsed yet *)
Record document := mkD { cont : container; xps : list (name * option xml) }.

Definition zip_plain (es : list (name * bool * bytes)) : list (name * bytes) := map (fun e => (fst (fst e), snd e)) es.
Definition disk_entries (fs : fsys) (p : Z) : option (list (name * bytes)) :=
  match lookup p fs with Some (FZip es) => Some (zip_plain es) | Some (FDir es) => Some es | _ => None end.
Definition disk_lookup (fs : fsys) (op : option Z) (n : name) : option bytes :=
  match op with Some p => match disk_entries fs p with Some es => lookup n es | None => None end | None => None end.

Definition c_with_parts (c : container) ps := mkC ps (tsl c) (cpath c) (pkg c).
Definition c_load (n : name) (b : bytes) (c : container) : container :=
  mkC (upsert n (Some b) (parts c)) (match pkg c with PFolder => add_once n (tsl c) | _ => tsl c end) (cpath c) (pkg c).

(* Container.get_part: (container after the lazy load, bytes or None when the call raises / returns None) *)
Definition c_get_part (fx : fixes) (fs : fsys) (n : name) (c : container) : container * option bytes :=
  match lookup n (parts c) with
  | Some None => (c, None)                                     (* ValueError: deleted *)
  | Some (Some b) =>
      match pkg c with
      | PFolder =>
          match cpath c with
          | None => if fx38 fx then (c, Some b) else (c, None)  (* _get_folder_part_timestamp: path not defined; repaired: no time-stamp test without a path *)
          | Some _ =>
              if memz n (tsl c) then (c, Some b)               (* cached time stamp is current *)
              else match disk_lookup fs (cpath c) n with
                   | Some b' => (c_load n b' c, Some b')       (* cache_ts = -1 <> current: reload from the folder *)
                   | None => (c, Some b)                       (* no such file: -1 = -1 *)
                   end
          end
      | _ => (c, Some b)
      end
  | None =>
      match pkg c, cpath c with
      | PZip, Some _ | PFolder, Some _ =>
          match disk_lookup fs (cpath c) n with
          | Some b => (c_load n b c, Some b)
          | None => (c, None)                                  (* KeyError / OSError *)
          end
      | _, _ => (c, None)
      end
  end.

(* Container.set_part; [fx34]: folder packaging records the current time stamp so that the next get_part keeps the data *)
Definition c_set_part (fx : fixes) (n : name) (b : bytes) (c : container) : container :=
  mkC (upsert n (Some b) (parts c))
      (if fx34 fx then match pkg c, cpath c with PFolder, Some _ => add_once n (tsl c) | _, _ => tsl c end else tsl c)
      (cpath c) (pkg c).
Definition c_del_part (n : name) (c : container) : container := c_with_parts c (upsert n None (parts c)).

(* Container.parts.  As found (F35): the members of the file for a container with a path, the keys of the part map (deleted ones
   included) otherwise.  Repaired (fixes/F35-*.diff): the members of the file not deleted since, then the parts added in memory *)
Definition c_stored (fs : fsys) (c : container) : list name :=
  match cpath c with
  | None => []
  | Some p => match pkg c with PXml => [] | _ => match disk_entries fs p with Some es => map fst es | None => [] end end
  end.
Definition c_listing (fx : fixes) (fs : fsys) (c : container) : list name :=
  if fx35 fx then
    filter (fun n => match lookup n (parts c) with Some None => false | _ => true end) (c_stored fs c)
    ++ flat_map (fun e => match snd e with Some _ => if memz (fst e) (c_stored fs c) then [] else [fst e] | None => [] end) (parts c)
  else match cpath c with
       | None => map fst (parts c)
       | Some _ => c_stored fs c
       end.

Definition c_load_missing (fx : fixes) (fs : fsys) (ns : list name) (c : container) : container :=
  fold_left (fun c n => match lookup n (parts c) with None => fst (c_get_part fx fs n c) | Some _ => c end) ns c.

Definition live (c : container) : list (name * bytes) :=
  flat_map (fun p => match snd p with Some b => [(fst p, b)] | None => [] end) (parts c).
Definition pick (n : name) (l : list (name * bytes)) : list (name * bool * bytes) :=
  match lookup n l with Some b => [(n, false, b)] | None => [] end.
Definition drop (ns : list name) (l : list (name * bytes)) := filter (fun p => negb (memz (fst p) ns)) l.
(* _save_zip: mimetype first and STORED, then content, meta, settings, styles, then the rest in dict order, manifest last *)
Definition save_zip (c : container) : option (list (name * bool * bytes)) :=
  let l := live c in
  match lookup MIMETYPE l with
  | None => None                                               (* ValueError: Mimetype is not defined *)
  | Some mb =>
      Some ((MIMETYPE, true, mb) :: pick CONTENT l ++ pick META l ++ pick SETTINGS l ++ pick STYLES l
            ++ map (fun p => (fst p, false, snd p)) (drop [MIMETYPE; CONTENT; META; SETTINGS; STYLES; MANIFEST] l)
            ++ pick MANIFEST l)
  end.
(* _xml_content: children of meta, settings, styles, content, in that order *)
Definition flat_kids (c : container) : list kid :=
  flat_map (fun n => match lookup n (live c) with Some b => kids (par b) | None => [] end) [META; SETTINGS; STYLES; CONTENT].

(* Container.save *)
Definition c_save (fx : fixes) (fs : fsys) (c : container) (t : target) (pk : packaging) : container * option fsys :=
  let c1 := c_load_missing fx fs (c_listing fx fs c) c in
  match pk with
  | PFolder => match t with TBuf _ => (c1, None) | TPath p => (c1, Some (upsert p (FDir (live c1)) fs)) end
  | PXml => match lookup MIMETYPE (live c1) with
            | Some mb => (c1, Some (upsert (tgt_id t) (FFlat (mime mb) (flat_kids c1)) fs))
            | None => (c1, None) end
  | PZip => match save_zip c1 with Some es => (c1, Some (upsert (tgt_id t) (FZip es) fs)) | None => (c1, None) end
  end.

(* _get_all_zip_part; pinned: every member read again over what is in memory *)
Definition c_load_all_zip (fx : fixes) (fs : fsys) (c : container) : container :=
  match cpath c with
  | Some p => match disk_entries fs p with
              | Some es => fold_left (fun c e => if fx37 fx then match lookup (fst e) (parts c) with None => c_load (fst e) (snd e) c | Some _ => c end
                                                 else c_load (fst e) (snd e) c) es c
              | None => c end
  | None => c end.
(* Container.clone: (original after the loads, clone) *)
Definition c_clone (fx : fixes) (fs : fsys) (c : container) : container * container :=
  let c1 := match cpath c, pkg c with
            | Some _, PZip => c_load_all_zip fx fs c
            | Some _, PFolder => if fx38 fx then c_load_missing fx fs (c_listing fx fs c) c else c
            | _, _ => c end in
  (c1, mkC (parts c1) (tsl c1) None (pkg c1)).

(* ---------------------------------------------------------------- Document *)
Definition xp_cache (n : name) (l : list (name * option xml)) := match lookup n l with Some _ => l | None => l ++ [(n, None)] end.
(* XmlPart access through Document.get_part + .root / serialize: caches the wrapper, parses lazily *)
Definition d_tree (fx : fixes) (fs : fsys) (n : name) (d : document) : document * option xml :=
  let l := xp_cache n (xps d) in
  match lookup n l with
  | Some (Some x) => (mkD (cont d) l, Some x)
  | _ => let '(c', ob) := c_get_part fx fs n (cont d) in
         match ob with
         | Some b => (mkD c' (upsert n (Some (par b)) l), Some (par b))
         | None => (mkD c' l, None)
         end
  end.
Definition set_tree (n : name) (x : xml) (d : document) : document := mkD (cont d) (upsert n (Some x) (xps d)).
Definition d_with_cont (d : document) (c : container) := mkD c (xps d).

Definition d_manifest (fx : fixes) (fs : fsys) (f : mentries -> mentries) (d : document) : document * bool :=
  let '(d1, ox) := d_tree fx fs MANIFEST d in
  match ox with Some x => (set_tree MANIFEST (with_entries (f (entries x)) x) d1, true) | None => (d1, false) end.

Definition d_set_part (fx : fixes) (n : name) (b : bytes) (d : document) : document :=
  mkD (c_set_part fx n b (cont d)) (if fx9 fx && is_xml n then remove_key n (xps d) else xps d).
Definition d_del_part (fx : fixes) (fs : fsys) (n : name) (d : document) : document * bool :=
  if (n =? MANIFEST) || is_xml n then (d, false)
  else let d1 := d_with_cont d (c_del_part n (cont d)) in
       if fx11 fx then d_manifest fx fs (fun es => match m_del n es with Some es' => es' | None => es end) d1
       else (d1, true).
(* _add_binary_part *)
Definition d_add_file (fx : fixes) (fs : fsys) (n : name) (b : bytes) (m : mtype) (d : document) : document * bool :=
  let '(d1, ox) := d_tree fx fs MANIFEST d in
  match ox with
  | None => (d1, false)
  | Some x =>
      let es1 := match m_get PICTURES (entries x) with None => m_add (fx10 fx) PICTURES EMPTYMT (entries x) | Some _ => entries x end in
      let d2 := d_with_cont d1 (c_set_part fx n b (cont d1)) in
      (set_tree MANIFEST (with_entries (m_add (fx10 fx) n m es1) x) d2, true)
  end.
(* merge_styles_from, per copied image: self.set_part(url, bytes); manifest.add_full_path(url, media_type) *)
Definition d_import (fx : fixes) (fs : fsys) (n : name) (b : bytes) (m : mtype) (d : document) : document * bool :=
  let d0 := d_set_part fx n b d in
  let '(d1, ox) := d_tree fx fs MANIFEST d0 in
  match ox with
  | None => (d1, false)
  | Some x => (set_tree MANIFEST (with_entries (m_add (fx10 fx) n m (entries x)) x) d1, true)
  end.

(* the cached parts of a clone.  As found: none (F43: what a part class keeps beside its tree, e.g. Meta's "generator set by the
   user", is lost).  Repaired: a wrapper of the same class and state for every part the original had fetched, tree not parsed *)
Definition wrappers (fx : fixes) (l : list (name * option xml)) : list (name * option xml) :=
  if fx43 fx then map (fun p => (fst p, None)) l else [].
(* Document.clone: (original, clone) *)
Definition d_clone (fx : fixes) (fs : fsys) (d : document) : document * document :=
  let '(c1, cl) := c_clone fx fs (cont d) in
  let d1 := d_with_cont d c1 in
  if fx14 fx then
    let '(d2, cl2) := fold_left (fun (acc : document * container) n =>
                         let '(dd, ox) := d_tree fx fs n (fst acc) in
                         match ox with Some x => (dd, c_set_part fx n (ser x) (snd acc)) | None => (dd, snd acc) end)
                         (map fst (xps d1)) (d1, cl) in
    (d2, mkD cl2 (wrappers fx (xps d)))
  else (d1, mkD cl (wrappers fx (xps d))).

(* the serialisation loops of Document.save *)
Definition ser_loop (fx : fixes) (fs : fsys) (pty : bool) (ns : list name) (d : document) : document * bool :=
  fold_left (fun (acc : document * bool) n =>
               let '(dd, ox) := d_tree fx fs n (fst acc) in
               match ox with
               | Some x => if pty
                           then let dd' := if fx15 fx then dd else set_tree n (pretty x) dd in     (* custom_pretty_tree indents the live tree *)
                                (d_with_cont dd' (c_set_part fx n (ser (pretty x)) (cont dd')), snd acc)
                           else (d_with_cont dd (c_set_part fx n (ser x) (cont dd)), snd acc)
               | None => (dd, false)
               end) ns (d, true).

(* is manifest.rdf listed?  As found (F42) the truth value of its media type is tested; repaired: [is not None] *)
Definition rdf_listed (fx : fixes) (es : mentries) : bool :=
  match m_get RDF es with Some m => fx42 fx || negb (m =? EMPTYMT) | None => false end.
Definition check_rdf (fx : fixes) (fs : fsys) (d : document) : document * bool :=
  let '(d1, om) := d_tree fx fs MANIFEST d in
  match om with
  | None => (d1, false)
  | Some xm =>
      let listing := c_listing fx fs (cont d1) in
      let truthy := rdf_listed fx (entries xm) in
      (if truthy then (if memz RDF listing then d1 else d_with_cont d1 (c_set_part fx RDF rdf0 (cont d1)))
       else (if memz RDF listing then d_with_cont d1 (c_del_part RDF (cont d1)) else d1), true)
  end.

(* Document.save: (file system, document, succeeded) *)
Definition d_save (fx : fixes) (fs : fsys) (d : document) (t : target) (pk : packaging) (pty : bool) : fsys * document * bool :=
  let '(d1, ox) := d_tree fx fs META d in
  match ox with
  | None => (fs, d1, false)
  | Some x =>
      let d2 := set_tree META (stamp x) d1 in
      let '(d3, ok3) := check_rdf fx fs d2 in
      if negb ok3 then (fs, d3, false) else
      let '(d4, ok4) :=
         if pty && negb (pk_eqb pk PXml) then
           let '(da, oka) := ser_loop fx fs true (map fst (xps d3)) d3 in
           let '(db, okb) := ser_loop fx fs true (filter (fun n => match lookup n (xps da) with Some _ => false | None => true end)
                                                         [CONTENT; META; SETTINGS; STYLES]) da in
           (db, oka && okb)
         else ser_loop fx fs false (map fst (xps d3)) d3 in
      if negb ok4 then (fs, d4, false) else
      let '(c5, ofs) := c_save fx fs (cont d4) t pk in
      match ofs with Some fs' => (fs', d_with_cont d4 c5, true) | None => (fs, d_with_cont d4 c5, false) end
  end.

(* Container.open *)
Definition c_open (fs : fsys) (p : Z) (as_buf : bool) : option container :=
  match lookup p fs with
  | Some (FZip es) =>
      match lookup MIMETYPE (zip_plain es) with
      | None => None
      | Some mb =>
          let c0 := mkC [(MIMETYPE, Some mb)] [] (if as_buf then None else Some p) PZip in
          Some (if as_buf then fold_left (fun c e => c_load (fst e) (snd e) c) (zip_plain es) c0 else c0)
      end
  | Some (FDir es) => if as_buf then None else Some (mkC [] [] (Some p) PFolder)
  | _ => None
  end.
(* container_from_template *)
Definition c_new (fx : fixes) (fs : fsys) (p : Z) (m' : mtype) : option container :=
  match c_open fs p false with
  | None => None
  | Some tc =>
      let cl := snd (c_clone fx fs tc) in
      let cl1 := c_with_parts cl (upsert MIMETYPE (Some (mime_bytes m')) (parts cl)) in
      let '(cl2, ob) := c_get_part fx fs MANIFEST cl1 in
      match ob with
      | None => None
      | Some b => match m_set ROOT m' (entries (par b)) with
                  | None => None
                  | Some es' => Some (c_set_part fx MANIFEST (ser (with_entries es' (par b))) cl2)
                  end
      end
  end.

(* the package-level effect of merge_styles_from *)
Definition d_set_tree_opt (fx : fixes) (fs : fsys) (n : name) (ox : option xml) (d : document) : document * bool :=
  match ox with
  | None => (d, true)
  | Some x' => let '(d', o) := d_tree fx fs n d in
               match o with Some _ => (set_tree n x' d', true) | None => (d', false) end
  end.
Definition d_merge (fx : fixes) (fs : fsys) (sc sx : option xml) (imgs : list (name * bytes * mtype)) (d : document) : document * bool :=
  let d0 := mkD (cont d) (xp_cache MANIFEST (xps d)) in          (* manifest = self.manifest : wrapper cached *)
  let '(d1, ok1) := d_set_tree_opt fx fs CONTENT sc d0 in
  let '(d2, ok2) := d_set_tree_opt fx fs STYLES sx d1 in
  fold_left (fun (acc : document * bool) e =>
               let '(d', ok) := d_import fx fs (fst (fst e)) (snd (fst e)) (snd e) (fst acc) in (d', snd acc && ok))
            imgs (d2, ok1 && ok2).

Inductive op :=
| OOpen (p : Z) (as_buf : bool)          (* Document(path) / Document(BytesIO) *)
| ONew (p : Z) (m' : mtype)              (* Document.new(template) / Document("text") *)
| OGetPart (n : name)                    (* Document.get_part *)
| OTouch (n : name)                      (* an XML part's .root is read: body / meta / styles / manifest access *)
| OEdit (n : name) (x' : xml)            (* the tree of XML part n is edited in place and is x' afterwards *)
| OSetPart (n : name) (b : bytes)
| ODelPart (n : name)
| OAddFile (n : name) (b : bytes) (m : mtype)
| OImport (n : name) (b : bytes) (m : mtype)
| OSave (t : target) (pk : packaging) (pty : bool)
| OClone                                 (* continue with document.clone *)
| OMerge (sc sx : option xml) (imgs : list (name * bytes * mtype)).
   (* Document.merge_styles_from(source): the content / styles trees are sc / sx afterwards (None = part not touched), and for
      every image referenced by a merged master-page / fill-image style, in order: set_part(url, source bytes);
      manifest.add_full_path(url, source media type) *)

Inductive out := Done | Err | Got (b : bytes).

Definition step (fx : fixes) (s : fsys * document) (o : op) : (fsys * document) * out :=
  let '(fs, d) := s in
  match o with
  | OOpen p as_buf => match c_open fs p as_buf with Some c => ((fs, mkD c []), Done) | None => (s, Err) end
  | ONew p m' => match c_new fx fs p m' with Some c => ((fs, mkD c []), Done) | None => (s, Err) end
  | OGetPart n =>
      if is_xml n then ((fs, mkD (cont d) (xp_cache n (xps d))), Done)
      else let '(c', ob) := c_get_part fx fs n (cont d) in
           ((fs, d_with_cont d c'), match ob with Some b => Got b | None => Err end)
  | OTouch n => if negb (is_xml n) then (s, Err) else
                let '(d', ox) := d_tree fx fs n d in ((fs, d'), match ox with Some _ => Done | None => Err end)
  | OEdit n x' => if negb (is_xml n) then (s, Err) else
                  let '(d', ox) := d_tree fx fs n d in
                  match ox with Some _ => ((fs, set_tree n x' d'), Done) | None => ((fs, d'), Err) end
  | OSetPart n b => ((fs, d_set_part fx n b d), Done)
  | ODelPart n => let '(d', ok) := d_del_part fx fs n d in ((fs, d'), if ok then Done else Err)
  | OAddFile n b m => let '(d', ok) := d_add_file fx fs n b m d in ((fs, d'), if ok then Done else Err)
  | OImport n b m => let '(d', ok) := d_import fx fs n b m d in ((fs, d'), if ok then Done else Err)
  | OSave t pk pty => let '(fs', d', ok) := d_save fx fs d t pk pty in ((fs', d'), if ok then Done else Err)
  | OClone => ((fs, snd (d_clone fx fs d)), Done)
  | OMerge sc sx imgs => let '(d', ok) := d_merge fx fs sc sx imgs d in ((fs, d'), if ok then Done else Err)
  end.

Definition run (fx : fixes) (s : fsys * document) (os : list op) : fsys * document := fold_left (fun s o => fst (step fx s o)) os s.

(* ---------------------------------------------------------------- what a reader is entitled to see *)
Variable proj : Type.                   (* what a reader is entitled to see of an XML part: any projection ... *)
Variable mask : xml -> proj.            (* ... e.g. the infoset with the generator stamp removed; for pretty, the layout-insensitive reading *)
Inductive content := CBytes (b : bytes) | CXml (x : proj).
(* bytes of a part as the container holds them: memory first, unread members come from the file *)
Definition bytes_of (fs : fsys) (d : document) (n : name) : option bytes :=
  match lookup n (parts (cont d)) with
  | Some (Some b) => Some b
  | Some None => None
  | None => disk_lookup fs (cpath (cont d)) n
  end.
(* the tree of an XML part: a parsed tree wins over the container's bytes *)
Definition tree_of (fs : fsys) (d : document) (n : name) : option xml :=
  match lookup n (xps d) with
  | Some (Some x) => Some x
  | _ => match bytes_of fs d n with Some b => Some (par b) | None => None end
  end.
Definition view (fs : fsys) (d : document) (n : name) : option content :=
  if is_dir n then None
  else if is_xml n then match tree_of fs d n with Some x => Some (CXml (mask x)) | None => None end
  else match bytes_of fs d n with Some b => Some (CBytes b) | None => None end.
(* the part map of a saved zip / folder, read back independently *)
Definition file_entries (f : option file) : list (name * bytes) :=
  match f with Some (FZip es) => zip_plain es | Some (FDir es) => es | _ => [] end.
Definition file_view (f : option file) (n : name) : option content :=
  if is_dir n then None
  else match lookup n (file_entries f) with
       | Some b => Some (if is_xml n then CXml (mask (par b)) else CBytes b)
       | None => None end.
Definition names_of (fs : fsys) (d : document) : list name :=
  map fst (xps d) ++ map fst (parts (cont d))
  ++ match cpath (cont d) with Some p => match disk_entries fs p with Some es => map fst es | None => [] end | None => [] end.

(* ---------------------------------------------------------------- C04: package coherent with its manifest *)
Fixpoint nodupb (l : list Z) : bool := match l with [] => true | x :: r => negb (memz x r) && nodupb r end.
Definition declared (es : mentries) : list name := filter (fun n => negb (is_dir n)) (map fst es).
Definition is_file_part (fs : fsys) (d : document) (n : name) : bool :=
  negb (is_dir n) && negb (n =? MIMETYPE) && negb (n =? MANIFEST) && match bytes_of fs d n with Some _ => true | None => false end.
(* every entry carries a media type (manifest:media-type is a required attribute) *)
Definition entries_typed (es : mentries) : bool :=
  forallb (fun e => negb (snd e =? NOMT)) es.
Definition PkgOK (fs : fsys) (d : document) : Prop :=
  exists xm mb, tree_of fs d MANIFEST = Some xm /\ bytes_of fs d MIMETYPE = Some mb /\
    NoDup (declared (entries xm)) /\
    (forall n, In n (declared (entries xm)) <-> is_file_part fs d n = true) /\
    m_get ROOT (entries xm) = Some (mime mb) /\
    entries_typed (entries xm) = true.
Definition PkgOKb (fs : fsys) (d : document) : bool :=
  match tree_of fs d MANIFEST, bytes_of fs d MIMETYPE with
  | Some xm, Some mb =>
      let ds := declared (entries xm) in
      nodupb ds && forallb (is_file_part fs d) ds
      && forallb (fun n => implb (is_file_part fs d n) (memz n ds)) (names_of fs d)
      && match m_get ROOT (entries xm) with Some m => m =? mime mb | None => false end
      && entries_typed (entries xm)
  | _, _ => false
  end.
(* well-formed bookkeeping: dict keys are unique *)
Definition wfb (fs : fsys) (d : document) : bool :=
  nodupb (map fst (parts (cont d))) && nodupb (map fst (xps d))
  && match cpath (cont d) with Some p => match disk_entries fs p with Some es => nodupb (map fst es) | None => true end | None => true end.

(* folder packaging: every part held in memory carries the current time stamp (of its file, or "no file"), so that
   get_part keeps it (otherwise the next read replaces it by the file's content: F34) *)
Definition ts_invb (fs : fsys) (d : document) : bool :=
  let c := cont d in
  match pkg c, cpath c with
  | PFolder, Some _ => forallb (fun e => match snd e with Some _ => memz (fst e) (tsl c) | None => true end) (parts c)
  | _, _ => true
  end.

(* the bookkeeping invariant the theorems assume (Pkgproof.WFd), as a boolean the correspondence evaluates on every state *)
Definition WFdb (fs : fsys) (d : document) : bool :=
  nodupb (map fst (parts (cont d))) && ts_invb fs d
  && match cpath (cont d) with Some _ => negb (pk_eqb (pkg (cont d)) PXml) | None => true end
  && forallb is_xml (map fst (xps d))
  && forallb (fun e => match snd e with Some _ => match bytes_of fs d (fst e) with Some _ => true | None => false end | None => true end) (xps d).

(* a saved zip: first entry mimetype STORED, unique names, manifest ~ entries, "/" carries the mimetype *)
Definition zip_names (es : list (name * bool * bytes)) : list name := map (fun e => fst (fst e)) es.
Definition zip_shapeb (es : list (name * bool * bytes)) : bool :=
  match es with
  | (n0, st0, b0) :: _ =>
      (n0 =? MIMETYPE) && st0
      && nodupb (zip_names es)
      && match lookup MANIFEST (zip_plain es) with
         | Some mb =>
             let ent := entries (par mb) in
             let ds := declared ent in
             let fl := filter (fun n => negb (is_dir n) && negb (n =? MIMETYPE) && negb (n =? MANIFEST)) (zip_names es) in
             nodupb ds && forallb (fun n => memz n fl) ds && forallb (fun n => memz n ds) fl
             && match m_get ROOT ent with Some m => m =? mime b0 | None => false end
         | None => false end
  | [] => false
  end.
End Pkg.

Arguments FZip {bytes kid}. Arguments FDir {bytes kid}. Arguments FFlat {bytes kid}.
Arguments mkC {bytes}. Arguments mkD {xml bytes}.
Arguments CBytes {bytes proj}. Arguments CXml {bytes proj}.
Arguments OOpen {xml bytes}. Arguments ONew {xml bytes}. Arguments OGetPart {xml bytes}. Arguments OTouch {xml bytes}.
Arguments OEdit {xml bytes}. Arguments OSetPart {xml bytes}. Arguments ODelPart {xml bytes}. Arguments OAddFile {xml bytes}.
Arguments OImport {xml bytes}. Arguments OSave {xml bytes}. Arguments OClone {xml bytes}. Arguments OMerge {xml bytes}.
Arguments Got {bytes}. Arguments Done {bytes}. Arguments Err {bytes}.

(* ==================================================================== the instance the correspondence evaluates
   An XML content is abstracted by the harness as (strict id = C14N with the generator masked, loose id = the
   layout-insensitive projection of C11, manifest entries, loose ids of the root's children).  strict = 0 means "layout
   unknown" (the model's image of a pretty-printed tree).  Non-XML bytes are an id.  Serialisation keeps the infoset. *)
Inductive cxml := CX (s l : Z) (es : mentries) (ks : list Z).
Inductive cbytes := CB (z : Z) | CS (x : cxml).
Definition cser (x : cxml) : cbytes := CS x.
Definition cpar (b : cbytes) : cxml := match b with CS x => x | CB z => CX z z [] [] end.
Definition cpretty (x : cxml) : cxml := match x with CX _ l es ks => CX 0 l es ks end.
Definition cstamp (x : cxml) : cxml := x.          (* the harness masks the generator before hashing *)
Definition centries (x : cxml) : mentries := match x with CX _ _ es _ => es end.
(* editing the entry list changes the identity of the manifest tree: ids 0 (the entry list is the identity) *)
Definition cwith_entries (es : mentries) (x : cxml) : cxml := match x with CX _ _ _ ks => CX 0 0 es ks end.
Definition ckids (x : cxml) : list Z := match x with CX _ _ _ ks => ks end.
Definition cmime (b : cbytes) : mtype := match b with CB z => z | CS _ => -2 end.
Definition cmime_bytes (m : mtype) : cbytes := CB m.
Definition crdf0 : cbytes := CB 1.
Definition cmask (x : cxml) : cxml := x.

Definition list_eqb {A} (e : A -> A -> bool) (a b : list A) : bool :=
  (length a =? length b)%nat && forallb (fun p => e (fst p) (snd p)) (combine a b).
Definition ent_eqb (a b : name * mtype) := (fst a =? fst b) && (snd a =? snd b).
Definition cx_eqb (a b : cxml) : bool :=
  match a, b with CX s l es ks, CX s' l' es' ks' =>
    (l =? l') && ((s =? 0) || (s' =? 0) || (s =? s')) && list_eqb ent_eqb es es' && list_eqb Z.eqb ks ks' end.
Definition cx_eqb_exact := cx_eqb.
(* layout ignored altogether (after a pretty save) *)
Definition cx_eqb_loose (a b : cxml) : bool :=
  match a, b with CX s l es ks, CX s' l' es' ks' => (l =? l') && list_eqb ent_eqb es es' && list_eqb Z.eqb ks ks' end.
Definition ccont_eqb_loose (a b : content cbytes cxml) : bool :=
  match a, b with CBytes (CB x), CBytes (CB y) => x =? y | CBytes (CS x), CBytes (CS y) => cx_eqb_loose x y
                | CXml x, CXml y => cx_eqb_loose x y | _, _ => false end.
Definition cb_eqb (a b : cbytes) : bool :=
  match a, b with CB x, CB y => x =? y | CS x, CS y => cx_eqb x y | _, _ => false end.
Definition ccont_eqb (a b : content cbytes cxml) : bool :=
  match a, b with CBytes x, CBytes y => cb_eqb x y | CXml x, CXml y => cx_eqb x y | _, _ => false end.
Definition opt_eqb {A} (e : A -> A -> bool) (a b : option A) : bool :=
  match a, b with Some x, Some y => e x y | None, None => true | _, _ => false end.

Notation cdoc := (document cxml cbytes).
Notation cfs := (fsys cbytes Z).
Notation cop := (op cxml cbytes).
Definition cstep (fx : fixes) := step cxml cbytes Z cser cpar cpretty cstamp centries cwith_entries ckids cmime cmime_bytes crdf0 fx.
Definition cd_clone (fx : fixes) := d_clone cxml cbytes Z cser cpar fx.
Definition cview := view cxml cbytes Z cpar cxml cmask.
Definition cfile_view := file_view cxml cbytes Z cpar cxml cmask.
Definition cPkgOKb := PkgOKb cxml cbytes Z cpar centries cmime.
Definition cwfb := wfb cxml cbytes Z.
Definition cts_invb := ts_invb cxml cbytes Z.
Definition cWFdb := WFdb cxml cbytes Z.
Definition czip_shapeb := zip_shapeb cxml cbytes cpar centries cmime.
Definition cnames := names_of cxml cbytes Z.
(* equality of two part maps over the names either side mentions *)
Definition view_eqb (fs1 : cfs) (d1 : cdoc) (fs2 : cfs) (d2 : cdoc) : bool :=
  forallb (fun n => opt_eqb ccont_eqb (cview fs1 d1 n) (cview fs2 d2 n)) (cnames fs1 d1 ++ cnames fs2 d2).
Definition file_eqb (a b : option (file cbytes Z)) : bool :=
  match a, b with
  | Some (FZip x), Some (FZip y) =>
      list_eqb (fun p q => (fst (fst p) =? fst (fst q)) && Bool.eqb (snd (fst p)) (snd (fst q)) && cb_eqb (snd p) (snd q)) x y
  | Some (FDir x), Some (FDir y) =>
      let f := filter (fun p : name * cbytes => negb (is_dir (fst p))) in
      forallb (fun p => opt_eqb cb_eqb (Some (snd p)) (lookup (fst p) y)) (f x)
      && forallb (fun p => opt_eqb cb_eqb (Some (snd p)) (lookup (fst p) x)) (f y)
  | Some (FFlat m ks), Some (FFlat m' ks') => (m =? m') && list_eqb Z.eqb ks ks'
  | None, None => true
  | _, _ => false
  end.
(* same names and the same contents, order and flags ignored (property level for a saved zip) *)
Definition file_content_eqb (a b : option (file cbytes Z)) : bool :=
  match a, b with
  | Some (FFlat m ks), Some (FFlat m' ks') => (m =? m') && list_eqb Z.eqb ks ks'
  | Some (FFlat _ _), _ | _, Some (FFlat _ _) => false
  | Some _, Some _ =>
      let ea := filter (fun p : name * cbytes => negb (is_dir (fst p))) (file_entries cbytes Z a) in
      let eb := filter (fun p : name * cbytes => negb (is_dir (fst p))) (file_entries cbytes Z b) in
      forallb (fun p => opt_eqb cb_eqb (Some (snd p)) (lookup (fst p) eb)) ea
      && forallb (fun p => opt_eqb cb_eqb (Some (snd p)) (lookup (fst p) ea)) eb
  | None, None => true
  | _, _ => false
  end.
Definition out_eqb (a b : out cbytes) : bool :=
  match a, b with Done, Done | Err, Err => true | Got x, Got y => cb_eqb x y | _, _ => false end.
(* exact state equality = fidelity *)
Definition cont_eqb (a b : container cbytes) : bool :=
  list_eqb (fun p q => (fst p =? fst q) && opt_eqb cb_eqb (snd p) (snd q)) (parts _ a) (parts _ b)
  && opt_eqb Z.eqb (cpath _ a) (cpath _ b) && pk_eqb (pkg _ a) (pkg _ b)
  && forallb (fun n => memz n (tsl _ b)) (tsl _ a) && forallb (fun n => memz n (tsl _ a)) (tsl _ b).
Definition doc_eqb (a b : cdoc) : bool :=
  cont_eqb (cont _ _ a) (cont _ _ b)
  && list_eqb (fun p q => (fst p =? fst q) && opt_eqb cx_eqb_exact (snd p) (snd q)) (xps _ _ a) (xps _ _ b).
