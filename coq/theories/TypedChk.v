(* TypedChk.v — the checker evaluated by Coq on every correspondence case of C06.  Definitions only. *)
From Coq Require Import List ZArith NArith Bool Arith.
Import ListNotations.
Require Import Codec Typed.

Definition optstr_eqb (a b : option str) : bool :=
  match a, b with None, None => true | Some x, Some y => str_eqb x y | _, _ => false end.
Fixpoint others_eqb (a b : list (str * str)) : bool :=
  match a, b with
  | [], [] => true
  | (n, v) :: a', (n', v') :: b' => str_eqb n n' && str_eqb v v' && others_eqb a' b'
  | _, _ => false
  end.
(* the whole attribute set (and the text for meta fields) *)
Definition elem_eqb (a b : elem) : bool :=
  optstr_eqb (vtype a) (vtype b) && optstr_eqb (a_bool a) (a_bool b) && optstr_eqb (a_value a) (a_value b) &&
  optstr_eqb (a_date a) (a_date b) && optstr_eqb (a_string a) (a_string b) && optstr_eqb (a_time a) (a_time b) &&
  optstr_eqb (etext a) (etext b) && optstr_eqb (a_currency a) (a_currency b) && optstr_eqb (x_type a) (x_type b) &&
  optstr_eqb (x_value a) (x_value b) && others_eqb (others a) (others b).

Definition pyval_eqb (a b : pyval) : bool :=
  match a, b with
  | VNone, VNone => true
  | VBool x, VBool y => Bool.eqb x y
  | VInt x, VInt y => (x =? y)%Z
  | VFloat x, VFloat y => str_eqb x y
  | VDec x, VDec y => dec_eqb x y
  | VStr x, VStr y => str_eqb x y
  | VDate y1 m1 d1, VDate y2 m2 d2 => (y1 =? y2)%N && (m1 =? m2)%N && (d1 =? d2)%N
  | VDateTime x, VDateTime y => dtime_eqb x y
  | VDur x, VDur y => (x =? y)%Z
  | VOther, VOther => true
  | _, _ => false
  end.
Definition res_eqb (a b : result pyval) : bool :=
  match a, b with Ok x, Ok y => pyval_eqb x y | Err, Err => true | _, _ => false end.

Definition DT (y m d h mi s u : N) (z : option Z) : dtime := mkdt y m d h mi s u z.
Definition E (t b v d s tm x cur xt xv : option str) (o : list (str * str)) : elem := mkelem t b v d s tm x cur xt xv o.

(* one read: which getter, the element it read from (abstracted again at that moment), what it returned *)
Definition read := (getk * elem * result pyval)%type.

(* codes: 1 value read back is not the value stored   2 attribute written is outside the lexical space of its type
          6 overwrite: the attribute set left by a write on an occupied carrier is not the one the same write leaves on a fresh carrier
          3 set differs from the model's set from the same previous state   4 get differs from the model, from the same element
          5 the stored attributes changed on the way (re-parse, save / reload)
          7 the model's own Decimal text round trip fails on this value (a defect of the model; cannot happen, see C06_decimal_text_roundtrip).
   The property's own predicates (1, 2, 6) are evaluated first, on the implementation's outputs alone; then the simulation (3, 5, 4). *)
Definition value_ok (v : pyval) (r : read) : bool := match snd r with Ok x => same_value v x | Err => false end.
Fixpoint chk_reads (w : elem) (rs : list read) : nat :=
  match rs with
  | [] => 0
  | (g, e, r) :: rest =>
    if negb (elem_eqb e w) then 5
    else if negb (res_eqb r (model_get g e)) then 4
    else chk_reads w rest
  end.
(* case = (writer, previous state of the carrier (None = fresh), value, what the write left, what the same write leaves on a
   fresh carrier, reads) *)
Definition chk06 (c : setk * option elem * pyval * result elem * result elem * list read) : nat :=
  let '(k, prev, v, w, fresh, rs) := c in
  match w with
  | Err => match model_set_on k prev v with Err => 0 | Ok _ => 3 end
  | Ok e =>
    if (match v with VDec d => negb (dec_text_roundtrips d) | _ => false end) then 7
    else if in_domain v && negb (forallb (value_ok v) rs) then 1
    else if in_domain v && lexical_claimed v && negb (elem_lexical (is_meta k) e) then 2
    else if negb (match fresh with Ok f => elem_eqb e f | Err => false end) then 6
    else match model_set_on k prev v with
         | Err => 3
         | Ok m => if negb (elem_eqb e m) then 3 else chk_reads e rs
         end
  end.

(* ---- arguments of set_value_and_type / typed reads / repeated runs *)
Definition optstr_eqb' := optstr_eqb.
Definition tres_eqb (a b : result (pyval * option str)) : bool :=
  match a, b with
  | Ok (x, t), Ok (y, u) => pyval_eqb x y && optstr_eqb t u
  | Err, Err => true
  | _, _ => false
  end.
Definition tread := (elem * result (pyval * option str))%type.      (* element read from, (value, reported type) *)
Definition expected_type (vt : option str) (v : pyval) : option str :=
  match v with VNone => None | _ => match vt with Some t => Some t | None => default_type v end end.
(* the type asked for fits the value: numbers as float / percentage / currency, everything else only as its own type *)
Definition type_fits (vt : option str) (v : pyval) : bool :=
  match vt with
  | None => true
  | Some t => match v with
              | VNone => true
              | VInt _ | VFloat _ | VDec _ => str_eqb t t_float || str_eqb t t_percentage || str_eqb t t_currency
              | _ => optstr_eqb (Some t) (default_type v)
              end
  end.
Fixpoint elems_eqb (a b : list elem) : bool :=
  match a, b with [] , [] => true | x :: a', y :: b' => elem_eqb x y && elems_eqb a' b' | _, _ => false end.
Fixpoint others_unchanged (i j : nat) (before after : list elem) : bool :=
  (* position j onward: every cell but the i-th is what it was (missing cells count as empty) *)
  match after with
  | [] => match before with [] => true | _ => false end
  | a :: after' =>
    let b := match before with x :: _ => x | [] => empty_elem end in
    (Nat.eqb i j || elem_eqb a b) && others_unchanged i (S j) (match before with _ :: r => r | [] => [] end) after'
  end.

Inductive c06case :=
| K1 (c : setk * option elem * pyval * result elem * result elem * list read)
| K2 (vt cur fo : option str) (v : pyval) (w : result elem) (rs : list tread)
| K3 (i : nat) (before after : list elem) (v : pyval) (r : result pyval)
(* UserDefined(name, value=v0, value_type=vt0, from_document=doc): [me] = the metadata entry of that name in the document (None: absent),
   [vexp] = the value the field must show (the entry's when there is one, else v0) *)
| K4 (me : option elem) (vt0 : option str) (v0 vexp : pyval) (w : result elem) (rs : list read).

(* additional codes: 9 another logical cell than the addressed one changed (or the width is wrong) *)
Definition chk06all (c : c06case) : nat :=
  match c with
  | K1 c' => chk06 c'
  | K2 vt cur fo v w rs =>
      match w with
      | Err => match set_et_full vt cur fo v with Err => 0 | Ok _ => 3 end
      | Ok e =>
        let dom := in_domain v && type_fits vt v in
        if dom && negb (forallb (fun r : tread => match snd r with
                                                   | Ok (x, t) => same_value v x && optstr_eqb t (expected_type vt v)
                                                   | Err => false end) rs) then 1
        else if dom && negb (match a_value e with Some s => decimal_lexical s | None => true end) then 2
        else match set_et_full vt cur fo v with
             | Err => 3
             | Ok m => if negb (elem_eqb e m) then 3
                       else if forallb (fun r : tread => elem_eqb (fst r) e) rs
                       then (if forallb (fun r : tread => tres_eqb (snd r) (get_et_typed (fst r))) rs then 0 else 4)
                       else 5
             end
      end
  | K4 me vt0 v0 vexp w rs =>
      match w with
      | Err => match set_ud_from_doc me vt0 v0 with Err => 0 | Ok _ => 3 end
      | Ok e =>
        if in_domain vexp && negb (forallb (value_ok vexp) rs) then 1
        else match set_ud_from_doc me vt0 v0 with
             | Err => 3
             | Ok m => if negb (elem_eqb e m) then 3 else chk_reads e rs
             end
      end
  | K3 i before after v r =>
      if negb (Nat.eqb (length after) (Nat.max (S i) (length before)) && others_unchanged i 0 before after) then 9
      else if in_domain v && negb (match r with Ok x => same_value v x | Err => false end) then 1
      else match model_set SetET v with
           | Ok m => if elems_eqb after (grid_set i m before) then 0 else 3
           | Err => 3
           end
  end.
