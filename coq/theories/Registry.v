(* Registry.v -- executable model of odfdo's element-class registry (src/odfdo/element.py):
     _decode_qname / _get_lxml_tag          qname "prefix:name" -> lxml tag "{uri}name"
     _register_element_class(cls, qname)    first registrant wins  (`if tag not in _class_registry`)
     Element.from_tag / from_tag_for_clone  `_class_registry.get(elem.tag, cls)`
   Definitions only; lemmas are in Registryproof.v.  Class names and tags are strings; the data (namespaces, the sequence
   of registration calls, the live registry) come from Gen_Registry.v, regenerated from the sources on every run. *)
From Coq Require Import String List Bool Ascii. Import ListNotations. Open Scope string_scope.

Definition assoc {B} (k : string) (l : list (string * B)) : option B :=
  match find (fun p => String.eqb (fst p) k) l with Some p => Some (snd p) | None => None end.

Definition has_key {B} (k : string) (l : list (string * B)) : bool :=
  existsb (fun p => String.eqb (fst p) k) l.

(* "prefix:name".split(":")  -- the text before the first colon and the text after it (None: no colon).
   (odfdo raises for two colons; tags with two colons do not occur in the table, see C12_tags_wellformed.) *)
Fixpoint split_colon (s : string) : option (string * string) :=
  match s with
  | EmptyString => None
  | String c r => if Ascii.eqb c ":"%char then Some (EmptyString, r)
                  else match split_colon r with Some (p, n) => Some (String c p, n) | None => None end
  end.

(* _get_lxml_tag: None models the KeyError/ValueError of an unknown prefix or a name without prefix *)
Definition lxml_tag (ns : list (string * string)) (qname : string) : option string :=
  match split_colon qname with
  | Some (p, n) => match assoc p ns with Some uri => Some ("{" ++ uri ++ "}" ++ n) | None => None end
  | None => None
  end.

(* _register_element_class on the dict seen as an association list in insertion order *)
Definition register (reg : list (string * string)) (tc : string * string) : list (string * string) :=
  if has_key (fst tc) reg then reg else reg ++ [tc].

Definition build (calls : list (string * string)) : list (string * string) := fold_left register calls [].

(* the calls as made in the sources use qnames; the dict is keyed by lxml tags *)
Definition to_lxml_calls ns (calls : list (string * string)) : option (list (string * string)) :=
  fold_right (fun tc acc => match lxml_tag ns (fst tc), acc with
                            | Some t, Some l => Some ((t, snd tc) :: l) | _, _ => None end) (Some []) calls.

(* Element.from_tag(elem) called on class [cls] (the base class "Element" in every call site of the library) *)
Definition from_tag (reg : list (string * string)) (cls : string) (tag : string) : string :=
  match assoc tag reg with Some k => k | None => cls end.

Definition Element := "Element".

(* A class whose own tag was already taken when it registered is not reachable by parsing.  The pinned sources contain
   exactly one such registration, which the check accepts as the documented first registrant:
   toc.py registers TabStopStyle for style:tab-stop after style.py registered Style for it (TabStopStyle is a subclass of
   Style adding only a constructor).  (class, own tag, winner) *)
Definition documented_first_registrants : list (string * (string * string)) :=
  [("TabStopStyle", ("style:tab-stop", "Style"))].

Definition is_documented (c t w : string) : bool :=
  existsb (fun x => String.eqb (fst x) c && String.eqb (fst (snd x)) t && String.eqb (snd (snd x)) w) documented_first_registrants.

(* same finite map? (order-insensitive: the dict order depends on the hash seed, a set is iterated in style.py) *)
Definition submap (a b : list (string * string)) : bool :=
  forallb (fun p => match assoc (fst p) b with Some c => String.eqb c (snd p) | None => false end) a.
Definition same_map a b := submap a b && submap b a.

Fixpoint nodupb (l : list string) : bool :=
  match l with [] => true | x :: r => negb (existsb (String.eqb x) r) && nodupb r end.
