(* Names.v — table names and named-range names (definitions only).
   Strings are lists of code points.  The models mirror table.py:_table_name_check and the NamedRange.name setter
   and take the character classes they consult as ARGUMENTS: the harness reads those classes from the live source
   (_RE_TABLE_NAME, forbidden_in_named_range(), str.isspace) into Gen_Names.v on every run.
   The specifications lo_* are written independently, with literal code points. *)
From Coq Require Import List NArith Bool.
Import ListNotations.
Local Open Scope N_scope.

Definition str := list N.
Definition mem (c : N) (l : list N) : bool := existsb (N.eqb c) l.

(* str.strip(): drop the white space (the class sp = str.isspace) at both ends *)
Fixpoint lstrip (sp : list N) (s : str) : str :=
  match s with [] => [] | c :: r => if mem c sp then lstrip sp r else s end.
Definition strip (sp : list N) (s : str) : str := rev (lstrip sp (rev (lstrip sp s))).

(* ---- _table_name_check: name.strip(); empty -> error; _RE_TABLE_NAME.search(name) -> error.
        The pattern is  ^F | [A] | L$  : fa = the class A, ff = first-position literals F, fl = last-position literals L ---- *)
Definition table_name_ok (fa ff fl sp : list N) (s : str) : bool :=
  let n := strip sp s in
  match n with
  | [] => false
  | c :: _ => negb (mem c ff) && negb (existsb (fun x => mem x fa) n) && negb (mem (last n 0) fl)
  end.

(* ---- specification, independent: what office applications accept as a sheet name
        (LibreOffice ScDocument::ValidTabName plus "no line break"): not empty, none of  LF \ / * ? : [ ] ,
        an apostrophe neither first nor last.  Judged on the name as stored (after the strip odfdo applies). ---- *)
Definition lo_forbidden : list N := [10; 92; 47; 42; 63; 58; 91; 93].
Fixpoint lo_scan (first : bool) (s : str) : bool :=
  match s with
  | [] => true
  | c :: r =>
    if (c =? 10) || (c =? 92) || (c =? 47) || (c =? 42) || (c =? 63) || (c =? 58) || (c =? 91) || (c =? 93) then false
    else if (c =? 39) && (first || match r with [] => true | _ => false end) then false
    else lo_scan false r
  end.
Definition lo_tab_name_ok (sp : list N) (s : str) : bool :=
  match strip sp s with [] => false | n => lo_scan true n end.

(* ---- NamedRange.name setter (pinned): strip; empty -> error; any character of forbidden_in_named_range() -> error;
        the whole name of the shape letters+ digits+ ("ABC123") -> error ---- *)
Fixpoint a1_scan (letters digits : list N) (step : N) (s : str) : N :=     (* step: 0 "", 1 "A", 2 "A1" *)
  match s with
  | [] => step
  | x :: r =>
    if mem x letters && ((step =? 0) || (step =? 1)) then a1_scan letters digits 1 r
    else if ((step =? 1) || (step =? 2)) && mem x digits then a1_scan letters digits 2 r
    else 0
  end.
Definition nr_name_ok (forb letters digits sp : list N) (s : str) : bool :=
  let n := strip sp s in
  match n with
  | [] => false
  | _ => negb (existsb (fun x => mem x forb) n) && negb (a1_scan letters digits 0 n =? 2)
  end.
(* the repaired setter (fixes/F36, F60): additionally no ASCII character outside letters, digits, '_' at all (control
   characters included), not starting with a digit, not of the shape R<digits>C<digits> *)
Definition is_ascii_name_char (letters digits : list N) (c : N) : bool := mem c letters || mem c digits || (c =? 95).
Fixpoint span_mem (l : list N) (s : str) : str := match s with c :: r => if mem c l then span_mem l r else s | [] => [] end.
Definition all_digits1 (digits : list N) (s : str) : option str :=        (* consume digits+, return the rest *)
  match s with c :: r => if mem c digits then Some (span_mem digits r) else None | [] => None end.
Definition r1c1_shape (digits : list N) (s : str) : bool :=
  match s with
  | c :: r => if (c =? 82) || (c =? 114) then
      match all_digits1 digits r with
      | Some (c2 :: r2) => if (c2 =? 67) || (c2 =? 99) then match all_digits1 digits r2 with Some [] => true | _ => false end else false
      | _ => false end
    else false
  | [] => false
  end.
Definition nr_name_ok_fixed (letters digits sp : list N) (s : str) : bool :=
  let n := strip sp s in
  match n with
  | [] => false
  | c :: _ => forallb (fun x => (128 <=? x) || is_ascii_name_char letters digits x) n
              && negb (mem c digits) && negb (a1_scan letters digits 0 n =? 2) && negb (r1c1_shape digits n)
  end.

(* ---- specification: what office applications accept as a range name: letters, digits and '_' only
        (non-ASCII characters are left to the application's own Unicode letter test), the first character not a
        digit, not of cell-reference shape (A1 style: letters then digits; R1C1 style: R digits C digits) ---- *)
Definition lo_letter (c : N) : bool := ((65 <=? c) && (c <=? 90)) || ((97 <=? c) && (c <=? 122)).
Definition lo_digit (c : N) : bool := (48 <=? c) && (c <=? 57).
Fixpoint lo_span (p : N -> bool) (s : str) : str := match s with c :: r => if p c then lo_span p r else s | [] => [] end.
Definition lo_a1_shape (s : str) : bool :=
  match s with
  | c :: _ => lo_letter c && match lo_span lo_letter s with d :: r => lo_digit d && match lo_span lo_digit r with [] => true | _ => false end | [] => false end
  | [] => false end.
Definition lo_r1c1_shape (s : str) : bool :=
  match s with
  | c :: d :: r => ((c =? 82) || (c =? 114)) && lo_digit d &&
      match lo_span lo_digit r with
      | c2 :: d2 :: r2 => ((c2 =? 67) || (c2 =? 99)) && lo_digit d2 && match lo_span lo_digit r2 with [] => true | _ => false end
      | _ => false end
  | _ => false end.
Definition lo_range_name_ok (sp : list N) (s : str) : bool :=
  match strip sp s with
  | [] => false
  | c :: r => forallb (fun x => (128 <=? x) || lo_letter x || lo_digit x || (x =? 95)) (c :: r)
              && negb (lo_digit c) && negb (lo_a1_shape (c :: r)) && negb (lo_r1c1_shape (c :: r))
  end.

(* two finite character classes denote the same set (a decidable, finite obligation on the generated lists) *)
Definition same_set (a b : list N) : bool := forallb (fun c => mem c b) a && forallb (fun c => mem c a) b.
