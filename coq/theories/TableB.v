(* TableB.v — executable model of src/odfdo/table.py + row.py + element_cached.py, LAYER B: the XML runs of layer A
   (Table.v) together with everything the objects keep BESIDE the XML:

     tmapB, cmapB    Table._tmap / Table._cmap           (position maps, read by every addressed access)
     tcache          Table._indexes['_tmap']             odf index  |->  cached Row wrapper
        w_pos          the XML row the wrapper's lxml element currently is (-1: detached)
        w_rmap         the wrapper's own _rmap
        w_cells        the wrapper's _indexes['_rmap']   odf index |-> position of the cached Cell's element in that row
     ccache          Table._indexes['_cmap']             odf index  |->  position of the cached Column's element

   Every operation below says which map / cache it CONSULTS (a cached wrapper first, else a fresh wrapper whose
   map is computed from the XML now), which cache it RESETS, and which map it rewrites INCREMENTALLY
   (insert_map_once / set_map / insert_map / delete_map of Vault.v) or RECOMPUTES (cmap).  Positions are read from
   the stored maps, never from the XML — that is what makes staleness expressible.  The code modelled is the
   repaired one (fixes F01..F04, F07, F31); [reset] = false switches the F07 reset off (for the refuted statement).
   Definitions only. *)
From Coq Require Import List ZArith Bool Arith.
Import ListNotations.
Require Import Vault Row Table.
Local Open Scope Z_scope.

Record rwrap := { w_pos : Z; w_rmap : list Z; w_cells : list (nat * Z) }.
Record bstate := { ax : tstate; tmapB : list Z; cmapB : list Z; tcache : list (nat * rwrap); ccache : list (nat * Z) }.

Fixpoint lookupn {V} (k : nat) (l : list (nat * V)) : option V :=
  match l with [] => None | (k', v) :: r => if (k =? k')%nat then Some v else lookupn k r end.
(* dict[k] = v *)
Definition upsertn {V} (k : nat) (v : V) (l : list (nat * V)) : list (nat * V) :=
  (k, v) :: filter (fun p : nat * V => negb (fst p =? k)%nat) l.

(* Table.height / Table.width / Row.width: map[-1] + 1, 0 for an empty map *)
Definition hmap (m : list Z) : Z := last m (-1) + 1.
Definition bheight (b : bstate) : Z := hmap (tmapB b).
Definition bwidth (b : bstate) : Z := hmap (cmapB b).
Definition bny (y : Z) (b : bstate) := norm_coord y (bheight b).
Definition bnx (x : Z) (b : bstate) := norm_coord x (bwidth b).

Definition with_ax (b : bstate) (t : tstate) : bstate :=
  {| ax := t; tmapB := tmapB b; cmapB := cmapB b; tcache := tcache b; ccache := ccache b |}.
Definition with_tcache (b : bstate) (c : list (nat * rwrap)) : bstate :=
  {| ax := ax b; tmapB := tmapB b; cmapB := cmapB b; tcache := c; ccache := ccache b |}.
Definition with_ccache (b : bstate) (c : list (nat * Z)) : bstate :=
  {| ax := ax b; tmapB := tmapB b; cmapB := cmapB b; tcache := tcache b; ccache := c |}.

(* Element.from_tag(table.serialize()) / Document.save + reload: every map recomputed, no cached wrapper *)
Definition reparse (b : bstate) : bstate :=
  {| ax := ax b; tmapB := cmap (rows (ax b)); cmapB := cmap (cols (ax b)); tcache := []; ccache := [] |}.
Definition fresh (t : tstate) : bstate :=
  {| ax := t; tmapB := cmap (rows t); cmapB := cmap (cols t); tcache := []; ccache := [] |}.

(* ------------------------------------------------------------------------------------------------------------
   consulting the caches
   ------------------------------------------------------------------------------------------------------------ *)
(* a fresh Row wrapper of XML row i: Row.__init__ computes _rmap from the XML now *)
Definition fresh_wrap (i : nat) (t : tstate) : option rwrap :=
  match nth_error (rows t) i with
  | Some (_, (_, cs)) => Some {| w_pos := Z.of_nat i; w_rmap := cmap cs; w_cells := [] |}
  | None => None end.
(* Table._get_row2_base(y): _tmap -> odf index -> the cached wrapper, else a fresh one, which is stored *)
Definition get_wrap (y : Z) (b : bstate) : option (nat * rwrap * bstate) :=
  match find_idx (tmapB b) y with
  | None => None
  | Some i =>
    match lookupn i (tcache b) with
    | Some w => Some (i, w, b)
    | None => match fresh_wrap i (ax b) with
              | Some w => Some (i, w, with_tcache b (upsertn i w (tcache b)))
              | None => None end
    end
  end.
(* the XML row a wrapper's element is *)
Definition wrap_row (w : rwrap) (t : tstate) : option (nat * rowx) :=
  if w_pos w <? 0 then None else nth_error (rows t) (Z.to_nat (w_pos w)).
(* Row._get_cell2_base(x) on a wrapper: _rmap -> odf index -> the cached cell, else fetched and stored.
   Returns the position of the cell's element, the cell run (repeat, cell) and the wrapper with its cell cache completed;
   None when the map or the cache points to a cell that does not exist (the code then fails on None) *)
Definition wrap_cell_pos (x : Z) (w : rwrap) (t : tstate) : option (option (nat * (nat * cell)) * rwrap) :=
  match find_idx (w_rmap w) x with
  | None => Some (None, w)
  | Some ci =>
    match wrap_row w t with
    | None => None
    | Some (_, (_, cs)) =>
      match lookupn ci (w_cells w) with
      | Some p => if p <? 0 then None else
                  match nth_error cs (Z.to_nat p) with Some c => Some (Some (Z.to_nat p, c), w) | None => None end
      | None => match nth_error cs ci with
                | Some c => Some (Some (ci, c), {| w_pos := w_pos w; w_rmap := w_rmap w; w_cells := upsertn ci (Z.of_nat ci) (w_cells w) |})
                | None => None end
      end
    end
  end.
Definition wrap_cell (x : Z) (w : rwrap) (t : tstate) : option (option (nat * cell) * rwrap) :=
  match wrap_cell_pos x w t with
  | Some (oc, w') => Some (option_map snd oc, w')
  | None => None end.
(* Row.traverse() on a wrapper (no bounds): one entry per map entry, every cell fetched through / stored in the cell cache *)
Fixpoint wrap_traverse (idx : nat) (before : Z) (m : list Z) (cs : rruns) (cells : list (nat * Z)) : option (list cell * list (nat * Z)) :=
  match m with
  | [] => Some ([], cells)
  | juska :: m' =>
    let p := match lookupn idx cells with Some p => p | None => Z.of_nat idx end in
    if p <? 0 then None else
    match nth_error cs (Z.to_nat p) with
    | None => None
    | Some (_, c) =>
      match wrap_traverse (S idx) juska m' cs (upsertn idx p cells) with
      | Some (l, cells') => Some (repeat c (Z.to_nat (juska - before)) ++ l, cells')
      | None => None end
    end
  end.

(* ------------------------------------------------------------------------------------------------------------
   Row-level mutators on a row object that carries its own map m (a wrapper, or a clone with a copied map).
   Result: new cell runs, new map, and whether _indexes['_rmap'] was reset.
   ------------------------------------------------------------------------------------------------------------ *)
Definition app_map (m : list Z) (rep : nat) : list Z := insert_map_once m (length m) (Z.of_nat rep).
(* Row.set_cell(x, cell) *)
Definition wrow_set_cell (x : Z) (c : nat * cell) (cs : rruns) (m : list Z) : option (rruns * list Z * bool) :=
  let diff := x - hmap m in
  if diff =? 0 then Some (cs ++ [c], app_map m (fst c), false)
  else if 0 <? diff then Some (cs ++ [(Z.to_nat diff, empty_cell); c], app_map (app_map m (Z.to_nat diff)) (fst c), false)
  else match set_item x c cs m, set_map x (fst c) m with
       | Some cs', Some m' => Some (cs', m', true) | _, _ => None end.
(* Row.insert_cell(x, cell) *)
Definition wrow_insert_cell (x : Z) (c : nat * cell) (cs : rruns) (m : list Z) : option (rruns * list Z * bool) :=
  let diff := x - hmap m in
  if diff <? 0 then match insert_item x c cs m, insert_map x (fst c) m with
                    | Some cs', Some m' => Some (cs', m', true) | _, _ => None end
  else if diff =? 0 then Some (cs ++ [c], app_map m (fst c), false)
  else Some (cs ++ [(Z.to_nat diff, empty_cell); c], app_map (app_map m (Z.to_nat diff)) (fst c), false).
(* Row.delete_cell(x) *)
Definition wrow_delete_cell (x : Z) (cs : rruns) (m : list Z) : option (rruns * list Z * bool) :=
  if hmap m <=? x then Some (cs, m, false)
  else match delete_item x cs m, delete_map x m with
       | Some cs', Some m' => Some (cs', m', true) | _, _ => None end.

(* ------------------------------------------------------------------------------------------------------------
   Table-level primitives
   ------------------------------------------------------------------------------------------------------------ *)
(* Table.append_column(column, _repeated): the map is extended in place (insert_map_once at the end), no cache reset *)
Definition b_append_column (rep : nat) (st : Z) (b : bstate) : bstate :=
  {| ax := t_append_column rep st (ax b); tmapB := tmapB b; cmapB := app_map (cmapB b) (Nat.max 1 rep);
     tcache := tcache b; ccache := ccache b |}.
(* Table._update_width(row) with row.width = w *)
Definition b_update_width (w : Z) (b : bstate) : bstate :=
  let diff := w - bwidth b in if 0 <? diff then b_append_column (Z.to_nat diff) 0 b else b.
(* Table.append_row(row, _repeated=rep): _tmap extended in place; the first row of a table without columns declares
   them and BOTH maps are recomputed (_compute_table_cache); then _update_width *)
Definition b_append_row (rep : nat) (r : rowx) (b : bstate) : bstate :=
  let t1 := {| cols := cols (ax b); rows := rows (ax b) ++ [(rep, r)] |} in
  let b1 := {| ax := t1; tmapB := app_map (tmapB b) rep; cmapB := cmapB b; tcache := tcache b; ccache := ccache b |} in
  let b2 := match cols t1 with
            | [] => let t2 := {| cols := [(Nat.max 1 (Z.to_nat (roww r)), 0)]; rows := rows t1 |} in
                    {| ax := t2; tmapB := cmap (rows t2); cmapB := cmap (cols t2); tcache := tcache b1; ccache := ccache b1 |}
            | _ => b1 end in
  b_update_width (roww r) b2.
(* Table.set_row(y, row), y >= 0: inside the table set_item_in_vault (positions from _tmap, _indexes['_tmap'] reset,
   map rewritten by the repaired slice expression), at / beyond the edge append_row *)
Definition b_set_row (y : Z) (rep : nat) (r : rowx) (b : bstate) : option bstate :=
  let diff := y - bheight b in
  if diff =? 0 then Some (b_update_width (roww r) (b_append_row rep r b))
  else if 0 <? diff then Some (b_update_width (roww r) (b_append_row rep r (b_append_row (Z.to_nat diff) empty_row b)))
  else match set_item y (rep, r) (rows (ax b)) (tmapB b), set_map y rep (tmapB b) with
       | Some rs, Some m =>
           Some (b_update_width (roww r)
                   {| ax := {| cols := cols (ax b); rows := rs |}; tmapB := m; cmapB := cmapB b; tcache := []; ccache := ccache b |})
       | _, _ => None end.
(* Table.insert_row(y, row) *)
Definition b_insert_row (y : Z) (rep : nat) (r : rowx) (b : bstate) : option bstate :=
  let diff := y - bheight b in
  if diff <? 0 then
    match insert_item y (rep, r) (rows (ax b)) (tmapB b), insert_map y rep (tmapB b) with
    | Some rs, Some m =>
        Some (b_update_width (roww r)
                {| ax := {| cols := cols (ax b); rows := rs |}; tmapB := m; cmapB := cmapB b; tcache := []; ccache := ccache b |})
    | _, _ => None end
  else if diff =? 0 then Some (b_update_width (roww r) (b_append_row rep r b))
  else Some (b_update_width (roww r) (b_append_row rep r (b_append_row (Z.to_nat diff) empty_row b))).
(* Table.delete_row(y) *)
Definition b_delete_row (y : Z) (b : bstate) : option bstate :=
  if bheight b <=? y then Some b
  else match delete_item y (rows (ax b)) (tmapB b), delete_map y (tmapB b) with
       | Some rs, Some m =>
           Some {| ax := {| cols := cols (ax b); rows := rs |}; tmapB := m; cmapB := cmapB b; tcache := []; ccache := ccache b |}
       | _, _ => None end.

(* replace the run at index i *)
Definition set_nth {A} (i : nat) (x : A) (l : list A) : list A := firstn i l ++ x :: skipn (S i) l.

(* Table.set_cell((x,y), cell): the CACHED wrapper of the row is consulted; an unrepeated row is edited IN PLACE
   through that wrapper (its _rmap is rewritten incrementally, its cell cache reset, the wrapper stays cached);
   a repeated row is cloned (the clone copies the wrapper's _rmap), edited and pushed back with set_row *)
Definition b_set_cell (x y : Z) (c : nat * cell) (b : bstate) : option bstate :=
  if bheight b <=? y then
    match wrow_set_cell x c [] [] with
    | Some (cs, _, _) => b_set_row y 1 (0, cs) b | None => None end
  else match get_wrap y b with
    | None => None
    | Some (i, w, b1) =>
      match wrap_row w (ax b1) with
      | None => None
      | Some (rep, (st, cs)) =>
        match wrow_set_cell x c cs (w_rmap w) with
        | None => None
        | Some (cs', m', reset) =>
          if (1 <? rep)%nat then b_set_row y 1 (st, cs') b1
          else
            let w' := {| w_pos := w_pos w; w_rmap := m'; w_cells := if reset then [] else w_cells w |} in
            Some (b_update_width (hmap m')
                    {| ax := {| cols := cols (ax b1); rows := set_nth (Z.to_nat (w_pos w)) (rep, (st, cs')) (rows (ax b1)) |};
                       tmapB := tmapB b1; cmapB := cmapB b1; tcache := upsertn i w' (tcache b1); ccache := ccache b1 |})
        end
      end
    end.

(* Table._get_row2(y, clone=True): a new Row beyond the table, else a clone of the cached wrapper (XML copied, _rmap copied) *)
Definition b_base_row (y : Z) (b : bstate) : option (rowx * list Z * bstate) :=
  if bheight b <=? y then Some (empty_row, [], b)
  else match get_wrap y b with
       | None => None
       | Some (_, w, b1) => match wrap_row w (ax b1) with
                            | Some (_, r) => Some (r, w_rmap w, b1) | None => None end
       end.
(* Table.insert_cell((x,y), cell) *)
Definition b_insert_cell (x y : Z) (c : nat * cell) (b : bstate) : option bstate :=
  match b_base_row y b with
  | None => None
  | Some ((st, cs), m, b1) =>
    match wrow_insert_cell x c cs m with
    | Some (cs', _, _) => b_set_row y 1 (st, cs') b1
    | None => None end
  end.
(* Table.append_cell(y, cell) *)
Definition b_append_cell (y : Z) (c : nat * cell) (b : bstate) : option bstate :=
  match b_base_row y b with
  | None => None
  | Some ((st, cs), _, b1) => b_set_row y 1 (st, cs ++ [c]) b1
  end.
(* Table.delete_cell((x,y)) *)
Definition b_delete_cell (x y : Z) (b : bstate) : option bstate :=
  if bheight b <=? y then Some b
  else match b_base_row y b with
       | None => None
       | Some ((st, cs), m, b1) =>
         match wrow_delete_cell x cs m with
         | Some (cs', _, _) => b_set_row y 1 (st, cs') b1
         | None => None end
       end.

(* Table.insert_column(x, column): the column vault through _cmap (incremental, _indexes['_cmap'] reset), then every row
   through a FRESH wrapper (Table._get_rows: maps computed from the XML now); the cached row wrappers are dropped
   (the repair of F07) *)
Definition b_insert_column (reset : bool) (x : Z) (rep : nat) (st : Z) (b : bstate) : option bstate :=
  let diff := x - bwidth b in
  let b1 :=
    if diff <? 0 then
      match insert_item x (rep, st) (cols (ax b)) (cmapB b), insert_map x rep (cmapB b) with
      | Some cs, Some m => Some {| ax := {| cols := cs; rows := rows (ax b) |}; tmapB := tmapB b; cmapB := m; tcache := tcache b; ccache := [] |}
      | _, _ => None end
    else if diff =? 0 then Some (b_append_column rep st b)
    else Some (b_append_column rep st (b_append_column (Z.to_nat diff) 0 b)) in
  match b1 with
  | None => None
  | Some b1 => Some {| ax := {| cols := cols (ax b1); rows := map_rows (ins_row x rep) (rows (ax b1)) |};
                       tmapB := tmapB b1; cmapB := cmapB b1; tcache := if reset then [] else tcache b1; ccache := ccache b1 |}
  end.
(* Table.delete_column(x) *)
Definition b_delete_column (reset : bool) (x : Z) (b : bstate) : option bstate :=
  if bwidth b <=? x then Some b
  else match delete_item x (cols (ax b)) (cmapB b), delete_map x (cmapB b) with
       | Some cs, Some m =>
           Some {| ax := {| cols := cs; rows := map_rows (del_row x) (rows (ax b)) |}; tmapB := tmapB b; cmapB := m;
                   tcache := if reset then [] else tcache b; ccache := [] |}
       | _, _ => None end.
(* Table.set_column(x, column) *)
Definition b_set_column (x : Z) (rep : nat) (st : Z) (b : bstate) : option bstate :=
  let diff := x - bwidth b in
  if diff =? 0 then Some (b_append_column rep st b)
  else if 0 <? diff then Some (b_append_column rep st (b_append_column (Z.to_nat diff) 0 b))
  else match set_item x (rep, st) (cols (ax b)) (cmapB b), set_map x rep (cmapB b) with
       | Some cs, Some m => Some {| ax := {| cols := cs; rows := rows (ax b) |}; tmapB := tmapB b; cmapB := m; tcache := tcache b; ccache := [] |}
       | _, _ => None end.

(* Table.set_values / set_cells, one line: get_row(y, clone=True) (consults and fills the wrapper cache), Row-level
   calls on the clone, set_row(y, row, clone=False), _update_width *)
Definition b_edit_row (y : Z) (os : list rop) (b : bstate) : option bstate :=
  match b_base_row y b with
  | None => None
  | Some (r, _, b1) => match rowx_run r os with
                       | Some r' => b_set_row y 1 r' b1
                       | None => None end
  end.
Fixpoint b_set_lines (clone : bool) (x y : Z) (lines : list (list (nat * cell))) (b : bstate) : option bstate :=
  match lines with
  | [] => Some b
  | l :: ls =>
    match l with
    | [] => b_set_lines clone x (y + 1) ls b
    | _ => match b_edit_row y [RSetCells clone x l] b with
           | Some b' => b_set_lines clone x (y + 1) ls b'
           | None => None end
    end
  end.
(* Table.extend_rows(rows): rows appended through lxml, both maps RECOMPUTED, columns declared / completed; the cached
   wrappers are kept (no odf index moves) *)
Definition b_extend_rows (rs : list (nat * rowx)) (b : bstate) : bstate :=
  let rows' := rows (ax b) ++ rs in
  let w := max_roww rows' in
  match cols (ax b), rs with
  | [], _ :: _ => let t' := {| cols := [(Nat.max 1 (Z.to_nat w), 0)]; rows := rows' |} in
                  {| ax := t'; tmapB := cmap rows'; cmapB := cmap (cols t'); tcache := tcache b; ccache := ccache b |}
  | _, _ => b_update_width w {| ax := {| cols := cols (ax b); rows := rows' |}; tmapB := cmap rows'; cmapB := cmap (cols (ax b));
                                tcache := tcache b; ccache := ccache b |}
  end.
(* CachedElement.clear *)
Definition b_empty : bstate := {| ax := empty_table; tmapB := []; cmapB := []; tcache := []; ccache := [] |}.

(* the `repeated` setters reached through LIVE handles (get_row / get_cell with clone=False): the XML run changes its
   repeat; with the repair of F8 ([fx] = true) the live object reports to the wrapper that handed it out: the table
   recomputes both maps, the row wrapper recomputes its _rmap and the table's width is synchronised.  Without it
   ([fx] = false, the pinned code) a throw-away wrapper of the XML parent is updated and the caller's maps stay. *)
Inductive lop :=
| LRowRep (y : Z) (rep : nat) | LCellRep (x y : Z) (rep : nat)     (* rep 0 = None *)
| LRowOp (y : Z) (o : rop).    (* get_row(y, clone=False).set_cell / insert_cell / delete_cell / append_cell: the Row API on the
                                  cached wrapper: the XML row (every repetition of its run) is edited IN PLACE, the wrapper's own _rmap is
                                  rewritten, its cell cache reset when a vault function ran; the table's maps and width are not touched *)
(* the Row-level call on a row object that carries its own map (only the four single-cell calls) *)
Definition wrow_op (o : rop) (cs : rruns) (m : list Z) : option (rruns * list Z * bool) :=
  match o with
  | RSet x c => wrow_set_cell (norm_coord x (hmap m)) c cs m
  | RIns x c => wrow_insert_cell (norm_coord x (hmap m)) c cs m
  | RDel x => wrow_delete_cell (norm_coord x (hmap m)) cs m
  | RApp c => Some (cs ++ [c], app_map m (fst c), false)
  | _ => None end.
Definition b_live (fx : bool) (b : bstate) (l : lop) : option bstate :=
  match l with
  | LRowRep y rep =>
      let y := bny y b in
      if bheight b <=? y then Some b           (* get_row creates a detached Row *)
      else match get_wrap y b with
           | None => None
           | Some (_, w, b1) =>
             match wrap_row w (ax b1) with
             | None => None
             | Some (_, r) =>
               let rows' := set_nth (Z.to_nat (w_pos w)) (Nat.max 1 rep, r) (rows (ax b1)) in
               Some {| ax := {| cols := cols (ax b1); rows := rows' |};
                       tmapB := if fx then cmap rows' else tmapB b1;
                       cmapB := if fx then cmap (cols (ax b1)) else cmapB b1;
                       tcache := tcache b1; ccache := ccache b1 |}
             end
           end
  | LCellRep x y rep =>
      let x := bnx x b in let y := bny y b in
      if bheight b <=? y then Some b
      else match get_wrap y b with
           | None => None
           | Some (i, w, b1) =>
             if hmap (w_rmap w) <=? x then Some b1          (* Row.get_cell returns a detached Cell *)
             else match wrap_cell_pos x w (ax b1), wrap_row w (ax b1) with
                  | Some (Some (p, (_, c)), w'), Some (rrep, (st, cs)) =>
                    let cs' := set_nth p (Nat.max 1 rep, c) cs in
                    let rows' := set_nth (Z.to_nat (w_pos w)) (rrep, (st, cs')) (rows (ax b1)) in
                    let w'' := {| w_pos := w_pos w'; w_rmap := if fx then cmap cs' else w_rmap w'; w_cells := w_cells w' |} in
                    let b2 := {| ax := {| cols := cols (ax b1); rows := rows' |}; tmapB := tmapB b1; cmapB := cmapB b1;
                                 tcache := upsertn i w'' (tcache b1); ccache := ccache b1 |} in
                    Some (if fx then b_update_width (hmap (w_rmap w'')) b2 else b2)
                  | _, _ => None end
           end
  | LRowOp y o =>
      let y := bny y b in
      if bheight b <=? y then Some b           (* get_row creates a detached Row *)
      else match get_wrap y b with
           | None => None
           | Some (i, w, b1) =>
             match wrap_row w (ax b1) with
             | None => None
             | Some (rep, (st, cs)) =>
               match wrow_op o cs (w_rmap w) with
               | None => None
               | Some (cs', m', reset) =>
                 let w' := {| w_pos := w_pos w; w_rmap := m'; w_cells := if reset then [] else w_cells w |} in
                 Some {| ax := {| cols := cols (ax b1); rows := set_nth (Z.to_nat (w_pos w)) (rep, (st, cs')) (rows (ax b1)) |};
                         tmapB := tmapB b1; cmapB := cmapB b1; tcache := upsertn i w' (tcache b1); ccache := ccache b1 |}
               end
             end
           end
  end.
(* the same on the XML alone (every map recomputed from the XML): what a fresh parse does *)
Definition cell_pos_at (x : Z) (cs : rruns) : option (nat * (nat * cell)) :=
  match find_idx (cmap cs) x with
  | Some ci => match nth_error cs ci with Some c => Some (ci, c) | None => None end
  | None => None end.
Definition a_live (t : tstate) (l : lop) : option tstate :=
  match l with
  | LRowRep y rep =>
      let y := ny y t in
      if theight t <=? y then Some t
      else match find_idx (cmap (rows t)) y with
           | None => None
           | Some i => match nth_error (rows t) i with
                       | Some (_, r) => Some {| cols := cols t; rows := set_nth i (Nat.max 1 rep, r) (rows t) |}
                       | None => None end
           end
  | LCellRep x y rep =>
      let x := nx x t in let y := ny y t in
      if theight t <=? y then Some t
      else match find_idx (cmap (rows t)) y with
           | None => None
           | Some i => match nth_error (rows t) i with
                       | Some (rrep, (st, cs)) =>
                           if rwidth cs <=? x then Some t
                           else match cell_pos_at x cs with
                                | Some (p, (_, c)) =>
                                    let cs' := set_nth p (Nat.max 1 rep, c) cs in
                                    Some (update_width (rwidth cs') {| cols := cols t; rows := set_nth i (rrep, (st, cs')) (rows t) |})
                                | None => None end
                       | None => None end
           end
  | LRowOp y o =>
      let y := ny y t in
      if theight t <=? y then Some t
      else match find_idx (cmap (rows t)) y with
           | None => None
           | Some i => match nth_error (rows t) i with
                       | Some (rep, (st, cs)) =>
                           match o with
                           | RSet _ _ | RIns _ _ | RDel _ | RApp _ =>
                               match rstep cs o with
                               | Some cs' => Some {| cols := cols t; rows := set_nth i (rep, (st, cs')) (rows t) |}
                               | None => None end
                           | _ => None end
                       | None => None end
           end
  end.

(* the mutators of the C01 alphabet at layer B; coordinates are translated with the sizes the MAPS report *)
Definition b_mut (reset : bool) (b : bstate) (o : top) : option bstate :=
  match o with
  | OAppendRow rep r => Some (b_append_row rep r b)
  | OSetRow y rep r => b_set_row (bny y b) rep r b
  | OInsertRow y rep r => b_insert_row (bny y b) rep r b
  | ODeleteRow y => b_delete_row (bny y b) b
  | OSetCell x y c => b_set_cell (bnx x b) (bny y b) c b
  | OInsertCell x y c => b_insert_cell (bnx x b) (bny y b) c b
  | OAppendCell y c => b_append_cell (bny y b) c b
  | ODeleteCell x y => b_delete_cell (bnx x b) (bny y b) b
  | OInsertColumn x rep st => b_insert_column reset (bnx x b) rep st b
  | ODeleteColumn x => b_delete_column reset (bnx x b) b
  | OAppendColumn rep st => Some (b_append_column rep st b)
  | OSetColumn x rep st => b_set_column (bnx x b) rep st b
  | OSetLines cl x y ls => b_set_lines cl (bnx x b) (bny y b) ls b
  | OExtendRows rs => Some (b_extend_rows rs b)
  | OClear => Some b_empty
  end.

(* ------------------------------------------------------------------------------------------------------------
   reads: every one says which cache it consults and fills
   ------------------------------------------------------------------------------------------------------------ *)
Inductive bread :=
| RQ (q : tread)                          (* the reads of C01: size, get_value, get_row_values, get_values, get_column_values,
                                             get_row().width, get_values(area), get_cell *)
| RGetRow (y : Z) (clone : bool)          (* Table.get_row(y, clone): the row run as stored (repeat kept) *)
| RGetCellK (x y : Z) (clone : bool)      (* Table.get_cell((x,y), clone): the cell run as stored (repeat kept) *)
| RTraverse                               (* list(Table.traverse()) = Table.rows = Table.get_rows(): every logical row *)
| RGetColumn (x : Z)                      (* Table.get_column(x): the column run as stored *)
| RColumns.                               (* Table.columns = get_columns() = list(traverse_columns()): every logical column *)
Inductive bans :=
| BAns (a : tans) | BARow (r : nat * rowx) | BACell (c : nat * cell) | BARows (l : list rowx)
| BACol (c : nat * Z) | BACols (l : list Z) | BFail.

Definition pad0 (w : Z) (l : list Z) : list Z := pad_to w l.

(* Table.traverse_columns(): over _cmap, every column fetched through / stored in _indexes['_cmap'] *)
Fixpoint cols_traverse (idx : nat) (before : Z) (m : list Z) (cs : list (nat * Z)) (cache : list (nat * Z)) : option (list Z * list (nat * Z)) :=
  match m with
  | [] => Some ([], cache)
  | juska :: m' =>
    let p := match lookupn idx cache with Some p => p | None => Z.of_nat idx end in
    if p <? 0 then None else
    match nth_error cs (Z.to_nat p) with
    | None => None
    | Some (_, st) =>
      match cols_traverse (S idx) juska m' cs (upsertn idx p cache) with
      | Some (l, cache') => Some (repeat st (Z.to_nat (juska - before)) ++ l, cache')
      | None => None end
    end
  end.

Definition b_read (b : bstate) (q : bread) : bstate * bans :=
  match q with
  | RQ QSize => (b, BAns (ASize (bwidth b) (bheight b)))
  | RQ (QGetValue x y) =>                    (* _get_row2_base(y) then Row._get_cell2_base(x): both caches consulted and filled *)
      let x := bnx x b in let y := bny y b in
      if bheight b <=? y then (b, BAns (AValue 0))
      else match get_wrap y b with
           | None => (b, BFail)
           | Some (i, w, b1) =>
             match wrap_cell x w (ax b1) with
             | None => (b1, BFail)
             | Some (oc, w') => (with_tcache b1 (upsertn i w' (tcache b1)),
                                 BAns (AValue (match oc with Some (_, c) => fst c | None => 0 end)))
             end
           end
  | RQ (QGetCell x y) =>                     (* get_cell(coord): Row.get_cell(x, clone=True) on the cached wrapper *)
      let x := bnx x b in let y := bny y b in
      if bheight b <=? y then (b, BAns (ACell empty_cell))
      else match get_wrap y b with
           | None => (b, BFail)
           | Some (i, w, b1) =>
             if hmap (w_rmap w) <=? x then (b1, BAns (ACell empty_cell))
             else match wrap_cell x w (ax b1) with
                  | Some (Some (_, c), w') => (with_tcache b1 (upsertn i w' (tcache b1)), BAns (ACell c))
                  | _ => (b1, BFail) end
           end
  | RQ (QRowValues y) =>                     (* get_row(y, clone=False).get_values(): Row.traverse() on the cached wrapper *)
      let y := bny y b in
      if bheight b <=? y then (b, BAns (AList (pad0 (bwidth b) [])))
      else match get_wrap y b with
           | None => (b, BFail)
           | Some (i, w, b1) =>
             match wrap_row w (ax b1) with
             | None => (b1, BFail)
             | Some (_, (_, cs)) =>
               match wrap_traverse 0 (-1) (w_rmap w) cs (w_cells w) with
               | Some (l, cells') =>
                   (with_tcache b1 (upsertn i {| w_pos := w_pos w; w_rmap := w_rmap w; w_cells := cells' |} (tcache b1)),
                    BAns (AList (pad0 (bwidth b1) (map fst l))))
               | None => (b1, BFail) end
             end
           end
  | RQ QValues =>                            (* traverse(): fresh wrappers, no cache consulted *)
      (b, BAns (AMatrix (map (fun r : rowx => pad0 (bwidth b) (row_values (snd r))) (expand (rows (ax b))))))
  | RQ (QColumnValues x) =>                  (* get_column_cells: traverse() + Row.get_cell(x) on fresh wrappers *)
      let x := bnx x b in
      (b, BAns (AList (map (fun r : rowx => match cell_at x (snd r) with Some c => fst c | None => 0 end) (expand (rows (ax b))))))
  | RQ (QRowWidth y) =>                      (* get_row(y).width: the clone copies the wrapper's _rmap *)
      let y := bny y b in
      if bheight b <=? y then (b, BAns (ASize 0 0))
      else match get_wrap y b with
           | None => (b, BFail)
           | Some (_, w, b1) => (b1, BAns (ASize (hmap (w_rmap w)) 0)) end
  | RQ (QArea x y z t) =>                    (* get_values(coord): traverse(start, end) on fresh wrappers *)
      let x := bnx x b in let z := bnx z b in let y := bny y b in let t := bny t b in
      (b, BAns (AMatrix (map (fun r : rowx => pad0 (Z.min (z + 1) (bwidth b) - x) (map fst (traverse_range x z (snd r))))
                             (firstn (Z.to_nat (t + 1 - y)) (skipn (Z.to_nat y) (expand (rows (ax b))))))))
  | RGetRow y _ =>
      let y := bny y b in
      if bheight b <=? y then (b, BARow (1%nat, empty_row))
      else match get_wrap y b with
           | None => (b, BFail)
           | Some (_, w, b1) => match wrap_row w (ax b1) with Some r => (b1, BARow r) | None => (b1, BFail) end
           end
  | RGetCellK x y _ =>
      let x := bnx x b in let y := bny y b in
      if bheight b <=? y then (b, BACell (1%nat, empty_cell))
      else match get_wrap y b with
           | None => (b, BFail)
           | Some (i, w, b1) =>
             if hmap (w_rmap w) <=? x then (b1, BACell (1%nat, empty_cell))
             else match wrap_cell x w (ax b1) with
                  | Some (Some c, w') => (with_tcache b1 (upsertn i w' (tcache b1)), BACell c)
                  | _ => (b1, BFail) end
           end
  | RTraverse => (b, BARows (expand (rows (ax b))))
  | RGetColumn x =>                          (* _get_column2: _cmap -> odf index -> fetched anew every time, no cache *)
      let x := bnx x b in
      if bwidth b <=? x then (b, BACol (1%nat, 0))
      else match find_idx (cmapB b) x with
           | None => (b, BFail)
           | Some i => match nth_error (cols (ax b)) i with Some c => (b, BACol c) | None => (b, BFail) end
           end
  | RColumns =>
      match cols_traverse 0 (-1) (cmapB b) (cols (ax b)) (ccache b) with
      | Some (l, cache') => (with_ccache b cache', BACols l)
      | None => (b, BFail) end
  end.

(* ------------------------------------------------------------------------------------------------------------
   the step function of C02: mutators and cache-filling reads in one alphabet
   ------------------------------------------------------------------------------------------------------------ *)
Inductive bop := BMut (o : top) | BRead (q : bread) | BLive (l : lop).
Definition tB_step_gen (reset fx : bool) (b : bstate) (o : bop) : bstate * bans :=
  match o with
  | BMut m => match b_mut reset b m with Some b' => (b', BAns (ASize 0 0)) | None => (b, BFail) end
  | BRead q => b_read b q
  | BLive l => match b_live fx b l with Some b' => (b', BAns (ASize 0 0)) | None => (b, BFail) end
  end.
Definition tB_step := tB_step_gen true true.
Definition tB_run (b : bstate) (os : list bop) : bstate := fold_left (fun s o => fst (tB_step s o)) os b.

(* ------------------------------------------------------------------------------------------------------------
   coherence, as a boolean (evaluated by vm_compute on the abstracted implementation state after every step)
   ------------------------------------------------------------------------------------------------------------ *)
Definition cellkeys_ok (n : nat) (l : list (nat * Z)) : bool :=
  forallb (fun kp : nat * Z => (snd kp =? Z.of_nat (fst kp)) && (fst kp <? n)%nat) l.
Definition wrap_okb (t : tstate) (kw : nat * rwrap) : bool :=
  match nth_error (rows t) (fst kw) with
  | Some (_, (_, cs)) =>
      (w_pos (snd kw) =? Z.of_nat (fst kw)) && zl_eqb (w_rmap (snd kw)) (cmap cs) && cellkeys_ok (length cs) (w_cells (snd kw))
  | None => false end.
Definition tmap_okb (b : bstate) := zl_eqb (tmapB b) (cmap (rows (ax b))).
Definition cmap_okb (b : bstate) := zl_eqb (cmapB b) (cmap (cols (ax b))).
Definition tcache_okb (b : bstate) := forallb (wrap_okb (ax b)) (tcache b).
Definition ccache_okb (b : bstate) := cellkeys_ok (length (cols (ax b))) (ccache b).
Definition cohb (b : bstate) : bool := tmap_okb b && cmap_okb b && tcache_okb b && ccache_okb b.

(* ---- equalities for the correspondence (fidelity) ---- *)
Definition kz_eqb (a b : list (nat * Z)) : bool := list_eqb (fun p q : nat * Z => (fst p =? fst q)%nat && (snd p =? snd q)) a b.
Fixpoint ins_sorted {V} (x : nat * V) (s : list (nat * V)) : list (nat * V) :=
  match s with [] => [x] | y :: s' => if (fst x <=? fst y)%nat then x :: y :: s' else y :: ins_sorted x s' end.
Definition sort_keys {V} (l : list (nat * V)) : list (nat * V) := fold_right ins_sorted [] l.
Definition wrap_eqb (a b : rwrap) : bool :=
  (w_pos a =? w_pos b) && zl_eqb (w_rmap a) (w_rmap b) && kz_eqb (sort_keys (w_cells a)) (sort_keys (w_cells b)).
Definition tcache_eqb (a b : list (nat * rwrap)) : bool :=
  list_eqb (fun p q : nat * rwrap => (fst p =? fst q)%nat && wrap_eqb (snd p) (snd q)) (sort_keys a) (sort_keys b).
Definition bstate_eqb (a b : bstate) : bool :=
  tstate_eqb (ax a) (ax b) && zl_eqb (tmapB a) (tmapB b) && zl_eqb (cmapB a) (cmapB b)
  && tcache_eqb (tcache a) (tcache b) && kz_eqb (sort_keys (ccache a)) (sort_keys (ccache b)).
