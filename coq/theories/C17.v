(* Property C17 — whole-table transformations preserve the content they are not meant to remove.
   Statements only; each is closed by [exact] of a lemma proved in Transformproof*.v.
   Model: Transform.v (on the run-length state of Table.v; the REPAIRED code: fixes F21, F22, F121, F122);
   specification: Transformspec.v on the list-of-lists grid of Grid.v; abstraction abs_t: Tableabs.v.
   [a : calg] is the cell algebra (lxml's tag / span-attribute edits on one cell, see Transform.v). *)
From Coq Require Import List ZArith Lia Bool Arith.
Import ListNotations.
Require Import Vault Row Table Grid Tableabs Transform Transformspec Transformproof Transformproof2 Transformproof3
               Transformproof4 Transformproof5.
Open Scope Z_scope.

(* ================= rstrip ================= *)
(* the run-length model of Table.rstrip(aggressive) is the plain list operation: drop the empty rows at the end, drop
   the empty cells at the end of every remaining row, cut the declared columns down to the longest row *)
Theorem C17_rstrip_refines : forall (a : calg) (aggr : bool) (t : tstate), WF t ->
  abs_t (t_rstrip a aggr t) = g_rstrip a aggr (abs_t t) /\ WF (t_rstrip a aggr t).
Proof. exact rstrip_refines. Qed.
Print Assumptions C17_rstrip_refines.

Theorem C17_rstrip_idempotent : forall (a : calg) (aggr : bool) (t : tstate), WF t ->
  abs_t (t_rstrip a aggr (t_rstrip a aggr t)) = abs_t (t_rstrip a aggr t).
Proof. exact rstrip_idem_model. Qed.
Print Assumptions C17_rstrip_idempotent.

(* only rows at the end are removed and each is empty; every kept row is a prefix of the old one and each removed cell
   is empty ("empty" per Cell.is_empty(aggressive)); no column is added — and nothing more could be removed *)
Theorem C17_rstrip_removes_only_trailing_empties : forall (a : calg) (aggr : bool) (t : tstate), WF t ->
  strip_rows_law a aggr aggr (abs_t t) (abs_t (t_rstrip a aggr t)) = true /\
  rstrip_maximal a aggr (abs_t (t_rstrip a aggr t)) = true.
Proof. exact rstrip_law_model. Qed.
Print Assumptions C17_rstrip_removes_only_trailing_empties.

Theorem C17_rstrip_keeps_nonempty_values : forall (a : calg) (aggr : bool) (t : tstate) (x y : Z),
  WF t -> cell_empty a aggr empty_cell = true -> 0 <= x -> 0 <= y ->
  cell_empty a aggr (gcell x y (abs_t t)) = false ->
  gcell x y (abs_t (t_rstrip a aggr t)) = gcell x y (abs_t t).
Proof. exact rstrip_keeps_model. Qed.
Print Assumptions C17_rstrip_keeps_nonempty_values.

(* ================= transpose ================= *)
Theorem C17_transpose_refines : forall (t : tstate), WF t ->
  abs_t (t_transpose t) = g_transpose (abs_t t) /\ WF (t_transpose t).
Proof. exact transpose_refines. Qed.
Print Assumptions C17_transpose_refines.

(* "the original matrix": for ragged rows, the rectangular closure — every row completed with empty cells to the
   longest STORED row (not to the declared width); a table whose rows hold no cell comes back empty *)
Theorem C17_transpose_twice : forall (t : tstate), WF t ->
  abs_t (t_transpose (t_transpose t)) = rect_closure (abs_t t).
Proof. exact transpose_twice_model. Qed.
Print Assumptions C17_transpose_twice.

Theorem C17_transpose_swaps_coordinates : forall (t : tstate) (x y : Z), WF t ->
  0 <= x < Z.of_nat (max_length (grows (abs_t t))) -> 0 <= y ->
  gcell y x (abs_t (t_transpose t)) = gcell x y (abs_t t).
Proof. exact transpose_swaps_model. Qed.
Print Assumptions C17_transpose_swaps_coordinates.

(* ================= refuted on the model of the pinned code ================= *)
(* F21: the pinned transpose raises on ragged rows (the repaired one gives the transposed closure) *)
Theorem C17_transpose_pinned_refuted : exists t : tstate, WF t /\ t_transpose_pinned t = None.
Proof. exists f21_table. split; apply f21_witness. Qed.
Print Assumptions C17_transpose_pinned_refuted.

(* F22: the pinned optimize_width drops the repeat of a non-empty last row: a 2-times repeated row holding "a" loses
   row 1 (the strip law is false); the repaired one leaves that table alone *)
Theorem C17_optimize_width_pinned_refuted : exists (t t' : tstate), WF t /\
  t_optimize_width plain_alg false t = Some t' /\ strip_rows_law plain_alg false true (abs_t t) (abs_t t') = false.
Proof. destruct f22_witness as (Hw & (t' & H1 & _ & H3) & _). exists f22_table, t'. split; [exact Hw|]. split; [exact H1|exact H3]. Qed.
Print Assumptions C17_optimize_width_pinned_refuted.

(* F122: the pinned optimize_width raises on a table without rows *)
Theorem C17_optimize_width_no_rows_pinned_refuted : exists t : tstate, WF t /\ t_optimize_width plain_alg false t = None.
Proof. exists {| cols := [(2%nat, 0)]; rows := [] |}. split; [repeat split; repeat constructor; cbn; lia|apply f122_witness]. Qed.
Print Assumptions C17_optimize_width_no_rows_pinned_refuted.
