(* string form and tuple form translate alike; negative numbers count from the end; ranges bound the result *)
From Coq Require Import List ZArith Lia Bool ZifyBool.
Import ListNotations.
Require Import Coord Coordproof1 Coordproof2.
Open Scope Z_scope.

Lemma inc_opt_nonneg v len : 0 <= v -> inc_opt (Some v) len = Some (Some v).
Proof. intros H. unfold inc_opt. destruct (Z.eqb_spec v 0); cbn [negb andb]; [reflexivity|]. destruct (Z.ltb_spec v 0); [lia|reflexivity]. Qed.
Lemma inc_opt_from_end v len : 0 < len -> - len <= v < 0 -> inc_opt (Some v) len = Some (Some (len + v)).
Proof.
  intros Hl Hv. unfold inc_opt. destruct (Z.eqb_spec v 0); [lia|]. destruct (Z.ltb_spec v 0); [|lia]. cbn [negb andb].
  rewrite increment_from_end_lemma by lia. reflexivity.
Qed.
(* the position a number denotes: itself, or counted from the end when negative *)
Definition from_end (len v : Z) : Z := if v <? 0 then len + v else v.
Lemma inc_opt_norm v len : 0 < len -> - len <= v -> inc_opt (Some v) len = Some (Some (from_end len v)).
Proof.
  intros Hl Hv. unfold from_end. destruct (Z.ltb_spec v 0); [apply inc_opt_from_end; lia|apply inc_opt_nonneg; lia].
Qed.
Lemma inc_opt_len0 v : inc_opt (Some v) 0 = Some (Some (Z.max 0 v)).
Proof.
  unfold inc_opt. destruct (Z.eqb_spec v 0); cbn [negb andb]; [subst; reflexivity|].
  destruct (Z.ltb_spec v 0); [|f_equal; f_equal; lia].
  rewrite increment_spec_lemma by lia. destruct (Z.ltb_spec v 0); [|lia]. cbn. f_equal. f_equal. lia.
Qed.

Lemma inc4_nonneg w h x y z t : 0 <= x -> 0 <= y -> 0 <= z -> 0 <= t ->
  inc4 w h (Some x) (Some y) (Some z) (Some t) = Some (Some x, Some y, Some z, Some t).
Proof. intros. unfold inc4. rewrite !inc_opt_nonneg by assumption. reflexivity. Qed.

(* ---------------- forms agree: every translation function, printed string vs tuple ---------------- *)
Theorem forms_table_area w h x y z t : 0 <= x -> 0 <= y -> 0 <= z -> 0 <= t ->
  exists s, print_area x y z t = Some s /\ s <> [] /\
    translate_table w h (CStr s) = Some (Some x, Some y, Some z, Some t) /\
    translate_table w h (CTup [Some x; Some y; Some z; Some t]) = Some (Some x, Some y, Some z, Some t) /\
    translate_column w h (CStr s) = Some (Some x, Some y, Some z, Some t) /\
    translate_column w h (CTup [Some x; Some y; Some z; Some t]) = Some (Some x, Some y, Some z, Some t).
Proof.
  intros Hx Hy Hz Ht. destruct (print_parse_area x y z t Hx Hy Hz Ht) as (s & Hp & Hc). exists s. split; [exact Hp|].
  split. { unfold print_area, print_cell in Hp. destruct (print_col_spec x Hx) as (a & Ha & _ & _ & Hne). rewrite Ha in Hp. cbn [bind] in Hp.
           destruct (digit_to_alpha z); cbn [bind] in Hp; [|discriminate]. inversion Hp. destruct a; [congruence|discriminate]. }
  cbn [translate_table translate_column]. unfold translate_column_str, translate_table_str, translate_table_list, translate_column_list.
  rewrite Hc. cbn [bind]. rewrite inc4_nonneg by assumption. auto.
Qed.

Theorem forms_table_cell w h x y : 0 <= x -> 0 <= y ->
  exists s, print_cell x y = Some s /\ s <> [] /\
    translate_table w h (CStr s) = Some (Some x, Some y, Some x, Some y) /\
    translate_table w h (CTup [Some x; Some y; Some x; Some y]) = Some (Some x, Some y, Some x, Some y).
Proof.
  intros Hx Hy. destruct (print_parse_cell x y Hx Hy) as (s & Hp & Hc). exists s. split; [exact Hp|].
  split. { unfold print_cell in Hp. destruct (print_col_spec x Hx) as (a & Ha & _ & _ & Hne). rewrite Ha in Hp. cbn [bind] in Hp.
           inversion Hp. destruct a; [congruence|discriminate]. }
  cbn [translate_table]. unfold translate_table_str, translate_table_list. rewrite Hc. cbn [bind].
  rewrite inc4_nonneg, !inc_opt_nonneg by assumption. auto.
Qed.

Lemma print_row_nonempty y : 0 <= y -> print_row y <> [].
Proof. intros H. now destruct (print_row_dg y H). Qed.

Theorem forms_table_rows w h y t : 0 <= y -> 0 <= t ->
  print_rows y t <> [] /\
  translate_table w h (CStr (print_rows y t)) = Some (None, Some y, None, Some t) /\
  translate_table w h (CTup [Some y; Some t]) = Some (None, Some y, None, Some t) /\
  translate_table w h (CTup [None; Some y; None; Some t]) = Some (None, Some y, None, Some t).
Proof.
  intros Hy Ht. split. { unfold print_rows. pose proof (print_row_nonempty y Hy). destruct (print_row y); [congruence|discriminate]. }
  cbn [translate_table]. unfold translate_table_str, translate_table_list, inc4. rewrite print_parse_rows by assumption. cbn [bind].
  change (inc_opt None w) with (Some (@None Z)); change (inc_opt None h) with (Some (@None Z)); cbn [bind]. rewrite !inc_opt_nonneg by assumption. auto.
Qed.

Theorem forms_column_cols w h x z : 0 <= x -> 0 <= z ->
  exists s, print_cols x z = Some s /\ s <> [] /\
    translate_column w h (CStr s) = Some (Some x, None, Some z, None) /\
    translate_column w h (CTup [Some x; Some z]) = Some (Some x, None, Some z, None) /\
    translate_column w h (CTup [Some x; None; Some z; None]) = Some (Some x, None, Some z, None) /\
    translate_table w h (CStr s) = Some (Some x, None, Some z, None).
Proof.
  intros Hx Hz. destruct (print_parse_cols x z Hx Hz) as (s & Hp & Hc). exists s. split; [exact Hp|].
  split. { unfold print_cols, print_col in Hp. destruct (print_col_spec x Hx) as (a & Ha & _ & _ & Hne). rewrite Ha in Hp. cbn [bind] in Hp.
           destruct (digit_to_alpha z); cbn [bind] in Hp; [|discriminate]. inversion Hp. destruct a; [congruence|discriminate]. }
  cbn [translate_column translate_table]. unfold translate_column_str, translate_table_str, translate_column_list, inc4. rewrite Hc. cbn [bind].
  change (inc_opt None w) with (Some (@None Z)); change (inc_opt None h) with (Some (@None Z)); cbn [bind]. rewrite !inc_opt_nonneg by assumption. auto.
Qed.

Theorem forms_cell w h x y z t : 0 <= x -> 0 <= y -> 0 <= z -> 0 <= t ->
  exists s a, print_cell x y = Some s /\ print_area x y z t = Some a /\
    translate_cell w h (CStr s) = Some (Some x, Some y) /\
    translate_cell w h (CTup [Some x; Some y]) = Some (Some x, Some y) /\
    translate_cell w h (CStr a) = Some (Some x, Some y) /\
    translate_cell w h (CTup [Some x; Some y; Some z; Some t]) = Some (Some x, Some y).
Proof.
  intros Hx Hy Hz Ht. destruct (print_parse_cell x y Hx Hy) as (s & Hp & Hc). destruct (print_parse_area x y z t Hx Hy Hz Ht) as (a & Hpa & Hca).
  exists s, a. split; [exact Hp|]. split; [exact Hpa|].
  unfold translate_cell, convert_any. rewrite Hc, Hca. cbn [bind]. rewrite !inc_opt_nonneg by assumption. auto.
Qed.

Theorem forms_row rw x z : 0 <= x -> 0 <= z ->
  exists s, print_cols x z = Some s /\
    translate_row rw (CStr s) = Some (Some x, Some z) /\
    translate_row rw (CTup [Some x; Some z]) = Some (Some x, Some z) /\
    translate_row rw (CTup [Some x; None; Some z; None]) = Some (Some x, Some z).
Proof.
  intros Hx Hz. destruct (print_parse_cols x z Hx Hz) as (s & Hp & Hc). exists s. split; [exact Hp|].
  unfold translate_row, convert_any. rewrite Hc. cbn [bind]. rewrite !inc_opt_nonneg by assumption. auto.
Qed.

Theorem forms_any len x y : 0 <= x -> 0 <= y ->
  exists c s, print_col x = Some c /\ print_cell x y = Some s /\
    translate_from_any (AStr c) len 0 = Some x /\ translate_from_any (AInt x) len 0 = Some x /\ translate_from_any (AStr s) len 0 = Some x /\
    translate_from_any (AStr (print_row y)) len 1 = Some y /\ translate_from_any (AInt y) len 1 = Some y /\ translate_from_any (AStr s) len 1 = Some y.
Proof.
  intros Hx Hy. destruct (print_parse_col x Hx) as (c & Hpc & Hcc). destruct (print_parse_cell x y Hx Hy) as (s & Hp & Hc).
  exists c, s. split; [exact Hpc|]. split; [exact Hp|].
  unfold translate_from_any. rewrite Hcc, Hc, print_parse_row by assumption. cbn [bind nth].
  destruct (Z.ltb_spec x 0); [lia|]. destruct (Z.ltb_spec y 0); [lia|]. repeat split.
Qed.

(* ---------------- negative numbers count from the current end ---------------- *)
Theorem negative_table w h x y z t : 0 < w -> 0 < h -> - w <= x -> - h <= y -> - w <= z -> - h <= t ->
  translate_table w h (CTup [Some x; Some y; Some z; Some t]) = Some (Some (from_end w x), Some (from_end h y), Some (from_end w z), Some (from_end h t)) /\
  translate_column w h (CTup [Some x; Some y; Some z; Some t]) = Some (Some (from_end w x), Some (from_end h y), Some (from_end w z), Some (from_end h t)) /\
  translate_table w h (CTup [Some y; Some t]) = Some (None, Some (from_end h y), None, Some (from_end h t)) /\
  translate_column w h (CTup [Some x; Some z]) = Some (Some (from_end w x), None, Some (from_end w z), None) /\
  translate_cell w h (CTup [Some x; Some y]) = Some (Some (from_end w x), Some (from_end h y)) /\
  translate_row w (CTup [Some x; Some z]) = Some (Some (from_end w x), Some (from_end w z)).
Proof.
  intros. cbn [translate_table translate_column]. unfold translate_table_list, translate_column_list, translate_cell, translate_row, convert_any, inc4.
  cbn [bind]. rewrite !inc_opt_norm by assumption. cbn [bind]. repeat split.
Qed.
Theorem negative_any len v idx : 0 < len -> - len <= v -> translate_from_any (AInt v) len idx = Some (from_end len v).
Proof.
  intros Hl Hv. unfold translate_from_any, from_end. cbn [bind]. destruct (Z.ltb_spec v 0); [|reflexivity].
  apply increment_from_end_lemma; lia.
Qed.
Lemma from_end_range len v : 0 < len -> - len <= v < len -> 0 <= from_end len v < len.
Proof. unfold from_end. destruct (Z.ltb_spec v 0); lia. Qed.

(* ---------------- ranges bound the result on both sides ---------------- *)
Lemma in_zrange lo hi i : In i (zrange lo hi) <-> lo <= i <= hi.
Proof.
  unfold zrange. rewrite in_map_iff. split.
  - intros (k & <- & Hk). apply in_seq in Hk. lia.
  - intros H. exists (Z.to_nat (i - lo)). split; [lia|]. apply in_seq. lia.
Qed.
Lemma table_traverse_spec h y t j : In j (table_traverse_idx h (Some y) (Some t)) <-> Z.max 0 y <= j <= t /\ j < h.
Proof.
  unfold table_traverse_idx. destruct (Z.ltb_spec t (Z.max 0 y)).
  - cbn. lia.
  - rewrite in_zrange. lia.
Qed.
Lemma row_traverse_spec w x z i : In i (row_traverse_idx w (Some x) (Some z)) <-> Z.max 0 x <= i <= z /\ i < w.
Proof.
  unfold row_traverse_idx. destruct (Z.leb_spec w (Z.max 0 x)).
  - cbn. lia.
  - rewrite in_zrange. lia.
Qed.

Lemma truthy_str s : s <> [] -> truthy (CStr s) = true.
Proof. destruct s; [congruence|reflexivity]. Qed.

Theorem rows_bounded w h y t : 0 <= y -> 0 <= t ->
  exists l, get_rows_idx w h (Some (CStr (print_rows y t))) = Some l /\ get_rows_idx w h (Some (CTup [Some y; Some t])) = Some l /\
            forall j, In j l <-> y <= j <= t /\ j < h.
Proof.
  intros Hy Ht. destruct (forms_table_rows w h y t Hy Ht) as (Hne & H1 & H2 & _).
  exists (table_traverse_idx h (Some y) (Some t)). unfold get_rows_idx, opt_coord. rewrite truthy_str by exact Hne. cbn [truthy].
  rewrite H1, H2. cbn [bind]. repeat split; try reflexivity; rewrite table_traverse_spec in *; lia.
Qed.

Theorem columns_bounded w h x z : 0 <= x -> 0 <= z ->
  exists s l, print_cols x z = Some s /\ get_columns_idx w h (Some (CStr s)) = Some l /\ get_columns_idx w h (Some (CTup [Some x; Some z])) = Some l /\
              forall i, In i l <-> x <= i <= z /\ i < w.
Proof.
  intros Hx Hz. destruct (forms_column_cols w h x z Hx Hz) as (s & Hp & Hne & H1 & H2 & _).
  exists s, (row_traverse_idx w (Some x) (Some z)). split; [exact Hp|]. unfold get_columns_idx, opt_coord. rewrite truthy_str by exact Hne. cbn [truthy].
  rewrite H1, H2. cbn [bind]. repeat split; try reflexivity; rewrite row_traverse_spec in *; lia.
Qed.

(* the pinned get_columns takes its upper bound from the row component: get_columns("B:C") on 6 columns returns 1..5 *)
Theorem columns_pinned_unbounded :
  exists w h x z s l i, print_cols x z = Some s /\ get_columns_idx_pinned w h (Some (CStr s)) = Some l /\ In i l /\ z < i.
Proof. exists 6, 3, 1, 2, [66; 58; 67], [1; 2; 3; 4; 5], 5. vm_compute. repeat split; auto 10. Qed.

(* an area bounds the values returned: at most t-y+1 rows of at most z-x+1 values, string and tuple form alike *)
Lemma row_pick_length row idx : (length (row_pick row idx) <= length idx)%nat.
Proof.
  unfold row_pick. induction idx as [|i idx IH]; cbn [flat_map length]; [lia|].
  rewrite app_length. destruct (nthZ row i); cbn [length]; lia.
Qed.
Lemma zrange_length lo hi : lenZ (zrange lo hi) = Z.max 0 (hi - lo + 1).
Proof. unfold lenZ, zrange. rewrite map_length, seq_length. lia. Qed.
Lemma row_traverse_length w x z : 0 <= x -> lenZ (row_traverse_idx w (Some x) (Some z)) <= Z.max 0 (z - x + 1).
Proof.
  intros Hx. unfold row_traverse_idx. destruct (Z.leb_spec w (Z.max 0 x)); [cbn; lia|]. rewrite zrange_length. lia.
Qed.
Lemma table_traverse_length h y t : 0 <= y -> lenZ (table_traverse_idx h (Some y) (Some t)) <= Z.max 0 (t - y + 1).
Proof.
  intros Hy. unfold table_traverse_idx. destruct (Z.ltb_spec t (Z.max 0 y)); [cbn; lia|]. rewrite zrange_length. lia.
Qed.
Lemma flat_map_single_length {A B} (f : A -> list B) l : (forall a, (length (f a) <= 1)%nat) -> (length (flat_map f l) <= length l)%nat.
Proof. intros H. induction l as [|a l IH]; cbn [flat_map length]; [lia|]. rewrite app_length. specialize (H a). lia. Qed.

Theorem values_bounded w g x y z t : 0 <= x -> 0 <= y -> 0 <= z -> 0 <= t ->
  exists s m, print_area x y z t = Some s /\
    table_get_values w g (Some (CStr s)) = Some m /\ table_get_values w g (Some (CTup [Some x; Some y; Some z; Some t])) = Some m /\
    lenZ m <= Z.max 0 (t - y + 1) /\ Forall (fun r => lenZ r <= Z.max 0 (z - x + 1)) m.
Proof.
  intros Hx Hy Hz Ht. destruct (forms_table_area w (lenZ g) x y z t Hx Hy Hz Ht) as (s & Hp & Hne & H1 & H2 & _).
  exists s. eexists. split; [exact Hp|]. unfold table_get_values, table_quad, opt_coord. rewrite truthy_str by exact Hne. cbn [truthy].
  rewrite H1, H2. cbn [bind]. split; [reflexivity|]. split; [reflexivity|]. split.
  - eapply Z.le_trans; [|apply (table_traverse_length (lenZ g) y t Hy)]. unfold lenZ. apply Nat2Z.inj_le.
    apply flat_map_single_length. intros j. destruct (nthZ g j); cbn; lia.
  - apply Forall_forall. intros r Hr. apply in_flat_map in Hr as (j & _ & Hr). destruct (nthZ g j) as [row|]; [|destruct Hr].
    destruct Hr as [<-|[]]. unfold padto, lenZ. rewrite app_length, repeat_length.
    pose proof (row_pick_length row (row_traverse_idx (lenZ row) (Some x) (Some z))) as Hl.
    pose proof (row_traverse_length (lenZ row) x z Hx) as Hr. unfold lenZ in *. lia.
Qed.
