(* Transformspec.v — the SPECIFICATION side of property C17 on the list-of-lists grid of Grid.v (definitions only):
   the grid meaning of each whole-table transformation, and the laws the property states, as decidable predicates
   on a pair (grid before, grid after) — the correspondence check evaluates them on the abstracted implementation
   states, the theorems of C17.v prove them of the model for every well-formed run-length state. *)
From Coq Require Import List ZArith Bool Arith.
Import ListNotations.
Require Import Vault Row Table Grid Tableabs Transform.
Local Open Scope Z_scope.

(* the cell read at (x,y): empty outside what is stored (the padded reading of a ragged grid) *)
Definition gcell (x y : Z) (g : gridT) : cell := nth (Z.to_nat x) (g_row y g) empty_cell.
Definition pad_row (n : nat) (r : list cell) : list cell := r ++ repeat empty_cell (n - length r).
(* the rectangular closure of a ragged matrix: every row completed with empty cells to the longest stored row;
   a matrix whose rows are all empty has no cell at all: its closure is the empty table *)
Definition rect_closure (g : gridT) : gridT :=
  match max_length (grows g) with
  | O => g_empty
  | L => {| ncols := Z.of_nat L; grows := map (pad_row L) (grows g) |}
  end.
Definition lgrid_eqb (a b : list (list cell)) : bool := list_eqb cells_eqb a b.
Definition ggrid_eqb (a b : gridT) : bool := (ncols a =? ncols b) && lgrid_eqb (grows a) (grows b).
(* equality of two grids under the padded reading, on the window that holds both *)
Definition padded_eqb (a b : gridT) : bool :=
  let h := Nat.max (length (grows a)) (length (grows b)) in
  let w := Nat.max (max_length (grows a)) (max_length (grows b)) in
  forallb (fun y => forallb (fun x => cell_eqb (gcell x y a) (gcell x y b)) (zrange 0 w)) (zrange 0 h).

Section Spec.
Variable a : calg.

(* ---- transpose ---- *)
Definition g_transpose (g : gridT) : gridT :=
  match max_length (grows g) with
  | O => g_empty
  | _ => {| ncols := gheight g; grows := zip_longest empty_cell (grows g) |}
  end.
(* law: the cell at (y,x) afterwards is the cell at (x,y) before, for every x below the longest row and every row y;
   the result is rectangular: (longest row) rows of (height) cells, and declares (height) columns *)
Definition transpose_law (pre post : gridT) : bool :=
  let L := max_length (grows pre) in let H := length (grows pre) in
  match L with
  | O => ggrid_eqb post g_empty
  | _ => (ncols post =? Z.of_nat H) && (length (grows post) =? L)%nat &&
         forallb (fun r => (length r =? H)%nat) (grows post) &&
         forallb (fun y => forallb (fun x => cell_eqb (gcell y x post) (gcell x y pre)) (zrange 0 L)) (zrange 0 H)
  end.

(* ---- rstrip ---- *)
Definition lrow_empty (aggr : bool) (r : list cell) : bool := forallb (cell_empty a aggr) r.
Definition g_rstrip (aggr : bool) (g : gridT) : gridT :=
  let rows2 := map (strip_end (cell_empty a aggr)) (strip_end (lrow_empty aggr) (grows g)) in
  {| ncols := Z.min (ncols g) (max_len rows2); grows := rows2 |}.
(* law shared by rstrip and optimize_width: only rows at the end were removed and each of them is empty (arows);
   every kept row is a prefix of the old one and each removed cell is empty (acells); no column is added and the
   rows still fit the declared columns when they did before *)
Fixpoint rows_stripped (acells : bool) (pre post : list (list cell)) : bool :=
  match pre, post with
  | _, [] => true
  | [], _ :: _ => false
  | r :: pre', r' :: post' =>
      cells_eqb (firstn (length r') r) r' && (length r' <=? length r)%nat &&
      forallb (cell_empty a acells) (skipn (length r') r) && rows_stripped acells pre' post'
  end.
Definition strip_rows_law (arows acells : bool) (pre post : gridT) : bool :=
  (length (grows post) <=? length (grows pre))%nat &&
  forallb (lrow_empty arows) (skipn (length (grows post)) (grows pre)) &&
  rows_stripped acells (grows pre) (grows post) &&
  (ncols post <=? ncols pre).
Definition strip_law (arows acells : bool) (pre post : gridT) : bool :=
  strip_rows_law arows acells pre post &&
  (negb (max_len (grows pre) <=? ncols pre) || (max_len (grows post) <=? ncols post)).
(* rstrip is moreover maximal: no empty row is left at the end, no empty cell at the end of a row, and the columns
   beyond the longest row are gone *)
Definition last_ok {A} (p : A -> bool) (l : list A) : bool := match rev l with [] => true | x :: _ => negb (p x) end.
Definition rstrip_maximal (aggr : bool) (post : gridT) : bool :=
  last_ok (lrow_empty aggr) (grows post) && forallb (last_ok (cell_empty a aggr)) (grows post) &&
  (ncols post <=? max_len (grows post)).
(* optimize_width keeps at most one of the empty rows at the end *)
Definition optimize_rows_ok (pre post : gridT) : bool :=
  (length (grows post) <=? S (length (strip_end (lrow_empty false) (grows pre))))%nat.
(* every non-empty cell keeps its coordinates (a consequence of strip_law, stated as the property states it) *)
Definition nonempty_kept (aggr : bool) (pre post : gridT) : bool :=
  forallb (fun y => forallb (fun x => let c := gcell x y pre in cell_empty a aggr c || cell_eqb (gcell x y post) c)
                            (zrange 0 (max_length (grows pre)))) (zrange 0 (length (grows pre))).

(* ---- spans ---- *)
Definition g_area_cells (x y z t : Z) (g : gridT) : list (list cell) :=
  map (fun yy => map (fun xx => gcell xx yy g) (zrange x (Z.to_nat (z + 1 - x)))) (zrange y (Z.to_nat (t + 1 - y))).
Definition g_area_read (x y z t : Z) (g : gridT) : list (list cell) :=
  map (fun r => firstn (Z.to_nat (z + 1 - x)) (skipn (Z.to_nat x) r))
      (firstn (Z.to_nat (t + 1 - y)) (skipn (Z.to_nat y) (grows g))).
Definition any_spanned (cells : list (list cell)) : bool := existsb (existsb (fun c : cell => is_spanned a (fst c))) cells.
Definition g_set_span (x y z t : Z) (merge : bool) (mid : Z) (g : gridT) : gridT * bool :=
  if (x =? z) && (y =? t) then (g, false)
  else
    let cells := g_area_cells x y z t g in
    if any_spanned cells then (g, false)
    else
      let cells1 := if merge then merge_cells a mid cells else cells in
      (g_step g (OSetLines false x y (lines_of (mark_span a (z - x + 1) (t - y + 1) cells1))), true).
Definition g_del_span (x y : Z) (g : gridT) : option (gridT * bool) :=
  let c0 := gcell x y g in
  match ca_cs a (fst c0) with
  | None => Some (g, false)
  | Some nc =>
    match ca_rs a (fst c0) with
    | None => Some (g, false)
    | Some nr =>
      let cells := g_area_read x y (x + nc - 1) (y + nr - 1) g in
      match cells with
      | (_ :: _) :: _ => Some (g_step g (OSetLines false x y (lines_of (unmark_span a cells))), true)
      | _ => None
      end
    end
  end.

Definition in_area (x y z t i j : Z) : bool := (x <=? i) && (i <=? z) && (y <=? j) && (j <=? t).
Definition window (x y z t : Z) (pre post : gridT) (f : Z -> Z -> bool) : bool :=
  let h := Nat.max (Nat.max (length (grows pre)) (length (grows post))) (Z.to_nat (t + 1)) in
  let w := Nat.max (Nat.max (max_length (grows pre)) (max_length (grows post))) (Z.to_nat (z + 1)) in
  forallb (fun j => forallb (fun i => f i j) (zrange 0 w)) (zrange 0 h).
(* the law of set_span((x,y,z,t), merge=False) with result [ret]:
   refused (ret = false) exactly when the area is one cell or holds a spanned cell, and then nothing changes;
   otherwise the first cell carries the two attributes with the size of the area and is not covered, every other
   cell of the area is covered, every cell outside the area reads as before, and inside the area the content
   (base: without tag and span attributes) and the style of every cell are what they were *)
Definition set_span_law (x y z t : Z) (ret : bool) (pre post : gridT) : bool :=
  let refuse := ((x =? z) && (y =? t)) || any_spanned (g_area_cells x y z t pre) in
  if refuse then negb ret && padded_eqb pre post
  else ret &&
    window x y z t pre post (fun i j =>
      let c := gcell i j pre in let c' := gcell i j post in
      if in_area x y z t i j then
        (ca_base a (fst c') =? ca_base a (fst c)) && (snd c' =? snd c) &&
        (if (i =? x) && (j =? y)
         then negb (ca_cov a (fst c')) &&
              (match ca_cs a (fst c'), ca_rs a (fst c') with
               | Some nc, Some nr => (nc =? z - x + 1) && (nr =? t - y + 1) | _, _ => false end)
         else ca_cov a (fst c') && negb (ca_span a (fst c')))
      else cell_eqb c' c).
(* with merge=True only the geometry is promised: the marks inside, nothing changes outside *)
Definition set_span_merge_law (x y z t : Z) (ret : bool) (pre post : gridT) : bool :=
  let refuse := ((x =? z) && (y =? t)) || any_spanned (g_area_cells x y z t pre) in
  if refuse then negb ret && padded_eqb pre post
  else ret &&
    window x y z t pre post (fun i j =>
      let c := gcell i j pre in let c' := gcell i j post in
      if in_area x y z t i j then
        (if (i =? x) && (j =? y)
         then negb (ca_cov a (fst c')) &&
              (match ca_cs a (fst c'), ca_rs a (fst c') with
               | Some nc, Some nr => (nc =? z - x + 1) && (nr =? t - y + 1) | _, _ => false end)
         else ca_cov a (fst c'))
      else cell_eqb c' c).
(* the law of del_span((x,y)): when the cell carries both attributes (integers nc, nr) the stored cells of the
   area nc x nr lose the covered tag, the first cell loses the attributes (its own tag is not touched), content and
   style stay, and nothing changes outside; otherwise the call answers false and nothing changes *)
Definition del_span_law (x y : Z) (ret : bool) (pre post : gridT) : bool :=
  let c0 := gcell x y pre in
  match ca_cs a (fst c0), ca_rs a (fst c0) with
  | Some nc, Some nr =>
      let z := x + nc - 1 in let t := y + nr - 1 in
      ret &&
      window x y z t pre post (fun i j =>
        let c := gcell i j pre in let c' := gcell i j post in
        if in_area x y z t i j && (j <? gheight pre) && (i <? Z.of_nat (length (g_row j pre))) then
          (ca_base a (fst c') =? ca_base a (fst c)) && (snd c' =? snd c) &&
          (if (i =? x) && (j =? y) then negb (ca_span a (fst c')) && Bool.eqb (ca_cov a (fst c')) (ca_cov a (fst c))
           else negb (ca_cov a (fst c')))
        else cell_eqb c' c)
  | _, _ => negb ret && padded_eqb pre post
  end.

(* the laws the algebra must satisfy on the cells an operation touches (decidable form of alg_ok):
   tag edits and attribute edits are independent of each other and of the rest of the content, and undo each other *)
Definition alg_tag_ok (v : Z) : bool :=
  let vc := ca_to_cov a v in
  ca_cov a vc && (ca_base a vc =? ca_base a v) && (Bool.eqb (ca_span a vc) (ca_span a v)) &&
  (if ca_cov a v then true else ca_to_plain a vc =? v) &&
  negb (ca_cov a (ca_to_plain a v)) && (ca_base a (ca_to_plain a v) =? ca_base a v) &&
  (if ca_cov a v then true else ca_to_plain a v =? v) &&
  (Bool.eqb (ca_span a (ca_to_plain a v)) (ca_span a v)) &&
  negb (ca_span a (ca_rm_span a v)) && (ca_base a (ca_rm_span a v) =? ca_base a v) &&
  (Bool.eqb (ca_cov a (ca_rm_span a v)) (ca_cov a v)) &&
  (if ca_span a v then true else ca_rm_span a v =? v).
Definition alg_cell_ok (nc nr : Z) (v : Z) : bool :=
  let vs := ca_add_span a v nc nr in
  alg_tag_ok v &&
  ca_span a vs && (Bool.eqb (ca_cov a vs) (ca_cov a v)) && (ca_base a vs =? ca_base a v) &&
  (match ca_cs a vs, ca_rs a vs with Some c, Some r => (c =? nc) && (r =? nr) | _, _ => false end) &&
  (if ca_span a v then true else ca_rm_span a vs =? v).

(* ---- transpose(coord) ---- *)
(* in_block: the rows y .. y+len-1, in row j the columns x .. x + (length of that line) - 1 *)
Definition in_block (x y : Z) (cells : list (list cell)) (i j : Z) : bool :=
  (y <=? j) && (j <? y + Z.of_nat (length cells)) && (x <=? i) && (i <? x + Z.of_nat (length (nth (Z.to_nat (j - y)) cells []))).
Definition g_transpose_area (x y z t : Z) (g : gridT) : gridT :=
  let x := Z.min x (ncols g - 1) in let z := Z.min z (ncols g - 1) in
  let y := Z.min y (gheight g - 1) in let t := Z.min t (gheight g - 1) in
  let data := g_area_read x y z t g in
  let w := z - x + 1 in let h := t - y + 1 in
  let g1 := if w =? h then g
            else g_step g (OSetLines false x y (repeat (repeat (1%nat, empty_cell) (Z.to_nat w)) (Z.to_nat h))) in
  g_step g1 (OSetLines true x y (lines_of (zip_longest empty_cell data))).
(* the law, for an area inside the table: the cell at (x+b, y+a) afterwards is the cell at (x+a, y+b) before, on the
   block that the (possibly ragged) stored part of the area fills after transposition; what is left of a non-square
   source rectangle is blanked; every other coordinate reads as before *)
Definition transpose_area_law (x y z t : Z) (pre post : gridT) : bool :=
  if (0 <=? x) && (x <=? z) && (z <? ncols pre) && (0 <=? y) && (y <=? t) && (t <? gheight pre) then
    let T := zip_longest empty_cell (g_area_read x y z t pre) in
    window x y (Z.max z (x + t - y)) (Z.max t (y + z - x)) pre post (fun i j =>
      cell_eqb (gcell i j post)
        (if in_block x y T i j then gcell (x + (j - y)) (y + (i - x)) pre
         else if negb (z - x + 1 =? t - y + 1) && in_area x y z t i j then empty_cell
         else gcell i j pre))
  else true.

(* ---- the grid meaning of one call of the alphabet (optimize_width has none: it depends on the run layout) ---- *)
Definition gx_step (g : gridT) (o : xop) : option (gridT * bool) :=
  match o with
  | XTranspose => Some (g_transpose g, true)
  | XRstrip aggr => Some (g_rstrip aggr g, true)
  | XSetSpan x y z t m mid => Some (g_set_span x y z t m (if m then merge_mid a (g_area_cells x y z t g) else mid) g)
  | XDelSpan x y => g_del_span x y g
  | XCore o => Some (g_step g o, true)
  | XTransposeArea x y z t => Some (g_transpose_area x y z t g, true)
  | XOptimize => None
  end.
End Spec.
