(* Typed.v — executable model of how a Python value is stored in, and read back from, an ODF element:
   ElementTyped.set_value_and_type / _get_typed_value (element_typed.py), Cell.value setter / getter (cell.py),
   Meta.set_user_defined_metadata / _get_meta_value_full (meta.py), which VarSet / UserFieldDecl / UserDefined /
   Row.set_value / Table.set_value reach through ElementTyped.  Definitions only. *)
From Coq Require Import List ZArith NArith Bool Arith.
Import ListNotations.
Require Import Codec.

(* ------------------------------------------------------------------ decimal.Decimal (finite): (-1)^neg * coef * 10^exp, as_tuple() *)
Record dec := mkdec { dneg : bool; dcoef : N; dexp : Z }.

Fixpoint zeros (k : nat) : str := match k with O => [] | S k' => 48%N :: zeros k' end.
(* "%+d" *)
Definition print_Zplus (z : Z) : str := if (z <? 0)%Z then c_minus :: print_N (Z.to_N (- z)) else c_plus :: print_N (Z.to_N z).
(* Decimal.__str__ (scientific notation when exp > 0 or more than 6 leading zeros) *)
Definition str_of_dec (d : dec) : str :=
  let digits := print_N (dcoef d) in
  let len := Z.of_nat (length digits) in
  let leftdigits := (dexp d + len)%Z in
  let dotplace := if (dexp d <=? 0)%Z && (-6 <? leftdigits)%Z then leftdigits else 1%Z in
  let '(intpart, fracpart) :=
    if (dotplace <=? 0)%Z then ([48%N], c_dot :: zeros (Z.to_nat (- dotplace)) ++ digits)
    else if (len <=? dotplace)%Z then (digits ++ zeros (Z.to_nat (dotplace - len)), [])
    else (firstn (Z.to_nat dotplace) digits, c_dot :: skipn (Z.to_nat dotplace) digits) in
  let e := if (leftdigits =? dotplace)%Z then [] else 69%N :: print_Zplus (leftdigits - dotplace) in
  (if dneg d then [c_minus] else []) ++ intpart ++ fracpart ++ e.

(* Decimal(text) for the finite numeric syntax  [sign] (digits [. digits*] | . digits) [(e|E) [sign] digits]  *)
Definition read_sign (s : str) : bool * str :=
  match s with c :: r => if (c =? c_minus)%N then (true, r) else if (c =? c_plus)%N then (false, r) else (false, s) | [] => (false, s) end.
Definition dec_of_text (t : str) : option dec :=
  let '(neg, t1) := read_sign t in
  let '(ip, t2) := read_digits t1 in
  let '(fp, t3, dot) := match t2 with
                        | c :: r => if (c =? c_dot)%N then let '(f, r') := read_digits r in (f, r', true) else ([], t2, false)
                        | [] => ([], t2, false) end in
  match ip ++ fp with
  | [] => None
  | ds =>
    let coef := digits_val ds in
    let fl := Z.of_nat (length fp) in
    match t3 with
    | [] => Some (mkdec neg coef (- fl))
    | c :: r =>
      if (c =? 101)%N || (c =? 69)%N then
        let '(eneg, r1) := read_sign r in
        match read_N r1 with
        | Some (e, []) => Some (mkdec neg coef ((if eneg then - Z.of_N e else Z.of_N e) - fl))
        | _ => None
        end
      else None
    end
  end.

(* exact comparison of two finite decimals as numbers (Decimal.__eq__; -0 = 0) *)
Definition dec_scaled (d : dec) (e : Z) : Z := ((if dneg d then -1 else 1) * Z.of_N (dcoef d) * 10 ^ (dexp d - e))%Z.
Definition dec_num_eqb (a b : dec) : bool :=
  let e := Z.min (dexp a) (dexp b) in (dec_scaled a e =? dec_scaled b e)%Z.
Definition dec_of_Z (z : Z) : dec := mkdec (z <? 0)%Z (Z.to_N (Z.abs z)) 0.
(* int(d) == d, and int(d) *)
Definition dec_is_integral (d : dec) : bool :=
  (0 <=? dexp d)%Z || (dcoef d mod 10 ^ Z.to_N (- dexp d) =? 0)%N.
Definition dec_to_Z (d : dec) : Z :=
  ((if dneg d then -1 else 1) *
   (if (0 <=? dexp d)%Z then Z.of_N (dcoef d) * 10 ^ dexp d else Z.of_N (dcoef d / 10 ^ Z.to_N (- dexp d))))%Z.
Definition dec_eqb (a b : dec) : bool := Bool.eqb (dneg a) (dneg b) && (dcoef a =? dcoef b)%N && (dexp a =? dexp b)%Z.

(* ------------------------------------------------------------------ Python values *)
Inductive pyval :=
| VNone
| VBool (b : bool)
| VInt (z : Z)
| VFloat (r : str)            (* a float, identified by repr(float) (CPython: float(repr(x)) == x) *)
| VDec (d : dec)
| VStr (s : str)
| VDate (y m d : N)           (* datetime.date that is not a datetime *)
| VDateTime (d : dtime)
| VDur (us : Z)               (* timedelta, total microseconds *)
| VOther.                     (* anything else (only ever appears as a read-back result) *)

(* the isinstance lattice:  bool < int ,  datetime < date *)
Definition isinstance_bool v := match v with VBool _ => true | _ => false end.
Definition isinstance_int v := match v with VBool _ | VInt _ => true | _ => false end.
Definition isinstance_float v := match v with VFloat _ => true | _ => false end.
Definition isinstance_Decimal v := match v with VDec _ => true | _ => false end.
Definition isinstance_str v := match v with VStr _ => true | _ => false end.
Definition isinstance_datetime v := match v with VDateTime _ => true | _ => false end.
Definition isinstance_date v := match v with VDate _ _ _ | VDateTime _ => true | _ => false end.
Definition isinstance_timedelta v := match v with VDur _ => true | _ => false end.

Definition s_True : str := [84;114;117;101]%N.
Definition s_False : str := [70;97;108;115;101]%N.
(* str(value) for the numeric branch *)
Definition py_str_num (v : pyval) : str :=
  match v with
  | VBool b => if b then s_True else s_False
  | VInt z => print_Z z
  | VFloat r => r
  | VDec d => str_of_dec d
  | _ => []
  end.
(* DateTime.encode / Date.encode applied to whatever reaches them *)
Definition py_datetime_encode (v : pyval) : str := match v with VDateTime d => datetime_encode d | _ => [] end.
Definition py_date_encode (v : pyval) : str :=
  match v with VDateTime d => date_encode (yr d) (mo d) (dy d) | VDate y m d => date_encode y m d | _ => [] end.
Definition py_dur_encode (v : pyval) : str := match v with VDur us => dur_encode us | _ => [] end.
Definition py_bool_encode (v : pyval) : str := match v with VBool b => bool_encode b | _ => [] end.

(* ------------------------------------------------------------------ elements: the attributes the property talks about *)
Record elem := mkelem {
  vtype : option str;       (* office:value-type / meta:value-type *)
  a_bool : option str;      (* office:boolean-value *)
  a_value : option str;     (* office:value *)
  a_date : option str;      (* office:date-value *)
  a_string : option str;    (* office:string-value *)
  a_time : option str;      (* office:time-value *)
  etext : option str;       (* Meta: element text (None when empty);  others: the text:p children joined by newline (None when there is none) *)
  a_currency : option str;  (* office:currency *)
  x_type : option str;      (* calcext:value-type *)
  x_value : option str;     (* calcext:value *)
  others : list (str * str) (* every other attribute of the element that is not a name / style / display / repetition attribute: (qualified name, value), sorted *)
}.
Definition empty_elem := mkelem None None None None None None None None None None [].
(* the seven fields the readers look at *)
Definition core (e : elem) : elem := mkelem (vtype e) (a_bool e) (a_value e) (a_date e) (a_string e) (a_time e) (etext e) None None None [].

Definition t_boolean : str := [98;111;111;108;101;97;110]%N.
Definition t_float : str := [102;108;111;97;116]%N.
Definition t_date : str := [100;97;116;101]%N.
Definition t_string : str := [115;116;114;105;110;103]%N.
Definition t_time : str := [116;105;109;101]%N.
Definition t_percentage : str := [112;101;114;99;101;110;116;97;103;101]%N.
Definition t_currency : str := [99;117;114;114;101;110;99;121]%N.

(* lxml accepts only XML 1.0 characters in attribute values and text *)
Definition xml_char (c : N) : bool :=
  ((c =? 9) || (c =? 10) || (c =? 13) || ((32 <=? c) && (c <=? 55295)) || ((57344 <=? c) && (c <=? 65533)) || ((65536 <=? c) && (c <=? 1114111)))%N.
Definition xml_str (s : str) : bool := forallb xml_char s.

Inductive result (A : Type) := Ok (a : A) | Err.
Arguments Ok {A} a. Arguments Err {A}.

(* the element a writer produces: the payload s in the slot of its type; [calc]: set_value_and_type also writes
   calcext:value-type (always) and calcext:value (numbers) *)
Inductive slot := SBool | SValue | SDate | SString | STime.
Definition in_slot (a b : slot) (s : str) : option str :=
  match a, b with SBool, SBool | SValue, SValue | SDate, SDate | SString, SString | STime, STime => Some s | _, _ => None end.
Definition build (calc : bool) (t : str) (sl : slot) (s : str) : elem :=
  mkelem (Some t) (in_slot SBool sl s) (in_slot SValue sl s) (in_slot SDate sl s) (in_slot SString sl s) (in_slot STime sl s) None
         None (if calc then Some t else None) (if calc then in_slot SValue sl s else None) [].

(* the if / elif chain shared by the three writers is NOT shared in the code: each is written out in its own source order.
   ElementTyped.set_value_and_type(value) with value_type=None, text=None.  Returns the attributes and the text handed back. *)
Definition set_et (v : pyval) : result (elem * option str) :=
  match v with
  | VNone => Ok (empty_elem, None)
  | _ =>
    if isinstance_bool v then
      let s := py_bool_encode v in Ok (build true t_boolean SBool s, Some s)
    else if isinstance_int v || isinstance_float v || isinstance_Decimal v then
      let s := py_str_num v in Ok (build true t_float SValue s, Some s)
    else if isinstance_datetime v then
      let s := py_datetime_encode v in Ok (build true t_date SDate s, Some s)
    else if isinstance_date v then
      let s := py_date_encode v in Ok (build true t_date SDate s, Some s)
    else if isinstance_str v then
      match v with VStr s => if xml_str s then Ok (build true t_string SString s, Some s) else Err | _ => Err end
    else if isinstance_timedelta v then
      let s := py_dur_encode v in Ok (build true t_time STime s, Some s)
    else Err
  end.

(* Cell.value setter: its own chain (str, bool, float, Decimal, int, timedelta, datetime, date); every branch is a property
   setter that starts with self.clear() *)
Definition set_cellvalue (v : pyval) : result (elem * option str) :=
  match v with
  | VNone => Ok (empty_elem, None)
  | _ =>
    if isinstance_str v then
      match v with VStr s => if xml_str s then Ok (build false t_string SString s, Some s) else Err | _ => Err end
    else if isinstance_bool v then
      let s := py_bool_encode v in Ok (build false t_boolean SBool s, Some s)
    else if isinstance_float v then
      let s := py_str_num v in Ok (build false t_float SValue s, Some s)
    else if isinstance_Decimal v then
      let s := py_str_num v in Ok (build false t_float SValue s, Some s)
    else if isinstance_int v then
      let s := py_str_num v in Ok (build false t_float SValue s, Some s)
    else if isinstance_timedelta v then
      let s := py_dur_encode v in Ok (build false t_time STime s, Some s)
    else if isinstance_datetime v then
      let s := py_datetime_encode v in Ok (build false t_date SDate s, Some s)
    else if isinstance_date v then
      let s := py_date_encode v in Ok (build false t_date SDate s, Some s)
    else Err
  end.

(* Meta.set_user_defined_metadata: value-type attribute + element text.  [date_first] = the pinned order
   (isinstance(value, date) tested before datetime, F12); false = the repaired order. *)
Definition meta_text (s : str) : option str := match s with [] => None | _ => Some s end.
Definition build_meta (t s : str) : elem := mkelem (Some t) None None None None None (meta_text s) None None None [].
Definition set_meta_gen (date_first : bool) (v : pyval) : result (elem * option str) :=
  let mk t s := Ok (build_meta t s, Some s) in
  if isinstance_bool v then mk t_boolean (py_bool_encode v)
  else if isinstance_int v || isinstance_float v || isinstance_Decimal v then mk t_float (py_str_num v)
  else if date_first then
    if isinstance_date v then mk t_date (py_date_encode v)
    else if isinstance_datetime v then mk t_date (py_datetime_encode v)
    else if isinstance_str v then match v with VStr s => if xml_str s then mk t_string s else Err | _ => Err end
    else if isinstance_timedelta v then mk t_time (py_dur_encode v)
    else Err
  else
    if isinstance_datetime v then mk t_date (py_datetime_encode v)
    else if isinstance_date v then mk t_date (py_date_encode v)
    else if isinstance_str v then match v with VStr s => if xml_str s then mk t_string s else Err | _ => Err end
    else if isinstance_timedelta v then mk t_time (py_dur_encode v)
    else Err.
Definition set_meta := set_meta_gen false.
Definition set_meta_pinned := set_meta_gen true.

(* ------------------------------------------------------------------ reading *)
(* Element.get_attribute: "true"/"false" become bool, anything else stays a str *)
Definition get_attribute (a : option str) : pyval :=
  match a with
  | None => VNone
  | Some s => if str_eqb s s_true then VBool true else if str_eqb s s_false then VBool false else VStr s
  end.
Definition read_number (keep_int : bool) (s : str) : result pyval :=
  match dec_of_text s with
  | Some d => if keep_int && dec_is_integral d then Ok (VInt (dec_to_Z d)) else Ok (VDec d)
  | None => Err
  end.
Definition read_date (s : str) : result pyval :=
  match (if has_T s then datetime_decode s else date_decode s) with Some d => Ok (VDateTime d) | None => Err end.
Definition read_dur_gen (dd : str -> option Z) (s : str) : result pyval :=
  match dd s with Some us => Ok (VDur us) | None => Err end.
Definition read_dur := read_dur_gen dur_decode.

(* ElementTyped._get_typed_value(value_type=None, try_get_text=True)[0].
   [raw_string] = the pinned code reads office:string-value through get_attribute (F33); false = get_attribute_string. *)
Definition get_et_gen (raw_string : bool) (e : elem) : result pyval :=
  match vtype e with
  | None => Ok VNone
  | Some t =>
    if str_eqb t s_true || str_eqb t s_false then Err       (* value-type read as a bool: TypeError *)
    else if str_eqb t t_boolean then Ok (get_attribute (a_bool e))
    else if str_eqb t t_float || str_eqb t t_percentage || str_eqb t t_currency then
      match get_attribute (a_value e) with VStr s => read_number true s | _ => Err end
    else if str_eqb t t_date then
      match get_attribute (a_date e) with VStr s => read_date s | _ => Err end
    else if str_eqb t t_string then
      match a_string e with
      | Some s => if raw_string
                  then match get_attribute (Some s) with
                       | VBool b => Ok (VStr (if b then s_True else s_False))       (* str(True) *)
                       | w => Ok w end
                  else Ok (VStr s)
      | None => match etext e with Some s => Ok (VStr s) | None => Ok VNone end
      end
    else if str_eqb t t_time then
      match get_attribute (a_time e) with VStr s => read_dur s | _ => Err end
    else Err
  end.
Definition get_et := get_et_gen false.
Definition get_et_pinned := get_et_gen true.

(* Cell.value getter *)
Definition s_None : str := [78;111;110;101]%N.
Definition str_of_opt (a : option str) : str := match a with Some s => s | None => s_None end.   (* str(None) *)
Definition get_cellvalue (e : elem) : result pyval :=
  match vtype e with
  | None => Ok VNone
  | Some t =>
    if str_eqb t t_boolean then
      match a_bool e with Some s => Ok (VBool (str_eqb s s_true)) | None => Ok (VBool false) end
    else if str_eqb t t_float || str_eqb t t_percentage || str_eqb t t_currency then read_number true (str_of_opt (a_value e))
    else if str_eqb t t_date then read_date (str_of_opt (a_date e))
    else if str_eqb t t_time then read_dur (str_of_opt (a_time e))
    else if str_eqb t t_string then
      match a_string e with
      | Some s => Ok (VStr s)
      | None => Ok (VStr (match etext e with Some s => s | None => [] end))
      end
    else Ok VNone
  end.

(* Meta._get_meta_value_full(element)[0]: type from meta:value-type (default string), payload = element text ("" when empty) *)
Definition get_meta (e : elem) : result pyval :=
  let t := match vtype e with Some t => t | None => t_string end in
  let text := match etext e with Some s => s | None => [] end in
  if str_eqb t t_boolean then match bool_decode text with Some b => Ok (VBool b) | None => Err end
  else if str_eqb t t_float || str_eqb t t_percentage || str_eqb t t_currency then read_number false text
  else if str_eqb t t_date then read_date text
  else if str_eqb t t_string then Ok (VStr text)
  else if str_eqb t t_time then read_dur text
  else Err.

(* ------------------------------------------------------------------ carriers *)
(* SetET: set_value_and_type on an element that was cleared just before (Cell(v), Cell.set_value, Row/Table.set_value,
   VarSet / UserFieldDecl (.set_value), UserDefined);  SetETRaw: set_value_and_type called on an element as it is;
   SetCellValue: cell.value = v;  SetMeta: Meta.set_user_defined_metadata on a (possibly existing) name *)
Inductive setk := SetET | SetCellValue | SetMeta | SetETRaw.
Inductive getk := GetET | GetCellValue | GetMeta.
(* writing on a fresh carrier *)
Definition model_set (k : setk) (v : pyval) : result elem :=
  match (match k with SetET | SetETRaw => set_et v | SetCellValue => set_cellvalue v | SetMeta => set_meta v end) with
  | Ok (e, _) => Ok e | Err => Err end.

(* qualified names of the attributes set_value_and_type deletes before writing, among those kept in [others] *)
Definition n_formula : str := [116;97;98;108;101;58;102;111;114;109;117;108;97]%N.                      (* table:formula *)
Definition n_loext_type : str := [108;111;101;120;116;58;118;97;108;117;101;45;116;121;112;101]%N.      (* loext:value-type *)
Definition removed_other (n : str) : bool := str_eqb n n_formula || str_eqb n n_loext_type.
(* writing on a carrier in state [prev] (None = fresh).  The code reads the previous state in two places only:
   set_value_and_type deletes a fixed list of attributes and leaves the others ([stale_xvalue]: the pinned list lacks
   calcext:value, F72); Meta.set_user_defined_metadata looks the name up and re-uses the element it finds. *)
Definition set_on_gen (stale_xvalue : bool) (k : setk) (prev : option elem) (v : pyval) : result elem :=
  match prev with
  | None => model_set k v
  | Some p =>
    match k with
    | SetET | SetCellValue => model_set k v                     (* self.clear() first *)
    | SetETRaw =>
        match model_set k v with
        | Ok e => Ok (mkelem (vtype e) (a_bool e) (a_value e) (a_date e) (a_string e) (a_time e) (etext p) (a_currency e) (x_type e)
                             (match x_value e with Some s => Some s | None => if stale_xvalue then x_value p else None end)
                             (filter (fun nv => negb (removed_other (fst nv))) (others p)))
        | Err => Err end
    | SetMeta =>
        match model_set k v with
        | Ok e => Ok (mkelem (vtype e) (a_bool p) (a_value p) (a_date p) (a_string p) (a_time p) (etext e) (a_currency p) (x_type p) (x_value p) (others p))
        | Err => Err end
    end
  end.
Definition model_set_on := set_on_gen false.
Definition model_set_on_pinned := set_on_gen true.
Definition is_meta (k : setk) : bool := match k with SetMeta => true | _ => false end.
Definition model_get (k : getk) (e : elem) : result pyval :=
  match k with GetET => get_et e | GetCellValue => get_cellvalue e | GetMeta => get_meta e end.
(* which reader goes with which writer in the public carriers:
   Cell(v) / set_value, Row.set_value, Table.set_value, VarSet, UserFieldDecl, UserDefined : SetET then GetET (Cell also GetCellValue);
   cell.value = v : SetCellValue then GetCellValue (also GetET);  Meta : SetMeta then GetMeta *)
Definition compatible (s : setk) (g : getk) : bool :=
  match s, g with SetMeta, GetMeta => true | SetMeta, _ => false | _, GetMeta => false | _, _ => true end.

(* ------------------------------------------------------------------ "an equal value of the corresponding type" (DESIGN.md, C06) *)
Definition num_of (v : pyval) : option dec :=
  match v with VInt z => Some (dec_of_Z z) | VDec d => Some d | VFloat r => dec_of_text r | _ => None end.
Definition same_value (v r : pyval) : bool :=
  match v with
  | VNone => match r with VNone => true | _ => false end
  | VBool b => match r with VBool b' => Bool.eqb b b' | _ => false end
  | VInt _ | VFloat _ | VDec _ =>
      match r with
      | VInt _ | VDec _ => match num_of v, num_of r with Some a, Some b => dec_num_eqb a b | _, _ => false end
      | _ => false end
  | VStr s => match r with VStr s' => str_eqb s s' | _ => false end
  | VDate y m d => match r with VDateTime d' => dtime_eqb d' (mkdt y m d 0 0 0 0 None) | _ => false end
  | VDateTime d => match r with VDateTime d' => dtime_eqb d' d | _ => false end
  | VDur us => match r with VDur us' => (us =? us')%Z | _ => false end
  | VOther => false
  end.

(* the domain of the property: finite numbers (every finite Decimal: Typeddecproof.dec_text_roundtrip_lemma), XML strings, valid dates, every duration *)
Definition float_repr_ok (r : str) : bool := match dec_of_text r with Some _ => true | None => false end.
Definition dec_text_roundtrips (d : dec) : bool :=
  match dec_of_text (str_of_dec d) with Some d' => dec_eqb d d' | None => false end.
Definition in_domain (v : pyval) : bool :=
  match v with
  | VFloat r => float_repr_ok r
  | VStr s => xml_str s
  | VDate y m d => valid_date y m d
  | VDateTime d => valid_dt d
  | VOther => false
  | _ => true
  end.
(* user-defined metadata rejects None by design (TypeError) *)
Definition in_domain_for (k : setk) (v : pyval) : bool :=
  in_domain v && match k, v with SetMeta, VNone => false | _, _ => true end.
(* a time-zone offset with a seconds part has no xsd:dateTime form: no lexical claim for it *)
Definition lexical_claimed (v : pyval) : bool :=
  match v with VDateTime d => match tz d with None => true | Some z => (z mod 60000000 =? 0)%Z end | _ => true end.

(* lexical space of what was written, by value type *)
Definition decimal_lexical (s : str) : bool := match dec_of_text s with Some _ => true | None => false end.
Definition opt_lex (p : str -> bool) (a : option str) : bool := match a with Some s => p s | None => false end.
Definition elem_lexical (meta : bool) (e : elem) : bool :=
  match vtype e with
  | None => true
  | Some t =>
    let payload (a : option str) := if meta then Some (match etext e with Some s => s | None => [] end) else a in
    if str_eqb t t_boolean then opt_lex bool_lexical (payload (a_bool e))
    else if str_eqb t t_float then opt_lex decimal_lexical (payload (a_value e))
    else if str_eqb t t_date then opt_lex (fun s => date_lexical s || datetime_lexical s) (payload (a_date e))
    else if str_eqb t t_time then opt_lex dur_lexical (payload (a_time e))
    else if str_eqb t t_string then match payload (a_string e) with Some _ => true | None => false end
    else false
  end.

(* ------------------------------------------------------------------ set_value_and_type with its arguments; typed reads; repeated runs *)
(* the ODF type Python's type gives when none is asked for *)
Definition default_type (v : pyval) : option str :=
  match v with
  | VNone | VOther => None
  | VBool _ => Some t_boolean
  | VInt _ | VFloat _ | VDec _ => Some t_float
  | VDate _ _ _ | VDateTime _ => Some t_date
  | VStr _ => Some t_string
  | VDur _ => Some t_time
  end.
(* the text written for the value, whatever its type *)
Definition payload_of (v : pyval) : result str :=
  match v with
  | VBool _ => Ok (py_bool_encode v)
  | VInt _ | VFloat _ | VDec _ => Ok (py_str_num v)
  | VDateTime _ => Ok (py_datetime_encode v)
  | VDate _ _ _ => Ok (py_date_encode v)
  | VStr s => if xml_str s then Ok s else Err
  | VDur _ => Ok (py_dur_encode v)
  | VNone | VOther => Err
  end.
(* ElementTyped.set_value_and_type(value, value_type=vt, currency=cur) followed by Cell.set_value's formula=:
   the attribute that receives the payload is chosen by the VALUE TYPE (given, or the default of the Python type), not by the Python type *)
Definition set_et_full (vt cur formula : option str) (v : pyval) : result elem :=
  let fo := match formula with Some f => [(n_formula, f)] | None => [] end in
  match v with
  | VNone => Ok (mkelem None None None None None None None None None None fo)
  | _ =>
    match payload_of v, (match vt with Some t => Some t | None => default_type v end) with
    | Ok s, Some t =>
      let is t' := str_eqb t t' in
      let num := is t_float || is t_percentage in
      Ok (mkelem (Some t) (if is t_boolean then Some s else None) (if num || is t_currency then Some s else None)
                 (if is t_date then Some s else None) (if is t_string then Some s else None) (if is t_time then Some s else None) None
                 (if is t_currency then cur else None) (Some t) (if num then Some s else None) fo)
    | _, _ => Err
    end
  end.
(* _get_typed_value(...) as a pair: value and reported type *)
Definition get_et_typed (e : elem) : result (pyval * option str) :=
  match get_et e with Ok v => Ok (v, vtype e) | Err => Err end.

(* a row (or a column of a table) seen through its repeated runs = the list of its logical cells.  Writing at position i changes
   that cell only; positions beyond the end are filled with empty cells first. *)
Fixpoint repeat_elem (n : nat) : list elem := match n with O => [] | S k => empty_elem :: repeat_elem k end.
Definition grid_set (i : nat) (e : elem) (l : list elem) : list elem :=
  firstn i (l ++ repeat_elem (i - length l)) ++ e :: skipn (S i) l.

(* ------------------------------------------------------------------ UserDefined(name, value, value_type, from_document=doc)
   When the document's user-defined metadata has an entry of that name ([me]: its element), value and value type are the entry's
   (read as Meta reads them: numbers as Decimal, a date as the datetime at 00:00) whatever they are - False, 0, "" included -;
   otherwise the constructor's arguments are used. *)
Definition set_ud_from_doc (me : option elem) (vt0 : option str) (v0 : pyval) : result elem :=
  match me with
  | None => set_et_full vt0 None None v0
  | Some m =>
    match get_meta m with
    | Ok v => set_et_full (Some (match vtype m with Some t => t | None => t_string end)) None None v
    | Err => Err
    end
  end.
