(* Every style operation of the model is an instance of [replace] (Stylespart.v); hence the part-level invariant is kept
   by insert_style (named, unnamed automatic, default), merge_styles_from, delete_styles, add_page_break_style and
   set_table_displayed, and merge_styles_from yields the union with the other document's definitions winning. *)
From Coq Require Import List ZArith Bool Arith Lia.
Require Import Styles Stylesproof Stylespart.
Import ListNotations.
Open Scope Z_scope.

Lemma set_set (st : store) c a b : set_slot (set_slot st c a) c b = set_slot st c b.
Proof. revert c; induction st as [|x r IH]; intros [|c]; cbn; auto. now rewrite IH. Qed.

Section Ops.
Variable T : tables.
Variable fams : list Z.

(* ------------------------------------------------------------------ conditions on the tables *)
Definition kinds_ok : bool :=
  forallb (fun p => forallb (fun k => k <? 4)%nat (snd p)) (ctx T) && forallb (fun k => k <? 4)%nat (ctx_default T)
  && forallb (fun k => k <? 4)%nat (content_ctx_font T) && forallb (fun k => k <? 4)%nat (content_ctx T).
Definition tables_ok : bool :=
  wf_tables T && kinds_ok
  && forallb (fun f => forallb (covers_part T f) [MCommon; MAutomatic; MDefault]) fams
  && forallb (fun f => special T f || existsb (Nat.eqb (slot_of false 1)) (part_slots T false f)) fams
  && forallb (fun f => match zassoc f (family_tag T) with Some _ => true | None => false end) fams
  && zmem (f_paragraph T) fams && zmem (f_table T) fams && is_std T (f_paragraph T) && is_std T (f_table T)
  && negb (special T (f_paragraph T)) && negb (special T (f_table T))
  && forallb (fun f => negb (special T f)) (std T).
Hypothesis TOK : tables_ok = true.

Lemma tok_all :
  wf_tables T = true /\ kinds_ok = true
  /\ forallb (fun f => forallb (covers_part T f) [MCommon; MAutomatic; MDefault]) fams = true
  /\ forallb (fun f => special T f || existsb (Nat.eqb (slot_of false 1)) (part_slots T false f)) fams = true
  /\ forallb (fun f => match zassoc f (family_tag T) with Some _ => true | None => false end) fams = true
  /\ zmem (f_paragraph T) fams = true /\ zmem (f_table T) fams = true
  /\ is_std T (f_paragraph T) = true /\ is_std T (f_table T) = true
  /\ negb (special T (f_paragraph T)) = true /\ negb (special T (f_table T)) = true
  /\ forallb (fun f => negb (special T f)) (std T) = true.
Proof.
  pose proof TOK as H. unfold tables_ok in H. rewrite !andb_true_iff in H.
  destruct H as (((((((((((A1 & A2) & A3) & A4) & A5) & A6) & A7) & A8) & A9) & A10) & A11) & A12).
  repeat split; assumption.
Qed.
Lemma tok_wf : wf_tables T = true.
Proof. apply tok_all. Qed.
Lemma tok_kinds : kinds_ok = true.
Proof. apply tok_all. Qed.
Lemma tok_cover f m : In f fams -> covers_part T f m = true.
Proof.
  intros H. destruct tok_all as (_ & _ & G & _). rewrite forallb_forall in G. specialize (G f H).
  rewrite forallb_forall in G. apply G. destruct m; cbn; auto.
Qed.
Lemma tok_auto f : In f fams -> special T f = false -> In (slot_of false 1) (part_slots T false f).
Proof.
  intros H S. destruct tok_all as (_ & _ & _ & G & _). rewrite forallb_forall in G. specialize (G f H).
  rewrite S in G. cbn [orb] in G. apply existsb_exists in G as (x & Hx & E). apply Nat.eqb_eq in E. now subst.
Qed.
Lemma tok_known f : In f fams -> exists tg, zassoc f (family_tag T) = Some tg.
Proof.
  intros H. destruct tok_all as (_ & _ & _ & _ & G & _). rewrite forallb_forall in G. specialize (G f H).
  destruct (zassoc f (family_tag T)); [eauto|discriminate].
Qed.
Lemma tok_par : In (f_paragraph T) fams /\ is_std T (f_paragraph T) = true /\ special T (f_paragraph T) = false.
Proof.
  destruct tok_all as (_ & _ & _ & _ & _ & A & _ & B & _ & C & _).
  repeat split; [now apply zmem_in|assumption|now apply negb_true_iff].
Qed.
Lemma tok_tab : In (f_table T) fams /\ is_std T (f_table T) = true /\ special T (f_table T) = false.
Proof.
  destruct tok_all as (_ & _ & _ & _ & _ & _ & A & _ & B & _ & C & _).
  repeat split; [now apply zmem_in|assumption|now apply negb_true_iff].
Qed.
Lemma tok_std_not_special f : is_std T f = true -> special T f = false.
Proof.
  intros H. destruct tok_all as (_ & _ & _ & _ & _ & _ & _ & _ & _ & _ & _ & G).
  rewrite forallb_forall in G. apply negb_true_iff. apply G. now apply zmem_in.
Qed.

Lemma part_slots_part p f k : In k (part_slots T p f) -> slot_in_styles_part k = p.
Proof.
  pose proof tok_kinds as K. unfold kinds_ok in K. rewrite !andb_true_iff in K. destruct K as (((K1 & K2) & K3) & K4).
  unfold part_slots. destruct p.
  - rewrite in_map_iff. intros (x & <- & _). reflexivity.
  - rewrite in_map_iff. intros (x & <- & Hx). unfold slot_of, slot_in_styles_part. cbn [Nat.add].
    assert (x < 4)%nat; [|apply Nat.leb_gt; lia].
    destruct (f =? f_font T); [rewrite forallb_forall in K3; apply K3 in Hx|rewrite forallb_forall in K4; apply K4 in Hx]; now apply Nat.ltb_lt in Hx.
Qed.


(* ------------------------------------------------------------------ delete-then-append is [replace] *)
Lemma dta_replace st slots c pat s st' :
  delete_then_append st c (slots_find st slots pat) s = Done st' -> replace st slots c pat s = Some st'.
Proof.
  unfold delete_then_append, replace. destruct (get_slot st c) as [l|] eqn:G; [|discriminate].
  destruct (slots_find st slots pat) as [[sl i]|]; cbn [removed].
  - destruct (Nat.eqb sl c) eqn:E; [|discriminate]. apply Nat.eqb_eq in E; subst sl. intros H; inversion H; subst; clear H.
    unfold remove_at. cbn [fst snd]. rewrite G. rewrite get_set_same by (eapply get_slot_some_lt; eauto).
    now rewrite set_set.
  - intros H; inversion H; subst. now rewrite G.
Qed.

(* the default-style pattern of a standard family selects exactly the entries with the key (default-style, f, no name) *)
Lemma match_default_same_key s f e :
  is_std T f = true -> etag s = t_default T -> efam s = Some f -> ename s = None -> wf_entry T e = true ->
  match_default T f e = same_key T e s.
Proof.
  intros S Ht Hf Hn We. pose proof tok_wf as WT.
  assert (ND : forall x, etag x = t_default T -> entry_family T x = efam x).
  { intros x Hx. unfold entry_family. rewrite Hx.
    destruct (zassoc (t_default T) (false_rev T)) eqn:Z; [exfalso; eapply false_rev_not_default; eauto|reflexivity]. }
  unfold match_default, fam_ok. rewrite S.
  destruct (same_key T e s) eqn:K.
  - apply same_key_spec in K as (K1 & K2 & K3). rewrite K1, Ht, Z.eqb_refl. cbn [andb].
    rewrite (ND e) in K2 by congruence. rewrite (ND s Ht), Hf in K2. now apply opt_Z_eq.
  - destruct ((etag e =? t_default T) && opt_eqb Z.eqb (efam e) (Some f)) eqn:M; [|reflexivity]. exfalso.
    apply andb_true_iff in M as [M1 M2]. apply Z.eqb_eq in M1. apply opt_Z_eq in M2.
    assert (K' : same_key T e s = true); [|congruence].
    apply same_key_spec. repeat split; [congruence|rewrite (ND e M1), (ND s Ht); congruence|].
    rewrite Hn. unfold wf_entry in We. rewrite M1, Z.eqb_refl in We. cbn [andb] in We.
    destruct (ename e); [discriminate|reflexivity].
Qed.

Lemma slots_find_none_intro st slots pat :
  (forall k e, In k slots -> In e (slot_list st k) -> pat e = false) -> slots_find st slots pat = None.
Proof.
  induction slots as [|a r IH]; intros H; [reflexivity|]. cbn [slots_find].
  destruct (get_slot st a) as [l|] eqn:G.
  - destruct (find_idx pat l) as [i|] eqn:F.
    + apply find_idx_some in F as (x & Hx & Px & _).
      rewrite (H a x (or_introl eq_refl)) in Px; [discriminate|]. rewrite (slot_list_some _ _ _ G). eapply nth_error_In; eauto.
    + apply IH. intros k e Hk. apply H. now right.
  - apply IH. intros k e Hk. apply H. now right.
Qed.

(* ------------------------------------------------------------------ insert_style *)
(* the insertions the theorems speak about (s = the style after the name argument has been applied):
   its tag is the tag of its family, it is not a default-style element, and
   A  it ends up named, default=True only for master page / font face / page layout (flag ignored there), or
   B  unnamed automatic style of an ordinary family (name generated), or
   C  default=True for a standard family (the documented use) *)
Definition insert_dom (s0 : entry) (name_arg : option sname) (automatic default : bool) : Prop :=
  let s := final_style s0 name_arg in
  exists f, In f fams /\ wf_style T s f /\ negb (etag s0 =? t_default T) = true /\
    ((exists n, ename s = Some n /\ (special T f = true \/ default = false))
     \/ (ename s0 = None /\ name_arg = None /\ automatic = true /\ default = false /\ special T f = false)
     \/ (default = true /\ automatic = false /\ is_std T f = true)).

(* what is appended *)
Definition inserted (s0 : entry) (name_arg : option sname) (default : bool) (f : Z) (ret : option sname) : entry :=
  let s := final_style s0 name_arg in
  if default && negb (special T f) then with_name (with_tag s (t_default T)) None else with_name s ret.

Theorem insert_inv2 st s0 name_arg automatic default st' ret :
  Inv2 T st -> insert_dom s0 name_arg automatic default ->
  insert_style T false st s0 name_arg automatic default = Done (st', ret) ->
  exists f s', entry_family T s' = Some f /\ In f fams /\ keyed T s' = true /\ ename s' = ret /\ eid s' = eid s0 /\
    let c := required_slot T f (mode_of_flags automatic default) in
    Inv2 T st'
    /\ In s' (slot_list st' c)
    /\ (forall k x, In x (slot_list st' k) -> In x (slot_list st k) \/ (k = c /\ x = s'))
    /\ (forall k x, In x (slot_list st k) -> In x (slot_list st' k) \/ (same_key T x s' = true /\ same_part k c = true)).
Proof.
  intros I (f & Hf & WS & Hd & Dom) H.
  match goal with |- ?G => set (GOAL := G) end.
  pose proof tok_wf as WT.
  set (s := final_style s0 name_arg) in *.
  assert (Es : eid s = eid s0) by (unfold s; destruct name_arg; reflexivity).
  assert (Ts : etag s = etag s0) by (unfold s; destruct name_arg; reflexivity).
  assert (Hname : match name_arg with Some n0 => Some n0 | None => ename s end = ename s).
  { unfold s. destruct name_arg; reflexivity. }
  unfold insert_style in H. cbn [negb] in H.
  change (match name_arg with Some n0 => with_name s0 (Some n0) | None => s0 end) with s in H.
  rewrite (proj1 WS), Hname in H.
  (* the generic closing step *)
  assert (CLOSE : forall p c pat s1,
            c = required_slot T f (mode_of_flags automatic default) -> p = slot_in_styles_part c ->
            keyed T s1 = true -> wf_entry T s1 = true -> entry_family T s1 = Some f -> eid s1 = eid s0 ->
            (forall e, wf_entry T e = true -> pat e = same_key T e s1) ->
            replace st (part_slots T p f) c pat s1 = Some st' -> ename s1 = ret -> GOAL).
  { intros p c pat s1 -> -> K1 W1 F1 E1 Hpat R Hr. unfold GOAL.
    pose proof (covers_part_In T f _ (tok_cover f (mode_of_flags automatic default) Hf)) as CI.
    destruct (replace_inv T st _ _ _ pat s1 f st' I Hpat K1 W1 F1 eq_refl CI (part_slots_part _ f) R) as (I' & M0 & M1 & M2 & _).
    exists f, s1. split; [exact F1|]. split; [exact Hf|]. split; [exact K1|]. split; [exact Hr|]. split; [exact E1|].
    cbv zeta. split; [exact I'|]. split; [exact M0|]. split; [exact M1|].
    intros k x Hx. destruct (M2 k x Hx) as [A|[A B]]; [now left|right]. split; auto.
    unfold same_part. rewrite B. apply eqb_reflx. }
  (* named lookup in a part *)
  assert (NAMED : forall p c n, ename s = Some n ->
            c = required_slot T f (mode_of_flags automatic default) -> p = slot_in_styles_part c ->
            match part_get_style T st p f (Some n) with
            | Err => Crashed
            | Ok e => match delete_then_append st c e s with
                      | Done st'0 => Done (st'0, Some n) | Rejected => Rejected | Crashed => Crashed end
            end = Done (st', ret) -> GOAL).
  { intros p c n Hn Hc Hp G. unfold part_get_style in G.
    rewrite (slots_get_style_named_find T st _ f (etag s) n (proj2 WS)) in G.
    destruct (delete_then_append st c _ s) as [st2| |] eqn:D; try discriminate. inversion G; subst st2 ret; clear G.
    apply dta_replace in D.
    apply (CLOSE p c (match_named T f (etag s) n) s Hc Hp); [ | |exact (proj1 WS)|exact Es| |exact D|exact Hn].
    - unfold keyed. rewrite Hn. apply orb_true_r.
    - unfold wf_entry. rewrite Ts. apply negb_true_iff in Hd. now rewrite Hd.
    - intros e We. apply (match_named_same_key T s f n e WT WS Hn We). }
  unfold mode_of_flags, required_slot in *.
  destruct (f =? f_master T) eqn:E1.
  { destruct Dom as [(n & Hn & _)|[(_ & _ & _ & _ & Sp)|(_ & _ & S)]].
    - rewrite Hn in H. apply (NAMED true (slot_of true 2) n Hn); [reflexivity|reflexivity|exact H].
    - unfold special in Sp. rewrite E1 in Sp. discriminate.
    - apply tok_std_not_special in S. unfold special in S. rewrite E1 in S. discriminate. }
  destruct (f =? f_font T) eqn:E2.
  { destruct Dom as [(n & Hn & _)|[(_ & _ & _ & _ & Sp)|(_ & _ & S)]].
    - rewrite Hn in H. destruct default.
      + apply (NAMED true (slot_of true 3) n Hn); [reflexivity|reflexivity|exact H].
      + destruct automatic; (apply (NAMED false (slot_of false 3) n Hn); [reflexivity|reflexivity|exact H]).
    - unfold special in Sp. rewrite E1, E2 in Sp. discriminate.
    - apply tok_std_not_special in S. unfold special in S. rewrite E1, E2 in S. discriminate. }
  destruct (f =? f_page_layout T) eqn:E3.
  { destruct Dom as [(n & Hn & _)|[(_ & _ & _ & _ & Sp)|(_ & _ & S)]].
    - rewrite Hn in H. apply (NAMED true (slot_of true 1) n Hn); [reflexivity|reflexivity|exact H].
    - unfold special in Sp. rewrite E1, E2, E3 in Sp. discriminate.
    - apply tok_std_not_special in S. unfold special in S. rewrite E1, E2, E3 in S. discriminate. }
  assert (NS : special T f = false) by (unfold special; now rewrite E1, E2, E3).
  rewrite (proj2 WS) in H.
  destruct Dom as [(n & Hn & [Sp|Dd])|[(Hn0 & -> & -> & -> & _)|(-> & -> & S)]].
  - congruence.
  - subst default. rewrite Hn in H. destruct automatic.
    + replace (with_name s (Some n)) with s in H by (destruct s; cbn in *; now subst).
      rewrite Hn in H.
      apply (NAMED false (slot_of false 1) n Hn); [reflexivity|reflexivity|exact H].
    + apply (NAMED true (slot_of true 0) n Hn); [reflexivity|reflexivity|exact H].
  - (* B: generated name *)
    cbn [final_style] in s. subst s. rewrite Hn0 in H.
    destruct (set_automatic_name T false st f) as [nm|] eqn:SA; [|discriminate].
    destruct (fresh_auto_name T st f nm SA) as (tg & k & Ht' & -> & Fresh).
    rewrite (proj2 WS) in Ht'. inversion Ht'; subst tg.
    destruct (delete_then_append st (slot_of false 1) None (with_name s0 (Some (NAuto k)))) as [st2| |] eqn:D; try discriminate.
    inversion H; subst st2 ret; clear H. cbn [ename with_name].
    set (s1 := with_name s0 (Some (NAuto k))).
    assert (WS1 : wf_style T s1 f) by (split; [exact (proj1 WS)|exact (proj2 WS)]).
    assert (NF : slots_find st (part_slots T false f) (match_named T f (etag s0) (NAuto k)) = None).
    { apply slots_find_none_intro. intros c e Hc He.
      destruct (match_named T f (etag s0) (NAuto k) e) eqn:M; [|reflexivity]. exfalso.
      apply match_named_family in M as [Mf Mn]. apply (Fresh e); [|exact Mn].
      unfold family_entries. apply in_flat_map. exists c. split; [unfold auto_scope; apply in_or_app; now left|].
      unfold slot_list in He. destruct (get_slot st c); [|destruct He]. apply filter_In. auto. }
    rewrite <- NF in D. apply dta_replace in D.
    apply (CLOSE false (slot_of false 1) (match_named T f (etag s0) (NAuto k)) s1);
      [reflexivity|reflexivity| | |exact (proj1 WS)|reflexivity| |exact D|reflexivity].
    + unfold keyed, s1. cbn [ename with_name]. apply orb_true_r.
    + unfold wf_entry, s1. cbn [etag with_name]. apply negb_true_iff in Hd. now rewrite Hd.
    + intros e We. apply (match_named_same_key T s1 f (NAuto k) e WT WS1 eq_refl We).
  - (* C: default style of a standard family *)
    pose proof (std_tag T f WT S) as Tg. rewrite (proj2 WS) in Tg. inversion Tg as [Tg'].
    assert (Ef : efam s = Some f).
    { pose proof (proj1 WS) as F. unfold entry_family in F. rewrite Tg' in F.
      destruct (zassoc (t_style T) (false_rev T)) eqn:Z; [exfalso; eapply false_rev_not_style; eauto|exact F]. }
    set (s1 := with_name (with_tag s (t_default T)) None).
    assert (H' : match part_get_style T st true f None with
                 | Err => Crashed
                 | Ok e => match delete_then_append st (slot_of true 0) e s1 with
                           | Done st'0 => Done (st'0, ename s1) | Rejected => Rejected | Crashed => Crashed end
                 end = Done (st', ret)).
    { destruct (ename s) as [n|] eqn:En; cbn [ename with_name with_tag] in *; [exact H|].
      replace s1 with (with_tag s (t_default T)); [exact H|]. unfold s1, with_name, with_tag. cbn. now rewrite En. }
    clear H. unfold part_get_style in H'. rewrite slots_get_style_default_find in H'.
    destruct (delete_then_append st (slot_of true 0) _ s1) as [st2| |] eqn:D; try discriminate.
    inversion H'; subst st2 ret; clear H'. apply dta_replace in D.
    assert (ND : entry_family T s1 = Some f).
    { unfold entry_family, s1. cbn [etag efam with_name with_tag].
      destruct (zassoc (t_default T) (false_rev T)) eqn:Z; [exfalso; eapply false_rev_not_default; eauto|exact Ef]. }
    apply (CLOSE true (slot_of true 0) (match_default T f) s1);
      [reflexivity|reflexivity| | |exact ND|exact Es| |exact D|reflexivity].
    + unfold keyed, s1. cbn [etag with_name with_tag]. now rewrite Z.eqb_refl.
    + unfold wf_entry, s1. cbn [ename with_name]. now rewrite andb_false_r.
    + intros e We. apply match_default_same_key; auto.
Qed.


(* ------------------------------------------------------------------ merge_styles_from *)
(* a proper style of the other document, in container sl: named with the tag of its family, or the default style of a
   standard family; it sits where its part looks its family up.  (Pseudo styles identified by draw:name - markers, fill
   images - and elements without a family are outside this theorem; the correspondence covers them.) *)
Definition mergeable_entry (sl : nat) (e : entry) : Prop :=
  keyed T e = true /\ wf_entry T e = true /\ negb (etag e =? t_fill_image T) = true /\
  exists f, entry_family T e = Some f /\ In sl (part_slots T (slot_in_styles_part sl) f) /\
    ((exists n, ename e = Some n /\ zassoc f (family_tag T) = Some (etag e))
     \/ (etag e = t_default T /\ ename e = None /\ is_std T f = true /\ efam e = Some f)).

Theorem merge_one_inv2 st sl e st' :
  Inv2 T st -> mergeable_entry sl e -> merge_one T false st sl e = Done st' ->
  Inv2 T st'
  /\ In e (slot_list st' sl)
  /\ (forall k x, In x (slot_list st' k) -> In x (slot_list st k) \/ (k = sl /\ x = e))
  /\ (forall k x, In x (slot_list st k) -> In x (slot_list st' k) \/ (same_key T x e = true /\ same_part k sl = true)).
Proof.
  intros I (Ke & We & Nf & f & Fe & Pl & Kind) H. pose proof tok_wf as WT.
  unfold merge_one in H. destruct (get_slot st sl) as [l0|] eqn:G0; [|discriminate].
  assert (ON : obj_name T e = ename e).
  { unfold obj_name. apply negb_true_iff in Nf. now rewrite Nf. }
  rewrite ON, Fe in H. cbn [negb] in H.
  assert (SHAPE : exists pat, (forall x, wf_entry T x = true -> pat x = same_key T x e) /\
                  replace st (part_slots T (slot_in_styles_part sl) f) sl pat e = Some st').
  { destruct Kind as [(n & Hn & Tg)|(Td & Hn & S & Ef)].
    - rewrite Hn in H. unfold part_get_style in H.
      rewrite (slots_get_style_named_find T st _ f (etag e) n Tg) in H.
      exists (match_named T f (etag e) n). split.
      + intros x Wx. apply (match_named_same_key T e f n x WT (conj Fe Tg) Hn Wx).
      + unfold replace. unfold removed.
        destruct (get_slot (match slots_find st _ _ with Some loc => remove_at st loc | None => st end) sl); [|discriminate].
        now inversion H.
    - rewrite Hn, Td, Z.eqb_refl in H. unfold part_get_style in H. rewrite slots_get_style_default_find in H.
      exists (match_default T f). split.
      + intros x Wx. now apply match_default_same_key.
      + unfold replace. unfold removed.
        destruct (get_slot (match slots_find st _ _ with Some loc => remove_at st loc | None => st end) sl); [|discriminate].
        now inversion H. }
  destruct SHAPE as (pat & Hpat & R).
  destruct (replace_inv T st _ _ _ pat e f st' I Hpat Ke We Fe eq_refl Pl (part_slots_part _ f) R) as (I' & M0 & M1 & M2 & _).
  split; [exact I'|]. split; [exact M0|]. split; [exact M1|].
  intros k x Hx. destruct (M2 k x Hx) as [A|[A B]]; [now left|right]. split; auto.
  unfold same_part. rewrite B. apply eqb_reflx.
Qed.

(* no two styles of the list with the same key in the same part *)
Inductive PW : list (nat * entry) -> Prop :=
| PW_nil : PW []
| PW_cons p l : (forall q, In q l -> same_part (fst p) (fst q) = true -> keyed T (snd p) = true -> same_key T (snd p) (snd q) = false) ->
                PW l -> PW (p :: l).

Lemma merge_list_union : forall todo st done self st',
  Inv2 T st -> Forall (fun p => mergeable_entry (fst p) (snd p)) todo -> PW todo ->
  Forall (fun p => keyed T (snd p) = true) done ->
  (forall p q, In p done -> In q todo -> same_part (fst p) (fst q) = true -> same_key T (snd p) (snd q) = false) ->
  (forall p, In p done -> In (snd p) (slot_list st (fst p))) ->
  (forall k x, In x (slot_list self k) -> In x (slot_list st k) \/
               exists p, In p done /\ same_part k (fst p) = true /\ same_key T x (snd p) = true) ->
  (forall k x, In x (slot_list st k) -> In x (slot_list self k) \/ In (k, x) done) ->
  merge_list T false st todo = Done st' ->
  Inv2 T st'
  /\ (forall p, In p (done ++ todo) -> In (snd p) (slot_list st' (fst p)))
  /\ (forall k x, In x (slot_list self k) -> In x (slot_list st' k) \/
                 exists p, In p (done ++ todo) /\ same_part k (fst p) = true /\ same_key T x (snd p) = true)
  /\ (forall k x, In x (slot_list st' k) -> In x (slot_list self k) \/ In (k, x) (done ++ todo)).
Proof.
  induction todo as [|[sl e] r IH]; intros st done self st' I FM PWt KD CR B C D H.
  - cbn in H. inversion H; subst. rewrite app_nil_r. split; [exact I|]. split; [exact B|]. split; [exact C|exact D].
  - cbn [merge_list] in H. destruct (merge_one T false st sl e) as [st1| |] eqn:M1; try discriminate.
    inversion FM as [|? ? Me FMr]; subst. inversion PWt as [|? ? Hd PWr]; subst. cbn [fst snd] in *.
    destruct (merge_one_inv2 st sl e st1 I Me M1) as (I1 & N0 & N1 & N2).
    assert (Ke : keyed T e = true) by (destruct Me; assumption).
    replace (done ++ (sl, e) :: r) with ((done ++ [(sl, e)]) ++ r) by (now rewrite <- app_assoc).
    apply (IH st1 (done ++ [(sl, e)]) self st'); auto.
    + apply Forall_app. split; auto.
    + intros p q Hp Hq SP. apply in_app_or in Hp as [Hp|[<-|[]]]; [apply CR; auto; now right|].
      cbn [fst snd] in *. now apply Hd.

    + intros p Hp. apply in_app_or in Hp as [Hp|[<-|[]]]; [|exact N0].
      destruct (N2 (fst p) (snd p) (B p Hp)) as [A|[A1 A2]]; [exact A|]. exfalso.
      pose proof (CR p (sl, e) Hp (or_introl eq_refl) A2) as F. cbn [snd] in F. congruence.
    + intros k x Hx. destruct (C k x Hx) as [A|(p & Hp & A1 & A2)].
      * destruct (N2 k x A) as [A'|[A1 A2]]; [now left|right]. exists (sl, e). split; [apply in_or_app; right; now left|auto].
      * right. exists p. split; [apply in_or_app; now left|auto].
    + intros k x Hx. destruct (N1 k x Hx) as [A|[-> ->]].
      * destruct (D k x A) as [A'|A']; [now left|right; apply in_or_app; now left].
      * right. apply in_or_app. right. now left.
Qed.

Theorem merge_union self other self' other' :
  Inv2 T self -> Forall (fun p => mergeable_entry (fst p) (snd p)) (all_styles T other) -> PW (all_styles T other) ->
  merge_styles_from T false self other = Done (self', other') ->
  other' = other
  /\ Inv2 T self'
  (* every definition of the other document is there, in its container *)
  /\ (forall sl e, In (sl, e) (all_styles T other) -> In e (slot_list self' sl))
  (* a style of this document stays unless the other document defines its key in the same part *)
  /\ (forall k x, In x (slot_list self k) -> In x (slot_list self' k) \/
                 exists sl e, In (sl, e) (all_styles T other) /\ same_part k sl = true /\ same_key T x e = true)
  (* and nothing else appears *)
  /\ (forall k x, In x (slot_list self' k) -> In x (slot_list self k) \/ In (k, x) (all_styles T other)).
Proof.
  intros I FM PWo H. unfold merge_styles_from in H.
  destruct (merge_list T false self (all_styles T other)) as [st'| |] eqn:ML; try discriminate.
  injection H as E1 E2. subst st'. split; [now symmetry|].
  destruct (merge_list_union (all_styles T other) self [] self self' I FM PWo (Forall_nil _)) as (I' & A & B & C).
  - intros p q [].
  - intros p [].
  - intros k x Hx. now left.
  - intros k x Hx. now left.
  - exact ML.
  - cbn [app] in *. split; [exact I'|]. split; [|split; [|exact C]].
    + intros sl e Hin. exact (A (sl, e) Hin).
    + intros k x Hx. destruct (B k x Hx) as [L|([sl e] & Hp & P1 & P2)]; [now left|right; eauto].
Qed.


(* the listed styles of a document satisfying the invariant are pairwise distinct by key within each part *)
Lemma PW_app l1 l2 : PW l1 -> PW l2 ->
  (forall p q, In p l1 -> In q l2 -> same_part (fst p) (fst q) = true -> keyed T (snd p) = true -> same_key T (snd p) (snd q) = false) ->
  PW (l1 ++ l2).
Proof.
  induction 1 as [|p l Hp Hl IH]; intros H2 X; [exact H2|]. cbn [app]. constructor.
  - intros q Hq. apply in_app_or in Hq as [Hq|Hq]; [now apply Hp|]. apply X; [now left|exact Hq].
  - apply IH; auto. intros a b Ha. apply X. now right.
Qed.
Lemma PW_slot k l : uniq_list T l = true -> PW (map (fun e => (k, e)) l).
Proof.
  induction l as [|e r IH]; intros U; cbn [map]; [constructor|]. cbn [uniq_list] in U. apply andb_true_iff in U as [U1 U2].
  constructor; [|now apply IH]. intros q Hq _ Ke. cbn [snd] in *. rewrite Ke in U1. cbn in U1. apply negb_true_iff in U1.
  apply in_map_iff in Hq as (x & <- & Hx). cbn [snd].
  destruct (same_key T e x) eqn:S; [|reflexivity].
  assert (existsb (same_key T e) r = true) by (apply existsb_exists; eauto). congruence.
Qed.
Lemma all_styles_In st sl e : In (sl, e) (all_styles T st) -> In e (slot_list st sl).
Proof.
  unfold all_styles. rewrite in_flat_map. intros (k & _ & H). unfold slot_list.
  destruct (get_slot st k) as [l|] eqn:G; [|destruct H]. apply in_map_iff in H as (x & E & Hx). inversion E; subst.
  rewrite G. apply filter_In in Hx. tauto.
Qed.
Lemma PW_all_styles st : Inv2 T st -> PW (all_styles T st).
Proof.
  intros [U W X P]. unfold all_styles.
  assert (ND : NoDup all_slots) by (unfold all_slots; repeat constructor; cbn; intuition lia).
  induction all_slots as [|a r IH]; [constructor|]. cbn [flat_map]. inversion ND as [|? ? Na NDr]; subst.
  apply PW_app; [|now apply IH|].
  - destruct (get_slot st a) as [l|] eqn:G; [|constructor]. apply PW_slot. apply uniq_list_filter. eapply uniq_get_slot; eauto.
  - intros p q Hp Hq SP Kp.
    assert (Hp' : fst p = a /\ In (snd p) (slot_list st a)).
    { unfold slot_list. destruct (get_slot st a) as [l|]; [|destruct Hp]. apply in_map_iff in Hp as (x & <- & Hx).
      apply filter_In in Hx. cbn. tauto. }
    assert (Hq' : In (fst q) r /\ In (snd q) (slot_list st (fst q))).
    { apply in_flat_map in Hq as (k & Hk & Hq). unfold slot_list.
      destruct (get_slot st k) as [l|] eqn:G; [|destruct Hq]. apply in_map_iff in Hq as (x & <- & Hx).
      apply filter_In in Hx. cbn. rewrite G. tauto. }
    destruct Hp' as [<- Hp'], Hq' as [Hq1 Hq2].
    apply (X (fst p) (fst q)); auto. intros E. apply Na. now rewrite E.
Qed.

(* ------------------------------------------------------------------ the remaining operations *)
Lemma Inv2_sub st st' : Inv2 T st -> uniq T st' = true -> wf_store T st' = true ->
  (forall k x, In x (slot_list st' k) -> In x (slot_list st k)) -> Inv2 T st'.
Proof.
  intros [U W X P] U' W' Sub. constructor; auto.
  - intros k k' e e' Hk SP He He'. apply (X k k'); auto.
  - intros k e f He. apply P; auto.
Qed.

Lemma delete_styles_sub st : forall k x, In x (slot_list (fst (delete_styles T st)) k) -> In x (slot_list st k).
Proof.
  unfold delete_styles. generalize all_slots as sl. generalize 0 as cnt. intros cnt sl. revert st cnt.
  induction sl as [|s r IH]; intros st cnt k x H; cbn [fold_left fst] in H; [exact H|].
  destruct (get_slot st s) as [l|] eqn:G; cbn [fst snd] in H.
  - apply IH in H. destruct (Nat.eq_dec s k) as [->|Ne].
    + rewrite slot_list_set_same in H by (eapply get_slot_some_lt; eauto). apply filter_In in H as [H _].
      now rewrite (slot_list_some _ _ _ G).
    + now rewrite slot_list_set_other in H.
  - eapply IH; eauto.
Qed.
Theorem delete_styles_inv2 st : Inv2 T st -> Inv2 T (fst (delete_styles T st)).
Proof.
  intros I. destruct (delete_styles_inv T st (i_uniq T st I) (i_wf T st I)) as [U W].
  eapply Inv2_sub; eauto. apply delete_styles_sub.
Qed.

Lemma style_entry_family tg fa n d i : tg = t_style T -> entry_family T (mkE tg (Some fa) n d i) = Some fa.
Proof.
  intros ->. unfold entry_family. cbn [etag efam].
  destruct (zassoc (t_style T) (false_rev T)) eqn:Z; [exfalso; eapply false_rev_not_style; eauto using tok_wf|reflexivity].
Qed.
Lemma style_not_default : negb (t_style T =? t_default T) = true.
Proof.
  pose proof tok_wf as WT. unfold wf_tables in WT. rewrite !andb_true_iff in WT. destruct WT as (_ & H).
  now rewrite Z.eqb_sym.
Qed.

(* a proper style of a standard family f, named n: an in-domain insertion in every non-default mode *)
Lemma std_named_dom f n d i automatic : In f fams -> is_std T f = true ->
  insert_dom (mkE (t_style T) (Some f) (Some n) d i) None automatic false.
Proof.
  intros Hf S. exists f. cbn [final_style]. split; [exact Hf|]. split; [split|].
  - now apply style_entry_family.
  - cbn [etag]. apply std_tag; auto using tok_wf.
  - split; [cbn [etag]; exact style_not_default|]. left. exists n. cbn [ename]. auto.
Qed.

Theorem add_page_break_inv2 st n ok eid st' :
  Inv2 T st -> add_page_break_style T false st n ok eid = Done st' -> Inv2 T st'.
Proof.
  intros I H. unfold add_page_break_style in H. destruct ok as [[|]|]; try discriminate; [inversion H; subst; exact I|].
  destruct (insert_style T false st _ None false false) as [[st1 r]| |] eqn:E; try discriminate. inversion H; subst.
  destruct tok_par as (Hp & Sp & _).
  destruct (insert_inv2 st _ None false false st' r I (std_named_dom _ n None eid false Hp Sp) E) as (f & s' & _ & _ & _ & _ & _ & I' & _).
  exact I'.
Qed.

Lemma doc_get_style_named_entry st f tg n loc :
  zassoc f (family_tag T) = Some tg -> doc_get_style T st f (Some n) = Ok (Some loc) ->
  exists d, entry_at st loc = Some d /\ match_named T f tg n d = true.
Proof.
  intros Ht H. rewrite doc_get_style_slots, (slots_get_style_named_find T st _ f tg n Ht) in H.
  inversion H as [H']. destruct loc as [sl i]. apply slots_find_some in H' as (_ & l & d & G & Hd & Pd).
  exists d. split; [|exact Pd]. unfold entry_at. cbn [fst snd]. now rewrite G.
Qed.

Theorem set_table_displayed_inv2 d tidx e1 e2 d' :
  Inv2 T (sstore d) -> set_table_displayed T false d tidx e1 e2 = Done d' -> Inv2 T (sstore d').
Proof.
  intros I H. destruct tok_tab as (Ht & St & _). pose proof tok_wf as WT.
  unfold set_table_displayed in H. destruct (nth_error (stables d) tidx) as [sn|]; [|discriminate].
  destruct (doc_get_style T (sstore d) (f_table T) sn) as [found|] eqn:L; [|discriminate].
  cbn [orb] in H.
  (* whatever the first phase yields: a store satisfying the invariant and a proper table style to clone *)
  assert (PH : forall st1 orig,
             match match found with Some loc => entry_at (sstore d) loc | None => None end with
             | Some orig => if negb (etag orig =? t_default T) then Done (sstore d, orig) else
                   match insert_style T false (sstore d) (mkE (t_style T) (Some (f_table T)) (Some (unique_ta T (sstore d))) None e1) None true false with
                   | Done (st1, _) => Done (st1, mkE (t_style T) (Some (f_table T)) (Some (unique_ta T (sstore d))) None e1)
                   | Rejected => Rejected | Crashed => Crashed end
             | None =>
                   match insert_style T false (sstore d) (mkE (t_style T) (Some (f_table T)) (Some (unique_ta T (sstore d))) None e1) None true false with
                   | Done (st1, _) => Done (st1, mkE (t_style T) (Some (f_table T)) (Some (unique_ta T (sstore d))) None e1)
                   | Rejected => Rejected | Crashed => Crashed end
             end = Done (st1, orig) -> Inv2 T st1 /\ etag orig = t_style T /\ efam orig = Some (f_table T)).
  { intros st1 orig P.
    assert (CREATE : match insert_style T false (sstore d) (mkE (t_style T) (Some (f_table T)) (Some (unique_ta T (sstore d))) None e1) None true false with
                     | Done (st1, _) => Done (st1, mkE (t_style T) (Some (f_table T)) (Some (unique_ta T (sstore d))) None e1)
                     | Rejected => Rejected | Crashed => Crashed end = Done (st1, orig) ->
                     Inv2 T st1 /\ etag orig = t_style T /\ efam orig = Some (f_table T)).
    { intros C. destruct (insert_style T false (sstore d) _ None true false) as [[st2 r]| |] eqn:E; try discriminate.
      inversion C; subst st2 orig.
      destruct (insert_inv2 (sstore d) _ None true false st1 r I (std_named_dom _ _ None e1 true Ht St) E) as (f & s' & _ & _ & _ & _ & _ & I' & _).
      auto. }
    destruct found as [loc|]; [|now apply CREATE].
    destruct (entry_at (sstore d) loc) as [o|] eqn:EA; [|now apply CREATE].
    destruct (negb (etag o =? t_default T)) eqn:ND; [|now apply CREATE].
    inversion P; subst st1 orig. split; [exact I|].
    destruct sn as [n|].
    - destruct (doc_get_style_named_entry (sstore d) (f_table T) (t_style T) n loc (std_tag T _ WT St) L) as (d0 & E0 & M).
      rewrite EA in E0. inversion E0; subst d0. unfold match_named in M. rewrite !andb_true_iff in M.
      destruct M as ((M1 & M2) & _). apply negb_true_iff in ND. rewrite ND, andb_false_r, orb_false_r in M1.
      apply Z.eqb_eq in M1. unfold fam_ok in M2. rewrite St in M2. apply opt_Z_eq in M2. auto.
    - (* default lookup: the entry found is a default style *)
      exfalso. rewrite doc_get_style_slots, slots_get_style_default_find in L. inversion L as [L'].
      destruct loc as [sl i]. apply slots_find_some in L' as (_ & l & d0 & G & Hd & Pd).
      unfold entry_at in EA. cbn [fst snd] in EA. rewrite G, Hd in EA. inversion EA; subst d0.
      unfold match_default in Pd. apply andb_true_iff in Pd as [Pd _]. apply negb_true_iff in ND. congruence. }
  match type of H with match ?X with _ => _ end = _ => destruct X as [[st1 orig]| |] eqn:P1; try discriminate end.
  destruct (PH st1 orig eq_refl) as (I1 & To & Fo).
  destruct (insert_style T false st1 _ None true false) as [[st2 r]| |] eqn:E; try discriminate.
  inversion H; subst d'. cbn [sstore].
  rewrite To, Fo in E.
  destruct (insert_inv2 st1 _ None true false st2 r I1 (std_named_dom _ _ _ e2 true Ht St) E) as (f & s' & _ & _ & _ & _ & _ & I' & _).
  exact I'.
Qed.


(* ------------------------------------------------------------------ found again *)
Lemma found_in_part st p f s n c :
  Inv2 T st -> wf_style T s f -> ename s = Some n -> wf_entry T s = true ->
  In s (slot_list st c) -> In c (part_slots T p f) ->
  exists i, slots_find st (part_slots T p f) (match_named T f (etag s) n) = Some (c, i)
            /\ entry_at st (c, i) = Some s.
Proof.
  intros I WS Hn We Hs Hc. pose proof tok_wf as WT. destruct I as [U W X P].
  assert (Ks : keyed T s = true) by (unfold keyed; rewrite Hn; apply orb_true_r).
  assert (Ms : match_named T f (etag s) n s = true).
  { rewrite (match_named_same_key T s f n s WT WS Hn We). apply same_key_spec. auto. }
  destruct (slots_find st (part_slots T p f) (match_named T f (etag s) n)) as [[sl i]|] eqn:F.
  - pose proof F as F'. apply slots_find_some in F' as (Hsl & l & d & G & Hd & Pd).
    assert (Wd : wf_entry T d = true).
    { apply (wf_slot_list T st sl); auto. rewrite (slot_list_some _ _ _ G). eapply nth_error_In; eauto. }
    assert (Sd : same_key T d s = true) by (rewrite <- (match_named_same_key T s f n d WT WS Hn Wd); exact Pd).
    assert (Kd : keyed T d = true) by (eapply keyed_same_key; [exact Ks|now apply same_key_symm]).
    destruct (Nat.eq_dec sl c) as [->|Ne].
    + rewrite (slot_list_some _ _ _ G) in Hs. apply In_nth_error in Hs as [j Hj].
      destruct (Nat.eq_dec i j) as [->|Nij].
      * exists j. split; [reflexivity|]. unfold entry_at. cbn [fst snd]. now rewrite G.
      * exfalso. pose proof (uniq_list_distinct T l i j d s (uniq_get_slot T _ _ _ U G) Nij Hd Hj Kd). congruence.
    + exfalso.
      assert (SP : same_part sl c = true).
      { unfold same_part. rewrite (part_slots_part _ _ _ Hsl), (part_slots_part _ _ _ Hc). apply eqb_reflx. }
      assert (Hd' : In d (slot_list st sl)) by (rewrite (slot_list_some _ _ _ G); eapply nth_error_In; eauto).
      pose proof (X sl c d s Ne SP Hd' Hs Kd). congruence.
  - exfalso. pose proof (slots_find_none st _ _ F c s Hc Hs). congruence.
Qed.

(* Document.get_style returns exactly the style s of the store under its name: always for a style of content.xml;
   for a style of styles.xml provided content.xml holds no style with that key (else the lookup stops there: F96) *)
Theorem found_doc st f s n c :
  Inv2 T st -> wf_style T s f -> ename s = Some n -> wf_entry T s = true ->
  In s (slot_list st c) -> In c (part_slots T (slot_in_styles_part c) f) ->
  (slot_in_styles_part c = true ->
   forall k e, In k (part_slots T false f) -> In e (slot_list st k) -> match_named T f (etag s) n e = false) ->
  exists i, doc_get_style T st f (Some n) = Ok (Some (c, i)) /\ entry_at st (c, i) = Some s.
Proof.
  intros I WS Hn We Hs Hc NoShadow.
  destruct (found_in_part st _ f s n c I WS Hn We Hs Hc) as (i & F & E).
  exists i. split; [|exact E]. unfold doc_get_style, part_get_style.
  rewrite !(slots_get_style_named_find T st _ f (etag s) n (proj2 WS)).
  destruct (slot_in_styles_part c) eqn:Pc.
  - rewrite (slots_find_none_intro st _ _ (NoShadow eq_refl)). now rewrite F.
  - now rewrite F.
Qed.

End Ops.
