(* Property C19 — statements only.  Each is closed by [exact] of a lemma proved elsewhere. *)
From Coq Require Import List ZArith Bool. Import ListNotations.
Require Import Coord Coordproof1.
Open Scope Z_scope.

(* column letters and column numbers are a bijection (no bound); the while loop of digit_to_alpha terminates *)
Theorem C19_alpha_digit : forall n, 0 <= n ->
  exists s, digit_to_alpha n = Some s /\ alpha_to_digit s = Some n /\ s <> [] /\ Forall (fun c => 65 <= c <= 90) s.
Proof. exact alpha_digit_lemma. Qed.
Print Assumptions C19_alpha_digit.

Theorem C19_digit_alpha : forall s, isalpha s = true ->
  exists d, alpha_to_digit s = Some d /\ 0 <= d /\ digit_to_alpha d = Some (map upper s).
Proof. exact digit_alpha_lemma. Qed.
Print Assumptions C19_digit_alpha.
Example C19_digit_alpha_ex : isalpha [97; 90; 99] = true /\ alpha_to_digit [97; 90; 99] = Some 1354 /\ digit_to_alpha 1354 = Some [65; 90; 67].
Proof. vm_compute. auto. Qed.

(* negative numbers count from the current end; the while loop of increment terminates *)
Theorem C19_increment_spec : forall v step, 0 <= step ->
  increment v step = Some (if v <? 0 then (if step =? 0 then 0 else v mod step) else v).
Proof. exact increment_spec_lemma. Qed.
Print Assumptions C19_increment_spec.

Theorem C19_increment_from_end : forall v len, 0 < len -> - len <= v < 0 -> increment v len = Some (len + v).
Proof. exact increment_from_end_lemma. Qed.
Print Assumptions C19_increment_from_end.
Example C19_increment_ex : increment (-2) 5 = Some 3 /\ increment (-7) 5 = Some 3 /\ increment (-1) 0 = Some 0.
Proof. vm_compute. auto. Qed.
