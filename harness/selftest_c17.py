"""Self-test of the C17 check (not a registered check): applies seeded mutations, one at a time, to the scratch
implementation selected by $ODFDO_REPO (which must already carry fixes F21, F22, F121, F122), runs ./check C17 --quick,
expects VIOLATION with a concrete replay and that --replay reproduces it; behaviour-preserving rewrites must stay silent.
Usage: ODFDO_REPO=/root/scratch/c17 python harness/selftest_c17.py [name ...]   (results: .work/selftest_c17.json)"""
import json, os, subprocess, sys, time
from pathlib import Path
ROOT = Path(__file__).resolve().parent.parent
REPO = Path(os.environ['ODFDO_REPO'])
assert str(REPO) != '/repo'
TB, RW, CE = 'src/odfdo/table.py', 'src/odfdo/row.py', 'src/odfdo/cell.py'

MUT = [
    # (name, expect violation?, what, [(file, old, new)])
    ('transpose_cells_reversed', True, 'transpose writes row_cells reversed (Appendix C)',
     [(TB, '                row = Row()\n                row.extend_cells(row_cells)\n                self.append_row(row, clone=False)',
       '                row = Row()\n                row.extend_cells(list(row_cells)[::-1])\n                self.append_row(row, clone=False)')]),
    ('rstrip_stops_one_row_early', True, 'rstrip keeps the last of the empty rows at the end (Appendix C)',
     [(TB, '        for row in reversed(self._get_rows()):\n            if row.is_empty(aggressive=aggressive):\n                row.parent.delete(row)  # type: ignore\n            else:\n                break\n        # Step 2',
       '        all_rows = self._get_rows()\n        for pos in range(len(all_rows) - 1, 0, -1):\n            row = all_rows[pos]\n            if row.is_empty(aggressive=aggressive) and all_rows[pos - 1].is_empty(aggressive=aggressive):\n                row.parent.delete(row)  # type: ignore\n            else:\n                break\n        # Step 2')]),
    ('del_span_leaves_covered', True, 'del_span leaves the covered tag on the rows below the first (Appendix C)',
     [(TB, '        for row in cells[1:]:\n            for cell in row:\n                cell.tag = "table:table-cell"\n        # replace cells in table',
       '        # replace cells in table')]),
    ('traverse_range_keeps_repeated', True, 'Row.traverse(start,end) keeps `repeated` on its first cell when start is the last cell of a repeated run: visible only when del_span / transpose(coord) write the cells back',
     [(RW, '                            if repeated > 1 or (x == start and start > 0):\n                                cell.repeated = None',
       '                            if repeated > 1:\n                                cell.repeated = None')]),
    ('rstrip_no_row_cache_reset', True, 'Table.rstrip without the reset of the cached row wrappers: visible only after an earlier cell-level read and a later read or write through the stale wrapper',
     [(TB, '            max_width = max(max_width, row.width)\n        # raz cache of rows\n        self._indexes["_tmap"] = {}\n', '            max_width = max(max_width, row.width)\n')]),
    ('optimize_counts_nontrailing_rows', True, 'optimize_width counts every empty row, not only those at the end',
     [(TB, '            if row.is_empty(aggressive=False):\n                count += 1\n            else:\n                break\n        if count > 0:',
       '            if row.is_empty(aggressive=False):\n                count += 1\n            else:\n                continue\n        if count > 0:')]),
    ('set_span_checks_first_row_only', True, 'set_span looks for an existing span in the first row of the area only',
     [(TB, '        for row in cells:\n            for cell in row:\n                if cell.is_spanned():', '        for row in cells[:1]:\n            for cell in row:\n                if cell.is_spanned():')]),
    ('set_span_columns_off_by_one', True, 'set_span writes number-columns-spanned = z - x',
     [(TB, '        cols = z - x + 1\n        cells[0][0].set_attribute("table:number-columns-spanned", str(cols))', '        cols = z - x\n        cells[0][0].set_attribute("table:number-columns-spanned", str(cols))')]),
    ('row_rstrip_ignores_aggressive', True, 'Row.rstrip always strips styled empty cells',
     [(RW, '            if not cell.is_empty(aggressive=aggressive):  # type: ignore\n                break\n            self.delete(cell)', '            if not cell.is_empty(aggressive=True):  # type: ignore\n                break\n            self.delete(cell)')]),
    ('is_empty_ignores_covered', True, 'Cell.is_empty does not look at spans: rstrip removes covered cells at the end of a row',
     [(CE, '        if self.value is not None or self.children or self.is_spanned():\n            return False', '        if self.value is not None or self.children:\n            return False')]),
    ('minimized_width_zero', True, 'Row.minimized_width counts an empty last run for zero: optimize_width cuts one cell too many (model layer)',
     [(RW, '            if cell is not None and cell.is_empty(aggressive=True):\n                repeated[-1] = 1', '            if cell is not None and cell.is_empty(aggressive=True):\n                repeated[-1] = 0')]),
    ('rstrip_columns_keep_one', True, 'rstrip trims the columns to max_width + 1',
     [(TB, '        diff = column_width - max_width\n        if diff > 0:', '        diff = column_width - max_width - 1\n        if diff > 0:')]),
    ('to_csv_none_as_text', True, 'to_csv writes None as the text "None"',
     [(TB, '                    if value is None:\n                        value = ""\n                    if isinstance(value, str):\n                        value = value.strip()\n                    line.append(value)\n                csv_writer.writerow(line)  # type: ignore\n\n        out = StringIO(newline="")',
       '                    if value is None:\n                        value = "None"\n                    if isinstance(value, str):\n                        value = value.strip()\n                    line.append(value)\n                csv_writer.writerow(line)  # type: ignore\n\n        out = StringIO(newline="")')]),
    ('transpose_keeps_row_wrapper_cache', True, 'transpose (repaired form: rows and columns deleted one by one) without the reset of the cached row wrappers: visible only after an earlier cell-level read and a later write through the stale wrapper',
     [(TB, '                element.parent.delete(element)\n            self._indexes["_tmap"] = {}\n            self._indexes["_cmap"] = {}\n', '                element.parent.delete(element)\n')]),
    ('merge_collects_bottom_up', True, 'set_span(merge=True) collects the values from the last row up: the concatenation order changes (visible only with two different values in different rows)',
     [(TB, '            val_list = []\n            for row in cells:\n                for cell in row:\n                    if cell.is_empty(aggressive=True):', '            val_list = []\n            for row in reversed(cells):\n                for cell in row:\n                    if cell.is_empty(aggressive=True):')]),
    ('transpose_area_no_blanking', True, 'transpose(coord) of a non-square area without clearing the source rectangle',
     [(TB, '            if w != h:\n                nones = [[None] * w for i in range(h)]', '            if False:\n                nones = [[None] * w for i in range(h)]')]),
    ('import_csv_no_type_guess', True, 'import_from_csv stores every field as a string',
     [(TB, '            cell = Cell(_get_python_value(value, encoding))\n', '            cell = Cell(value)\n')]),
    # behaviour-preserving rewrites
    ('rw_merge_chain', False, 'rewrite: the merge loop over itertools.chain.from_iterable(cells)',
     [(TB, '            for row in cells:\n                for cell in row:\n                    if cell.is_empty(aggressive=True):\n                        continue\n                    val = cell.get_value()\n                    if val is not None:\n                        if isinstance(val, str):\n                            val.strip()\n                        if val != "":\n                            val_list.append(val)\n                        cell.clear()\n',
       '            from itertools import chain\n            for cell in chain.from_iterable(cells):\n                if cell.is_empty(aggressive=True):\n                    continue\n                val = cell.get_value()\n                if val is None:\n                    continue\n                if val != "":\n                    val_list.append(val)\n                cell.clear()\n')]),
    ('rw_rstrip_while_loop', False, 'rewrite: rstrip step 1 as a while loop over the last row',
     [(TB, '        for row in reversed(self._get_rows()):\n            if row.is_empty(aggressive=aggressive):\n                row.parent.delete(row)  # type: ignore\n            else:\n                break\n        # Step 2',
       '        remaining = self._get_rows()\n        while remaining and remaining[-1].is_empty(aggressive=aggressive):\n            last = remaining.pop()\n            last.parent.delete(last)  # type: ignore\n        # Step 2')]),
    ('rw_set_span_comprehension', False, 'rewrite: set_span collects the cells with a comprehension and hoists the area size',
     [(TB, '        cells = []\n        for yy in range(y, t + 1):\n            row_cells = []\n            for xx in range(x, z + 1):\n                row_cells.append(\n                    self.get_cell((xx, yy), clone=True, keep_repeated=False)\n                )\n            cells.append(row_cells)\n',
       '        cells = [\n            [self.get_cell((xx, yy), clone=True, keep_repeated=False) for xx in range(x, z + 1)]\n            for yy in range(y, t + 1)\n        ]\n')]),
    ('rw_optimize_takewhile', False, 'rewrite: _optimize_width_trim_rows counts with sum over a generator that stops at the first non-empty row, renamed locals',
     [(TB, '        count = -1  # to keep one empty row\n        for row in reversed(self._get_rows()):\n            if row.is_empty(aggressive=False):\n                count += 1\n            else:\n                break\n        if count > 0:',
       '        from itertools import takewhile\n        trailing = takewhile(lambda r: r.is_empty(aggressive=False), reversed(self._get_rows()))\n        count = sum(1 for _ in trailing) - 1  # to keep one empty row\n        if count > 0:')]),
]


def check(*args):
    p = subprocess.run([str(ROOT / 'check'), 'C17'] + list(args), capture_output=True, text=True, env=dict(os.environ), timeout=1800)
    return p.returncode, p.stdout + p.stderr


def main():
    only = sys.argv[1:]
    out_path = ROOT / '.work' / 'selftest_c17.json'
    results = json.loads(out_path.read_text()) if out_path.exists() else {}
    for name, expect, what, edits in MUT:
        if only and name not in only:
            continue
        saved = {}
        try:
            for f, old, new in edits:
                p = REPO / f
                s = p.read_text()
                saved.setdefault(f, s)
                if old not in s:
                    raise SystemExit('mutation %s: pattern not found in %s' % (name, f))
                p.write_text(s.replace(old, new, 1))
            t0 = time.time()
            rc, out = check('--quick')
            lines = [l for l in out.splitlines() if l.startswith(('VIOLATION', 'KNOWN-FINDING', 'NOTE'))]
            viol = [l for l in lines if l.startswith('VIOLATION')]
            rec = dict(what=what, expect_violation=expect, exit=rc, lines=lines[:8], wall=round(time.time() - t0, 1))
            if viol:
                concrete = [l for l in viol if 'no-failing-input-found' not in l]
                rec['concrete_replay'] = bool(concrete)
                if concrete:
                    rp = concrete[0].split('replay=')[1].split()[0]
                    d = json.load(open(rp))
                    rec['replay'] = dict(key=d.get('key'), layer=str(d.get('layer'))[:140],
                                         init=(d['case']['init_xml'][:300] if d.get('case') else d.get('csv_case', '')[:300]),
                                         steps=[[s.get('reads'), s['op']] for s in d['case']['steps']] if d.get('case') else 'csv round trip')
                    rc2, out2 = check('--replay', rp)
                    rec['replay_reproduces'] = (rc2 == 1 and 'VIOLATION' in out2)
            rec['ok'] = (bool(viol) and rec.get('concrete_replay', False) and rec.get('replay_reproduces', False)) if expect else (rc == 0 and not viol)
            results[name] = rec
            print(name, 'OK' if rec['ok'] else 'FAILED', json.dumps(rec)[:600], flush=True)
        finally:
            for f, s in saved.items():
                (REPO / f).write_text(s)
        out_path.write_text(json.dumps(results, indent=1))


if __name__ == '__main__':
    main()
