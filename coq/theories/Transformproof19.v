(* Transformproof19.v — round 2: del_span law, merge law and transpose(coord) law transported to the run-length model;
   the CSV value theorem with the csv module replaced by the validated dialect model of Csv.v. *)
From Coq Require Import List ZArith NArith Lia Bool Arith.
Import ListNotations.
Require Import Vault Vaultproof Row Table Grid Tableabs Tableproof Transform Transformspec Transformproof6 Transformproof7
               Transformproof8 Transformproof10 Transformproof12 Transformproof14 Transformproof16 Transformproof17 Transformproof18
               Transformchk Csv Csvproof.
Open Scope Z_scope.

Section Round2.
Variable a : calg.

Theorem del_span_law_model x y st st' r : WF st -> 0 <= x -> 0 <= y ->
  alg_ok_for a (XDelSpan x y) (abs_t st) = true -> t_del_span a x y st = Some (st', r) ->
  del_span_law a x y r (abs_t st) (abs_t st') = true /\ WF st'.
Proof.
  intros Hwf Hx Hy Halg H. pose proof (del_span_refines a x y st Hwf Hx Hy) as Hr.
  destruct (g_del_span a x y (abs_t st)) as [[g' r']|] eqn:Eg; [|congruence].
  destruct Hr as (st1 & H1 & Hwf1 & Habs). rewrite H1 in H. injection H as <- <-.
  split; [|exact Hwf1]. rewrite Habs. apply (g_del_span_law a x y (abs_t st) g' r' Hx Hy Halg Eg).
Qed.

(* merge=True: the first cell receives the join of the contributing contents taken row by row, left to right *)
Theorem set_span_merge_explicit_model x y z t st st' : WF st -> 0 <= x <= z -> 0 <= y <= t ->
  x_step a true st (XSetSpan x y z t true 0) = Some (st', true) ->
  forall i j, 0 <= i -> 0 <= j ->
  gcell i j (abs_t st') =
    let c := gcell i j (abs_t st) in
    if in_area x y z t i j then
      (if (i =? x) && (j =? y) then
         (if any_contrib a (g_area_cells x y z t (abs_t st))
          then (ca_add_span a (ca_join a (join_ids a (g_area_cells x y z t (abs_t st)))) (z - x + 1) (t - y + 1), 0)
          else (ca_add_span a (fst (merge_clear a c)) (z - x + 1) (t - y + 1), snd (merge_clear a c)))
       else cov a (merge_clear a c))
    else c.
Proof.
  intros Hwf Hx Hy H. cbn [x_step] in H. rewrite (area_cells_grid x y z t st Hwf ltac:(lia) ltac:(lia)) in H.
  destruct (set_span_model_grid a x y z t true _ st st' true Hwf ltac:(lia) ltac:(lia) H) as [_ Hg].
  apply (g_set_span_merge_explicit a x y z t _ (abs_t st) (abs_t st') Hx Hy Hg).
Qed.
Theorem set_span_merge_law_model x y z t st st' r : WF st -> 0 <= x <= z -> 0 <= y <= t ->
  alg_ok_for a (XSetSpan x y z t true 0) (abs_t st) = true ->
  x_step a true st (XSetSpan x y z t true 0) = Some (st', r) ->
  set_span_merge_law a x y z t r (abs_t st) (abs_t st') = true.
Proof.
  intros Hwf Hx Hy Halg H. cbn [x_step] in H. rewrite (area_cells_grid x y z t st Hwf ltac:(lia) ltac:(lia)) in H.
  destruct (set_span_model_grid a x y z t true _ st st' r Hwf ltac:(lia) ltac:(lia) H) as [_ Hg].
  apply (g_set_span_merge_law a x y z t (abs_t st) (abs_t st') r Hx Hy Halg Hg).
Qed.
End Round2.

(* transpose(coord), for an area inside the table *)
Theorem transpose_area_law_model x y z t st : WF st -> 0 <= x <= z -> z < twidth st -> 0 <= y <= t -> t < theight st ->
  exists st', t_transpose_area x y z t st = Some st' /\ WF st' /\
  forall i j, 0 <= i -> 0 <= j ->
  gcell i j (abs_t st') =
    if in_block x y (zip_longest empty_cell (g_area_read x y z t (abs_t st))) i j then gcell (x + (j - y)) (y + (i - x)) (abs_t st)
    else if negb (z - x + 1 =? t - y + 1) && in_area x y z t i j then empty_cell
    else gcell i j (abs_t st).
Proof.
  intros Hwf Hx Hz Hy Ht.
  destruct (transpose_area_refines x y z t st Hwf ltac:(lia) ltac:(lia)) as (st' & Hs & Hwf' & Habs).
  exists st'. split; [exact Hs|]. split; [exact Hwf'|]. intros i j Hi Hj. rewrite Habs.
  apply g_transpose_area_law; try assumption; try lia. rewrite gheight_abs. exact Ht.
Qed.
Theorem g_transpose_area_law_holds x y z t g : transpose_area_law x y z t g (g_transpose_area x y z t g) = true.
Proof.
  unfold transpose_area_law.
  destruct ((0 <=? x) && (x <=? z) && (z <? ncols g) && (0 <=? y) && (y <=? t) && (t <? gheight g)) eqn:E; [|reflexivity].
  repeat (apply andb_prop in E; let H := fresh "B" in destruct E as [E H]).
  apply Z.leb_le in E. apply Z.leb_le in B3. apply Z.ltb_lt in B2. apply Z.leb_le in B1. apply Z.leb_le in B0. apply Z.ltb_lt in B.
  unfold window. apply forallb_zrange. intros j Hj. apply forallb_zrange. intros i Hi.
  rewrite (g_transpose_area_law x y z t g) by lia. apply cell_eqb_refl.
Qed.

(* ---- CSV with the dialect model in place of the csv module ---- *)
Section CsvModel.
Variable V : Type.
Variable none : V.
Variable field_of : V -> field.
Variable pyval : field -> V.
Variable blank : field -> bool.
Theorem csv_values_through_model (m : list (list V)) :
  blank (field_of none) = true ->
  (forall r v, In r m -> In v r -> v = none \/ stable V field field_of pyval blank v) ->
  length (csv_import V field (list N) pyval blank rtext (csv_export V field (list N) field_of wtext m)) = length m /\
  forall x y, let v := vread V none m x y in
              let v' := vread V none (csv_import V field (list N) pyval blank rtext (csv_export V field (list N) field_of wtext m)) x y in
              (v <> none -> v' = v) /\ (v = none -> v' = none \/ v' = pyval (field_of none)).
Proof.
  intros Hb Hdom.
  apply (csv_roundtrip_values V field (list N) none field_of pyval blank wtext rtext (fun _ => True)
           (fun m0 _ => csv_model_roundtrip m0) m I Hb Hdom).
Qed.
End CsvModel.
