(* Tableproof.v — row mutators of the table against the grid specification:
   delete_row, append_row (with the first-row column declaration and _update_width), set_row (three branches). *)
From Coq Require Import List ZArith Lia Bool Arith.
Import ListNotations.
Require Import Vault Vaultproof Row Table Grid Tableabs.
Open Scope Z_scope.


Lemma map_firstn {A B} (f : A -> B) n l : map f (firstn n l) = firstn n (map f l).
Proof. revert n; induction l; intros [|n]; simpl; auto. now rewrite IHl. Qed.
Lemma map_skipn {A B} (f : A -> B) n l : map f (skipn n l) = skipn n (map f l).
Proof. revert n; induction l; intros [|n]; simpl; auto. Qed.

Lemma map_repeat' {A B} (f : A -> B) a n : map f (repeat a n) = repeat (f a) n.
Proof. induction n; simpl; congruence. Qed.

Lemma gheight_abs t : gheight (abs_t t) = theight t.
Proof. unfold gheight, abs_t, theight, width. cbn [grows]. now rewrite map_length. Qed.

Theorem delete_row_refines y t :
  twf t -> 0 <= y ->
  exists t', delete_row y t = Some t' /\ abs_t t' = g_delete_row y (abs_t t) /\ twf t'.
Proof.
  intros [Hr Hc] Hy. unfold delete_row, g_delete_row, l_delete. rewrite gheight_abs. unfold theight.
  destruct (Z.leb_spec (Z.of_nat (width (rows t))) y) as [H|H].
  - exists t. repeat split; auto.
  - destruct (delete_item_refines y (rows t) Hr ltac:(lia)) as (v' & Hd & He & Hw).
    rewrite Hd. eexists; split; [reflexivity|]. split.
    + unfold abs_t, twidth. cbn [rows cols]. f_equal.
      rewrite He, map_app, map_firstn, map_skipn. reflexivity.
    + split; assumption.
Qed.

(* width bookkeeping *)
Lemma width_app {A} (a b : list (nat * A)) : width (a ++ b) = (width a + width b)%nat.
Proof. unfold width. now rewrite expand_app, app_length. Qed.

Lemma update_width_spec w t :
  twidth (update_width w t) = Z.max (twidth t) w /\ rows (update_width w t) = rows t /\
  (wf (cols t) -> wf (cols (update_width w t))).
Proof.
  unfold update_width. destruct (Z.ltb_spec 0 (w - twidth t)) as [H|H].
  - unfold append_column, t_append_column, twidth in *. cbn [cols rows]. rewrite width_app.
    unfold width at 2. cbn [expand]. rewrite app_nil_r, repeat_length.
    repeat split; [lia|].
    intros Hw. apply Forall_app; split; [exact Hw|]. constructor; [cbn [fst]; lia|constructor].
  - repeat split; [lia|auto].
Qed.

Theorem append_row_refines rep r t :
  twf t -> (1 <= rep)%nat ->
  abs_t (append_row rep r t) = g_append_row rep (grow_of r) (abs_t t) /\ twf (append_row rep r t).
Proof.
  intros [Hr Hc] Hrep. unfold append_row.
  set (t1 := {| cols := cols t; rows := rows t ++ [(rep, r)] |}).
  set (t2 := match cols t1 with [] => _ | _ => t1 end).
  assert (Hrows2 : rows t2 = rows t ++ [(rep, r)]) by (unfold t2, t1; cbn [cols]; destruct (cols t); reflexivity).
  assert (Hw2 : twidth t2 = (if twidth t =? 0 then Z.max 1 (roww r) else twidth t) /\ wf (cols t2)).
  { unfold t2, t1. cbn [cols]. destruct (cols t) as [|c cs] eqn:E.
    - unfold twidth. cbn [cols]. rewrite E. unfold width. cbn [expand length].
      rewrite app_nil_r, repeat_length. split. { cbn [Z.of_nat Z.eqb]. unfold roww, rwidth. lia. } constructor; [cbn [fst]; lia|constructor].
    - cbn [cols]. unfold twidth. rewrite E. split; [|exact Hc].
      assert (1 <= width (c :: cs))%nat.
      { unfold width. destruct c as [n a]. cbn [expand]. rewrite app_length, repeat_length.
        inversion Hc; subst. cbn [fst] in *. lia. }
      destruct (Z.eqb_spec (Z.of_nat (width (c :: cs))) 0); [lia|reflexivity]. }
  destruct Hw2 as [Hw2 Hc2].
  destruct (update_width_spec (roww r) t2) as (Hw & Hro & Hcw).
  split.
  - unfold abs_t, g_append_row, g_declare. cbn [ncols grows]. f_equal.
    + rewrite Hw, Hw2. unfold roww, rwidth, grow_of, width. lia.
    + rewrite Hro, Hrows2, expand_app, map_app. cbn [expand]. rewrite app_nil_r, map_repeat'. reflexivity.
  - split; [rewrite Hro, Hrows2; apply Forall_app; split; [exact Hr|constructor; [cbn [fst]; lia|constructor]] | apply Hcw, Hc2].
Qed.

Lemma abs_update_width w t : abs_t (update_width w t) = {| ncols := Z.max (twidth t) w; grows := grows (abs_t t) |}.
Proof.
  destruct (update_width_spec w t) as (H1 & H2 & _). unfold abs_t. rewrite H1, H2. reflexivity.
Qed.

Lemma declare_absorbs w g : 0 <= w -> ncols (g_declare w g) = Z.max (ncols (g_declare w g)) w.
Proof. intros. unfold g_declare. cbn [ncols]. lia. Qed.

Theorem set_row_refines y rep r t :
  twf t -> 0 <= y -> (1 <= rep)%nat ->
  exists t', set_row y rep r t = Some t' /\ abs_t t' = g_set_row y rep (grow_of r) (abs_t t) /\ twf t'.
Proof.
  intros [Hr Hc] Hy Hrep. unfold set_row.
  assert (Hgl : Z.of_nat (length (grow_of r)) = roww r) by (unfold roww, rwidth, grow_of, width; reflexivity).
  destruct (Z.eqb_spec (y - theight t) 0) as [E0|E0].
  - (* y = height: append *)
    destruct (append_row_refines rep r t (conj Hr Hc) Hrep) as [Ha Hw].
    eexists; split; [reflexivity|]. split.
    + rewrite abs_update_width. unfold twidth at 1.
      change (Z.of_nat (width (cols (append_row rep r t)))) with (ncols (abs_t (append_row rep r t))).
      rewrite Ha. unfold g_append_row, g_set_row.
      replace (y <? gheight (abs_t t)) with false
        by (symmetry; apply Z.ltb_ge; rewrite gheight_abs; unfold theight, width in *; lia).
      rewrite <- declare_absorbs by lia.
      unfold g_declare. cbn [ncols grows]. f_equal.
      unfold g_set_rows, g_pad_rows.
      assert (Hlen : Z.to_nat y = length (map grow_of (expand (rows t)))).
      { rewrite map_length. unfold theight, width in E0. lia. }
      rewrite Hlen, Nat.sub_diag. cbn [repeat]. rewrite app_nil_r, firstn_all.
      cbn [abs_t grows]. rewrite skipn_all2 by lia. now rewrite app_nil_r.
    + destruct (update_width_spec (roww r) (append_row rep r t)) as (_ & H2 & H3).
      destruct Hw as [Hw1 Hw2]. split; [rewrite H2; exact Hw1|apply H3; exact Hw2].
  - destruct (Z.ltb_spec 0 (y - theight t)) as [Egt|Ele].
    + (* beyond the end: pad with an empty repeated row, then append *)
      set (d := Z.to_nat (y - theight t)).
      destruct (append_row_refines d empty_row t (conj Hr Hc) ltac:(unfold d; lia)) as [Ha1 Hw1].
      destruct (append_row_refines rep r _ Hw1 Hrep) as [Ha2 Hw2].
      eexists; split; [reflexivity|]. split.
      * rewrite abs_update_width. unfold twidth at 1.
        change (Z.of_nat (width (cols (append_row rep r (append_row d empty_row t)))))
          with (ncols (abs_t (append_row rep r (append_row d empty_row t)))).
        rewrite Ha2, Ha1. unfold g_append_row, g_set_row.
        replace (y <? gheight (abs_t t)) with false
          by (symmetry; apply Z.ltb_ge; rewrite gheight_abs; unfold theight, width in *; lia).
        rewrite <- declare_absorbs by lia.
        unfold g_declare. cbn [ncols grows grow_of empty_row snd expand length]. f_equal.
        { assert (Hn0 : 0 <= ncols (abs_t t)) by (cbn [abs_t ncols]; unfold twidth; lia).
          assert (Hr0 : 0 <= roww r) by (unfold roww, rwidth; lia).
          rewrite ?Hgl. cbn [Z.of_nat].
          destruct (Z.eqb_spec (ncols (abs_t t)) 0) as [E|E].
          - replace (Z.max (Z.max 1 0) 0 =? 0) with false by reflexivity. lia.
          - destruct (Z.eqb_spec (Z.max (ncols (abs_t t)) 0) 0); lia. }
        { unfold g_set_rows, g_pad_rows.
          assert (Hh : length (map grow_of (expand (rows t))) = Z.to_nat (theight t)) by (rewrite map_length; unfold theight, width; lia).
          cbn [abs_t grows]. rewrite Hh.
          replace (Z.to_nat y - Z.to_nat (theight t))%nat with d by (unfold d, theight in *; lia).
          rewrite firstn_all2 by (rewrite app_length, repeat_length, Hh; unfold d, theight in *; lia).
          rewrite skipn_all2 by (rewrite Hh; unfold theight in *; lia). rewrite app_nil_r, <- app_assoc. reflexivity. }
      * destruct (update_width_spec (roww r) (append_row rep r (append_row d empty_row t))) as (_ & H2 & H3).
        destruct Hw2 as [Hx1 Hx2]. split; [rewrite H2; exact Hx1|apply H3; exact Hx2].
    + (* inside: the vault *)
      assert (Hin : 0 <= y < Z.of_nat (width (rows t))) by (unfold theight in *; lia).
      destruct (set_item_refines y (rep, r) (rows t) Hr Hin Hrep) as (v' & Hs & He & Hw).
      rewrite Hs. eexists; split; [reflexivity|]. split.
      * rewrite abs_update_width. unfold g_set_row.
        replace (y <? gheight (abs_t t)) with true
          by (symmetry; apply Z.ltb_lt; rewrite gheight_abs; unfold theight, width in *; lia).
        unfold g_grow, abs_t, twidth. cbn [ncols grows cols rows fst snd].
        f_equal.
        { rewrite He, !map_app, map_firstn, map_skipn, map_repeat'. cbn [fst snd].
          unfold g_set_rows, g_pad_rows. f_equal.
          rewrite firstn_app, firstn_all2 with (n := (Z.to_nat y - _)%nat) by (rewrite repeat_length; lia).
          assert (Hyl : (Z.to_nat y <= length (map grow_of (expand (rows t))))%nat) by (rewrite map_length; unfold width in Hin; lia).
          replace (Z.to_nat y - length (map grow_of (expand (rows t))))%nat with 0%nat by lia.
          cbn [repeat firstn]. now rewrite app_nil_r. }
      * destruct (update_width_spec (roww r) {| cols := cols t; rows := v' |}) as (_ & H2 & H3).
        split; [rewrite H2; exact Hw | apply H3; exact Hc].
Qed.
