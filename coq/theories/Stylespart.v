(* Part-level invariant of the style store and the one step every style operation reduces to:
   "look the key up in the containers of the part, remove the style found, append the new one to its container". *)
From Coq Require Import List ZArith Bool Arith Lia.
Require Import Styles Stylesproof.
Import ListNotations.
Open Scope Z_scope.

Definition slot_list (st : store) (k : nat) : list entry := match get_slot st k with Some l => l | None => [] end.
Definition same_part (k k' : nat) : bool := Bool.eqb (slot_in_styles_part k) (slot_in_styles_part k').

Lemma slot_list_set_same st k l : (k < length st)%nat -> slot_list (set_slot st k l) k = l.
Proof. intros H. unfold slot_list. now rewrite get_set_same. Qed.
Lemma slot_list_set_other st k k' l : k <> k' -> slot_list (set_slot st k l) k' = slot_list st k'.
Proof. intros H. unfold slot_list. now rewrite get_set_other. Qed.
Lemma slot_list_some st k l : get_slot st k = Some l -> slot_list st k = l.
Proof. unfold slot_list. now intros ->. Qed.

Lemma In_remove_nth_keep {A} (l : list A) i x d : In x l -> nth_error l i = Some d -> x <> d -> In x (remove_nth l i).
Proof.
  revert i; induction l as [|a r IH]; intros [|i] Hx Hd Hne; cbn in *; try tauto.
  - inversion Hd; subst. destruct Hx; [congruence|auto].
  - destruct Hx as [->|Hx]; [now left|right; eauto].
Qed.

Section Part.
Variable T : tables.

(* first match of a pattern over a list of containers *)
Fixpoint slots_find (st : store) (slots : list nat) (pat : entry -> bool) : option (nat * nat) :=
  match slots with
  | [] => None
  | s :: r => match get_slot st s with
              | None => slots_find st r pat
              | Some l => match find_idx pat l with Some i => Some (s, i) | None => slots_find st r pat end
              end
  end.
Lemma slots_find_none st slots pat : slots_find st slots pat = None ->
  forall s e, In s slots -> In e (slot_list st s) -> pat e = false.
Proof.
  induction slots as [|a r IH]; intros H s e Hs He; [destruct Hs|]. cbn in H. unfold slot_list in He.
  destruct Hs as [<-|Hs].
  - destruct (get_slot st a) as [l|]; [|destruct He]. destruct (find_idx pat l) eqn:F; [discriminate|].
    eapply find_idx_none; eauto.
  - destruct (get_slot st a) as [l|]; [destruct (find_idx pat l); [discriminate|]|]; eapply IH; eauto.
Qed.
Lemma slots_find_some st slots pat sl i : slots_find st slots pat = Some (sl, i) ->
  In sl slots /\ exists l d, get_slot st sl = Some l /\ nth_error l i = Some d /\ pat d = true.
Proof.
  induction slots as [|a r IH]; intros H; [discriminate|]. cbn in H.
  destruct (get_slot st a) as [l|] eqn:G.
  - destruct (find_idx pat l) as [j|] eqn:F.
    + inversion H; subst. split; [now left|]. apply find_idx_some in F as (x & Hx & Px & _). eauto.
    + destruct (IH H) as [H1 H2]. split; [now right|exact H2].
  - destruct (IH H) as [H1 H2]. split; [now right|exact H2].
Qed.
Lemma slots_get_style_named_find st slots f tg n : zassoc f (family_tag T) = Some tg ->
  slots_get_style T st slots f (Some n) = Ok (slots_find st slots (match_named T f tg n)).
Proof.
  intros Ht. induction slots as [|a r IH]; [reflexivity|]. cbn [slots_get_style slots_find].
  destruct (get_slot st a); [|exact IH]. unfold elem_get_style. rewrite Ht.
  destruct (find_idx _ l); [reflexivity|exact IH].
Qed.
Lemma slots_get_style_default_find st slots f :
  slots_get_style T st slots f None = Ok (slots_find st slots (match_default T f)).
Proof.
  induction slots as [|a r IH]; [reflexivity|]. cbn [slots_get_style slots_find].
  destruct (get_slot st a); [|exact IH]. unfold elem_get_style.
  destruct (find_idx _ l); [reflexivity|exact IH].
Qed.

(* ------------------------------------------------------------------ the invariant *)
Record Inv2 (st : store) : Prop := mkInv2 {
  i_uniq : uniq T st = true;                       (* no two styles with the same key in one container *)
  i_wf : wf_store T st = true;                     (* default styles carry no name *)
  i_cross : forall k k' e e', k <> k' -> same_part k k' = true -> In e (slot_list st k) -> In e' (slot_list st k') ->
            keyed T e = true -> same_key T e e' = false;      (* nor in two containers of one part *)
  i_placed : forall k e f, In e (slot_list st k) -> keyed T e = true -> entry_family T e = Some f ->
             In k (part_slots T (slot_in_styles_part k) f)    (* every style sits where its part looks its family up *)
}.

Lemma same_key_trans a b c : same_key T a b = true -> same_key T b c = true -> same_key T a c = true.
Proof. rewrite !same_key_spec. intros (A1 & A2 & A3) (B1 & B2 & B3). repeat split; congruence. Qed.
Lemma same_key_symm a b : same_key T a b = true -> same_key T b a = true.
Proof. now rewrite same_key_sym. Qed.
Lemma uniq_slot_list st k : uniq T st = true -> uniq_list T (slot_list st k) = true.
Proof. intros U. unfold slot_list. destruct (get_slot st k) eqn:G; [eapply uniq_get_slot; eauto|reflexivity]. Qed.
Lemma wf_slot_list st k e : wf_store T st = true -> In e (slot_list st k) -> wf_entry T e = true.
Proof.
  intros W H. unfold slot_list in H. destruct (get_slot st k) eqn:G; [|destruct H].
  pose proof (wf_get_slot T _ _ _ W G) as F. rewrite forallb_forall in F. auto.
Qed.

(* removal of one entry *)
Lemma remove_at_slot_list st sl i k : slot_list (remove_at st (sl, i)) k =
  if Nat.eqb k sl then remove_nth (slot_list st sl) i else slot_list st k.
Proof.
  unfold remove_at. cbn [fst snd]. destruct (get_slot st sl) as [l|] eqn:G.
  - destruct (Nat.eqb k sl) eqn:E.
    + apply Nat.eqb_eq in E; subst. rewrite slot_list_set_same by (eapply get_slot_some_lt; eauto).
      now rewrite (slot_list_some _ _ _ G).
    + apply Nat.eqb_neq in E. apply slot_list_set_other. congruence.
  - destruct (Nat.eqb k sl) eqn:E; [|reflexivity]. apply Nat.eqb_eq in E; subst.
    unfold slot_list. rewrite G. now destruct i.
Qed.
Lemma remove_at_sub st loc k x : In x (slot_list (remove_at st loc) k) -> In x (slot_list st k).
Proof.
  destruct loc as [sl i]. rewrite remove_at_slot_list. destruct (Nat.eqb k sl) eqn:E; auto.
  apply Nat.eqb_eq in E; subst. apply remove_nth_In.
Qed.
Lemma uniq_remove_at st loc : uniq T st = true -> uniq T (remove_at st loc) = true.
Proof.
  intros U. unfold remove_at. destruct (get_slot st (fst loc)) eqn:G; auto.
  apply uniq_set_slot; auto. apply uniq_list_remove. eapply uniq_get_slot; eauto.
Qed.
Lemma wf_remove_at st loc : wf_store T st = true -> wf_store T (remove_at st loc) = true.
Proof.
  intros W. unfold remove_at. destruct (get_slot st (fst loc)) eqn:G; auto.
  apply wf_set_slot; auto. pose proof (wf_get_slot T _ _ _ W G) as F.
  apply forallb_forall. intros x Hx. rewrite forallb_forall in F. apply F. eapply remove_nth_In; eauto.
Qed.
Lemma remove_at_length st loc : length (remove_at st loc) = length st.
Proof. unfold remove_at. destruct (get_slot st (fst loc)); auto. apply set_slot_length. Qed.

(* ------------------------------------------------------------------ the step *)
(* [replace st slots c pat s]: look [pat] up over [slots], remove what is found, append [s] to container [c] *)
Definition removed (st : store) (ex : option (nat * nat)) : store :=
  match ex with Some loc => remove_at st loc | None => st end.
Definition replace (st : store) (slots : list nat) (c : nat) (pat : entry -> bool) (s : entry) : option store :=
  let st1 := removed st (slots_find st slots pat) in
  match get_slot st1 c with Some l1 => Some (set_slot st1 c (l1 ++ [s])) | None => None end.

Theorem replace_inv st p slots c pat s f st' :
  Inv2 st ->
  (forall e, wf_entry T e = true -> pat e = same_key T e s) ->
  keyed T s = true -> wf_entry T s = true -> entry_family T s = Some f ->
  slots = part_slots T p f -> In c slots ->
  (forall k, In k slots -> slot_in_styles_part k = p) ->
  replace st slots c pat s = Some st' ->
  Inv2 st'
  /\ In s (slot_list st' c)
  /\ (forall k x, In x (slot_list st' k) -> In x (slot_list st k) \/ (k = c /\ x = s))
  /\ (forall k x, In x (slot_list st k) -> In x (slot_list st' k) \/ (same_key T x s = true /\ slot_in_styles_part k = p))
  /\ (forall k, slot_in_styles_part k <> p -> slot_list st' k = slot_list st k).
Proof.
  intros I Hpat Ks Ws Fs Hslots Hc Hpart R.
  destruct I as [U W X P].
  unfold replace in R. set (ex := slots_find st slots pat) in *. set (st1 := removed st ex) in *.
  destruct (get_slot st1 c) as [l1|] eqn:G1; [|discriminate]. inversion R; subst st'; clear R.
  pose proof (get_slot_some_lt _ _ _ G1) as Lt.
  assert (Hc_part : slot_in_styles_part c = p) by (now apply Hpart).
  (* facts about st1 *)
  assert (Sub1 : forall k x, In x (slot_list st1 k) -> In x (slot_list st k)).
  { intros k x. unfold st1, removed. destruct ex; [apply remove_at_sub|auto]. }
  assert (U1 : uniq T st1 = true) by (unfold st1, removed; destruct ex; [now apply uniq_remove_at|exact U]).
  assert (W1 : wf_store T st1 = true) by (unfold st1, removed; destruct ex; [now apply wf_remove_at|exact W]).
  (* every entry with the key of s sits in a searched container *)
  assert (Vis : forall k x, In x (slot_list st k) -> slot_in_styles_part k = p -> same_key T x s = true -> In k slots).
  { intros k x Hx Hk Sx. pose proof Sx as Sx'. apply same_key_spec in Sx' as (_ & S2 & _).
    assert (Kx : keyed T x = true) by (eapply keyed_same_key; [exact Ks|now apply same_key_symm]).
    rewrite Fs in S2. specialize (P k x f Hx Kx S2). rewrite Hk in P. now rewrite Hslots. }
  (* no entry with the key of s survives in the part *)
  assert (Gone : forall k x, In x (slot_list st1 k) -> slot_in_styles_part k = p -> same_key T x s = false).
  { intros k x Hx Hk. destruct (same_key T x s) eqn:Sx; [|reflexivity]. exfalso.
    pose proof (Sub1 k x Hx) as Hx0. pose proof (Vis k x Hx0 Hk Sx) as Hks.
    assert (Px : pat x = true) by (rewrite Hpat; [exact Sx|eapply wf_slot_list; eauto]).
    assert (Kx : keyed T x = true) by (eapply keyed_same_key; [exact Ks|now apply same_key_symm]).
    destruct ex as [[sl i]|] eqn:Eex.
    - apply slots_find_some in Eex as (Hsl & l & d & Gl & Hd & Pd).
      assert (Sd : same_key T d s = true).
      { rewrite <- Hpat; [exact Pd|]. apply (wf_slot_list st sl); auto. rewrite (slot_list_some _ _ _ Gl). eapply nth_error_In; eauto. }
      assert (Kd : keyed T d = true) by (eapply keyed_same_key; [exact Ks|now apply same_key_symm]).
      assert (Sdx : same_key T d x = true) by (eapply same_key_trans; [exact Sd|now apply same_key_symm]).
      unfold st1, removed in Hx. rewrite remove_at_slot_list in Hx. destruct (Nat.eqb k sl) eqn:E.
      + apply Nat.eqb_eq in E; subst k. rewrite (slot_list_some _ _ _ Gl) in Hx.
        apply In_remove_nth in Hx as (j & Hj & Ej).
        pose proof (uniq_list_distinct T l i j d x (uniq_get_slot T _ _ _ U Gl) (fun H => Hj (eq_sym H)) Hd Ej Kd). congruence.
      + apply Nat.eqb_neq in E.
        assert (Hd' : In d (slot_list st sl)) by (rewrite (slot_list_some _ _ _ Gl); eapply nth_error_In; eauto).
        assert (SP : same_part sl k = true) by (unfold same_part; rewrite (Hpart sl Hsl), Hk; apply eqb_reflx).
        pose proof (X sl k d x (fun H => E (eq_sym H)) SP Hd' Hx Kd). congruence.
    - pose proof (slots_find_none st slots pat Eex k x Hks Hx0). congruence. }
  assert (L1 : slot_list st1 c = l1) by (now apply slot_list_some).
  (* the new store, slot by slot *)
  assert (SL : forall k, slot_list (set_slot st1 c (l1 ++ [s])) k = if Nat.eqb k c then l1 ++ [s] else slot_list st1 k).
  { intros k. destruct (Nat.eqb k c) eqn:E.
    - apply Nat.eqb_eq in E; subst k. now apply slot_list_set_same.
    - apply Nat.eqb_neq in E. apply slot_list_set_other. congruence. }
  assert (M1 : forall k x, In x (slot_list (set_slot st1 c (l1 ++ [s])) k) -> In x (slot_list st k) \/ (k = c /\ x = s)).
  { intros k x. rewrite SL. destruct (Nat.eqb k c) eqn:E.
    - apply Nat.eqb_eq in E; subst k. intros H. apply in_app_or in H as [H|[<-|[]]]; [left|now right].
      apply Sub1. now rewrite L1.
    - intros H. left. now apply Sub1. }
  split; [constructor|].
  - apply uniq_set_slot; auto. apply uniq_list_snoc; [rewrite <- L1; now apply uniq_slot_list|].
    intros e He _. apply (Gone c e); [now rewrite L1|exact Hc_part].
  - apply wf_set_slot; auto. rewrite forallb_app. cbn. rewrite Ws, andb_true_r.
    apply forallb_forall. intros e He. apply (wf_slot_list st1 c); auto. now rewrite L1.
  - (* cross *)
    intros k k' e e' Hkk SP He He' Ke.
    assert (Old : forall a b x y, a <> b -> same_part a b = true -> In x (slot_list st1 a) -> In y (slot_list st1 b) ->
                  keyed T x = true -> same_key T x y = false).
    { intros a b x y Hab SPab Hx Hy Kx. eapply (X a b); eauto. }
    rewrite SL in He, He'.
    destruct (Nat.eqb k c) eqn:E1; destruct (Nat.eqb k' c) eqn:E2.
    + apply Nat.eqb_eq in E1, E2. congruence.
    + apply Nat.eqb_eq in E1; subst k. apply in_app_or in He as [He|[<-|[]]].
      * eapply Old; eauto. now rewrite L1.
      * rewrite same_key_sym. apply (Gone k' e'); auto.
        unfold same_part in SP. apply eqb_prop in SP. congruence.
    + apply Nat.eqb_eq in E2; subst k'. apply in_app_or in He' as [He'|[<-|[]]].
      * eapply Old; eauto. now rewrite L1.
      * apply (Gone k e); auto. unfold same_part in SP. apply eqb_prop in SP. congruence.
    + eapply Old; eauto.
  - (* placed *)
    intros k e g He Ke Fe. destruct (M1 k e He) as [H|[-> ->]]; [eapply P; eauto|].
    rewrite Fs in Fe. inversion Fe; subst g. rewrite Hc_part, <- Hslots. exact Hc.
  - split; [rewrite SL, Nat.eqb_refl; apply in_or_app; right; now left|].
    split; [exact M1|]. split.
    + intros k x Hx. rewrite SL.
      assert (Keep : In x (slot_list st1 k) \/ (same_key T x s = true /\ slot_in_styles_part k = p)).
      { unfold st1, removed. destruct ex as [[sl i]|] eqn:Eex; [|now left].
        apply slots_find_some in Eex as (Hsl & l & d & Gl & Hd & Pd).
        rewrite remove_at_slot_list. destruct (Nat.eqb k sl) eqn:E; [|now left].
        apply Nat.eqb_eq in E; subst k. rewrite (slot_list_some _ _ _ Gl) in *.
        assert (Sd : same_key T d s = true).
        { rewrite <- Hpat; [exact Pd|]. apply (wf_slot_list st sl); auto. rewrite (slot_list_some _ _ _ Gl). eapply nth_error_In; eauto. }
        destruct (same_key T x s) eqn:Sx; [right; split; [reflexivity|now apply Hpart]|left].
        eapply In_remove_nth_keep; eauto. intros ->. congruence. }
      destruct Keep as [K|K]; [|now right]. left. destruct (Nat.eqb k c) eqn:E; [|exact K].
      apply Nat.eqb_eq in E; subst k. apply in_or_app. left. now rewrite <- L1.
    + intros k Hk. rewrite SL. destruct (Nat.eqb k c) eqn:E; [apply Nat.eqb_eq in E; congruence|].
      unfold st1, removed. destruct ex as [[sl i]|] eqn:Eex; [|reflexivity].
      apply slots_find_some in Eex as (Hsl & _). rewrite remove_at_slot_list.
      destruct (Nat.eqb k sl) eqn:E'; [|reflexivity]. apply Nat.eqb_eq in E'; subst. apply Hpart in Hsl. congruence.
Qed.

End Part.
