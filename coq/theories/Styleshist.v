(* Histories over the whole operation alphabet of C13 keep the part-level invariant [Inv2] (uniqueness of
   (tag class, family, name) per container and across the containers of a part, default styles unnamed, every style
   in a container its part searches for its family).  Parametric in the tables; [tables_ok] is discharged for the
   generated tables in C13.v by vm_compute. *)
From Coq Require Import List ZArith Bool Arith Lia.
Require Import Styles Stylesproof Stylespart Stylesops.
Import ListNotations.
Open Scope Z_scope.

Section Hist.
Variable T : tables.
Variable fams : list Z.
Hypothesis TOK : tables_ok T fams = true.

Inductive op :=
| OInsert (s0 : entry) (name_arg : option sname) (automatic default : bool)
| ODelete
| OMerge (other : store)
| OPageBreak (n : sname) (existing_ok : option bool) (eid_new : Z)
| OTable (tidx : nat) (eid_created eid_final : Z).

(* the other document of a merge satisfies the invariant itself and lists proper styles only *)
Definition in_domain (o : op) : Prop :=
  match o with
  | OInsert s0 na a d => insert_dom T fams s0 na a d
  | OMerge other => Inv2 T other /\ Forall (fun p => mergeable_entry T (fst p) (snd p)) (all_styles T other)
  | _ => True
  end.

(* a step that raises (Rejected / Crashed) leaves the document as it was *)
Definition step (d : sdoc) (o : op) : sdoc :=
  match o with
  | OInsert s0 na a df => match insert_style T false (sstore d) s0 na a df with
                          | Done (st', _) => mkS st' (stables d) | _ => d end
  | ODelete => mkS (fst (delete_styles T (sstore d))) (stables d)
  | OMerge other => match merge_styles_from T false (sstore d) other with
                    | Done (st', _) => mkS st' (stables d) | _ => d end
  | OPageBreak n ok eid => match add_page_break_style T false (sstore d) n ok eid with
                           | Done st' => mkS st' (stables d) | _ => d end
  | OTable tidx e1 e2 => match set_table_displayed T false d tidx e1 e2 with Done d' => d' | _ => d end
  end.

Theorem step_inv d o : Inv2 T (sstore d) -> in_domain o -> Inv2 T (sstore (step d o)).
Proof.
  intros I D. destruct o as [s0 na a df| |other|n ok eid|tidx e1 e2]; cbn [step in_domain] in *.
  - destruct (insert_style T false (sstore d) s0 na a df) as [[st' ret]| |] eqn:E; auto. cbn [sstore].
    destruct (insert_inv2 T fams TOK (sstore d) s0 na a df st' ret I D E) as (f & s' & _ & _ & _ & _ & _ & I' & _). exact I'.
  - cbn [sstore]. now apply (delete_styles_inv2 T).
  - destruct (merge_styles_from T false (sstore d) other) as [[st' o']| |] eqn:E; auto. cbn [sstore].
    destruct D as [Io Fo].
    destruct (merge_union T fams TOK (sstore d) other st' o' I Fo (PW_all_styles T other Io) E) as (_ & I' & _). exact I'.
  - destruct (add_page_break_style T false (sstore d) n ok eid) as [st'| |] eqn:E; auto. cbn [sstore].
    eapply (add_page_break_inv2 T fams TOK); eauto.
  - destruct (set_table_displayed T false d tidx e1 e2) as [d'| |] eqn:E; auto.
    eapply (set_table_displayed_inv2 T fams TOK); eauto.
Qed.

Theorem history_inv ops : forall d, Inv2 T (sstore d) -> Forall in_domain ops -> Inv2 T (sstore (fold_left step ops d)).
Proof.
  induction ops as [|o r IH]; intros d I F; [exact I|]. inversion F; subst. cbn [fold_left].
  apply IH; auto. now apply step_inv.
Qed.

(* the per-container statement of the property follows *)
Corollary history_uniq ops d : Inv2 T (sstore d) -> Forall in_domain ops -> uniq T (sstore (fold_left step ops d)) = true.
Proof. intros I F. exact (i_uniq T _ (history_inv ops d I F)). Qed.
End Hist.
