(* TableBproof6.v — layer B, part 6: the full statement of C02 over histories, the grid reached by a history, and the
   refuted statements: without the reset of the row-wrapper cache in insert_column / delete_column (F7, repaired) and with
   the pinned `repeated` setters of live handles (F8) coherence is lost and a live read differs from the fresh one. *)
From Coq Require Import List ZArith Lia Bool Arith.
Import ListNotations.
Require Import Vault Vaultproof Row Table Grid Tableabs Tableproof6 TableB TableBabs TableBproof TableBproof2 TableBproof3 TableBproof4 TableBproof5.
Open Scope Z_scope.

Theorem reads_after_history (b : bstate) (os : list bop) (q : bread) : Coh b -> Forall bop_ok os ->
  let b' := tB_run b os in
  Coh b' /\ snd (b_read b' q) = snd (b_read (reparse b') q) /\ proj (snd (b_read b' q)) = gb_read (abs_t (ax b')) q.
Proof.
  intros Hc Hok. cbv zeta. pose proof (coh_history os b Hc Hok) as Hc'. split; [exact Hc'|]. apply live_eq_fresh. exact Hc'.
Qed.

(* the grid a history of mutators and reads reaches is the grid history of C01 (reads leave it alone) *)
Definition gB_step (g : gridT) (o : bop) : gridT := match o with BMut m => g_step g m | _ => g end.
Definition no_live (o : bop) : Prop := match o with BLive _ => False | _ => True end.
Theorem grid_after_history os : forall b, Coh b -> Forall (fun o => bop_ok o /\ no_live o) os ->
  abs_t (ax (tB_run b os)) = fold_left gB_step os (abs_t (ax b)).
Proof.
  induction os as [|o os IH]; intros b Hc Hok; [reflexivity|].
  inversion Hok as [|? ? [Ho Hn] Hok']; subst. unfold tB_run in *. cbn [fold_left].
  rewrite IH; [|apply coh_step; assumption|assumption]. f_equal.
  destruct o as [m|q|l]; cbn [tB_step tB_step_gen gB_step bop_ok no_live] in *; [| |contradiction].
  - destruct (b_mut_spec b m Hc Ho) as (b' & Hb & Hs & _). fold (b_mut true b m). rewrite Hb. cbn [fst].
    destruct (step_refines (ax b) m (proj1 Hc) Ho) as (t' & Hs' & _ & Ha). rewrite Hs in Hs'. inversion Hs'; subst. exact Ha.
  - destruct (b_read_spec b q Hc) as (_ & Ha & _). now rewrite Ha.
Qed.

(* ---- refuted: the same steps WITHOUT the repairs ---- *)
Definition t_one : tstate := {| cols := [(1%nat, 0)]; rows := [(1%nat, (0, [(1%nat, (5, 0))]))] |}.
Definition b_cached : bstate := fst (tB_step (fresh t_one) (BRead (RGetRow 0 false))).
Lemma WF_t_one : WF t_one. Proof. apply WFb_WF. reflexivity. Qed.
Lemma Coh_b_cached : Coh b_cached.
Proof. apply coh_step; [apply Coh_fresh, WF_t_one|exact I]. Qed.

Lemma not_coh_of_cohb b : cohb b = false -> ~ Coh b.
Proof. intros H [_ Hm]. apply cohb_iff in Hm. congruence. Qed.

(* F7: a row wrapper cached by get_row(0, clone=False), then insert_column(0) without the cache reset *)
Theorem no_reset_refuted_w : exists b o, Coh b /\ bop_ok o /\ ~ Coh (fst (tB_step_gen false true b o)) /\
  exists q, snd (b_read (fst (tB_step_gen false true b o)) q) <> snd (b_read (reparse (fst (tB_step_gen false true b o))) q).
Proof.
  exists b_cached, (BMut (OInsertColumn 0 1%nat 0)). split; [exact Coh_b_cached|]. split; [cbn; lia|].
  split; [apply not_coh_of_cohb; vm_compute; reflexivity|].
  exists (RQ (QGetValue 1 0)). vm_compute. discriminate.
Qed.

(* F8: the pinned `repeated` setter of a live row (get_row(0, clone=False).repeated = 3): the table's _tmap stays *)
Theorem live_setter_pinned_refuted_w : exists b o, Coh b /\ bop_ok o /\ ~ Coh (fst (tB_step_gen true false b o)) /\
  exists q, snd (b_read (fst (tB_step_gen true false b o)) q) <> snd (b_read (reparse (fst (tB_step_gen true false b o))) q).
Proof.
  exists (fresh t_one), (BLive (LRowRep 0 3%nat)). split; [apply Coh_fresh, WF_t_one|]. split; [exact I|].
  split; [apply not_coh_of_cohb; vm_compute; reflexivity|].
  exists (RQ QSize). vm_compute. discriminate.
Qed.
(* ... and of a live cell (get_cell((0,0), clone=False).repeated = 2): the cached row wrapper keeps its _rmap *)
Theorem live_cell_setter_pinned_refuted_w : exists b o, Coh b /\ bop_ok o /\ ~ Coh (fst (tB_step_gen true false b o)).
Proof.
  exists (fresh t_one), (BLive (LCellRep 0 0 2%nat)). split; [apply Coh_fresh, WF_t_one|]. split; [exact I|].
  apply not_coh_of_cohb; vm_compute; reflexivity.
Qed.
