(* Histories of style operations keep the invariant (uniqueness by tag class + family + name per container, default
   styles unnamed).  Parametric in the tables; the three conditions on the tables are discharged for the generated
   tables in C13.v by vm_compute. *)
From Coq Require Import List ZArith Bool Arith Lia.
Require Import Styles Stylesproof.
Import ListNotations.
Open Scope Z_scope.

Section Hist.
Variable T : tables.
Variable fams : list Z.
Hypothesis HWT : wf_tables T = true.
Hypothesis HCP : forall f m, In f fams -> covers_part T f m = true.
Hypothesis HAUTO : forall f, In f fams -> special T f = false -> In (slot_of false 1) (part_slots T false f).

Inductive op :=
| OInsert (s0 : entry) (name_arg : option sname) (automatic default : bool)
| ODelete.

(* insertions the theorem speaks about: a style whose tag is the tag of its (known) family, not a default-style
   element; either it ends up named (and default=True only for master page / font face / page layout, where the flag
   is ignored), or it is an unnamed automatic style of an ordinary family *)
Definition insert_in_domain (s0 : entry) (name_arg : option sname) (automatic default : bool) : Prop :=
  let s := final_style s0 name_arg in
  exists f, In f fams /\ wf_style T s f /\ negb (etag s0 =? t_default T) = true /\
    ((exists n, ename s = Some n /\ (special T f = true \/ default = false))
     \/ (ename s0 = None /\ name_arg = None /\ automatic = true /\ default = false /\ special T f = false)).
Definition in_domain (o : op) : Prop :=
  match o with OInsert s0 na a d => insert_in_domain s0 na a d | ODelete => True end.

(* a step that raises (Rejected / Crashed) leaves the document as it was *)
Definition step (st : store) (o : op) : store :=
  match o with
  | OInsert s0 na a d => match insert_style T false st s0 na a d with Done (st', _) => st' | _ => st end
  | ODelete => fst (delete_styles T st)
  end.
Definition Inv (st : store) : Prop := uniq T st = true /\ wf_store T st = true.

Lemma wf_entry_final s0 na : negb (etag s0 =? t_default T) = true -> wf_entry T (final_style s0 na) = true.
Proof.
  intros H. unfold wf_entry. replace (etag (final_style s0 na)) with (etag s0) by (destruct na; reflexivity).
  apply negb_true_iff in H. now rewrite H.
Qed.

Theorem step_inv st o : Inv st -> in_domain o -> Inv (step st o).
Proof.
  intros [U W] D. destruct o as [s0 na a d|]; cbn [step in_domain] in *.
  - destruct (insert_style T false st s0 na a d) as [[st' ret]| |] eqn:I; try (split; assumption).
    destruct D as (f & Hf & WS & Hd & [(n & Hn & SD)|(Hn & -> & -> & -> & Sp)]).
    + destruct (insert_named_ok T st s0 na a d f n st' ret HWT WS Hn (wf_entry_final s0 na Hd) U W (HCP f _ Hf) SD I)
        as (_ & l' & _ & _ & _ & U' & W' & _). split; assumption.
    + cbn [final_style] in WS. destruct WS as [WS1 WS2].
      destruct (insert_auto_unnamed_ok T st s0 f st' ret HWT U W WS1 WS2 Hn Hd Sp (HAUTO f Hf Sp) I)
        as (k & _ & _ & l' & _ & _ & U' & W' & _). split; assumption.
  - destruct (delete_styles_inv T st U W). split; assumption.
Qed.

Theorem history_inv ops : forall st, Inv st -> Forall in_domain ops -> Inv (fold_left step ops st).
Proof.
  induction ops as [|o r IH]; intros st I F; [exact I|]. inversion F; subst. cbn [fold_left].
  apply IH; auto. now apply step_inv.
Qed.
End Hist.
