"""C08: table getters return correctly addressed, expanded, detached copies.

Theorems: coq/theories/C08.v (model TableG.v of the getters: every returned object = coordinates stamped on it, repeat it
carries, handle Live/Detached, content; specification TableGspec.v on the grid).  Correspondence: a table is brought into
some state by a short C01 history interleaved with cache-filling reads, then ONE getter of the property's list is called
with coordinates around the run boundaries of that state (in range, at the edge, beyond, negative, crossed ranges, string
forms).  Every returned object is recorded (x / y attributes, repeat attribute and content read from its own serialisation
by lxml), then MUTATED (style attribute, value, `repeated`, an appended cell) and the table and all other returned objects
are re-abstracted.  Coq (vm_compute, TableGchk.chk_c08) judges: right number and nesting, coordinates = addressed logical
position, content = content of that position on the expansion of the XML, no repeat when the read expands, a documented
copy never changes the table or a sibling, the read itself leaves the table alone; and runs the model for the exact result."""
import json, multiprocessing, random, sys, time
from pathlib import Path
from lxml import etree
sys.path.insert(0, str(Path(__file__).resolve().parent))
import common, tablelib as tl, layerb as lb

PROP = 'C08'
T = tl.T
LAYERS = {10: ('raised', 'the read raised on coordinates of the property\'s domain'),
          7: ('read-changed-table', 'the read itself changed the table (it must not grow it)'),
          1: ('count', 'wrong number or nesting of returned objects for the addressed area'),
          2: ('coordinates', 'a returned object does not carry the coordinates it was read from'),
          3: ('content', 'a returned object does not hold the content of the position it is stamped with'),
          4: ('repeat', 'a returned object keeps a repeat count although the read expands repetitions'),
          5: ('live', 'an object documented as a copy is live: mutating it changed the table'),
          6: ('sibling', 'mutating an object documented as a copy changed another returned object'),
          12: ('row-stored-narrower-than-area', 'get_cells(area): the answer is exactly the model\'s and correct in every other respect, but for rows stored narrower than the area the '
               'padding cells are missing, although the docstring promises "the exact number of cells of the area" (F30)')}
NOTES = {9: 'only the exact result (repeat kept by a non-expanding read, liveness of a clone=False handle) differs from the model'}
SOFT = {8: 'the model does not meet the specification (an instance of a C08 theorem fails)', 11: 'state outside the modelled fragment'}
TRUSTED = ['lxml parse/serialise (objects and table are abstracted from their own serialisation)',
           'the mutations performed on returned objects go through Element.set_attribute / Cell.set_value / the repeated setters / Row.append_cell of the implementation',
           'the grid specification Grid.v as the meaning of "the content of position (x, y)"']
MODELLED = ('table.py: get_cell get_row get_cells cells get_rows rows traverse _yield_odf_rows get_column get_columns columns traverse_columns get_column_cells; '
            'row.py: Row.get_cell Row.traverse Row.cells Row.get_cells; Element.clone / Row.clone / Cell.clone / Column.clone as "Detached"; the code as it is (F13 F32 F110 repaired, F30 = known finding). '
            'filtered getters (TableGf.v): get_cells(cell_type= style= content= flat=), get_rows(style= content=), get_columns(style=), get_column_cells(... complete=), Row.get_cells(...). NOT modelled: header rows / groups.')
KINDS = ['empty', 'prefilled', 'rle', 'rle', 'sample']
GETTERS = ['get_cell', 'get_cell', 'get_row', 'get_row', 'get_cells', 'get_cells', 'get_cells', 'cells', 'get_rows', 'rows', 'traverse', 'traverse',
           'get_column', 'get_columns', 'columns', 'traverse_columns', 'traverse_columns', 'get_column_cells',
           'row_get_cell', 'row_get_cell', 'row_traverse', 'row_traverse', 'row_cells', 'row_get_cells']


# ------------------------------------------------------------------ generation

def g_getter(rng, nodes):
    cols, rows = tl.shape_of(nodes)
    ry = [r for r, _ in rows]; cx = [r for r, _ in cols]
    H = sum(ry)
    py = lambda: tl.pick_pos(rng, ry)

    def px():
        # around the run boundaries of the columns or of the cells of a random row
        if rows and rng.random() < 0.5:
            return tl.pick_pos(rng, rng.choice(rows)[1])
        return tl.pick_pos(rng, cx)
    opt = lambda f: None if rng.random() < 0.25 else f()
    k = rng.choice(GETTERS)
    if k == 'get_cell': return [k, px(), py(), rng.random() < 0.7, rng.random() < 0.7]
    if k == 'get_row': return [k, py(), rng.random() < 0.7]
    if k == 'get_cells':
        if rng.random() < 0.15: return [k, None, 'tuple']
        a = [px(), py(), px(), py()]
        if rng.random() < 0.6: a = [min(a[0], a[2]), min(a[1], a[3]), max(a[0], a[2]), max(a[1], a[3])]
        return [k, a, 'str' if min(a) >= 0 and rng.random() < 0.3 else 'tuple']
    if k in ('cells', 'rows', 'columns'): return [k]
    if k == 'get_rows':
        if rng.random() < 0.15: return [k, None, 'tuple']
        a = sorted([py(), py()]) if rng.random() < 0.7 else [py(), py()]
        return [k, a, 'str' if min(a) >= 0 and rng.random() < 0.3 else 'tuple']
    if k == 'traverse': return [k, opt(py), opt(py)]
    if k == 'get_column': return [k, px()]
    if k == 'get_columns':
        if rng.random() < 0.15: return [k, None, 'tuple']
        a = sorted([px(), px()]) if rng.random() < 0.7 else [px(), px()]
        return [k, a, 'str' if min(a) >= 0 and rng.random() < 0.3 else 'tuple']
    if k == 'traverse_columns': return [k, opt(px), opt(px)]
    if k == 'get_column_cells': return [k, px()]
    y = py(); yy = y if 0 <= y < H else None
    cellreps = []
    if yy is not None:
        acc = 0
        for r, cs in rows:
            if acc <= yy < acc + r:
                cellreps = cs; break
            acc += r
    pxr = lambda: tl.pick_pos(rng, cellreps)
    rclone = rng.random() < 0.6
    if k == 'row_get_cell': return [k, y, rclone, pxr(), rng.random() < 0.6]
    if k == 'row_traverse': return [k, y, rclone, opt(pxr), opt(pxr)]
    if k == 'row_cells': return [k, y, rclone]
    a = sorted([pxr(), pxr()]) if rng.random() < 0.7 else [pxr(), pxr()]
    return ['row_get_cells', y, rclone, [max(0, a[0]), max(0, a[1])]]


FGETTERS = ['f_get_cells', 'f_get_cells', 'f_get_rows', 'f_get_columns', 'f_get_column_cells', 'f_row_get_cells']


def g_fgetter(rng, nodes):
    cols, rows = tl.shape_of(nodes)
    py = lambda: tl.pick_pos(rng, [r for r, _ in rows]); px = lambda: tl.pick_pos(rng, [r for r, _ in cols])
    flt = dict(cell_type=rng.choice([None, None, 'float', 'string', 'boolean', 'all']), style=rng.choice([None, None, 's1', 's2']),
               content=rng.choice([None, None, 'a', '^b$', '1', '[2-4]']))
    k = rng.choice(FGETTERS)
    if k == 'f_get_cells':
        a = None if rng.random() < 0.3 else [px(), py(), px(), py()]
        if a and rng.random() < 0.6: a = [min(a[0], a[2]), min(a[1], a[3]), max(a[0], a[2]), max(a[1], a[3])]
        return [k, a, rng.random() < 0.5, flt]
    if k == 'f_get_rows':
        flt = dict(style=rng.choice([None, 'rs', 'rs']), content=flt['content'])
        return [k, None if rng.random() < 0.3 else sorted([py(), py()]), flt]
    if k == 'f_get_columns':
        return [k, None if rng.random() < 0.3 else sorted([px(), px()]), dict(style=rng.choice([None, 'cs', 'cs']))]
    if k == 'f_get_column_cells':
        return [k, px(), rng.random() < 0.5, flt]
    a = None if rng.random() < 0.3 else sorted([max(0, px()), max(0, px())])
    return [k, py(), rng.random() < 0.6, a, flt]


def alpha(x):
    s = ''
    x += 1
    while x > 0:
        x, r = divmod(x - 1, 26)
        s = chr(65 + r) + s
    return s


def call_getter(table, g):
    """returns ('cells', [[obj]]) | ('flat', [obj])"""
    k = g[0]
    if k == 'get_cell': return 'cells', [[table.get_cell((g[1], g[2]), clone=g[3], keep_repeated=g[4])]]
    if k == 'get_row': return 'flat', [table.get_row(g[1], clone=g[2])]
    if k == 'get_cells':
        if g[1] is None: return 'cells', table.get_cells()
        a = g[1]
        coord = tuple(a) if g[2] == 'tuple' else '%s%d:%s%d' % (alpha(a[0]), a[1] + 1, alpha(a[2]), a[3] + 1)
        return 'cells', table.get_cells(coord)
    if k == 'cells': return 'cells', table.cells
    if k == 'get_rows':
        if g[1] is None: return 'flat', table.get_rows()
        a = g[1]
        return 'flat', table.get_rows(tuple(a) if g[2] == 'tuple' else '%d:%d' % (a[0] + 1, a[1] + 1))
    if k == 'rows': return 'flat', table.rows
    if k == 'traverse': return 'flat', list(table.traverse(start=g[1], end=g[2]))
    if k == 'get_column': return 'flat', [table.get_column(g[1])]
    if k == 'get_columns':
        if g[1] is None: return 'flat', table.get_columns()
        a = g[1]
        return 'flat', table.get_columns(tuple(a) if g[2] == 'tuple' else '%s:%s' % (alpha(a[0]), alpha(a[1])))
    if k == 'columns': return 'flat', table.columns
    if k == 'traverse_columns': return 'flat', list(table.traverse_columns(start=g[1], end=g[2]))
    if k == 'get_column_cells': return 'cells', [table.get_column_cells(g[1])]
    row = table.get_row(g[1], clone=g[2])
    if k == 'row_get_cell': return 'cells', [[row.get_cell(g[3], clone=g[4])]]
    if k == 'row_traverse': return 'cells', [list(row.traverse(start=g[3], end=g[4]))]
    if k == 'row_cells': return 'cells', [row.cells]
    if k == 'row_get_cells': return 'cells', [row.get_cells(tuple(g[3]))]
    raise KeyError(k)


LAZY_GETTERS = ('traverse', 'traverse_columns', 'row_traverse')


def call_generator(table, g):
    """the generator itself, for lazy consumption (nothing is computed before the first next())"""
    k = g[0]
    if k == 'traverse': return 'flat', table.traverse(start=g[1], end=g[2])
    if k == 'traverse_columns': return 'flat', table.traverse_columns(start=g[1], end=g[2])
    if k == 'row_traverse': return 'cells', table.get_row(g[1], clone=g[2]).traverse(start=g[3], end=g[4])
    raise KeyError(k)


def c_oz(v):
    return 'None' if v is None else 'Some (%d)' % v


def c_getter(g):
    k = g[0]
    oz = c_oz
    if k == 'get_cell': return 'GGetCell (%d) (%d) %s %s' % (g[1], g[2], lb.c_b(g[3]), lb.c_b(g[4]))
    if k == 'get_row': return 'GGetRow (%d) %s' % (g[1], lb.c_b(g[2]))
    if k == 'get_cells': return 'GGetCells %s' % ('None' if g[1] is None else '(Some (%d,%d,%d,%d))' % tuple(g[1]))
    if k == 'cells': return 'GCellsP'
    if k == 'get_rows': return 'GGetRows %s' % ('None' if g[1] is None else '(Some (%d,%d))' % tuple(g[1]))
    if k == 'rows': return 'GGetRows None'
    if k == 'traverse': return 'GTraverse (%s) (%s)' % (oz(g[1]), oz(g[2]))
    if k == 'get_column': return 'GGetColumn (%d)' % g[1]
    if k == 'get_columns': return 'GGetColumns %s' % ('None' if g[1] is None else '(Some (%d,%d))' % tuple(g[1]))
    if k == 'columns': return 'GGetColumns None'
    if k == 'traverse_columns': return 'GTraverseColumns (%s) (%s)' % (oz(g[1]), oz(g[2]))
    if k == 'get_column_cells': return 'GColumnCells (%d)' % g[1]
    if k == 'row_get_cell': return 'GRowGetCell (%d) %s (%d) %s' % (g[1], lb.c_b(g[2]), g[3], lb.c_b(g[4]))
    if k == 'row_traverse': return 'GRowTraverse (%d) %s (%s) (%s)' % (g[1], lb.c_b(g[2]), oz(g[3]), oz(g[4]))
    if k == 'row_cells': return 'GRowCells (%d) %s' % (g[1], lb.c_b(g[2]))
    if k == 'row_get_cells': return 'GRowTraverse (%d) %s (Some (%d)) (Some (%d))' % (g[1], lb.c_b(g[2]), g[3][0], g[3][1])
    raise KeyError(k)


# ------------------------------------------------------------------ observing and mutating the returned objects

def rep_code(a):
    """1 = no attribute; n >= 2 = that integer; 0 = an attribute that is not an integer >= 2"""
    if a is None: return 1
    try:
        n = int(a)
    except ValueError:
        return 0
    return n if n >= 2 else 0


def observe(r, obj):
    """independent reading of a returned object: from its own serialisation"""
    el = etree.fromstring('<r %s>%s</r>' % (tl.NSDECL, obj.serialize()))[0]
    if el.tag in lb.CELL_TAGS:
        f, rep, v, s = r.intern.cell(el)
        return dict(kind='cell', x=getattr(obj, 'x', None), y=getattr(obj, 'y', None), rep=rep_code(rep), val=[v, s])
    if el.tag == T + 'table-row':
        rid = r.intern.attrs_id(r.intern.rowa, el, T + 'number-rows-repeated')
        cells = []
        for c in el:
            f, rp, v, s = r.intern.cell(c)
            cells.append((tl.rep_val(rp), v, s))
        return dict(kind='row', y=getattr(obj, 'y', None), rep=rep_code(el.get(T + 'number-rows-repeated')), val=[rid, cells])
    if el.tag == T + 'table-column':
        return dict(kind='col', x=getattr(obj, 'x', None), rep=rep_code(el.get(T + 'number-columns-repeated')),
                    val=r.intern.attrs_id(r.intern.cola, el, T + 'number-columns-repeated'))
    raise TypeError(el.tag)


def do_mutation(odfdo, obj, kind, k):
    if kind == 'style':
        obj.set_attribute('table:style-name', 'zz%d' % k)
    elif kind == 'value':
        if isinstance(obj, odfdo.Row): obj.set_value(0, 9000 + k)
        else: obj.set_value(9000 + k)
    elif kind == 'repeated':
        obj.repeated = (obj.repeated or 1) + 2
    elif kind == 'append':
        obj.append_cell(odfdo.Cell(9500 + k))
    else:
        raise KeyError(kind)


MUT = {'cell': ['style', 'value', 'repeated'], 'row': ['style', 'value', 'repeated', 'append'], 'col': ['style', 'repeated']}


def c_iobj(o):
    fl = '%s %s %s' % (lb.c_b(o.get('mutated', False)), lb.c_b(o.get('tch', False)), lb.c_b(o.get('och', False)))
    if o['kind'] == 'cell':
        return 'IC (%s) (%s) %d%%nat (%d,%d) %s' % (c_oz(o['x']), c_oz(o['y']), o['rep'], o['val'][0], o['val'][1], fl)
    if o['kind'] == 'row':
        return 'IR (%s) %d%%nat %s %s' % (c_oz(o['y']), o['rep'], tl.c_rowx(o['val']), fl)
    return 'IK (%s) %d%%nat (%d) %s' % (c_oz(o['x']), o['rep'], o['val'], fl)


HEADER = ('Require Import Vault Row Table Grid Tableabs Tablexml Tablechk TableB TableG TableGspec TableGchk TableGf TableGfchk.\n'
          'From Coq Require Import List ZArith NArith Bool Arith. Import ListNotations. Open Scope Z_scope.\n'
          'Definition chk08 (c : obs8) : nat := chk_c08 c.\nDefinition chk08pin (c : obs8) : nat := chk_c08_pinned c.\nDefinition chk08f (c : obs8f) : nat := chk_c08f c.\n')


def run_case_once(odfdo, case):
    try:
        r = lb.Runner(odfdo, case['init_xml'])
    except Exception as e:
        return dict(term=None, error='initial table: %r' % (e,), records=[])
    try:
        for st in case['steps']:
            st = dict(st); st.setdefault('obs', []); st['reload'] = False
            rec = r.step(st)
            if rec['raised']:
                return dict(term=None, error='setup step raised: %r' % (rec['raised'],), records=[], skipped=True)
        if case['getter'][0].startswith('f_'):
            return run_fcase(odfdo, r, case)
        t = r.table
        pre = r.abs()
        g = case['getter']
        raised, shape, objs = None, 'flat', []
        lazy = bool(case.get('lazy')) and g[0] in LAZY_GETTERS
        plan = {}
        for idx, kind in case.get('mutate', []):
            plan.setdefault(idx, kind)
        if not lazy:
            try:
                shape, res = tl.timed(call_getter, t, g)
                nested = res if shape == 'cells' else [res]
                objs = [[o for o in line] for line in nested]
            except Exception as e:
                raised = repr(e)
            post = r.abs()
            flat = [o for line in objs for o in line]
            obs = [observe(r, o) for o in flat]
            # mutate the planned objects one after the other; after each: the table and every other returned object
            prev_table = post
            prev_ser = [o.serialize() for o in flat]
            for idx, kind in case.get('mutate', []):
                if idx >= len(flat) or kind not in MUT[obs[idx]['kind']] or obs[idx].get('mutated'):
                    continue
                try:
                    tl.timed(do_mutation, odfdo, flat[idx], kind, idx)
                except Exception as e:
                    obs[idx]['mutation_error'] = repr(e)
                    continue
                now_table = r.abs()
                now_ser = [o.serialize() for o in flat]
                obs[idx].update(mutated=True, tch=now_table != prev_table,
                                och=any(now_ser[j] != prev_ser[j] for j in range(len(flat)) if j != idx), mutation=kind)
                prev_table, prev_ser = now_table, now_ser
        else:
            # LAZY consumption of a generator: object k is observed as it is yielded and mutated at once, BEFORE object k+1 is
            # asked for; what is yielded later is compared with the eager list of the same call on an untouched twin
            twin = r.fresh_of(t)
            shape, tres = tl.timed(lambda: (lambda sh, gen: (sh, list(gen)))(*call_generator(twin, g)))
            twin_obs = [observe(r, o) for o in tres]
            flat, obs = [], []
            prev_table = pre
            prev_ser = []
            last_mutated = None
            try:
                shape, gen = tl.timed(call_generator, t, g)
                k = 0
                while True:
                    try:
                        o = tl.timed(next, gen)
                    except StopIteration:
                        break
                    flat.append(o); ob = observe(r, o); obs.append(ob)
                    if k < len(twin_obs) and last_mutated is not None and {a: ob[a] for a in ('x', 'y', 'rep', 'val') if a in ob} != {a: twin_obs[k][a] for a in ('x', 'y', 'rep', 'val') if a in twin_obs[k]}:
                        obs[last_mutated]['och'] = True       # an earlier mutation shows in an object yielded later
                    kind = plan.get(k)
                    if kind in MUT[ob['kind']]:
                        try:
                            tl.timed(do_mutation, odfdo, o, kind, k)
                            now_table = r.abs()
                            now_ser = [x.serialize() for x in flat]
                            ob.update(mutated=True, tch=now_table != prev_table,
                                      och=any(now_ser[j] != prev_ser[j] for j in range(len(flat) - 1)), mutation=kind)
                            prev_table = now_table
                            last_mutated = k
                        except Exception as e:
                            ob['mutation_error'] = repr(e)
                    prev_ser = [x.serialize() for x in flat]
                    k += 1
            except Exception as e:
                raised = repr(e)
            objs = [flat]
            post = r.abs() if not any(o.get('tch') for o in obs) else pre
    except Exception as e:
        return dict(term=None, error='abstraction: %r' % (e,), records=[])
    # rebuild the nesting
    it = iter(obs)
    nested_obs = [[next(it) for _ in line] for line in objs]
    if shape == 'cells':
        cres = 'ICells [%s]' % ';'.join('[%s]' % ';'.join(c_iobj(o) for o in line) for line in nested_obs)
    else:
        cres = 'IFlat [%s]' % ';'.join(c_iobj(o) for o in (nested_obs[0] if nested_obs else []))
    term = '(Obs8 %s\n (%s) %s\n %s\n (%s))' % (tl.c_xtable(pre), c_getter(g), lb.c_b(bool(raised)), tl.c_xtable(post), cres)
    rec = dict(getter=g, raised=raised, pre=pre, post=post, objects=nested_obs, shape=tl.shape_of(pre), lazy=lazy)
    return dict(term=term, error=None, records=[rec])


def mutate_eager(r, odfdo, flat, plan, start_table):
    """observe every object (None stays None), then mutate the planned ones one after the other; after each: table and siblings"""
    obs = [None if o is None else observe(r, o) for o in flat]
    prev_table = start_table
    ser = lambda: [None if o is None else o.serialize() for o in flat]
    prev_ser = ser()
    for idx, kind in plan:
        if idx >= len(flat) or flat[idx] is None or kind not in MUT[obs[idx]['kind']] or obs[idx].get('mutated'):
            continue
        try:
            tl.timed(do_mutation, odfdo, flat[idx], kind, idx)
        except Exception as e:
            obs[idx]['mutation_error'] = repr(e)
            continue
        now_table = r.abs(); now_ser = ser()
        obs[idx].update(mutated=True, tch=now_table != prev_table,
                        och=any(now_ser[j] != prev_ser[j] for j in range(len(flat)) if j != idx), mutation=kind)
        prev_table, prev_ser = now_table, now_ser
    return obs


def passes(cell, flt):
    """the three tests of the filtered getters, on a detached object (which cells pass a filter is not C08's subject)"""
    ct = flt.get('cell_type')
    if ct:
        ctype = cell.type
        if not ctype or not (ctype == ct or ct == 'all'):
            return False
    if flt.get('content') and not cell.match(flt['content']):
        return False
    if flt.get('style') and flt['style'] != cell.style:
        return False
    return True


def accepted_sets(r, odfdo, pre_xml, flt):
    """the finite form of the filter: accepted (value id, style id), accepted logical rows, accepted column attribute ids"""
    it = r.intern
    sty = {0: None}; sty.update({i: n for n, i in it.sty.items()})
    ac = []
    for v in [0] + sorted(it.val_xml):
        xml = it.val_xml.get(v, '<table:table-cell/>')
        for sid, name in sty.items():
            c = odfdo.Element.from_tag(xml)
            if name is not None:
                c.set_attribute('table:style-name', name)
            if passes(c, flt):
                ac.append((v, sid))
    x = etree.fromstring('<r %s>%s</r>' % (tl.NSDECL, pre_xml))[0]
    ay, y = [], 0
    for ch in x:
        if ch.tag == T + 'table-row':
            n = tl.rep_val(ch.get(T + 'number-rows-repeated'))
            row = odfdo.Element.from_tag(etree.tostring(ch, with_tail=False).decode())
            ok = not (flt.get('content') and not row.match(flt['content'])) and not (flt.get('style') and flt['style'] != row.style)
            if ok:
                ay += list(range(y, y + n))
            y += n
    ak = []
    for attrs, cid in [((), 0)] + list(it.cola.items()):
        st = dict(attrs).get(T + 'style-name')
        if not (flt.get('style') and flt['style'] != st):
            ak.append(cid)
    return ac, ay, ak


def call_fgetter(table, g):
    k, flt = g[0], g[-1]
    kw = {a: flt[a] for a in ('cell_type', 'style', 'content') if flt.get(a)}
    if k == 'f_get_cells':
        res = table.get_cells(tuple(g[1]) if g[1] is not None else None, flat=g[2], **kw)
        return ('flat', res) if g[2] else ('cells', res)
    if k == 'f_get_rows':
        kw.pop('cell_type', None)
        return 'flat', table.get_rows(tuple(g[1]) if g[1] is not None else None, **kw)
    if k == 'f_get_columns':
        return 'flat', table.get_columns(tuple(g[1]) if g[1] is not None else None, style=flt.get('style'))
    if k == 'f_get_column_cells':
        return 'opt', table.get_column_cells(g[1], complete=g[2], **kw)
    if k == 'f_row_get_cells':
        row = table.get_row(g[1], clone=g[2])
        return 'flat', row.get_cells(tuple(g[3]) if g[3] is not None else None, **kw)
    raise KeyError(k)


def c_fgetter(g):
    k = g[0]
    if k == 'f_get_cells': return 'FGetCells %s %s' % ('None' if g[1] is None else '(Some (%d,%d,%d,%d))' % tuple(g[1]), lb.c_b(g[2]))
    if k == 'f_get_rows': return 'FGetRows %s' % ('None' if g[1] is None else '(Some (%d,%d))' % tuple(g[1]))
    if k == 'f_get_columns': return 'FGetColumns %s' % ('None' if g[1] is None else '(Some (%d,%d))' % tuple(g[1]))
    if k == 'f_get_column_cells': return 'FColumnCells (%d) %s' % (g[1], lb.c_b(g[2]))
    if k == 'f_row_get_cells':
        a = g[3]
        return 'FRowGetCells (%d) %s %s %s' % (g[1], lb.c_b(g[2]), 'None' if a is None else '(Some (%d))' % a[0], 'None' if a is None else '(Some (%d))' % a[1])
    raise KeyError(k)


def run_fcase(odfdo, r, case):
    """a FILTERED getter: executed after the setup steps of run_case_once"""
    t = r.table
    pre_xml = tl.timed(t.serialize)
    pre = tl.abs_xml(pre_xml, r.intern)
    g = case['getter']
    raised, shape, res = None, 'flat', []
    try:
        shape, res = tl.timed(call_fgetter, t, g)
    except Exception as e:
        raised = repr(e)
    post = r.abs()
    nested = res if shape == 'cells' else [res]
    flat = [o for line in nested for o in line]
    obs = mutate_eager(r, odfdo, flat, case.get('mutate', []), post)
    ac, ay, ak = accepted_sets(r, odfdo, pre_xml, g[-1])
    it = iter(obs)
    nested_obs = [[next(it) for _ in line] for line in nested]
    if shape == 'cells':
        cres = 'IFCells [%s]' % ';'.join('[%s]' % ';'.join(c_iobj(o) for o in line) for line in nested_obs)
    elif shape == 'opt':
        cres = 'IFOpt [%s]' % ';'.join('None' if o is None else 'Some (%s)' % c_iobj(o) for o in nested_obs[0])
    else:
        cres = 'IFFlat [%s]' % ';'.join(c_iobj(o) for o in nested_obs[0])
    term = '(Obs8f %s\n (%s) [%s] %s %s %s\n %s\n (%s))' % (
        tl.c_xtable(pre), c_fgetter(g), ';'.join('(%d,%d)' % p for p in ac), tl.c_zlist(ay), tl.c_zlist(ak), lb.c_b(bool(raised)), tl.c_xtable(post), cres)
    rec = dict(getter=g, raised=raised, pre=pre, post=post, objects=[[o or dict(kind='none', rep=1) for o in line] for line in nested_obs],
               shape=tl.shape_of(pre), lazy=False, filtered=True)
    return dict(term=term, error=None, records=[rec], filtered=True)


def run_case(odfdo, case):
    res = run_case_once(odfdo, case)
    if 'CallTimeout' in str(res.get('error')) or any('CallTimeout' in str(x.get('raised')) for x in res.get('records', [])):
        saved = tl.CALL_TIMEOUT
        tl.CALL_TIMEOUT = saved * 10
        try:
            res = run_case_once(odfdo, case)
        finally:
            tl.CALL_TIMEOUT = saved
    return res


def gen_case(odfdo, seed, kind, nsteps, maxw, maxh):
    rng = random.Random(seed)
    init = lb.init_xml_of(odfdo, rng, kind, maxw, maxh)
    case = dict(kind=kind, init_xml=init, steps=[], getter=None, mutate=[], lazy=False)
    try:
        r = lb.Runner(odfdo, init)
        nodes = r.init_nodes
        for _ in range(nsteps):
            todo = []
            if rng.random() < 0.4:
                todo.append(dict(read=lb.g_fill_read(rng, nodes)))
            todo.append(dict(op=tl.g_op(rng, nodes, tl.OPS_CORE, maxw, maxh)))
            for st in todo:
                st['obs'] = []; st['reload'] = False
                rec = r.step(st)
                if rec['raised']:
                    return case, dict(term=None, error='setup step raised', records=[], skipped=True)
                case['steps'].append({k: v for k, v in st.items() if k in ('op', 'read')})
                nodes = rec['post']
        if rng.random() < 0.4:      # a cache-filling read right before the getter
            st = dict(read=lb.g_fill_read(rng, nodes), obs=[], reload=False)
            r.step(st); case['steps'].append(dict(read=st['read']))
    except Exception as e:
        return case, dict(term=None, error='setup: %r' % (e,), records=[])
    case['getter'] = g_fgetter(rng, nodes) if rng.random() < 0.2 else g_getter(rng, nodes)
    case['lazy'] = case['getter'][0] in LAZY_GETTERS and rng.random() < 0.6
    # the mutation plan: up to 10 of the returned objects (first, last, random others), one mutation kind each
    cols, rows = tl.shape_of(nodes)
    bound = (sum(r for r, _ in rows) + 2) * (sum(r for r, _ in cols) + 2) + 4
    idxs = list(dict.fromkeys(list(range(min(bound, 6))) + [rng.randrange(bound) for _ in range(6)]))
    kinds = ['style', 'value', 'repeated', 'append']
    case['mutate'] = [[i, rng.choice(kinds)] for i in idxs]
    if case['lazy']:      # lazy consumption: (almost) every yielded object is mutated at once
        case['mutate'] = [[i, rng.choice(kinds)] for i in range(min(bound, 40)) if rng.random() < 0.8]
    return case, run_case(odfdo, case)


def normalise_plan(case, res):
    """keep only the mutations that were applicable (so that the stored case says what was done)"""
    return case


# ------------------------------------------------------------------ the check

def _worker(job):
    seed, kind, nsteps, maxw, maxh = job
    odfdo = common.use_repo()
    return gen_case(odfdo, seed, kind, nsteps, maxw, maxh)


def _replay_worker(case):
    odfdo = common.use_repo()
    return case, run_case(odfdo, case)


def drive(jobs, fn, procs=16):
    if len(jobs) <= 2:
        return [fn(j) for j in jobs]
    with multiprocessing.get_context('fork').Pool(procs) as pool:
        return pool.map(fn, jobs, chunksize=max(1, len(jobs) // (procs * 8)))


def plan(tier, rng):
    n = 2400 if tier == 'quick' else 30000
    maxw, maxh = (8, 8) if tier == 'quick' else (12, 12)
    return [(rng.getrandbits(48), KINDS[i % len(KINDS)], rng.randint(0, 4 if tier == 'quick' else 7), maxw, maxh) for i in range(n)]


def evaluate(results, tag, checker='chk08'):
    out, errors = {}, []
    for filtered, chk, tg in ((False, checker, tag), (True, 'chk08f', tag + 'f')):
        terms, idx = [], []
        for i, (case, res) in enumerate(results):
            if res['term'] is not None and bool(res.get('filtered')) == filtered:
                terms.append(res['term']); idx.append(i)
        if not terms:
            continue
        bad, err = lb.run_shards_retry(HEADER, terms, chk, tg, min(400, max(1, len(terms) // 16 + 1)))
        out.update({idx[k]: c for k, c in bad.items()}); errors += err
    return out, errors


def shrink(case, layer):
    """drop setup steps one at a time while the getter still fails on the same layer"""
    cur = dict(case)
    for _round in range(5):
        n = len(cur['steps'])
        if n == 0:
            break
        variants = [dict(cur, steps=cur['steps'][:k] + cur['steps'][k + 1:]) for k in range(n)]
        results = drive(variants, _replay_worker)
        bad, errors = evaluate(results, 'c08s')
        good = [k for k in range(n) if bad.get(k) == layer]
        if not good:
            break
        cur = variants[good[-1]]
    return cur


def python_oracle(res):
    """direct re-statement (search phase only): a mutated object documented as a copy changed the table or a sibling, or an
    expanding read returned an object with a repeat"""
    for rec in res.get('records', []):
        g = rec['getter']
        copy = not ((g[0] in ('get_cell', 'get_row') and not g[-2 if g[0] == 'get_cell' else -1])
                    or (g[0] == 'row_get_cell' and not g[4] and not g[2]))
        expanding = g[0] not in ('get_row', 'get_column', 'row_get_cell') and not (g[0] == 'get_cell' and g[4])
        if rec['raised'] or rec['pre'] != rec['post']:
            return True
        for line in rec['objects']:
            for o in line:
                if (copy and o.get('mutated') and (o.get('tch') or o.get('och'))) or (expanding and o['rep'] != 1):
                    return True
    return False


def run(tier, seed, replay=None):
    t0 = time.time(); rng = random.Random(seed)
    odfdo = common.use_repo()
    proofs = common.build_proofs(PROP, ('TableGchk', 'TableGfchk'))
    known = {e['key']: e for e in common.known_findings(PROP)}
    corpus = [json.load(open(f))['case'] for f in sorted((common.ROOT / 'corpus' / PROP).glob('*.json'))]
    if replay:
        payload = json.load(open(replay))
        results = drive([payload['case']] if 'case' in payload else [], _replay_worker)
    else:
        results = drive(corpus, _replay_worker) + drive(plan(tier, rng), _worker)
    skipped = sum(1 for c, r in results if r.get('skipped'))
    bad, errors = evaluate(results, 'c08')
    violations, known_seen, seen_keys = [], [], set()
    abstraction_failures = [(i, r['error']) for i, (c, r) in enumerate(results) if r['term'] is None and not r.get('skipped')]
    hard = {i: c for i, c in bad.items() if c in LAYERS}
    soft = {i: c for i, c in bad.items() if c not in LAYERS and c not in NOTES}
    for i in sorted(hard):
        layer = hard[i]
        case, res = results[i]
        rec = res['records'][0]
        g = case['getter']
        name = ('lazy ' if case.get('lazy') and g[0] in LAZY_GETTERS else '') + g[0] + ('[clone=False,keep_repeated=False]' if g[0] == 'get_cell' and not g[3] and not g[4] else '') + ('[area]' if layer == 12 else '')
        key = '%s/%s' % (name, LAYERS[layer][0])
        if key in seen_keys:
            continue
        seen_keys.add(key)
        small = case
        if not replay and len(violations) < 4:
            try:
                small = shrink(case, layer)
            except Exception:
                pass
        payload = dict(layer=LAYERS[layer][1], code=layer, key=key, case=small, getter=case['getter'],
                       implementation=dict(raised=rec['raised'], table_shape=rec['shape'], returned_objects=rec['objects']),
                       theorem_or_correspondence='coq/theories/C08.v + TableGchk.chk_c08', known_finding_key=key if key in known else None)
        if key in known:
            known_seen.append('%s (%s)' % (key, known[key]['description'][:100]))
            common.write_replay(PROP, seed, 'known-' + common.digest(key)[:8], payload)
        else:
            violations.append((common.write_replay(PROP, seed, common.digest((key, i))[:8], payload), False))
        if len(violations) >= 12:
            break
    soft_msgs, found_by_oracle = [], False
    if soft or abstraction_failures or not proofs['ok'] or errors:
        for i, (case, res) in enumerate(results):
            if res.get('term') and python_oracle(res):
                found_by_oracle = True
                payload = dict(layer='direct Python re-statement of C08 (search phase)', key='oracle/%s' % case['getter'][0], case=case)
                violations.append((common.write_replay(PROP, seed, 'oracle-%d' % i, payload), False))
                break
        soft_msgs += ['case %s: code %s (%s)' % (i, c, SOFT.get(c, 'model-level')) for i, c in list(soft.items())[:5]]
        soft_msgs += ['case %d: %s' % (i, e) for i, e in abstraction_failures[:5]]
    violations += common.proof_violation(PROP, seed, proofs, errors + soft_msgs, bool(hard) or found_by_oracle)
    # ---- evidence
    done = [(c, r) for c, r in results if r['term'] is not None]
    gk, nobj, nmut, mk, distinct, live_seen, beyond, nlazy = {}, 0, 0, {}, set(), 0, 0, 0
    for case, res in done:
        rec = res['records'][0]
        gk[case['getter'][0]] = gk.get(case['getter'][0], 0) + 1
        nlazy += bool(rec.get('lazy'))
        objs = [o for line in rec['objects'] for o in line]
        nobj += len(objs)
        for o in objs:
            if o.get('mutated'):
                nmut += 1; mk[o['mutation']] = mk.get(o['mutation'], 0) + 1
                live_seen += bool(o.get('tch'))
        cols, rows = rec['shape']
        if any(r > 1 for r, _ in rows) or any(c > 1 for _, cs in rows for c in cs) or any(r > 1 for r, _ in cols):
            distinct.add(common.digest((rec['shape'], case['getter'])))
    fid = sum(1 for c in bad.values() if c == 9)
    cov = dict(
        trusted_base=TRUSTED, evaluations=len(done), distinct_nontrivial=len(distinct), returned_objects=nobj, mutated_objects=nmut,
        rule='a table reached by 0-%d C01 operations (interleaved with cache-filling reads) from {empty, Table(w,h), random run-length shapes as XML text, clamped sample .ods tables}, then one getter of '
             '{get_cell get_row get_cells cells get_rows rows traverse get_column get_columns columns traverse_columns get_column_cells Row.get_cell Row.traverse Row.cells Row.get_cells} with clone / keep_repeated flags and coordinates around the run '
             'boundaries of that state (edge, beyond, negative, crossed, tuple and string forms); the generators traverse / Row.traverse / traverse_columns are consumed LAZILY in 60 percent of their cases (each yielded object observed and mutated at once, before the next one is asked for; later objects compared with the eager list of the same call on an untouched twin); up to 12 returned objects mutated (style attribute, value, repeated, appended cell), table and siblings re-abstracted after each. '
             'distinct_nontrivial = distinct (run shape, getter call) on tables that hold a repeated run' % (4 if tier == 'quick' else 7),
        samples=[dict(initial=c['init_xml'][:300], steps=c['steps'][:3], getter=c['getter'], mutate=c['mutate'][:4]) for c, r in done[len(corpus):len(corpus) + 3]],
        corpus_cases=len(corpus), getters=gk, lazily_consumed_generator_cases=nlazy, filtered_getter_cases=sum(1 for c, r in done if r.get('filtered')), mutations_by_kind=mk, mutations_that_reached_the_table=live_seen, setup_histories_discarded_because_a_setup_call_raised=skipped,
        fidelity_divergences=fid, fidelity_ratio=round(1 - fid / max(1, len(done)), 4), modelled=MODELLED, exhaustive=False,
        known_findings_reobserved=len(known_seen))
    if fid:
        print('NOTE: %d cases where only the exact result differs from the getter model (fidelity, not an alarm)' % fid)
    return common.finish(PROP, tier, seed, proofs, cov, violations, known_seen, t0,
                         assumptions=['integer coordinates of either sign, ranges possibly crossed or beyond the table; string forms only for non-negative coordinates',
                                      'tables consist of table:table-column elements followed by table:table-row elements',
                                      'get_cells() / cells without an area return each row as long as it is stored (pinned by tests/table/test_table_cell_span.py)'])


if __name__ == '__main__':
    common.main(run)
