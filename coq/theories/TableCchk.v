(* TableCchk.v — the checker of C10 (table half) evaluated by vm_compute on every twin history.  No proofs.
   A view = everything the harness can observe of an object: tables: raw XML + private state; rows: y, repeat, XML cells,
   the CONTENT of _rmap / _tmap / _cmap and the cell-cache keys; cells / columns: coordinates, repeat, content. *)
From Coq Require Import List ZArith NArith Bool Arith.
Import ListNotations.
Require Import Vault Row Table Grid Tableabs Tablexml Tablechk TableB TableBabs TableBchk TableC.
Local Open Scope Z_scope.

Inductive view :=
| VTab (x : xtable) (d : cdump)
| VRow (y : option Z) (rep : nat) (r : rowx) (rm tm cm : list Z) (keys : list nat)
| VCell (x y : option Z) (c : nat * cell)
| VCol (x : option Z) (c : nat * Z)
| VNone.
Definition oz_eq (a b : option Z) : bool := match a, b with Some a, Some b => a =? b | None, None => true | _, _ => false end.
Definition nl_eqb (a b : list nat) : bool := list_eqb Nat.eqb a b.
Definition xattr_eqb (a b : xattr) : bool :=
  match a, b with Some a, Some b => list_eqb N.eqb a b | None, None => true | _, _ => false end.
Definition xcell_eqb (a b : xcell) : bool :=
  let '(XC f r v s) := a in let '(XC f' r' v' s') := b in Bool.eqb f f' && xattr_eqb r r' && (v =? v') && (s =? s').
Definition xnode_eqb (a b : xnode) : bool :=
  match a, b with
  | XCol r s, XCol r' s' => xattr_eqb r r' && (s =? s')
  | XRow r s k, XRow r' s' k' => xattr_eqb r r' && (s =? s') && list_eqb xcell_eqb k k'
  | XOther, XOther => true
  | _, _ => false end.
Definition xtable_eqb (a b : xtable) : bool := list_eqb xnode_eqb a b.
Definition cdump_eqb (a b : cdump) : bool :=
  let '(CD tm cm tc cc) := a in let '(CD tm' cm' tc' cc') := b in
  zl_eqb tm tm' && zl_eqb cm cm' && tcache_eqb tc tc' && kz_eqb (sort_keys cc) (sort_keys cc').
Definition view_eqb (a b : view) : bool :=
  match a, b with
  | VTab x d, VTab x' d' => xtable_eqb x x' && cdump_eqb d d'
  | VRow y rep r rm tm cm k, VRow y' rep' r' rm' tm' cm' k' =>
      oz_eq y y' && (rep =? rep')%nat && rowx_eqb r r' && zl_eqb rm rm' && zl_eqb tm tm' && zl_eqb cm cm' && nl_eqb k k'
  | VCell x y c, VCell x' y' c' => oz_eq x x' && oz_eq y y' && run_eqb cell_eqb c c'
  | VCol x c, VCol x' c' => oz_eq x x' && run_eqb Z.eqb c c'
  | VNone, VNone => true
  | _, _ => false end.
(* equal at birth: the XML and the coordinates; for a table the clone is a fresh object (no cached wrapper yet), for a row the
   maps are copied, the cell cache is not *)
Definition birth_eqb (orig clone : view) : bool :=
  match orig, clone with
  | VTab x _, VTab x' _ => xtable_eqb x x'
  | VRow y rep r rm tm cm _, VRow y' rep' r' rm' tm' cm' _ =>
      oz_eq y y' && (rep =? rep')%nat && rowx_eqb r r' && zl_eqb rm rm' && zl_eqb tm tm' && zl_eqb cm cm'
  | _, _ => view_eqb orig clone end.
(* the clone's own maps describe its own XML *)
Definition birth_coherent (clone : view) : bool :=
  match clone with
  | VTab x d => cohb (mkb x d)
  | VRow _ _ r rm _ _ _ => zl_eqb rm (cmap (snd r))
  | _ => true end.

(* one step of a twin history: on which side it was performed, both views after it, the table owning the original after it *)
Inductive tstep := TS (on_orig : bool) (op : option roop) (orig clone owner : view).
Inductive obs10 := Obs10 (orig_before orig_after clone : view) (owner_before owner_after : view) (shared : nat) (steps : list tstep).

(* the heap model run next to the implementation (rows only): location 0 1 2 = original's maps, clone sliced after them *)
Definition model_pair (v : view) : option (heap * rowobj * rowobj) :=
  match v with
  | VRow y _ r rm tm cm _ =>
      let o := {| ro_row := r; ro_y := y; ro_rmap := 0; ro_tmap := 1; ro_cmap := 2 |} in
      let '(h', c) := ro_clone false [rm; tm; cm] o in Some (h', o, c)
  | _ => None end.
Definition row_agrees (h : heap) (r : rowobj) (v : view) : bool :=
  match v with
  | VRow _ _ rx rm _ _ _ => rowx_eqb (ro_row r) rx && zl_eqb (hget h (ro_rmap r)) rm
  | _ => false end.

(* C10t.  0 agree | 1 the clone is not the original at birth | 2 cloning changed the original (or the table that owns it)
   | 3 clone and original share a list object, an lxml element or a cached wrapper | 5 the clone's own maps do not describe its XML
   | 4 an operation on one of original / clone changed the other | 6 an operation on the clone changed the table that owns the original
   | 9 only the heap model's maps differ (fidelity) *)
Fixpoint chk_steps (i : nat) (orig clone owner : view) (m : option (heap * rowobj * rowobj)) (fid : nat) (l : list tstep) : nat :=
  match l with
  | [] => fid
  | TS on_orig op orig' clone' owner' :: r =>
      if on_orig && negb (view_eqb clone clone') then (100 * S i + 4)%nat
      else if negb on_orig && negb (view_eqb orig orig') then (100 * S i + 4)%nat
      else if negb on_orig && negb (view_eqb owner owner') then (100 * S i + 6)%nat
      else
        let m' := match m, op with
                  | Some (h, a, b), Some o =>
                      if on_orig then let '(h', a') := ro_step h a o in Some (h', a', b)
                      else let '(h', b') := ro_step h b o in Some (h', a, b')
                  | _, _ => None end in
        let fid' := match m' with
                    | Some (h, a, b) => if row_agrees h a orig' && row_agrees h b clone' then fid else 9%nat
                    | None => fid end in
        chk_steps (S i) orig' clone' owner' m' fid' r
  end.
Definition chk_c10t (ob : obs10) : nat :=
  let '(Obs10 ob_before ob_after clone ow_before ow_after shared steps) := ob in
  if negb (birth_eqb ob_before clone) then 1%nat
  else if negb (view_eqb ob_before ob_after && view_eqb ow_before ow_after) then 2%nat
  else if negb (shared =? 0)%nat then 3%nat
  else if negb (birth_coherent clone) then 5%nat
  else chk_steps 0 ob_after clone ow_after (model_pair ob_before) 0 steps.
