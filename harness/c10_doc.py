"""C10, Container / Document / XmlPart half: a clone is equal at birth and independent for life.

Theorems: coq/theories/C10doc.v (model Package.v).  Correspondence: twin histories — a document is brought into some
state (edits not yet saved, bytes set, parts deleted, parts not yet read from a path-opened zip or folder), cloned, and
then both the original and the clone are operated on in interleavings; after every operation both are abstracted from
private fields.  Coq evaluates: clone = original at birth (strict part-map equality, generator masked), cloning left the
original as it was, every later operation leaves the *other* document exactly as it was, and each step agrees with the
model.  The source file of a path-opened original is removed or overwritten after cloning (lazy parts).
XmlPart.clone is checked by a direct oracle on the same histories (serialisation and root of the clone = the original's
current tree; editing one does not show in the other).

The table / row / cell half of C10 lives in another module; `run_half` returns the pieces for a combined harness/c10.py."""
import os, sys, io, json
from pathlib import Path
sys.path.insert(0, str(Path(__file__).resolve().parent))
import common, pkglib
from lxml import etree

PROP = "C10"
LAYER = {1: "equal-at-birth: the clone's part map is not the original's at the time of cloning",
         2: "clone-modifies-original: cloning changed what the original holds",
         3: "clone-model: the clone is not the model's clone",
         4: "independence: an operation on one of original / clone changed the other",
         5: "abstraction: duplicate keys in the abstracted state",
         6: "part-map: the operated document is not in the state the model predicts",
         7: "result: result differs from the model's",
         8: "bookkeeping: the invariant the theorems assume (unique keys, current folder time stamps, cached XML parts only) is lost"}
WEIGHTS = dict(get=2, touch=3, edit=5, editobj=2, set=2, setxml=2, setnew=1, **{"del": 2}, addfile=2, save=3, swap=4, clone2=1)
PRE = dict(get=2, touch=3, edit=5, editobj=2, addobject=1, set=2, setxml=2, **{"del": 2}, addfile=1, save=1, saveself=1)


def make_histories(tier, rng):
    S = [s for s in pkglib.samples(common.REPO) if not s.endswith("big.ods")]; Tm = pkglib.templates(common.REPO)
    starts = [dict(op="new", src=p, template=k) for k, p in Tm.items()]
    hs = []
    n_rand = 150 if tier == "quick" else 2200

    def one(st, npre, npost):
        h = pkglib.gen_history(rng, [st], PRE, npre)
        h.append(dict(op="clone2"))
        tail = pkglib.gen_history(rng, [st], WEIGHTS, npost)[1:]
        return h + tail
    fixed = starts + [dict(op="copyopen", src=s) for s in S] + [dict(op="open", src=s, buf=True) for s in S[::2]]
    for st in fixed:
        hs.append(one(st, rng.randint(0, 4), 5 if tier == "quick" else 8))
    pool = starts * 4 + [dict(op="copyopen", src=s) for s in S] * 2 + [dict(op="open", src=s, buf=True) for s in S]
    for _ in range(n_rand):
        hs.append(one(rng.choice(pool), rng.randint(0, 5), rng.randint(3, 7 if tier == "quick" else 10)))
    # edge stream: lazily loaded original whose file disappears / is overwritten after cloning; folder-opened original;
    # clone of a clone; clone right after an unsaved edit / a set_part / a del_part
    for s in S[:: (4 if tier == "quick" else 1)]:
        hs.append([dict(op="copyopen", src=s), dict(op="clone2"), dict(op="rmsource"), dict(op="touch", name="content.xml"), dict(op="get", r=3),
                   dict(op="save", packaging="zip", target="buf", pretty=False), dict(op="reopen", r=1)])
        hs.append([dict(op="copyopen", src=s), dict(op="edit", name="content.xml", how="par", arg="unsaved  edit"), dict(op="del", r=5), dict(op="set", r=9),
                   dict(op="clone2"), dict(op="touch", name="content.xml"), dict(op="swap"), dict(op="edit", name="content.xml", how="par", arg="after"),
                   dict(op="swap"), dict(op="save", packaging="zip", target="buf", pretty=False), dict(op="reopen", r=1)])
        hs.append([dict(op="copyopen", src=s), dict(op="save", packaging="folder", target="path", pretty=False), dict(op="reopen", r=1), dict(op="touch", name="meta.xml"),
                   dict(op="clone2"), dict(op="get", r=3), dict(op="touch", name="content.xml"), dict(op="save", packaging="zip", target="buf", pretty=False), dict(op="reopen", r=1)])
    # XML parts outside the five main names (embedded objects; the part class is chosen by the base name): fetched / edited in
    # memory, then clone / save / reopen in every order
    objs = [s for s in S if s.endswith("chart.odt")]
    ostarts = [(dict(op="copyopen", src=s), False) for s in objs] + [(dict(op="open", src=s, buf=True), False) for s in objs] + [(dict(st), True) for st in starts[:2]]
    SVB = dict(op="save", packaging="zip", target="buf", pretty=False)
    for st, gen in ostarts:
        pre = [dict(op="addobject", r=1)] if gen else []
        for kinds in (["editobj"], ["touch", "editobj"], ["editobj", "editobj"]):
            E = [dict(op=k, r=rng.randrange(1 << 30)) for k in kinds]
            hs.append([dict(st)] + pre + E + [dict(op="clone2"), dict(op="editobj", r=rng.randrange(1 << 30)), dict(op="swap"), dict(op="editobj", r=rng.randrange(1 << 30)),
                       dict(SVB), dict(op="swap"), dict(SVB), dict(op="reopen", r=1), dict(op="editobj", r=3)])
            hs.append([dict(st)] + pre + E + [dict(SVB), dict(op="editobj", r=rng.randrange(1 << 30)), dict(op="clone2"), dict(SVB), dict(op="reopen", r=1), dict(op="touch", r=5)])
            hs.append([dict(st)] + pre + [dict(op="clone2")] + E + [dict(op="clone2"), dict(op="swap"), dict(op="editobj", r=7), dict(SVB)])
    # XML parts with comments / processing instructions / DOCTYPE outside the root element (package built with zipfile; parts set
    # through the API), parsed or not when the clone is taken: the clone holds them, nothing masked
    XMLS = ["content.xml", "styles.xml", "meta.xml", "settings.xml"]
    small = sorted(S, key=os.path.getsize)
    for base in small[:2]:
        for buf in (False, True):
            for dt in (False, True):
                B = dict(op="buildopen", base=base, extra=[], dress=XMLS, doctype=dt, buf=buf)
                hs.append([dict(B), dict(op="touch", name="styles.xml"), dict(op="touch", name="meta.xml"), dict(op="clone2"), dict(op="touch", name="styles.xml"),
                           dict(op="edit", name="content.xml", how="par", arg="x"), dict(op="swap"), dict(op="touch", name="content.xml"), dict(SVB), dict(op="swap"), dict(SVB)])
    for st in starts[:2]:
        hs.append([dict(st)] + [dict(op="set", name=n, variant=5) for n in XMLS] + [dict(op="touch", name="content.xml"), dict(op="touch", name="meta.xml"), dict(op="clone2"),
                  dict(op="touch", name="styles.xml"), dict(SVB), dict(op="swap"), dict(SVB)])
    # clone of documents written by LibreOffice (their meta:generator is not odfdo's), opened by path, before and after reading meta.xml
    for s in S[:: (3 if tier == "quick" else 1)]:
        hs.append([dict(op="open", src=s, buf=False), dict(op="clone2"), dict(op="touch", name="meta.xml"), dict(op="swap"), dict(op="touch", name="meta.xml")])
        hs.append([dict(op="copyopen", src=s), dict(op="touch", name="meta.xml"), dict(op="clone2"), dict(op="clone2"), dict(op="touch", name="meta.xml")])
    for st in starts:
        hs.append([dict(st), dict(op="edit", name="content.xml", how="par", arg="x"), dict(op="clone2"), dict(op="clone2"), dict(op="edit", name="meta.xml", how="title", arg="t"),
                   dict(op="swap"), dict(op="addfile", r=3), dict(op="swap"), dict(op="save", packaging="zip", target="buf", pretty=False)])
    return hs


def key_of(recs, i, code):
    c = recs[i]["concrete"]; k = c["op"]
    before = [r["concrete"]["op"] for r in recs[:i]]
    cls = k
    if k == "clone2":
        src = "template"
        first = recs[0]["concrete"]
        if first["op"] == "copyopen":
            src = "path-opened"
        elif first["op"] == "open":
            src = "buffer-opened"
        if any(r["concrete"]["op"] == "open" and isinstance(r["concrete"].get("src"), int) for r in recs[:i]):
            src = "reopened"
        unsaved = any(b in ("edit", "set", "del", "addfile") for b in before)
        cls = "clone/%s%s" % (src, "-after-unsaved-change" if unsaved else "")
    return "%s/%s" % (cls, {1: "equal-at-birth", 2: "original-modified", 3: "model", 4: "independence", 5: "abstraction", 6: "part-map", 7: "result", 8: "bookkeeping"}.get(code, str(code)))


def xmlpart_clone_oracle(tier, seed):
    """XmlPart.clone: serialisation and root of the clone = the original's current tree; independence both ways"""
    import random
    rng = random.Random(seed + 17)
    odfdo = common.use_repo()
    from odfdo import Document, Paragraph
    S = [s for s in pkglib.samples(common.REPO) if not s.endswith("big.ods")]
    bad, n = [], 0

    def c14n(b):
        return etree.tostring(etree.fromstring(b), method="c14n")
    for s in S[:: (3 if tier == "quick" else 1)] + ["text", "spreadsheet"]:
        for edited in (False, True):
            for name in ("content", "styles", "meta"):
                try:
                    d = pkglib.limited(Document, s)
                    part = d.get_part(name)
                    if edited:
                        if name == "content":
                            d.body.append(Paragraph("edited before clone"))
                        elif name == "meta":
                            d.meta.title = "edited before clone"
                        else:
                            part.root.set_attribute("office:version", "1.1")
                    else:
                        _ = part.root
                    want = etree.tostring(part._XmlPart__tree.getroot(), method="c14n")
                    cl = pkglib.limited(lambda: part.clone)
                    got_ser = c14n(cl.serialize())
                    got_root = etree.tostring(cl.root._Element__element, method="c14n")
                    n += 1
                    case = dict(sample=s, part=name, edited=edited)
                    if got_ser != want:
                        bad.append(("xmlpart-clone/serialize-not-equal-at-birth", case))
                    if got_root != want:
                        bad.append(("xmlpart-clone/root-not-equal-at-birth", case))
                    # independence
                    cl.root.set_attribute("office:version", "9.9")
                    if etree.tostring(part._XmlPart__tree.getroot(), method="c14n") != want:
                        bad.append(("xmlpart-clone/edit-of-clone-seen-in-original", case))
                    part.root.set_attribute("office:version", "7.7")
                    if b"7.7" in cl.serialize() and b"7.7" not in want:
                        bad.append(("xmlpart-clone/edit-of-original-seen-in-clone", case))
                except pkglib.Timeout:
                    continue
                except Exception as e:
                    bad.append(("xmlpart-clone/raises-%s" % type(e).__name__, dict(sample=s, part=name, edited=edited, error=repr(e)[:200])))
    return bad, n


def twin_run_oracle(tier, seed):
    """indistinguishable when taken includes behaviour afterwards: bring a document (and every part class) into a non-default
    state, clone, then run the SAME subsequent program on the original and on the clone, each on its own, and compare everything
    observable (every member of the saved packages, XML by C14N, nothing masked)"""
    import random, zipfile
    odfdo = common.use_repo()
    from odfdo import Document, Paragraph
    S = [s for s in pkglib.samples(common.REPO) if not s.endswith("big.ods")]
    starts = ["text", "spreadsheet"] + S[:: (9 if tier == "quick" else 2)]

    def c14n(b):
        try:
            return etree.tostring(etree.fromstring(b), method="c14n")
        except etree.XMLSyntaxError:
            return b
    PRE = {
        "generator-set": lambda d: setattr(d.meta, "generator", "Custom Generator 1.0"),
        "generator-set+edits": lambda d: (setattr(d.meta, "generator", "G2"), setattr(d.meta, "title", "t"), d.body.append(Paragraph("x")), d.styles.root),
        "all-parts-fetched": lambda d: [d.get_part(n).root for n in ("content", "styles", "meta", "settings", "manifest")],
        "meta-edited": lambda d: setattr(d.meta, "subject", "subject set"),
        "nothing": lambda d: None,
    }
    POST = {
        "save": lambda d: None,
        "edit-then-save": lambda d: (setattr(d.meta, "description", "after clone"), d.body.append(Paragraph("after"))),
        "stamp-then-save": lambda d: d.meta.set_generator_default(),
        "save-twice": lambda d: d.save(io.BytesIO()),
    }
    bad, n = [], 0
    for st in starts:
        for pn, pre in PRE.items():
            for qn, post in POST.items():
                try:
                    d = pkglib.limited(Document, st)
                    pkglib.limited(pre, d)
                    c = pkglib.limited(lambda: d.clone)
                    outs = []
                    for doc in (d, c):
                        pkglib.limited(post, doc)
                        b = io.BytesIO(); pkglib.limited(doc.save, b)
                        outs.append(dict((nm, c14n(data)) for nm, _, data in pkglib.read_zip(b.getvalue())))
                    n += 1
                    if outs[0] != outs[1]:
                        diff = sorted(k for k in set(outs[0]) | set(outs[1]) if outs[0].get(k) != outs[1].get(k))
                        bad.append(("twin-run/%s/%s" % (pn.split("+")[0], diff[0]), dict(start=st, pre=pn, post=qn, differing_members=diff[:4])))
                except pkglib.Timeout:
                    continue
                except Exception as e:
                    bad.append(("twin-run/raises-%s" % type(e).__name__, dict(start=st, pre=pn, post=qn, error=repr(e)[:200])))
    # XmlPart.clone, every part class: what the class stores beside the tree is carried over, and the same call gives the same result
    for st in starts[:4]:
        for name in ("content", "styles", "meta", "settings", "manifest"):
            try:
                d = pkglib.limited(Document, st)
                part = d.get_part(name); _ = part.root
                if name == "meta":
                    part.generator = "Custom Generator 1.0"
                cl = pkglib.limited(lambda: part.clone)
                n += 1
                base = ("container", "_XmlPart__tree", "_XmlPart__root")
                for key, value in part.__dict__.items():
                    if key in base:
                        continue
                    if key not in cl.__dict__ or cl.__dict__[key] != value:
                        bad.append(("xmlpart-clone/state-not-carried-over/%s" % type(part).__name__, dict(start=st, part=name, attribute=key)))
                if name == "meta":
                    part.set_generator_default(); cl.set_generator_default()
                if c14n(part.serialize()) != c14n(cl.serialize()):
                    bad.append(("xmlpart-clone/behaves-differently/%s" % type(part).__name__, dict(start=st, part=name)))
            except pkglib.Timeout:
                continue
            except Exception as e:
                bad.append(("xmlpart-clone/raises-%s" % type(e).__name__, dict(start=st, part=name, error=repr(e)[:200])))
    return bad, n


def run_half(tier, seed, replay=None, finish=False):
    def post_hook(done, recmap, seed_, known, proofs):
        rj = json.load(open(replay)) if replay else None
        if rj and "ops" in rj:
            return [], [], {}, []
        bad, n = xmlpart_clone_oracle(tier, seed_)
        bad2, n2 = twin_run_oracle(tier, seed_)
        bad, n = bad + bad2, n + n2
        if rj and "xmlpart_case" in rj:
            bad = [b for b in bad if b[0] == rj["key"]][:1]
        viol, ks, seen = [], [], set()
        for key, case in bad:
            if key in seen:
                continue
            seen.add(key)
            rp = common.write_replay(PROP, seed_, "x%d" % len(seen), dict(layer="xmlpart-clone (direct oracle)", key=key, xmlpart_case=case))
            if key in known:
                ks.append("%s (%s) replay=%s" % (key, known[key]["description"][:90], rp))
            else:
                viol.append((rp, False))
        return viol, ks, dict(evaluations=n, distinct_nontrivial=n, xmlpart_clone_cases=n, xmlpart_clone_failures=len(bad)), []

    return pkglib.run_check(
        PROP, "chk10", LAYER, make_histories, key_of, tier, seed, replay,
        trusted_base=pkglib.PKG_TRUSTED + ["copy.deepcopy produces disjoint object graphs (the model's pair state is a product)"],
        rule="twin histories: start (template / private copy of each sample opened by path = lazy / buffer-opened) + 0-5 ops over %s, clone (original kept as twin), then ops over %s where 'swap' switches between original and clone; edge stream: source file removed after cloning, clone after unsaved edit + del_part + set_part, folder-opened original, clone of a clone. One Coq evaluation per executed operation, each comparing both documents. XmlPart.clone by a direct oracle (unedited / edited part x content, styles, meta)" % (sorted(PRE), sorted(WEIGHTS)),
        assumptions=["strict comparison of XML parts (C14N with comments + items outside the root element; generator masked in the model terms, NOT masked in the direct before / after / clone comparison made at every clone step)", "directory entries are not parts",
                     "saves of the clone go to fresh targets (overwriting the file a lazily loaded original still reads from is the user's action, not sharing)"],
        extra_prefixes=("clone/",),
        nontrivial_kinds=("clone2", "edit", "set", "del", "addfile", "save", "touch", "get"),
        case_fn=pkglib.step_case10, proof_file="C10doc", post_hook=post_hook, finish=finish)


def run(tier, seed, replay=None):
    return run_half(tier, seed, replay, finish=True)


if __name__ == "__main__":
    common.main(run)
