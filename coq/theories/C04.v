(* Property C04 — statements only.  Each is closed by [exact] of a lemma proved elsewhere. *)
From Coq Require Import List ZArith Bool. Import ListNotations.
Require Import Package PkgManproof.
Open Scope Z_scope.

(* repaired Manifest.add_full_path never lists a path twice *)
Theorem C04_add_full_path_unique : forall p m es, all_mt es = true -> NoDup (map fst es) -> NoDup (map fst (m_add true p m es)).
Proof. exact m_add_fixed_nodup. Qed.
Print Assumptions C04_add_full_path_unique.

(* F10: the pinned add_full_path duplicates an existing path *)
Theorem C04_add_full_path_refuted : exists p m es, NoDup (map fst es) /\ ~ NoDup (map fst (m_add false p m es)).
Proof. exact m_add_pinned_dup. Qed.
Print Assumptions C04_add_full_path_refuted.
