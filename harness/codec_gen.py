"""Helpers shared by c18.py and c06.py: the generated CSS table, Coq term printers, time-limited calls.

Gen_Css.v is re-emitted from $ODFDO_REPO/src/odfdo/const.py on every run by a fail-closed translator (ast, no import):
anything but a literal dict  str -> 3-tuple of int  stops the check with a correspondence failure."""
import ast, signal, sys
from pathlib import Path
sys.path.insert(0, str(Path(__file__).resolve().parent))
import common


class GenError(Exception):
    pass


def read_css_table():
    src = (common.SRC / "odfdo" / "const.py").read_text(encoding="utf-8")
    tree = ast.parse(src)
    node = None
    for st in tree.body:
        if isinstance(st, ast.Assign) and len(st.targets) == 1 and isinstance(st.targets[0], ast.Name) and st.targets[0].id == "CSS3_COLORMAP":
            node = st.value
        if isinstance(st, ast.AnnAssign) and isinstance(st.target, ast.Name) and st.target.id == "CSS3_COLORMAP":
            node = st.value
    if not isinstance(node, ast.Dict):
        raise GenError("CSS3_COLORMAP is not a literal dict in const.py")
    table = []
    for k, v in zip(node.keys, node.values):
        if not (isinstance(k, ast.Constant) and isinstance(k.value, str)):
            raise GenError("CSS3_COLORMAP key is not a string literal")
        if not (isinstance(v, ast.Tuple) and len(v.elts) == 3 and all(isinstance(e, ast.Constant) and type(e.value) is int for e in v.elts)):
            raise GenError("CSS3_COLORMAP[%r] is not a 3-tuple of int literals" % k.value)
        table.append((k.value, tuple(e.value for e in v.elts)))
    seen = {}
    for k, v in table:          # a dict literal keeps the last binding of a repeated key
        seen[k] = v
    return list(seen.items())


def cstr(s):
    return "[" + ";".join(str(ord(c)) for c in s) + "]"


def cz(z):
    return "(%d)%%Z" % z


def copt(x, f=lambda v: v):
    return "None" if x is None else "(Some %s)" % f(x)


def write_gen_css():
    """returns (table, path); rewrites the file only when its content changes (so make rebuilds dependents only then)"""
    table = read_css_table()
    lines = ["(* GENERATED on every run from src/odfdo/const.py (CSS3_COLORMAP) by harness/codec_gen.py - do not edit *)",
             "From Coq Require Import List ZArith NArith. Import ListNotations.",
             "Definition css3_colormap : list (list N * (Z * Z * Z)) := ["]
    lines.append(";\n".join("  (%s%%N, (%s, %s, %s))" % (cstr(k), cz(v[0]), cz(v[1]), cz(v[2])) for k, v in table))
    lines.append("].")
    txt = "\n".join(lines) + "\n"
    p = common.TH / "Gen_Css.v"
    if not p.exists() or p.read_text() != txt:
        p.write_text(txt)
    return table, p


class Timeout(Exception):
    pass


def _alarm(signum, frame):
    raise Timeout()


def limited(fn, seconds=5):
    """run fn() under an alarm; returns (ok, value | exception)"""
    old = signal.signal(signal.SIGALRM, _alarm)
    signal.setitimer(signal.ITIMER_REAL, seconds)
    try:
        return True, fn()
    except Timeout as e:
        return False, e
    except Exception as e:  # noqa
        return False, e
    finally:
        signal.setitimer(signal.ITIMER_REAL, 0)
        signal.signal(signal.SIGALRM, old)


if __name__ == "__main__":
    t, p = write_gen_css()
    print("wrote %s (%d colours)" % (p, len(t)))
