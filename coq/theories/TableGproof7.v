(* TableGproof7.v — C08 on every well-formed table whose rows fit its columns: get_cells / cells (each row gives the cells of
   the area it stores) and get_column_cells; then ALL getters at once. *)
From Coq Require Import List ZArith Lia Bool Arith.
Import ListNotations.
Require Import Vault Vaultproof Vaultproof3 Vaultproof4 Row Table Grid Tableabs Tableproof Tableproof2 Tableproof4 Tableproof5 Tableproof6 Tableproof7 Tableproof8
               Tablexmlproof TableB TableBproof TableG TableGspec TableGproof TableGproof2 TableGproof3 TableGproof4 TableGproof5 TableGproof6.
Open Scope Z_scope.

Lemma In_expand {A} (v : runs A) a : In a (expand v) -> exists n, In (n, a) v.
Proof.
  induction v as [|[n b] v IH]; cbn [expand]; [contradiction|]. intros H. apply in_app_or in H. destruct H as [H|H].
  - apply repeat_spec in H. subst. exists n. now left.
  - destruct (IH H) as [m Hm]. exists m. now right.
Qed.

(* Row.get_cell(x) for x >= 0 on a row object: stamped x, the row's y, the content of position x of the expansion *)
Lemma row_get_cell_spec x cl ry rh cs : wf cs -> 0 <= x ->
  let c := m_row_get_cell x cl ry rh cs in
  c_x c = Some x /\ c_y c = ry /\ c_val c = nth (Z.to_nat x) (expand cs) empty_cell.
Proof.
  intros Hw Hx. cbv zeta. unfold m_row_get_cell. rewrite (norm_coord_id x _ Hx). unfold rwidth.
  destruct (Z.leb_spec (Z.of_nat (width cs)) x) as [Hout|Hin].
  - cbn [c_x c_y c_val]. rewrite nth_overflow by (unfold width in Hout; lia). auto.
  - destruct (locate _ cs x Hw ltac:(lia)) as (ci & n & c & Hf & Hn & _).
    assert (Hcp : cell_pos_at x cs = Some (ci, (n, c))) by (unfold cell_pos_at; now rewrite Hf, Hn). rewrite Hcp.
    cbn [c_x c_y c_val]. repeat split.
    pose proof (cell_at_spec cs x Hw Hx) as Hs. unfold cell_at in Hs. rewrite Hf, Hn in Hs. cbn [option_map snd] in Hs.
    symmetry in Hs. symmetry. now apply nth_error_nth.
Qed.

Section Walk.
Variable t : tstate.
Hypothesis Hwf : WF t.

Lemma slice_row_facts s e i : (i < length (tr_slice s e t))%nat ->
  let r := nth i (tr_slice s e t) empty_row in
  wf (snd r) /\ expand (snd r) = g_row (lo s + Z.of_nat i) (abs_t t) /\ In r (expand (rows t)).
Proof.
  intros Hi. cbv zeta. destruct Hwf as [[Hwr Hwc] Hcw].
  assert (Hlo : 0 <= lo s) by (unfold lo; lia).
  rewrite (tr_slice_nth s e t i Hi).
  assert (Hlt : (Z.to_nat (lo s) + i < length (expand (rows t)))%nat).
  { unfold tr_slice in Hi. rewrite firstn_length, skipn_length in Hi. lia. }
  pose proof (nth_In (expand (rows t)) empty_row Hlt) as Hin.
  split; [|split; [|exact Hin]].
  - apply (cwf_iff t Hwr) in Hcw. rewrite Forall_forall in Hcw. exact (Hcw _ Hin).
  - rewrite g_row_nth by lia. replace (Z.to_nat (lo s + Z.of_nat i)) with (Z.to_nat (lo s) + i)%nat by lia. reflexivity.
Qed.

(* the common part: every row of the slice oy..oe traversed from ox to oz *)
Lemma walk_cells (usefit : bool) ox oz oy oe (hif : Z -> Z) :
  (usefit = true -> fits t = true) ->
  (forall len, 0 <= len -> (usefit = true -> len <= twidth t) -> hif len = hi oz len) ->
  forall2b (forall2b (cobj_meets true true))
    (map (fun p : Z * rowx => m_row_traverse ox oz (Some (fst p)) (snd (snd p)))
         (combine (zrange (lo oy) (length (tr_slice oy oe t))) (tr_slice oy oe t)))
    (map (fun yy => map (fun xx => (xx, yy, nth (Z.to_nat xx) (g_row yy (abs_t t)) empty_cell))
                        (zint (lo ox) (hif (Z.of_nat (length (g_row yy (abs_t t)))))))
         (zint (lo oy) (hi oe (theight t)))) = true.
Proof.
  intros Hfit Hhif.
  unfold zint at 2. rewrite <- (tr_slice_length oy oe t). set (n := length (tr_slice oy oe t)).
  change (map (fun d : nat => lo oy + Z.of_nat d) (seq 0 n)) with (zrange (lo oy) n).
  apply (forall2b_map_combine _ _ _ 0 empty_row); [now rewrite zrange_length|].
  rewrite zrange_length. intros i Hi. rewrite (nth_zrange n _ _ Hi).
  destruct (slice_row_facts oy oe i Hi) as (Hw & He & Hin). cbv zeta in *.
  set (r := nth i (tr_slice oy oe t) empty_row) in *. cbn [fst snd].
  rewrite <- He.
  rewrite Hhif; [exact (row_traverse_meets true true ox oz (lo oy + Z.of_nat i) (snd r) Hw)|lia|].
  intros Hu. destruct (In_expand _ _ Hin) as [k Hk]. specialize (Hfit Hu). unfold fits in Hfit. rewrite forallb_forall in Hfit.
  specialize (Hfit _ Hk). cbn [snd] in Hfit. apply Z.leb_le in Hfit. exact Hfit.
Qed.

Lemma get_cells_as_stored area : fits t = true ->
  meets true true (GCells (m_get_cells false false area t)) (spec_get false (abs_t t) (GGetCells area)) = true.
Proof.
  intros Hfit. cbn [meets spec_get]. rewrite gheight_abs, ncols_abs.
  assert (Hny : forall y, 0 <= ny y t) by (intros; apply norm_coord_nonneg, theight_nonneg).
  assert (Hnx : forall x, 0 <= nx x t) by (intros; apply norm_coord_nonneg, twidth_nonneg).
  unfold m_get_cells. destruct area as [[[[x y] z] e]|]; cbn [negb orb]; rewrite m_traverse_spec, map_map.
  - fold (nx x t) (ny y t) (nx z t) (ny e t). cbn [mkrow r_y r_val].
    assert (Hlx : lo (Some (nx x t)) = nx x t) by (unfold lo; specialize (Hnx x); lia).
    assert (Hly : lo (Some (ny y t)) = ny y t) by (unfold lo; specialize (Hny y); lia).
    pose proof (walk_cells true (Some (nx x t)) (Some (nx z t)) (Some (ny y t)) (Some (ny e t))
                  (fun len => Z.min (nx z t) (Z.min (twidth t - 1) (len - 1))) (fun _ => Hfit)) as H.
    rewrite Hlx, Hly in H. rewrite Hly. unfold hi in H. apply H.
    intros len Hl Hle. specialize (Hle eq_refl). lia.
  - cbn [mkrow r_y r_val].
    pose proof (walk_cells false None None None None (fun len => len - 1) ltac:(discriminate)) as H.
    unfold hi in H. change (lo None) with 0 in *. apply H. intros. reflexivity.
Qed.

Lemma cells_prop_holds : meets true true (GCells (m_cells false t)) (spec_get false (abs_t t) GCellsP) = true.
Proof.
  cbn [meets spec_get]. rewrite gheight_abs. unfold m_cells. rewrite m_traverse_spec, map_map. cbn [mkrow r_y r_val].
  pose proof (walk_cells false None None None None (fun len => len - 1) ltac:(discriminate)) as H.
  unfold hi in H. change (lo None) with 0 in *. apply H. intros. reflexivity.
Qed.

Lemma column_cells_holds x : meets true true (GCells [m_get_column_cells false x t]) (spec_get false (abs_t t) (GColumnCells x)) = true.
Proof.
  cbn [meets spec_get]. rewrite gheight_abs, ncols_abs. fold (nx x t).
  assert (Hnx : 0 <= nx x t) by (apply norm_coord_nonneg, twidth_nonneg).
  unfold forall2b at 1. cbn [length combine forallb fst snd Nat.eqb andb]. rewrite andb_true_r.
  unfold m_get_column_cells. rewrite m_traverse_spec, map_map.
  change (zint 0 (theight t - 1)) with (zint (lo None) (hi None (theight t))).
  unfold zint. rewrite <- (tr_slice_length None None t). set (n := length (tr_slice None None t)).
  change (map (fun d : nat => lo None + Z.of_nat d) (seq 0 n)) with (zrange (lo None) n).
  apply (forall2b_map_combine _ _ _ 0 empty_row); [now rewrite zrange_length|].
  rewrite zrange_length. intros i Hi. rewrite (nth_zrange n _ _ Hi).
  destruct (slice_row_facts None None i Hi) as (Hw & He & Hin). cbv zeta in *.
  set (r := nth i (tr_slice None None t) empty_row) in *. cbn [mkrow r_y r_val r_h fst snd].
  destruct (row_get_cell_spec (nx x t) true (Some (lo None + Z.of_nat i)) Detached (snd r) Hw Hnx) as (Hcx & Hcy & Hcv). cbv zeta in *.
  unfold cobj_meets. cbn [c_x c_y c_rep c_h c_val]. rewrite Hcx, Hcy, Hcv, <- He. cbn [oz_eqb]. rewrite !Z.eqb_refl.
  rewrite (proj2 (cell_eqb_iff _ _) eq_refl). cbn [andb Nat.eqb negb orb].
  rewrite m_row_get_cell_detached by (now left). reflexivity.
Qed.
End Walk.

(* ---- every getter, every well-formed table whose rows fit: the code as it is meets the as-stored specification ---- *)
Theorem all_getters_as_stored t q : WF t -> fits t = true -> C08_holds_as_stored t q.
Proof.
  intros Hwf Hfit. unfold C08_holds_as_stored.
  assert (Hsame : is_area_get_cells q = false -> spec_get false (abs_t t) q = spec_get true (abs_t t) q).
  { destruct q as [| |[a|]| | | | | | | | | |]; intros H; try reflexivity. discriminate. }
  destruct q as [x y cl kp|y cl|area| |range|s e|x|range|s e|x|y rcl x cl|y rcl s e|y rcl].
  - rewrite Hsame by reflexivity. now apply (single_object_getters t).
  - rewrite Hsame by reflexivity. now apply (single_object_getters t).
  - exact (get_cells_as_stored t Hwf area Hfit).
  - exact (cells_prop_holds t Hwf).
  - rewrite Hsame by reflexivity. now apply (row_walkers_hold t).
  - rewrite Hsame by reflexivity. now apply (row_walkers_hold t).
  - rewrite Hsame by reflexivity. now apply (single_object_getters t).
  - rewrite Hsame by reflexivity. now apply (column_getters_hold t).
  - rewrite Hsame by reflexivity. now apply (column_getters_hold t).
  - exact (column_cells_holds t Hwf x).
  - rewrite Hsame by reflexivity. now apply (row_getters_hold t).
  - rewrite Hsame by reflexivity. now apply (row_getters_hold t).
  - rewrite Hsame by reflexivity. now apply (row_getters_hold t).
Qed.
(* ... and the documented reading for every getter but get_cells(area) *)
Theorem all_getters_documented t q : WF t -> fits t = true -> is_area_get_cells q = false -> C08_holds t q.
Proof.
  intros Hwf Hfit Hn. pose proof (all_getters_as_stored t q Hwf Hfit) as H. unfold C08_holds_as_stored, C08_holds in *.
  destruct q as [| |[a|]| | | | | | | | | |]; try exact H. discriminate.
Qed.
