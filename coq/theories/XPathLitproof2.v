(* C14 — the predicate reader consumes the predicate built for any identifier *)
From Coq Require Import List NArith Bool Lia Arith.
Import ListNotations.
Require Import XPathLit XPathLitproof.
Open Scope N_scope.

Lemma span_name_app : forall a acc c rest, forallb name_char a = true -> name_char c = false ->
  span_name (a ++ c :: rest) acc = (rev acc ++ a, c :: rest).
Proof.
  induction a as [|x a IH]; intros acc c rest Ha Hc.
  - cbn [app span_name]. rewrite Hc, app_nil_r. reflexivity.
  - cbn [forallb] in Ha. apply andb_true_iff in Ha as [Hx Ha]. cbn [app span_name]. rewrite Hx.
    rewrite IH by assumption. cbn [rev]. now rewrite <- app_assoc.
Qed.

Theorem pred_wellformed a v : a <> [] -> forallb name_char a = true -> parse_pred (pred a v) = Some (a, v).
Proof.
  intros Hne Ha. unfold pred. cbn [app parse_pred]. rewrite !N.eqb_refl.
  rewrite (span_name_app a [] EQS (quote v ++ [RBRA]) Ha eq_refl). cbn [rev app].
  destruct a as [|x a']; [congruence|]. rewrite N.eqb_refl.
  rewrite string_expr_quote. now rewrite N.eqb_refl.
Qed.

Theorem pred_axis_wellformed a v : a <> [] -> forallb name_char a = true -> parse_pred (pred_axis a v) = Some (a, v).
Proof.
  intros Hne Ha. unfold pred_axis. cbn [app parse_pred]. rewrite N.eqb_refl.
  unfold s_attribute_axis at 1. cbn [app]. replace (97 =? AT) with false by reflexivity.
  change (97 :: 116 :: 116 :: 114 :: 105 :: 98 :: 117 :: 116 :: 101 :: 58 :: 58 :: a ++ EQS :: quote v ++ [RBRA])
    with (s_attribute_axis ++ (a ++ EQS :: quote v ++ [RBRA])).
  rewrite strip_prefix_app.
  rewrite (span_name_app a [] EQS (quote v ++ [RBRA]) Ha eq_refl). cbn [rev app].
  destruct a as [|x a']; [congruence|]. rewrite N.eqb_refl.
  rewrite string_expr_quote. now rewrite N.eqb_refl.
Qed.
