From Coq Require Import List Arith Bool Lia.
Import ListNotations.
Require Import WS WSproof WSnfproof WSenc1 WSenc2.

Definition KText (res : list item) : Prop :=
  W false res = true /\ exists pre w, res = pre ++ [IStr w] /\ lastsp w = false /\ w <> [].
Definition KSpace (res : list item) : Prop :=
  W true res = true /\ ((exists pre n, res = pre ++ [IS n]) \/ (exists pre w, res = pre ++ [IStr w] /\ lastsp w = true)).
Definition st (k : bool) (res : list item) : Prop := if k then KSpace res else KText res.

Lemma all_sp_nonnil_len (c : str) : c <> [] -> 1 <= length c. Proof. destruct c; [congruence|simpl; lia]. Qed.

(* text then a space chunk *)
Lemma step_space res c : KText res -> all_sp c = true -> c <> [] ->
  KSpace (mid_step res c) /\ (1 < length c -> W false (mid_step res c) = true).
Proof.
  intros [HW (pre & w & -> & Hl & Hne)] Hsp Hc.
  rewrite W_split in HW. apply andb_true_iff in HW as [Hpre Hw].
  cbn [W] in Hw. rewrite Hl in Hw. cbn [hd_str negb] in Hw. rewrite !andb_true_r in Hw.
  apply andb_true_iff in Hw as [Hw Hst]. apply andb_true_iff in Hw as [Hnn Hd].
  assert (Hd' : no_dsp (w ++ [Sp]) = true) by (apply no_dsp_app; auto; intros; congruence).
  assert (Hst' : negb (starts_sp (w ++ [Sp])) = true) by (rewrite starts_app; auto).
  assert (Hnn' : negb (is_nil (w ++ [Sp])) = true) by (rewrite is_nil_app; auto).
  unfold mid_step. rewrite Hsp, andb_true_r.
  destruct (Nat.ltb_spec 1 (length c)) as [Hlen|Hlen].
  - rewrite merge_text_snoc_str, <- app_assoc. cbn [app].
    assert (HWf : W false (pre ++ [IStr (w ++ [Sp]); IS (length c - 1)]) = true).
    { rewrite W_split. rewrite (Wp_cls pre _ (IStr w)) by reflexivity. rewrite Hpre. cbn [andb W].
      rewrite lastsp_app_sp, Hnn', Hd', Hst'. cbn [is_ISpos hd_str negb andb].
      replace (1 <=? length c - 1) with true by (symmetry; apply Nat.leb_le; lia). reflexivity. }
    split; [|intros _; exact HWf]. split.
    + apply W_false_true. exact HWf.
    + left. exists (pre ++ [IStr (w ++ [Sp])]), (length c - 1). now rewrite <- app_assoc.
  - assert (c = [Sp]).
    { destruct c as [|t [|u c']]; [congruence| |cbn [length] in Hlen; lia].
      unfold all_sp in Hsp. cbn [forallb] in Hsp. destruct t; cbn in Hsp; try discriminate. reflexivity. }
    subst c.
    rewrite merge_text_snoc_str. split; [|cbn [length]; intros; lia]. split.
    + rewrite W_split. rewrite (Wp_cls pre _ (IStr w)) by reflexivity. rewrite Hpre. cbn [andb W].
      rewrite lastsp_app_sp, Hnn', Hd', Hst'. reflexivity.
    + right. exists pre, (w ++ [Sp]). split; [reflexivity|apply lastsp_app_sp].
Qed.

(* space then a text chunk *)
Lemma step_text res c : KSpace res -> nosp c = true -> c <> [] -> KText (mid_step res c).
Proof.
  intros [HW Hshape] Hns Hc.
  assert (Hmid : mid_step res c = merge_text res c).
  { unfold mid_step. replace (all_sp c) with false; [now rewrite andb_false_r|].
    destruct c as [|t c']; [congruence|]. unfold nosp, all_sp in *. cbn [forallb] in *.
    destruct (is_sp t); cbn in *; congruence. }
  rewrite Hmid.
  destruct Hshape as [(pre & n & ->) | (pre & w & -> & Hl)].
  - rewrite merge_text_snoc_IS. rewrite W_split in HW. apply andb_true_iff in HW as [Hpre Hn].
    cbn [W] in Hn. rewrite andb_true_r in Hn.
    split.
    + replace (pre ++ [IS n; IStr c]) with (pre ++ IS n :: [IStr c]) by reflexivity.
      rewrite W_split, Hpre. cbn [andb W]. rewrite Hn.
      rewrite (nosp_lastsp c Hns), (nosp_no_dsp c Hns), (nosp_starts c Hns).
      destruct c; [congruence|reflexivity].
    + exists (pre ++ [IS n]), c. rewrite <- app_assoc. repeat split; auto. apply nosp_lastsp; auto.
  - rewrite merge_text_snoc_str. rewrite W_split in HW. apply andb_true_iff in HW as [Hpre Hw].
    cbn [W] in Hw. rewrite Hl in Hw. cbn [hd_str negb] in Hw. rewrite !andb_true_r in Hw.
    apply andb_true_iff in Hw as [Hw Hst]. apply andb_true_iff in Hw as [Hnn Hd].
    assert (Hwne : w <> []) by (destruct w; [discriminate|discriminate]).
    split.
    + rewrite W_split. rewrite (Wp_cls pre _ (IStr w)) by reflexivity. rewrite Hpre. cbn [andb W].
      rewrite (lastsp_app_ne w c Hc), (nosp_lastsp c Hns), is_nil_app by auto.
      rewrite no_dsp_app; auto; [|apply nosp_no_dsp; auto|intros; apply nosp_starts; auto].
      rewrite starts_app by auto. rewrite Hst. reflexivity.
    + exists pre, (w ++ c). repeat split.
      * rewrite lastsp_app_ne by auto. apply nosp_lastsp; auto.
      * destruct w; [congruence|discriminate].
Qed.
