(* Transformproof16.v — Table.transpose(coord): the block write for clone=True, the grid meaning of the area variant,
   its explicit law (the cell at (x+b, y+a) afterwards is the cell at (x+a, y+b) before; what is left of a non-square
   source rectangle is blanked; every other coordinate is unchanged) and the refinement of the run-length model. *)
From Coq Require Import List ZArith Lia Bool Arith.
Import ListNotations.
Require Import Vault Vaultproof Row Table Grid Tableabs Tableproof Tableproof5 Tableproof6 Tableproof8 Transform Transformspec
               Transformproof4 Transformproof6 Transformproof7 Transformproof8.
Open Scope Z_scope.

(* ---- Table.set_cells(cells, (x,y), clone) for either value of clone ---- *)
Lemma nth_row_set_unit_any cl (c r : list cell) x n : 0 <= x ->
  nth n (lstep r (RSetCells cl x (unit_runs c))) empty_cell =
    if ((Z.to_nat x <=? n) && (n <? Z.to_nat x + length c))%nat then nth (n - Z.to_nat x) c empty_cell else nth n r empty_cell.
Proof.
  intros Hx. destruct cl; [|apply nth_row_set_unit; exact Hx].
  cbn [lstep]. rewrite (norm_coord_id x _ Hx). cbn [negb]. rewrite Bool.andb_false_r. cbn [andb]. apply nth_l_set_cells_unit.
Qed.
Lemma gcell_edit_row_any cl x y c g i j : 0 <= x -> 0 <= y -> 0 <= i -> 0 <= j ->
  gcell i j (g_edit_row y (fun r => lstep r (RSetCells cl x (unit_runs c))) g) =
    if (j =? y) && (x <=? i) && (i <? x + Z.of_nat (length c)) then nth (Z.to_nat (i - x)) c empty_cell else gcell i j g.
Proof.
  intros Hx Hy Hi Hj. unfold gcell. destruct (Z.eqb_spec j y) as [->|Hne]; cbn [andb].
  - rewrite edit_row_that_row by lia. rewrite nth_row_set_unit_any by lia.
    destruct (Z.leb_spec x i); destruct (Z.ltb_spec i (x + Z.of_nat (length c)));
      destruct (Nat.leb_spec (Z.to_nat x) (Z.to_nat i)); destruct (Nat.ltb_spec (Z.to_nat i) (Z.to_nat x + length c)); cbn [andb]; try lia; try reflexivity.
    f_equal. lia.
  - rewrite edit_row_other_rows by lia. reflexivity.
Qed.
Lemma gcell_set_lines_any cl x cells : forall y g i j, 0 <= x -> 0 <= y -> 0 <= i -> 0 <= j ->
  gcell i j (g_set_lines cl x y (lines_of cells) g) =
    if in_block x y cells i j then nth (Z.to_nat (i - x)) (nth (Z.to_nat (j - y)) cells []) empty_cell else gcell i j g.
Proof.
  induction cells as [|c cs IH]; intros y g i j Hx Hy Hi Hj.
  - cbn [lines_of map g_set_lines]. unfold in_block. cbn [length Z.of_nat].
    destruct (Z.leb_spec y j); destruct (Z.ltb_spec j (y + 0)); cbn [andb]; try reflexivity; lia.
  - set (g1 := match unit_runs c with [] => g | _ => g_edit_row y (fun r => lstep r (RSetCells cl x (unit_runs c))) g end).
    assert (E : g_set_lines cl x y (lines_of (c :: cs)) g = g_set_lines cl x (y + 1) (lines_of cs) g1).
    { unfold g1. cbn [lines_of map g_set_lines]. destruct (unit_runs c); reflexivity. }
    assert (G1 : gcell i j g1 = if (j =? y) && (x <=? i) && (i <? x + Z.of_nat (length c)) then nth (Z.to_nat (i - x)) c empty_cell else gcell i j g).
    { unfold g1. destruct c as [|c0 c].
      - cbn [unit_runs map length Z.of_nat]. destruct (j =? y); destruct (Z.leb_spec x i); destruct (Z.ltb_spec i (x + 0)); cbn [andb]; try reflexivity; lia.
      - rewrite unit_runs_cons. rewrite <- unit_runs_cons. apply gcell_edit_row_any; assumption. }
    rewrite E, IH by lia. rewrite G1. unfold in_block. cbn [length]. rewrite Nat2Z.inj_succ.
    destruct (Z.eqb_spec j y) as [->|Hne].
    + replace (Z.to_nat (y - y)) with 0%nat by lia. cbn [nth].
      destruct (Z.leb_spec (y + 1) y); [lia|]. cbn [andb].
      destruct (Z.leb_spec y y); [|lia]. destruct (Z.ltb_spec y (y + Z.succ (Z.of_nat (length cs)))); [|lia]. cbn [andb]. reflexivity.
    + cbn [andb].
      destruct (Z.leb_spec (y + 1) j); destruct (Z.ltb_spec j (y + 1 + Z.of_nat (length cs))); cbn [andb].
      * destruct (Z.leb_spec y j); [|lia]. destruct (Z.ltb_spec j (y + Z.succ (Z.of_nat (length cs)))); [|lia]. cbn [andb].
        replace (Z.to_nat (j - y)) with (S (Z.to_nat (j - (y + 1)))) by lia. cbn [nth]. reflexivity.
      * destruct (Z.leb_spec y j); destruct (Z.ltb_spec j (y + Z.succ (Z.of_nat (length cs)))); cbn [andb]; try reflexivity; lia.
      * destruct (Z.leb_spec y j); destruct (Z.ltb_spec j (y + Z.succ (Z.of_nat (length cs)))); cbn [andb]; try reflexivity; lia.
      * destruct (Z.leb_spec y j); destruct (Z.ltb_spec j (y + Z.succ (Z.of_nat (length cs)))); cbn [andb]; try reflexivity; lia.
Qed.

(* ---- the blanking block ---- *)
Lemma lines_of_blank w h : lines_of (repeat (repeat empty_cell w) h) = repeat (repeat (1%nat, empty_cell) w) h.
Proof. unfold lines_of, unit_runs. rewrite map_repeat'. f_equal. apply map_repeat'. Qed.
Lemma nth_blank w h a b : nth a (nth b (repeat (repeat empty_cell w) h) []) empty_cell = empty_cell.
Proof.
  destruct (Nat.ltb_spec b h).
  - rewrite (nth_repeat_lt (repeat empty_cell w) [] b h) by assumption. apply nth_repeat_same.
  - assert (Hl : (length (repeat (repeat empty_cell w) h) <= b)%nat) by (rewrite repeat_length; lia).
    rewrite (nth_overflow _ _ Hl). destruct a; reflexivity.
Qed.

Lemma max_length_le ll n : (forall r, In r ll -> (length r <= n)%nat) -> (max_length ll <= n)%nat.
Proof.
  intros H. unfold max_length. assert (G : forall l a0, (a0 <= n)%nat -> (forall r, In r l -> (length r <= n)%nat) ->
     (fold_left (fun acc (r : list cell) => Nat.max acc (length r)) l a0 <= n)%nat).
  { induction l as [|r l IH]; intros a0 Ha Hl; cbn [fold_left]; [exact Ha|].
    apply IH; [specialize (Hl r (or_introl eq_refl)); lia|intros; apply Hl; right; assumption]. }
  apply G; [lia|exact H].
Qed.

Lemma area_read_gen x y z t G : 0 <= x -> 0 <= y ->
  length (g_area_read x y z t G) = Nat.min (Z.to_nat (t + 1 - y)) (length (grows G) - Z.to_nat y) /\
  forall j', (j' < length (g_area_read x y z t G))%nat ->
    nth j' (g_area_read x y z t G) [] = firstn (Z.to_nat (z + 1 - x)) (skipn (Z.to_nat x) (g_row (y + Z.of_nat j') G)).
Proof.
  intros Hx Hy. unfold g_area_read.
  set (f := fun r : list cell => firstn (Z.to_nat (z + 1 - x)) (skipn (Z.to_nat x) r)).
  assert (Hlen : length (map f (firstn (Z.to_nat (t + 1 - y)) (skipn (Z.to_nat y) (grows G)))) =
                 Nat.min (Z.to_nat (t + 1 - y)) (length (grows G) - Z.to_nat y)).
  { rewrite map_length, firstn_length, skipn_length. reflexivity. }
  split; [exact Hlen|]. intros j' Hj'. rewrite Hlen in Hj'.
  assert (Hl : (j' < length (map f (firstn (Z.to_nat (t + 1 - y)) (skipn (Z.to_nat y) (grows G)))))%nat) by (rewrite Hlen; exact Hj').
  rewrite (nth_indep _ [] (f []) Hl). rewrite map_nth. unfold f. f_equal. f_equal.
  rewrite nth_firstn_lt by lia. rewrite nth_skipn'. unfold g_row. f_equal. lia.
Qed.

(* ---- the law on the grid, for an area inside the table ---- *)
Theorem g_transpose_area_law x y z t g : 0 <= x <= z -> z < ncols g -> 0 <= y <= t -> t < gheight g ->
  let D := g_area_read x y z t g in
  let T := zip_longest empty_cell D in
  forall i j, 0 <= i -> 0 <= j ->
  gcell i j (g_transpose_area x y z t g) =
    if in_block x y T i j then gcell (x + (j - y)) (y + (i - x)) g
    else if negb (z - x + 1 =? t - y + 1) && in_area x y z t i j then empty_cell
    else gcell i j g.
Proof.
  intros Hx Hz Hy Ht D T i j Hi Hj. unfold g_transpose_area.
  rewrite !Z.min_l by lia. fold D. fold T.
  set (w := z - x + 1). set (h := t - y + 1).
  set (g1 := if w =? h then g else g_step g (OSetLines false x y (repeat (repeat (1%nat, empty_cell) (Z.to_nat w)) (Z.to_nat h)))).
  assert (G1 : gcell i j g1 = if negb (w =? h) && in_area x y z t i j then empty_cell else gcell i j g).
  { unfold g1. destruct (w =? h); cbn [negb andb]; [reflexivity|].
    rewrite <- lines_of_blank. rewrite gcell_step_set_lines by lia. rewrite nth_blank.
    unfold in_block, in_area. rewrite repeat_length.
    destruct (Z.leb_spec y j); destruct (Z.ltb_spec j (y + Z.of_nat (Z.to_nat h))); destruct (Z.leb_spec j t); unfold h in *; try lia; cbn [andb];
      rewrite ?Bool.andb_false_r; try reflexivity.
    rewrite (nth_repeat_lt (repeat empty_cell (Z.to_nat w)) [] (Z.to_nat (j - y)) (Z.to_nat (t - y + 1))) by lia. rewrite repeat_length.
    destruct (Z.leb_spec x i); destruct (Z.ltb_spec i (x + Z.of_nat (Z.to_nat w))); destruct (Z.leb_spec i z); unfold w in *; try lia; reflexivity. }
  cbn [g_step]. rewrite !norm_coord_id by lia. rewrite gcell_set_lines_any by lia.
  destruct (in_block x y T i j) eqn:Eb; [|exact G1].
  (* inside the target block: the transposed cell *)
  unfold in_block in Eb. apply andb_prop in Eb. destruct Eb as [Eb E4]. apply andb_prop in Eb. destruct Eb as [Eb E3].
  apply andb_prop in Eb. destruct Eb as [E1 E2]. apply Z.leb_le in E1. apply Z.ltb_lt in E2. apply Z.leb_le in E3. apply Z.ltb_lt in E4.
  unfold T in E2. rewrite zip_length in E2.
  assert (Hjl : (Z.to_nat (j - y) < max_length D)%nat) by lia.
  unfold T in E4 |- *. rewrite zip_nth in E4 |- * by exact Hjl. rewrite map_length in E4.
  rewrite nth_map_rows.
  (* D has h rows, each at most w long *)
  assert (HlenD : length D = Z.to_nat h).
  { unfold D, g_area_read. rewrite map_length, firstn_length, skipn_length. unfold gheight in Ht. unfold h. lia. }
  assert (Hil : (Z.to_nat (i - x) < Z.to_nat h)%nat) by lia.
  assert (Hmax : (max_length D <= Z.to_nat w)%nat).
  { apply max_length_le. intros r Hr. unfold D, g_area_read in Hr. apply in_map_iff in Hr. destruct Hr as (r0 & <- & _).
    rewrite firstn_length. unfold w. lia. }
  destruct (area_read_gen x y z t g ltac:(lia) ltac:(lia)) as [HlenR Hrows]. fold D in HlenR, Hrows.
  assert (Hrow : nth (Z.to_nat (i - x)) D [] = firstn (Z.to_nat (z + 1 - x)) (skipn (Z.to_nat x) (g_row (y + (i - x)) g))).
  { rewrite (Hrows (Z.to_nat (i - x))) by (rewrite HlenD; exact Hil). do 3 f_equal. lia. }
  rewrite Hrow. rewrite nth_firstn_lt by (unfold w in Hmax; lia). rewrite nth_skipn'. unfold gcell. f_equal. lia.
Qed.

(* ---- the run-length model refines the grid meaning ---- *)
Theorem transpose_area_refines x y z t st : WF st -> 0 <= Z.min x (twidth st - 1) -> 0 <= Z.min y (theight st - 1) ->
  exists st', t_transpose_area x y z t st = Some st' /\ WF st' /\ abs_t st' = g_transpose_area x y z t (abs_t st).
Proof.
  intros Hwf Hx Hy. unfold t_transpose_area, g_transpose_area.
  change (ncols (abs_t st)) with (twidth st). rewrite gheight_abs.
  set (x' := Z.min x (twidth st - 1)) in *. set (z' := Z.min z (twidth st - 1)).
  set (y' := Z.min y (theight st - 1)) in *. set (t' := Z.min t (theight st - 1)).
  rewrite (area_read_grid x' y' z' t' st Hwf Hx).
  set (T := lines_of (zip_longest empty_cell (g_area_read x' y' z' t' (abs_t st)))).
  set (B := repeat (repeat (1%nat, empty_cell) (Z.to_nat (z' - x' + 1))) (Z.to_nat (t' - y' + 1))).
  assert (HB : Forall cells_ok B).
  { unfold B. apply Forall_forall. intros l Hl. apply repeat_spec in Hl. subst l. unfold cells_ok. apply Forall_forall.
    intros c Hc. apply repeat_spec in Hc. subst c. cbn. lia. }
  destruct (z' - x' + 1 =? t' - y' + 1).
  - destruct (step_refines st (OSetLines true x' y' T) Hwf (lines_ok _)) as (st2 & Hs2 & Hwf2 & Habs2).
    exists st2. split; [exact Hs2|split; [exact Hwf2|exact Habs2]].
  - destruct (step_refines st (OSetLines false x' y' B) Hwf HB) as (st1 & Hs1 & Hwf1 & Habs1). rewrite Hs1.
    destruct (step_refines st1 (OSetLines true x' y' T) Hwf1 (lines_ok _)) as (st2 & Hs2 & Hwf2 & Habs2).
    exists st2. split; [exact Hs2|]. split; [exact Hwf2|]. rewrite Habs2, Habs1. reflexivity.
Qed.
