(* CodecDurproof.v — Duration.decode (repaired) is sound and complete for the xsd:duration subset a timedelta can hold;
   the pinned decoder is not sound. *)
From Coq Require Import List ZArith NArith Lia Bool Arith ZifyBool.
Import ListNotations.
Require Import Codec Codecproof.

(* ------------------------------------------------------------------ Duration.decode: sound and complete for the lexical space *)
Lemma is_digit_consts : is_digit c_D = false /\ is_digit c_H = false /\ is_digit c_M = false /\ is_digit c_S = false /\
  is_digit c_T = false /\ is_digit c_dot = false /\ is_digit c_P = false /\ is_digit c_minus = false.
Proof. repeat split; reflexivity. Qed.

Lemma opt_part_spec c s n rest : opt_part c s = Some (n, rest) ->
  exists ds, digit_str ds /\ s = ds ++ c :: rest /\ n = digits_val ds.
Proof.
  unfold opt_part. destruct (read_N s) as [[n' r]|] eqn:E; [|discriminate].
  destruct r as [|c' r]; [discriminate|]. destruct (N.eqb_spec c' c); [|discriminate]. subst c'.
  intros H; inversion H; subst. apply read_N_spec in E as (ds & -> & Hd & -> & _). exists ds. auto.
Qed.
Lemma part_or_zero_spec c s n rest b : part_or_zero c s = (n, rest, b) ->
  exists o, opt_digit_str o /\ s = comp c o ++ rest /\ n = comp_val o /\ b = is_some o.
Proof.
  unfold part_or_zero. destruct (opt_part c s) as [[n' r]|] eqn:E; intros H; inversion H; subst.
  - apply opt_part_spec in E as (ds & Hd & -> & ->). exists (Some ds). cbn. rewrite <- app_assoc. auto.
  - exists None. cbn. auto.
Qed.
Lemma opt_seconds_spec s n u rest : opt_seconds s = Some (n, u, rest) ->
  exists o, sec_ok (Some o) /\ s = sec_comp (Some o) ++ rest /\ (n * 1000000 + u)%N = sec_us (Some o).
Proof.
  unfold opt_seconds. destruct (read_N s) as [[n' r]|] eqn:E; [|discriminate].
  destruct r as [|c' r]; [discriminate|]. apply read_N_spec in E as (ds & -> & Hd & -> & _).
  destruct (N.eqb_spec c' c_S).
  - subst c'. intros H; inversion H; subst. exists (ds, None). cbn [sec_ok sec_comp sec_us]. rewrite <- app_assoc. split; [exact Hd | split; [reflexivity | lia]].
  - destruct (N.eqb_spec c' c_dot); [|discriminate]. subst c'.
    destruct (read_digits r) as [f r'] eqn:F. apply read_digits_spec in F as (-> & Hf & _).
    destruct f as [|f0 f]; [discriminate|]. destruct r' as [|c'' r'']; [discriminate|].
    destruct (N.eqb_spec c'' c_S); [|discriminate]. subst c''. intros H; inversion H; subst.
    exists (ds, Some (f0 :: f)). cbn [sec_ok sec_comp sec_us]. split; [|split].
    + split; [exact Hd | split; [discriminate | exact Hf]].
    + rewrite <- !app_assoc. cbn [app]. rewrite <- app_assoc. reflexivity.
    + reflexivity.
Qed.

Definition dur_denotes (neg : bool) (t1 : str) (v : Z) : Prop :=
  exists (d h m : option str) (s : option (str * option str)),
    opt_digit_str d /\ opt_digit_str h /\ opt_digit_str m /\ sec_ok s /\
    let time := is_some h || is_some m || is_some s in
    (is_some d || time = true) /\
    t1 = c_P :: comp c_D d ++ (if time then c_T :: comp c_H h ++ comp c_M m ++ sec_comp s else []) /\
    v = ((if neg then -1 else 1) * Z.of_N ((comp_val d * 86400 + comp_val h * 3600 + comp_val m * 60) * 1000000 + sec_us s))%Z.

Lemma dur_body_sound (neg : bool) t1 v : dur_body (if neg then -1 else 1)%Z t1 = Some v -> dur_denotes neg t1 v.
Proof.
  unfold dur_body. set (sg := (if neg then -1 else 1)%Z).
  destruct t1 as [|c t2]; [discriminate|]. destruct (N.eqb_spec c c_P); [|discriminate]. subst c. cbn [negb].
  destruct (part_or_zero c_D t2) as [[d t3] hd] eqn:ED. apply part_or_zero_spec in ED as (od & Hod & -> & -> & ->).
  destruct t3 as [|c' t4].
  - destruct (is_some od) eqn:Eod; [|discriminate]. intros H; inversion H; subst v. clear H.
    exists od, None, None, None. cbn [opt_digit_str sec_ok is_some orb sec_comp comp comp_val sec_us].
    rewrite Eod. repeat split; auto. f_equal. lia.
  - destruct (N.eqb_spec c' c_T); [|discriminate]. subst c'. cbn [negb].
    destruct (part_or_zero c_H t4) as [[h t5] hh] eqn:EH. apply part_or_zero_spec in EH as (oh & Hoh & -> & -> & ->).
    destruct (part_or_zero c_M t5) as [[m t6] hm] eqn:EM. apply part_or_zero_spec in EM as (om & Hom & -> & -> & ->).
    destruct t6 as [|x t6'].
    + destruct (is_some oh || is_some om) eqn:Et; [|discriminate]. intros H; inversion H; subst v. clear H.
      exists od, oh, om, None. cbn [opt_digit_str sec_ok is_some sec_comp sec_us]. rewrite orb_false_r, Et, orb_true_r.
      repeat split; auto; try (f_equal; lia).
    + destruct (opt_seconds (x :: t6')) as [[[sec us] r]|] eqn:ES; [|discriminate].
      destruct r; [|discriminate]. apply opt_seconds_spec in ES as (os & Hos & Es & Hv).
      intros H; inversion H; subst v. clear H.
      exists od, oh, om, (Some os). cbn [is_some]. rewrite !orb_true_r.
      repeat split; auto.
      * rewrite Es, app_nil_r. reflexivity.
      * f_equal. lia.
Qed.

Lemma xsd_dur_denotes t v : xsd_dur t v <-> exists (neg : bool) t1, t = (if neg then [c_minus] else []) ++ t1 /\ dur_denotes neg t1 v.
Proof.
  unfold xsd_dur, dur_denotes. split.
  - intros (neg & d & h & m & s & H1 & H2 & H3 & H4 & H5 & H6 & H7). exists neg. eexists. split; [exact H6|].
    exists d, h, m, s. repeat split; auto.
  - intros (neg & t1 & -> & d & h & m & s & H1 & H2 & H3 & H4 & H5 & -> & H7). exists neg, d, h, m, s. repeat split; auto.
Qed.

Theorem dur_decode_sound_lemma t v : dur_decode t = Some v -> xsd_dur t v.
Proof.
  intros H. apply xsd_dur_denotes. unfold dur_decode in H. destruct t as [|c r]; [discriminate|].
  destruct (N.eqb_spec c c_minus).
  - subst c. exists true, r. split; [reflexivity|]. apply (dur_body_sound true). exact H.
  - exists false, (c :: r). split; [reflexivity|]. apply (dur_body_sound false). exact H.
Qed.

(* ---- completeness: every string of the lexical space is read, with its value *)
Lemma opt_part_digits c ds rest : digit_str ds -> is_digit c = false -> opt_part c (ds ++ c :: rest) = Some (digits_val ds, rest).
Proof.
  intros [Hne Hd] Hc. unfold opt_part. rewrite read_N_digits by (auto; cbn; exact Hc). now rewrite N.eqb_refl.
Qed.
Lemma opt_part_other c ds c' rest : digit_str ds -> is_digit c' = false -> c' <> c -> opt_part c (ds ++ c' :: rest) = None.
Proof.
  intros [Hne Hd] Hc Hneq. unfold opt_part. rewrite read_N_digits by (auto; cbn; exact Hc).
  destruct (N.eqb_spec c' c); [contradiction | reflexivity].
Qed.
Lemma opt_part_nil c : opt_part c [] = None.
Proof. reflexivity. Qed.
(* a component is read when present; when absent the reader falls through provided what follows is not "digits c" *)
Lemma part_or_zero_comp c o rest : opt_digit_str o -> is_digit c = false ->
  (o = None -> opt_part c rest = None) ->
  part_or_zero c (comp c o ++ rest) = (comp_val o, rest, is_some o).
Proof.
  intros Ho Hc Hnone. unfold part_or_zero. destruct o as [ds|]; cbn [comp comp_val is_some opt_digit_str] in *.
  - rewrite <- app_assoc. cbn [app]. now rewrite opt_part_digits.
  - cbn [app]. now rewrite Hnone.
Qed.
Lemma sec_comp_shape s : sec_ok s -> match s with
  | None => sec_comp s = []
  | Some _ => exists ds c' r, digit_str ds /\ sec_comp s = ds ++ c' :: r /\ is_digit c' = false /\ (c' = c_S \/ c' = c_dot) end.
Proof.
  destruct s as [[ds [f|]]|]; cbn [sec_ok sec_comp]; [intros [Hd Hf] | intros Hd | reflexivity].
  - exists ds, c_dot, (f ++ [c_S]). auto.
  - exists ds, c_S, []. auto.
Qed.
Lemma comp_shape c o : opt_digit_str o -> match o with
  | None => comp c o = []
  | Some _ => exists ds, digit_str ds /\ comp c o = ds ++ [c] end.
Proof. destruct o as [ds|]; cbn; [intros H; exists ds; auto | reflexivity]. Qed.

Lemma opt_seconds_comp o : sec_ok (Some o) -> exists n u, opt_seconds (sec_comp (Some o)) = Some (n, u, []) /\ (n * 1000000 + u)%N = sec_us (Some o).
Proof.
  destruct o as [ds [f|]]; cbn [sec_ok sec_comp sec_us].
  - intros [[Hne Hd] [Hfne Hf]]. exists (digits_val ds), (frac6 f). split; [|reflexivity].
    unfold opt_seconds. rewrite read_N_digits by (auto; reflexivity).
    change (c_dot =? c_S)%N with false. change (c_dot =? c_dot)%N with true. cbn iota.
    rewrite read_digits_app by (auto; reflexivity).
    destruct f as [|f0 f]; [congruence|]. change (c_S =? c_S)%N with true. reflexivity.
  - intros [Hne Hd]. exists (digits_val ds), 0%N. split; [|lia].
    unfold opt_seconds. rewrite read_N_digits by (auto; reflexivity). reflexivity.
Qed.

Lemma dur_body_complete (neg : bool) t1 v : dur_denotes neg t1 v -> dur_body (if neg then -1 else 1)%Z t1 = Some v.
Proof.
  intros (d & h & m & s & Hd & Hh & Hm & Hs & Htime & -> & ->).
  set (sg := (if neg then -1 else 1)%Z). unfold dur_body. change (negb (c_P =? c_P)%N) with false. cbn iota.
  pose proof (sec_comp_shape s Hs) as Ss. pose proof (comp_shape c_H h Hh) as Sh. pose proof (comp_shape c_M m Hm) as Sm.
  destruct (is_some h || is_some m || is_some s) eqn:Et.
  - (* a time part *)
    rewrite part_or_zero_comp by (auto; reflexivity).
    change (negb (c_T =? c_T)%N) with false. cbn iota.
    rewrite part_or_zero_comp; [ | assumption | reflexivity | ].
    2:{ intros ->. destruct m as [dm|].
        - destruct Sm as (ds & Hds & ->). rewrite <- app_assoc. cbn [app]. apply opt_part_other; [assumption | reflexivity | discriminate].
        - rewrite Sm. cbn [app]. destruct s as [o|].
          + destruct Ss as (ds & c' & r & Hds & -> & Hc' & [->| ->]); apply opt_part_other; auto; discriminate.
          + rewrite Ss. reflexivity. }
    rewrite part_or_zero_comp; [ | assumption | reflexivity | ].
    2:{ intros ->. destruct s as [o|].
        - destruct Ss as (ds & c' & r & Hds & -> & Hc' & [->| ->]); apply opt_part_other; auto; discriminate.
        - rewrite Ss. reflexivity. }
    destruct s as [o|].
    + destruct (opt_seconds_comp o Hs) as (n & u & Hos & Hval).
      destruct Ss as (ds & c' & r & [Hne _] & E & _).
      destruct (sec_comp (Some o)) as [|x l] eqn:E2; [destruct ds; [congruence | discriminate]|].
      rewrite Hos. f_equal. f_equal. f_equal. lia.
    + rewrite Ss. cbn [is_some] in Et. rewrite orb_false_r in Et. rewrite Et. f_equal. f_equal. f_equal. cbn [sec_us]. lia.
  - (* days only *)
    rewrite app_nil_r. rewrite <- (app_nil_r (comp c_D d)). rewrite part_or_zero_comp by (auto; reflexivity).
    rewrite orb_false_r in Htime. rewrite Htime.
    apply orb_false_iff in Et as [Et Es]. apply orb_false_iff in Et as [Eh Em].
    destruct h; [discriminate|]. destruct m; [discriminate|]. destruct s; [discriminate|].
    f_equal. f_equal. f_equal. cbn [comp_val sec_us]. lia.
Qed.

Theorem dur_decode_complete_lemma t v : xsd_dur t v -> dur_decode t = Some v.
Proof.
  intros H. apply xsd_dur_denotes in H as (neg & t1 & -> & Hd).
  pose proof (dur_body_complete _ _ _ Hd) as Hb.
  destruct Hd as (d & h & m & s & _ & _ & _ & _ & _ & E & _).
  destruct neg; cbn [app]; unfold dur_decode.
  - change (c_minus =? c_minus)%N with true. exact Hb.
  - rewrite E in *. change (c_P =? c_minus)%N with false. exact Hb.
Qed.

Theorem dur_lexical_iff t : dur_lexical t = true <-> exists v, xsd_dur t v.
Proof.
  unfold dur_lexical. split.
  - destruct (dur_decode t) as [v|] eqn:E; [|discriminate]. intros _. exists v. now apply dur_decode_sound_lemma.
  - intros [v H]. now rewrite (dur_decode_complete_lemma _ _ H).
Qed.

Theorem dur_encode_lexical_lemma us : xsd_dur (dur_encode us) us /\ dur_lexical (dur_encode us) = true.
Proof.
  split; [apply dur_decode_sound_lemma, dur_decode_encode|]. unfold dur_lexical. now rewrite dur_decode_encode.
Qed.

(* F23: the pinned loop returns values for strings outside the lexical space, and wrong values inside it *)
Definition w_PT1_5S : str := [80;84;49;46;53;83]%N.   (* "PT1.5S" *)
Definition w_P1M : str := [80;49;77]%N.               (* "P1M"    *)
Definition w_PT_5S : str := [80;84;45;53;83]%N.       (* "PT-5S"  *)
Theorem dur_decode_pinned_unsound :
  (dur_decode_pinned w_PT1_5S = Some 15000000%Z /\ ~ xsd_dur w_PT1_5S 15000000) /\
  (dur_decode_pinned w_P1M = Some 60000000%Z /\ forall v, ~ xsd_dur w_P1M v) /\
  (dur_decode_pinned w_PT_5S = Some 5000000%Z /\ forall v, ~ xsd_dur w_PT_5S v).
Proof.
  repeat split; try reflexivity.
  - intros H. apply dur_decode_complete_lemma in H. vm_compute in H. discriminate.
  - intros v H. apply dur_decode_complete_lemma in H. vm_compute in H. discriminate.
  - intros v H. apply dur_decode_complete_lemma in H. vm_compute in H. discriminate.
Qed.
