(* Transformproof7.v — set_span / del_span: the run-length model refines the grid meaning (through C01's step and read
   theorems: the area is read with get_cell / get_cells and written back with set_cells). *)
From Coq Require Import List ZArith Lia Bool Arith.
Import ListNotations.
Require Import Vault Vaultproof Vaultproof5 Row Table Grid Tableabs Tableproof Tableproof4 Tableproof5 Tableproof6 Tableproof7
               Transform Transformspec Transformproof6.
Open Scope Z_scope.

Lemma in_zrange n : forall s v, In v (zrange s n) <-> s <= v < s + Z.of_nat n.
Proof.
  induction n as [|n IH]; intros s v; cbn [zrange In].
  - lia.
  - rewrite IH. lia.
Qed.

Lemma get_cell_grid t x y : WF t -> 0 <= x -> 0 <= y -> t_get_cell x y t = gcell x y (abs_t t).
Proof.
  intros Hwf Hx Hy. pose proof (read_refines t (QGetCell x y) Hwf) as H. cbn [t_read g_read] in H.
  rewrite !norm_coord_id in H by assumption. inversion H as [H1]. exact H1.
Qed.
Lemma area_cells_grid x y z t st : WF st -> 0 <= x -> 0 <= y -> area_cells x y z t st = g_area_cells x y z t (abs_t st).
Proof.
  intros Hwf Hx Hy. unfold area_cells, g_area_cells. apply map_ext_in. intros yy Hyy. apply in_zrange in Hyy.
  apply map_ext_in. intros xx Hxx. apply in_zrange in Hxx. apply get_cell_grid; [assumption|lia|lia].
Qed.
Lemma lines_ok cells : Forall cells_ok (lines_of cells).
Proof.
  unfold lines_of. rewrite Forall_map. apply Forall_forall. intros r _. unfold cells_ok, unit_runs. rewrite Forall_map.
  apply Forall_forall. intros c _. cbn. lia.
Qed.

Theorem set_span_refines a x y z t m mid st : WF st -> 0 <= x -> 0 <= y ->
  exists st' r, t_set_span a x y z t m mid st = Some (st', r) /\ WF st' /\
                (abs_t st', r) = g_set_span a x y z t m mid (abs_t st).
Proof.
  intros Hwf Hx Hy. unfold t_set_span, g_set_span. rewrite (area_cells_grid x y z t st Hwf Hx Hy).
  destruct ((x =? z) && (y =? t)); [exists st, false; split; [reflexivity|split; [exact Hwf|reflexivity]]|].
  unfold any_spanned.
  destruct (existsb (existsb (fun c : cell => is_spanned a (fst c))) (g_area_cells x y z t (abs_t st)));
    [exists st, false; split; [reflexivity|split; [exact Hwf|reflexivity]]|].
  set (cells2 := mark_span a (z - x + 1) (t - y + 1) (if m then merge_cells a mid (g_area_cells x y z t (abs_t st)) else g_area_cells x y z t (abs_t st))).
  destruct (step_refines st (OSetLines false x y (lines_of cells2)) Hwf (lines_ok cells2)) as (st' & Hs & Hwf' & Habs).
  rewrite Hs. exists st', true. split; [reflexivity|]. split; [exact Hwf'|]. rewrite Habs. reflexivity.
Qed.

Lemma In_firstn' {A} (l : list A) n x : In x (firstn n l) -> In x l.
Proof. intros H. rewrite <- (firstn_skipn n l). apply in_or_app. left. exact H. Qed.
Lemma In_skipn' {A} (l : list A) n x : In x (skipn n l) -> In x l.
Proof. intros H. rewrite <- (firstn_skipn n l). apply in_or_app. right. exact H. Qed.

Lemma area_read_grid x y z t st : WF st -> 0 <= x -> area_read x y z t st = g_area_read x y z t (abs_t st).
Proof.
  intros [[Hr Hc] Hcw] Hx. unfold area_read, g_area_read. cbn [abs_t grows].
  rewrite <- map_skipn, <- map_firstn, map_map. apply map_ext_in. intros r Hin.
  assert (Hall : Forall rwf (expand (rows st))) by (apply (cwf_iff st Hr); exact Hcw).
  assert (Hw : wf (snd r)).
  { rewrite Forall_forall in Hall. apply Hall. eapply In_skipn'. eapply In_firstn'. exact Hin. }
  unfold grow_of. apply traverse_range_spec; assumption.
Qed.

Theorem del_span_refines a x y st : WF st -> 0 <= x -> 0 <= y ->
  match g_del_span a x y (abs_t st) with
  | Some (g', r) => exists st', t_del_span a x y st = Some (st', r) /\ WF st' /\ abs_t st' = g'
  | None => t_del_span a x y st = None
  end.
Proof.
  intros Hwf Hx Hy. unfold t_del_span, g_del_span. rewrite (get_cell_grid st x y Hwf Hx Hy).
  destruct (ca_cs a (fst (gcell x y (abs_t st)))) as [nc|]; [|exists st; split; [reflexivity|split; [exact Hwf|reflexivity]]].
  destruct (ca_rs a (fst (gcell x y (abs_t st)))) as [nr|]; [|exists st; split; [reflexivity|split; [exact Hwf|reflexivity]]].
  rewrite (area_read_grid x y (x + nc - 1) (y + nr - 1) st Hwf Hx).
  destruct (g_area_read x y (x + nc - 1) (y + nr - 1) (abs_t st)) as [|[|c r0] rs] eqn:E; [reflexivity|reflexivity|].
  destruct (step_refines st (OSetLines false x y (lines_of (unmark_span a ((c :: r0) :: rs)))) Hwf (lines_ok _)) as (st' & Hs & Hwf' & Habs).
  rewrite Hs. exists st'. split; [reflexivity|]. split; [exact Hwf'|exact Habs].
Qed.
