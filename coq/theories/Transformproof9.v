(* Transformproof9.v — del_span after set_span restores every cell of the table (padded reading). *)
From Coq Require Import List ZArith Lia Bool Arith.
Import ListNotations.
Require Import Vault Vaultproof Row Table Grid Tableabs Tableproof Tableproof8 Transform Transformspec Transformproof4
               Transformproof6 Transformproof7 Transformproof8.
Open Scope Z_scope.

(* ---- lengths after a block write ---- *)
Lemma length_l_set1 (d c : cell) x l : (x + 1 <= length (l_set d x 1 c l))%nat.
Proof. unfold l_set. rewrite !app_length, length_firstn_pad. cbn [repeat length]. lia. Qed.
Lemma length_l_set_cells_unit (c : list cell) : forall x l, c <> [] -> (x + length c <= length (l_set_cells x (unit_runs c) l))%nat.
Proof.
  induction c as [|c0 c IH]; intros x l Hne; [congruence|]. rewrite unit_runs_cons. cbn [l_set_cells fst snd length].
  destruct c as [|c1 c].
  - cbn [unit_runs map l_set_cells length]. pose proof (length_l_set1 empty_cell c0 x l). lia.
  - specialize (IH (x + 1)%nat (l_set empty_cell x 1 c0 l)). cbn [length] in *. assert (c1 :: c <> []) by discriminate. specialize (IH H). lia.
Qed.
Lemma length_row_set_unit (c r : list cell) x : 0 <= x -> c <> [] ->
  (Z.to_nat x + length c <= length (lstep r (RSetCells false x (unit_runs c))))%nat.
Proof.
  intros Hx Hne. cbn [lstep]. rewrite (norm_coord_id x _ Hx). rewrite length_unit_runs. cbn [negb andb].
  destruct (Z.eqb_spec x 0) as [->|Hn]; cbn [andb].
  - destruct (Z.leb_spec (Z.of_nat (length r)) (Z.of_nat (length c))).
    + rewrite cells_of_unit_runs. cbn. lia.
    + apply length_l_set_cells_unit. exact Hne.
  - apply length_l_set_cells_unit. exact Hne.
Qed.

(* the rows after Table.set_cells(cells, (x,y), clone=False) *)
Lemma grow_set_lines x cells : forall y g j, 0 <= x -> 0 <= y -> 0 <= j ->
  g_row j (g_set_lines false x y (lines_of cells) g) =
    if (y <=? j) && (j <? y + Z.of_nat (length cells)) then
      match nth (Z.to_nat (j - y)) cells [] with
      | [] => g_row j g
      | c => lstep (g_row j g) (RSetCells false x (unit_runs c))
      end
    else g_row j g.
Proof.
  induction cells as [|c cs IH]; intros y g j Hx Hy Hj.
  - cbn [lines_of map g_set_lines length Z.of_nat]. destruct (Z.leb_spec y j); destruct (Z.ltb_spec j (y + 0)); cbn [andb]; try reflexivity; lia.
  - set (g1 := match unit_runs c with [] => g | _ => g_edit_row y (fun r => lstep r (RSetCells false x (unit_runs c))) g end).
    assert (E : g_set_lines false x y (lines_of (c :: cs)) g = g_set_lines false x (y + 1) (lines_of cs) g1).
    { unfold g1. cbn [lines_of map g_set_lines]. destruct (unit_runs c); reflexivity. }
    assert (G1 : g_row j g1 = if j =? y then match c with [] => g_row j g | _ => lstep (g_row j g) (RSetCells false x (unit_runs c)) end else g_row j g).
    { unfold g1. destruct c as [|c0 c].
      - cbn [unit_runs map]. destruct (j =? y); reflexivity.
      - rewrite unit_runs_cons. destruct (Z.eqb_spec j y) as [->|Hne].
        + rewrite edit_row_that_row by lia. reflexivity.
        + rewrite edit_row_other_rows by lia. reflexivity. }
    rewrite E, IH by lia. cbn [length]. rewrite Nat2Z.inj_succ.
    destruct (Z.eqb_spec j y) as [->|Hne].
    + destruct (Z.leb_spec (y + 1) y); [lia|]. cbn [andb].
      destruct (Z.leb_spec y y); [|lia]. destruct (Z.ltb_spec y (y + Z.succ (Z.of_nat (length cs)))); [|lia]. cbn [andb].
      replace (Z.to_nat (y - y)) with 0%nat by lia. cbn [nth]. rewrite G1. destruct c; reflexivity.
    + assert (G1' : g_row j g1 = g_row j g) by exact G1.
      destruct (Z.leb_spec (y + 1) j); destruct (Z.ltb_spec j (y + 1 + Z.of_nat (length cs))); cbn [andb];
        destruct (Z.leb_spec y j); destruct (Z.ltb_spec j (y + Z.succ (Z.of_nat (length cs)))); cbn [andb]; try lia; rewrite ?G1'; try reflexivity.
      replace (Z.to_nat (j - y)) with (S (Z.to_nat (j - (y + 1)))) by lia. cbn [nth]. reflexivity.
Qed.

(* reading back a fully stored area *)
Lemma area_read_full x y z t G : 0 <= x <= z -> 0 <= y <= t ->
  (forall j, y <= j <= t -> (Z.to_nat (z + 1) <= length (g_row j G))%nat) ->
  length (g_area_read x y z t G) = Z.to_nat (t + 1 - y) /\
  forall j', (j' < Z.to_nat (t + 1 - y))%nat ->
    length (nth j' (g_area_read x y z t G) []) = Z.to_nat (z + 1 - x) /\
    forall i', (i' < Z.to_nat (z + 1 - x))%nat ->
      nth i' (nth j' (g_area_read x y z t G) []) empty_cell = gcell (x + Z.of_nat i') (y + Z.of_nat j') G.
Proof.
  intros Hx Hy Hfull.
  assert (Hex : forall j, y <= j <= t -> (Z.to_nat j < length (grows G))%nat).
  { intros j Hj. specialize (Hfull j Hj). unfold g_row in Hfull.
    destruct (Nat.ltb_spec (Z.to_nat j) (length (grows G))); [assumption|]. rewrite nth_overflow in Hfull by assumption. cbn in Hfull. lia. }
  pose proof (Hex t ltac:(lia)) as Ht.
  unfold g_area_read.
  assert (Hlen : length (firstn (Z.to_nat (t + 1 - y)) (skipn (Z.to_nat y) (grows G))) = Z.to_nat (t + 1 - y))
    by (rewrite firstn_length, skipn_length; lia).
  split; [rewrite map_length; exact Hlen|].
  intros j' Hj'.
  set (f := fun r : list cell => firstn (Z.to_nat (z + 1 - x)) (skipn (Z.to_nat x) r)).
  assert (Hrow : nth j' (map f (firstn (Z.to_nat (t + 1 - y)) (skipn (Z.to_nat y) (grows G)))) [] = f (g_row (y + Z.of_nat j') G)).
  { rewrite (nth_indep _ [] (f [])) by (rewrite map_length, Hlen; exact Hj'). rewrite map_nth. f_equal. rewrite nth_firstn_lt by exact Hj'. rewrite nth_skipn'.
    unfold g_row. f_equal. lia. }
  fold f. rewrite Hrow. unfold f.
  specialize (Hfull (y + Z.of_nat j') ltac:(lia)).
  split; [rewrite firstn_length, skipn_length; lia|].
  intros i' Hi'. rewrite nth_firstn_lt by exact Hi'. rewrite nth_skipn'. unfold gcell. f_equal. lia.
Qed.

Section Roundtrip.
Variable a : calg.

Lemma unmark_span_length cells : length (unmark_span a cells) = length cells.
Proof. destruct cells as [|r0 rs]; [reflexivity|]. cbn [unmark_span length]. rewrite map_length. reflexivity. Qed.
Lemma unmark_span_row_length cells j' : length (nth j' (unmark_span a cells) []) = length (nth j' cells []).
Proof.
  destruct cells as [|r0 rs]; [reflexivity|]. cbn [unmark_span]. destruct j' as [|j']; cbn [nth].
  - destruct r0; [reflexivity|]. cbn [length]. rewrite map_length. reflexivity.
  - change (@nil cell) with (map (plain a) []) at 1. rewrite map_nth. apply map_length.
Qed.
Lemma unmark_span_nth cells i' j' : (j' < length cells)%nat -> (i' < length (nth j' cells []))%nat ->
  nth i' (nth j' (unmark_span a cells) []) empty_cell =
    let c := nth i' (nth j' cells []) empty_cell in
    if ((i' =? 0) && (j' =? 0))%nat then (ca_rm_span a (fst c), snd c) else plain a c.
Proof.
  intros Hj Hi. destruct cells as [|r0 rs]; [cbn in Hj; lia|]. cbn [unmark_span]. destruct j' as [|j']; cbn [nth] in *.
  - destruct r0 as [|c r']; [cbn in Hi; lia|]. destruct i' as [|i']; cbn [nth Nat.eqb andb]; [reflexivity|].
    cbn [length] in Hi. rewrite (nth_indep _ empty_cell (plain a empty_cell)) by (rewrite map_length; lia). apply map_nth.
  - rewrite Bool.andb_false_r.
    rewrite (nth_indep _ [] (map (plain a) [])) by (rewrite map_length; cbn [length] in Hj; lia). rewrite map_nth.
    rewrite (nth_indep _ empty_cell (plain a empty_cell)) by (rewrite map_length; exact Hi). apply map_nth.
Qed.

(* after an accepted set_span every row of the area is stored over the whole width of the area *)
Lemma set_span_rows_full x y z t mid g g' : 0 <= x <= z -> 0 <= y <= t ->
  g_set_span a x y z t false mid g = (g', true) ->
  forall j, y <= j <= t -> (Z.to_nat (z + 1) <= length (g_row j g'))%nat.
Proof.
  intros Hx Hy H j Hj. unfold g_set_span in H.
  destruct ((x =? z) && (y =? t)); [inversion H|].
  destruct (any_spanned a (g_area_cells x y z t g)); [inversion H|]. injection H as Hg. subst g'.
  cbn [g_step]. rewrite !norm_coord_id by lia. rewrite grow_set_lines by lia.
  rewrite mark_span_length, area_cells_length.
  destruct (Z.leb_spec y j); [|lia]. destruct (Z.ltb_spec j (y + Z.of_nat (Z.to_nat (t + 1 - y)))); [|lia]. cbn [andb].
  assert (Hj' : (Z.to_nat (j - y) < Z.to_nat (t + 1 - y))%nat) by lia.
  pose proof (mark_span_row_length a (z - x + 1) (t - y + 1) (g_area_cells x y z t g) (Z.to_nat (j - y))) as Hl.
  rewrite area_cells_row_length in Hl by exact Hj'.
  destruct (nth (Z.to_nat (j - y)) (mark_span a (z - x + 1) (t - y + 1) (g_area_cells x y z t g)) []) as [|c0 c] eqn:E.
  - cbn [length] in Hl. lia.
  - pose proof (length_row_set_unit (c0 :: c) (g_row j g) x ltac:(lia) ltac:(discriminate)) as Hge. rewrite Hl in Hge. lia.
Qed.

(* the laws of the algebra that the round trip uses, on the cells of the area (all of them unspanned) *)
Definition area_alg_ok (x y z t : Z) (g : gridT) : Prop :=
  forall i j, x <= i <= z -> y <= j <= t ->
    let v := fst (gcell i j g) in
    ca_to_plain a (ca_to_cov a v) = v /\
    ca_rm_span a (ca_add_span a v (z - x + 1) (t - y + 1)) = v /\
    ca_cs a (ca_add_span a v (z - x + 1) (t - y + 1)) = Some (z - x + 1) /\
    ca_rs a (ca_add_span a v (z - x + 1) (t - y + 1)) = Some (t - y + 1).

Theorem g_span_roundtrip x y z t mid g g' : 0 <= x <= z -> 0 <= y <= t ->
  g_set_span a x y z t false mid g = (g', true) -> area_alg_ok x y z t g ->
  exists g'', g_del_span a x y g' = Some (g'', true) /\
              forall i j, 0 <= i -> 0 <= j -> gcell i j g'' = gcell i j g.
Proof.
  intros Hx Hy Hset Halg.
  pose proof (g_set_span_explicit a x y z t mid g g' Hx Hy Hset) as Hex.
  pose proof (set_span_rows_full x y z t mid g g' Hx Hy Hset) as Hfull.
  destruct (Halg x y ltac:(lia) ltac:(lia)) as (_ & Hrm0 & Hcs0 & Hrs0). cbv zeta in *.
  assert (Hc0 : gcell x y g' = (ca_add_span a (fst (gcell x y g)) (z - x + 1) (t - y + 1), snd (gcell x y g))).
  { rewrite Hex by lia. unfold in_area. rewrite !Z.eqb_refl.
    destruct (Z.leb_spec x x); [|lia]. destruct (Z.leb_spec x z); [|lia]. destruct (Z.leb_spec y y); [|lia]. destruct (Z.leb_spec y t); [|lia]. reflexivity. }
  unfold g_del_span. rewrite Hc0. cbn [fst]. rewrite Hcs0, Hrs0.
  replace (x + (z - x + 1) - 1) with z by lia. replace (y + (t - y + 1) - 1) with t by lia.
  destruct (area_read_full x y z t g' Hx Hy Hfull) as [Hlen Hrows].
  set (rd := g_area_read x y z t g') in *.
  assert (Hne : exists c r0 rs, rd = (c :: r0) :: rs).
  { destruct rd as [|r rs] eqn:E; [cbn in Hlen; lia|].
    destruct (Hrows 0%nat ltac:(lia)) as [Hl0 _]. cbn [nth] in Hl0. destruct r as [|c r0]; [cbn in Hl0; lia|]. eauto. }
  destruct Hne as (c & r0 & rs & Erd). rewrite Erd. rewrite <- Erd.
  eexists. split; [reflexivity|].
  intros i j Hi Hj. cbn [g_step]. rewrite !norm_coord_id by lia. rewrite gcell_set_lines by lia.
  unfold in_block. rewrite unmark_span_length, Hlen.
  destruct (Z.leb_spec y j); destruct (Z.ltb_spec j (y + Z.of_nat (Z.to_nat (t + 1 - y)))); cbn [andb].
  - assert (Hj' : (Z.to_nat (j - y) < Z.to_nat (t + 1 - y))%nat) by lia.
    destruct (Hrows _ Hj') as [Hrl Hcells].
    rewrite unmark_span_row_length, Hrl.
    destruct (Z.leb_spec x i); destruct (Z.ltb_spec i (x + Z.of_nat (Z.to_nat (z + 1 - x)))); cbn [andb].
    + assert (Hi' : (Z.to_nat (i - x) < Z.to_nat (z + 1 - x))%nat) by lia.
      rewrite unmark_span_nth by (rewrite ?Hlen, ?Hrl; assumption). cbv zeta. rewrite (Hcells _ Hi').
      replace (x + Z.of_nat (Z.to_nat (i - x))) with i by lia. replace (y + Z.of_nat (Z.to_nat (j - y))) with j by lia.
      rewrite Hex by lia. cbv zeta. unfold in_area.
      destruct (Z.leb_spec x i); [|lia]. destruct (Z.leb_spec i z); [|lia]. destruct (Z.leb_spec y j); [|lia]. destruct (Z.leb_spec j t); [|lia]. cbn [andb].
      destruct (Halg i j ltac:(lia) ltac:(lia)) as (Hpl & Hrm & _ & _). cbv zeta in *.
      destruct (Z.eqb_spec i x); destruct (Z.eqb_spec j y); destruct (Nat.eqb_spec (Z.to_nat (i - x)) 0); destruct (Nat.eqb_spec (Z.to_nat (j - y)) 0);
        cbn [andb]; try lia; unfold plain, cov; cbn [fst snd]; rewrite ?Hrm, ?Hpl; destruct (gcell i j g); reflexivity.
    + rewrite Hex by lia. cbv zeta. unfold in_area. destruct (Z.leb_spec i z); [lia|]. rewrite !Bool.andb_false_r. cbn [andb]. destruct (x <=? i); reflexivity.
    + rewrite Hex by lia. cbv zeta. unfold in_area. destruct (Z.leb_spec x i); [lia|]. reflexivity.
    + lia.
  - rewrite Hex by lia. cbv zeta. unfold in_area. destruct (Z.leb_spec j t); [lia|]. rewrite !Bool.andb_false_r. reflexivity.
  - rewrite Hex by lia. cbv zeta. unfold in_area. destruct (Z.leb_spec y j); [lia|]. rewrite !Bool.andb_false_r. cbn [andb]. destruct ((x <=? i) && (i <=? z)); reflexivity.
  - lia.
Qed.
End Roundtrip.
