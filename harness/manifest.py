"""Regenerates /verif/MANIFEST.json from the table below (run by hand after adding a check)."""
import json, re, sys
from pathlib import Path
ROOT = Path(__file__).resolve().parent.parent
ALL = ["C%02d" % i for i in range(1, 21)]

CHECKS = {}   # filled from harness/entries/Cxx.json

NOT_YET = "check not built yet in this round (see DESIGN.md section 8, build order); not claimed until it is"


def main():
    for f in sorted((ROOT / "harness" / "entries").glob("C*.json")):
        CHECKS[f.stem] = json.loads(f.read_text())
    # consolidate the known-findings fragments into the single committed file
    findings, fixed = [], []
    cf = ROOT / "fixes" / "COMMITS.json"
    commits = json.loads(cf.read_text()) if cf.exists() else {}
    for f in sorted((ROOT / "known_findings.d").glob("C*.json")):
        d = json.loads(f.read_text())
        findings += d.get("findings", [])
        for line in d.get("fixed", []):
            # the commit of /repo that carries the repair (recorded by harness/applyfix.sh)
            mm = re.search(r"fixes/(F[\w.-]+\.diff)", line)
            if mm and mm.group(1) in commits:
                line = re.sub(r"<commit-to-be-filled[^>]*>", commits[mm.group(1)], line)
            elif "<commit-to-be-filled" in line:
                # a line that names the defect only by its id (F1, F61 ...): the diff whose name starts with that id
                mi = re.search(r"\bF0*(\d+)\b", line.split(">", 1)[-1])
                if mi:
                    for name, commit in commits.items():
                        if re.match(r"F0*%s-" % mi.group(1), name):
                            line = re.sub(r"<commit-to-be-filled[^>]*>", commit, line)
                            break
            fixed.append(line)
    (ROOT / "known_findings.json").write_text(json.dumps(dict(findings=findings, fixed=fixed), indent=1, ensure_ascii=False) + "\n")
    checks = []
    for pid in ALL:
        if pid not in CHECKS:
            continue
        c = CHECKS[pid]
        checks.append(dict(
            property_id=pid,
            quick_cmd="./check %s --quick" % pid,
            thorough_cmd="./check %s --thorough" % pid,
            evidence_file="/verif/evidence/%s.json" % pid,
            replay_cmd_template="./check %s --replay {path}" % pid,
            engine="coq",
            level_claimed=dict(category="proof", text=c["text"], design_ref=c["design_ref"]),
            level_note=c["note"],
            technique=c["technique"]))
    m = dict(
        version=1,
        setup_cmd="./setup.sh",
        hooks=dict(guard="ODFDO_VERIF", enable="no source hooks are needed: the harness reads private state by name; checks export ODFDO_VERIF=1 anyway",
                   baseline_off_cmd="cd /repo && /venv/bin/python -m pytest -q -p no:cacheprovider --timeout=900",
                   source_commits=[], add_only=True),
        engines=[dict(name="coq", path="/verif/coq", serves_properties=[c["property_id"] for c in checks],
                      kind_free_text="Coq 8.16.1 development (models, specifications, theorems) + Python correspondence harness whose cases are evaluated by vm_compute inside coqc")],
        checks=checks,
        notes="Every check: (1) rebuilds and re-checks the property's theorem file, (2) drives /repo's working tree and has Coq evaluate the model / invariants on the abstracted implementation states, (3) decides per DESIGN.md 2.4.",
        not_applicable=[dict(property_id=p, reason=NOT_YET) for p in ALL if p not in CHECKS])
    (ROOT / "MANIFEST.json").write_text(json.dumps(m, indent=1) + "\n")


if __name__ == "__main__":
    main()
