(* Property C19 — statements only.  Each is closed by [exact] of a lemma proved in Coordproof1..4.
   Model: Coord.v.  Strings are lists of code points; [None] at the outer level is a Python exception. *)
From Coq Require Import List ZArith Bool. Import ListNotations.
Require Import Coord Coordproof1 Coordproof2 Coordproof3 Coordproof4 Coordproof5.
Open Scope Z_scope.

(* ---- 1. column letters and column numbers are a bijection (no bound); the loop of digit_to_alpha terminates ---- *)
Theorem C19_alpha_digit : forall n, 0 <= n ->
  exists s, digit_to_alpha n = Some s /\ alpha_to_digit s = Some n /\ s <> [] /\ Forall (fun c => 65 <= c <= 90) s.
Proof. exact alpha_digit_lemma. Qed.
Print Assumptions C19_alpha_digit.

Theorem C19_digit_alpha : forall s, isalpha s = true ->
  exists d, alpha_to_digit s = Some d /\ 0 <= d /\ digit_to_alpha d = Some (map upper s).
Proof. exact digit_alpha_lemma. Qed.
Print Assumptions C19_digit_alpha.
Example C19_digit_alpha_ex : isalpha [97; 90; 99] = true /\ alpha_to_digit [97; 90; 99] = Some 1354 /\ digit_to_alpha 1354 = Some [65; 90; 67].
Proof. vm_compute. auto. Qed.

(* ---- 2. negative numbers count from the current end; the loop of increment terminates ---- *)
Theorem C19_increment_spec : forall v step, 0 <= step ->
  increment v step = Some (if v <? 0 then (if step =? 0 then 0 else v mod step) else v).
Proof. exact increment_spec_lemma. Qed.
Print Assumptions C19_increment_spec.

Theorem C19_increment_from_end : forall v len, 0 < len -> - len <= v < 0 -> increment v len = Some (len + v).
Proof. exact increment_from_end_lemma. Qed.
Print Assumptions C19_increment_from_end.
Example C19_increment_ex : increment (-2) 5 = Some 3 /\ increment (-7) 5 = Some 3 /\ increment (-1) 0 = Some 0.
Proof. vm_compute. auto. Qed.

Theorem C19_negative_from_end : forall w h x y z t, 0 < w -> 0 < h -> - w <= x -> - h <= y -> - w <= z -> - h <= t ->
  translate_table w h (CTup [Some x; Some y; Some z; Some t]) = Some (Some (from_end w x), Some (from_end h y), Some (from_end w z), Some (from_end h t)) /\
  translate_column w h (CTup [Some x; Some y; Some z; Some t]) = Some (Some (from_end w x), Some (from_end h y), Some (from_end w z), Some (from_end h t)) /\
  translate_table w h (CTup [Some y; Some t]) = Some (None, Some (from_end h y), None, Some (from_end h t)) /\
  translate_column w h (CTup [Some x; Some z]) = Some (Some (from_end w x), None, Some (from_end w z), None) /\
  translate_cell w h (CTup [Some x; Some y]) = Some (Some (from_end w x), Some (from_end h y)) /\
  translate_row w (CTup [Some x; Some z]) = Some (Some (from_end w x), Some (from_end w z)).
Proof. exact negative_table. Qed.
Print Assumptions C19_negative_from_end.
Theorem C19_negative_any : forall len v idx, 0 < len -> - len <= v -> translate_from_any (AInt v) len idx = Some (from_end len v).
Proof. exact negative_any. Qed.
Print Assumptions C19_negative_any.
Example C19_negative_ex : translate_cell 4 3 (CTup [Some (-1); Some (-3)]) = Some (Some 3, Some 0) /\ from_end 4 (-1) = 3.
Proof. vm_compute. auto. Qed.

(* ---- 3. written addresses parse back to themselves: cells, areas, partial forms ---- *)
Theorem C19_print_parse_cell : forall x y, 0 <= x -> 0 <= y ->
  exists s, print_cell x y = Some s /\ convert_coordinates s = Some [Some x; Some y].
Proof. exact print_parse_cell. Qed.
Print Assumptions C19_print_parse_cell.
Theorem C19_print_parse_area : forall x y z t, 0 <= x -> 0 <= y -> 0 <= z -> 0 <= t ->
  exists s, print_area x y z t = Some s /\ convert_coordinates s = Some [Some x; Some y; Some z; Some t].
Proof. exact print_parse_area. Qed.
Print Assumptions C19_print_parse_area.
Theorem C19_print_parse_cols : forall x z, 0 <= x -> 0 <= z ->
  exists s, print_cols x z = Some s /\ convert_coordinates s = Some [Some x; None; Some z; None].
Proof. exact print_parse_cols. Qed.
Print Assumptions C19_print_parse_cols.
Theorem C19_print_parse_rows : forall y t, 0 <= y -> 0 <= t ->
  convert_coordinates (print_rows y t) = Some [None; Some y; None; Some t].
Proof. exact print_parse_rows. Qed.
Print Assumptions C19_print_parse_rows.
Example C19_print_parse_ex : print_area 2 3 27 99 = Some [67; 52; 58; 65; 66; 49; 48; 48] /\ convert_coordinates [67; 52; 58; 65; 66; 49; 48; 48] = Some [Some 2; Some 3; Some 27; Some 99].
Proof. vm_compute. auto. Qed.

(* ---- 4. forms agree: for every modelled translation function the string form and the tuple form give the same (x,y,z,t) ---- *)
Theorem C19_forms_agree_area : forall w h x y z t, 0 <= x -> 0 <= y -> 0 <= z -> 0 <= t ->
  exists s, print_area x y z t = Some s /\ s <> [] /\
    translate_table w h (CStr s) = Some (Some x, Some y, Some z, Some t) /\
    translate_table w h (CTup [Some x; Some y; Some z; Some t]) = Some (Some x, Some y, Some z, Some t) /\
    translate_column w h (CStr s) = Some (Some x, Some y, Some z, Some t) /\
    translate_column w h (CTup [Some x; Some y; Some z; Some t]) = Some (Some x, Some y, Some z, Some t).
Proof. exact forms_table_area. Qed.
Print Assumptions C19_forms_agree_area.
Theorem C19_forms_agree_cell_in_table_context : forall w h x y, 0 <= x -> 0 <= y ->
  exists s, print_cell x y = Some s /\ s <> [] /\
    translate_table w h (CStr s) = Some (Some x, Some y, Some x, Some y) /\
    translate_table w h (CTup [Some x; Some y; Some x; Some y]) = Some (Some x, Some y, Some x, Some y).
Proof. exact forms_table_cell. Qed.
Print Assumptions C19_forms_agree_cell_in_table_context.
Theorem C19_forms_agree_rows : forall w h y t, 0 <= y -> 0 <= t ->
  print_rows y t <> [] /\
  translate_table w h (CStr (print_rows y t)) = Some (None, Some y, None, Some t) /\
  translate_table w h (CTup [Some y; Some t]) = Some (None, Some y, None, Some t) /\
  translate_table w h (CTup [None; Some y; None; Some t]) = Some (None, Some y, None, Some t).
Proof. exact forms_table_rows. Qed.
Print Assumptions C19_forms_agree_rows.
Theorem C19_forms_agree_cols : forall w h x z, 0 <= x -> 0 <= z ->
  exists s, print_cols x z = Some s /\ s <> [] /\
    translate_column w h (CStr s) = Some (Some x, None, Some z, None) /\
    translate_column w h (CTup [Some x; Some z]) = Some (Some x, None, Some z, None) /\
    translate_column w h (CTup [Some x; None; Some z; None]) = Some (Some x, None, Some z, None) /\
    translate_table w h (CStr s) = Some (Some x, None, Some z, None).
Proof. exact forms_column_cols. Qed.
Print Assumptions C19_forms_agree_cols.
Theorem C19_forms_agree_cell : forall w h x y z t, 0 <= x -> 0 <= y -> 0 <= z -> 0 <= t ->
  exists s a, print_cell x y = Some s /\ print_area x y z t = Some a /\
    translate_cell w h (CStr s) = Some (Some x, Some y) /\
    translate_cell w h (CTup [Some x; Some y]) = Some (Some x, Some y) /\
    translate_cell w h (CStr a) = Some (Some x, Some y) /\
    translate_cell w h (CTup [Some x; Some y; Some z; Some t]) = Some (Some x, Some y).
Proof. exact forms_cell. Qed.
Print Assumptions C19_forms_agree_cell.
Theorem C19_forms_agree_row : forall rw x z, 0 <= x -> 0 <= z ->
  exists s, print_cols x z = Some s /\
    translate_row rw (CStr s) = Some (Some x, Some z) /\
    translate_row rw (CTup [Some x; Some z]) = Some (Some x, Some z) /\
    translate_row rw (CTup [Some x; None; Some z; None]) = Some (Some x, Some z).
Proof. exact forms_row. Qed.
Print Assumptions C19_forms_agree_row.
Theorem C19_forms_agree_any : forall len x y, 0 <= x -> 0 <= y ->
  exists c s, print_col x = Some c /\ print_cell x y = Some s /\
    translate_from_any (AStr c) len 0 = Some x /\ translate_from_any (AInt x) len 0 = Some x /\ translate_from_any (AStr s) len 0 = Some x /\
    translate_from_any (AStr (print_row y)) len 1 = Some y /\ translate_from_any (AInt y) len 1 = Some y /\ translate_from_any (AStr s) len 1 = Some y.
Proof. exact forms_any. Qed.
Print Assumptions C19_forms_agree_any.

(* hence the getters return the same cells for the string form and the tuple form (model of the getters on an expanded grid) *)
Theorem C19_forms_address_same_cells : forall (w : Z) (g : grid) (row : list cellv) x y z t, 0 <= x -> 0 <= y -> 0 <= z -> 0 <= t ->
  exists s a c col, print_cell x y = Some s /\ print_area x y z t = Some a /\ print_cols x z = Some c /\ print_col x = Some col /\
    table_get_cell w g (CStr s) = table_get_cell w g (CTup [Some x; Some y]) /\
    table_get_cell w g (CStr a) = table_get_cell w g (CTup [Some x; Some y]) /\
    table_get_cells w g (Some (CStr a)) = table_get_cells w g (Some (CTup [Some x; Some y; Some z; Some t])) /\
    table_get_values w g (Some (CStr a)) = table_get_values w g (Some (CTup [Some x; Some y; Some z; Some t])) /\
    table_get_cells w g (Some (CStr (print_rows y t))) = table_get_cells w g (Some (CTup [Some y; Some t])) /\
    table_get_values w g (Some (CStr (print_rows y t))) = table_get_values w g (Some (CTup [Some y; Some t])) /\
    table_get_row w g (AStr (print_row y)) = table_get_row w g (AInt y) /\
    table_get_row w g (AStr s) = table_get_row w g (AInt y) /\
    table_get_column w g (AStr col) = table_get_column w g (AInt x) /\
    table_get_column w g (AStr s) = table_get_column w g (AInt x) /\
    row_get_values row (Some (CStr c)) = row_get_values row (Some (CTup [Some x; Some z])) /\
    row_get_cell row (AStr col) = row_get_cell row (AInt x).
Proof. exact same_cells. Qed.
Print Assumptions C19_forms_address_same_cells.

(* ---- 5. a range bounds the result on both sides ---- *)
Theorem C19_range_bounds_rows : forall w h y t, 0 <= y -> 0 <= t ->
  exists l, get_rows_idx w h (Some (CStr (print_rows y t))) = Some l /\ get_rows_idx w h (Some (CTup [Some y; Some t])) = Some l /\
            forall j, In j l <-> y <= j <= t /\ j < h.
Proof. exact rows_bounded. Qed.
Print Assumptions C19_range_bounds_rows.
(* of the repaired get_columns (fixes/F24) *)
Theorem C19_range_bounds_columns : forall w h x z, 0 <= x -> 0 <= z ->
  exists s l, print_cols x z = Some s /\ get_columns_idx w h (Some (CStr s)) = Some l /\ get_columns_idx w h (Some (CTup [Some x; Some z])) = Some l /\
              forall i, In i l <-> x <= i <= z /\ i < w.
Proof. exact columns_bounded. Qed.
Print Assumptions C19_range_bounds_columns.
Theorem C19_range_bounds_values : forall w g x y z t, 0 <= x -> 0 <= y -> 0 <= z -> 0 <= t ->
  exists s m, print_area x y z t = Some s /\
    table_get_values w g (Some (CStr s)) = Some m /\ table_get_values w g (Some (CTup [Some x; Some y; Some z; Some t])) = Some m /\
    lenZ m <= Z.max 0 (t - y + 1) /\ Forall (fun r => lenZ r <= Z.max 0 (z - x + 1)) m.
Proof. exact values_bounded. Qed.
Print Assumptions C19_range_bounds_values.
(* F24: the pinned get_columns takes its upper bound from the row component; get_columns("B:C") on 6 columns returns 1..5 *)
Theorem C19_get_columns_refuted :
  exists w h x z s l i, print_cols x z = Some s /\ get_columns_idx_pinned w h (Some (CStr s)) = Some l /\ In i l /\ z < i.
Proof. exact columns_pinned_unbounded. Qed.
Print Assumptions C19_get_columns_refuted.

(* ---- 6. a named range written with any table name and area is read back with the same (repaired code, fixes/F25);
        no hypothesis on the name is needed: every string round-trips, in particular every accepted name ---- *)
Theorem C19_named_range_roundtrip : forall n x y z t, 0 <= x -> 0 <= y -> 0 <= z -> 0 <= t ->
  exists r, make_range n (x, y, z, t) = Some r /\ parse_range r = Some (n, (Some x, Some y, Some z, Some t)).
Proof. exact range_roundtrip. Qed.
Print Assumptions C19_named_range_roundtrip.
Theorem C19_named_range_base_roundtrip : forall n x y z t, 0 <= x -> 0 <= y ->
  exists b, make_base n (x, y, z, t) = Some b /\ parse_range b = Some (n, (Some x, Some y, Some x, Some y)).
Proof. exact base_roundtrip. Qed.
Print Assumptions C19_named_range_base_roundtrip.
Example C19_named_range_ex : name_ok [105; 116; 39; 115; 32; 97; 46; 98] /\
  make_range [105; 116; 39; 115; 32; 97; 46; 98] (1, 1, 2, 2) = Some [36; 39; 105; 116; 39; 39; 115; 32; 97; 46; 98; 39; 46; 36; 66; 36; 50; 58; 46; 36; 67; 36; 51].
Proof. vm_compute. auto. Qed.
(* F25: refuted on the pinned code for accepted names containing '.', '$'; an inner apostrophe is not doubled *)
Theorem C19_named_range_refuted_dot :
  exists n a r, name_ok n /\ nonneg_area a /\ make_range_pinned n a = Some r /\ parse_range_pinned r <> Some (n, quad_of a).
Proof. exact pinned_roundtrip_refuted. Qed.
Print Assumptions C19_named_range_refuted_dot.
Theorem C19_named_range_refuted_apostrophe :
  exists n a r, name_ok n /\ make_range_pinned n a = Some r /\ parse_range_pinned r = Some (n, quad_of a) /\ parse_range r <> Some (n, quad_of a).
Proof. exact pinned_apostrophe_not_odf. Qed.
Print Assumptions C19_named_range_refuted_apostrophe.

(* ---- 7. renaming a table updates the named ranges that point to it, and only those ---- *)
Theorem C19_rename_updates_ranges : forall old new new' (rs : list nrange) (specs : list (str * area)),
  table_name_check new = Some new' ->
  Forall2 (fun r sp => written (fst sp) (snd sp) r /\ nonneg_area (snd sp)) rs specs ->
  exists rs', rename_table old new rs = Some rs' /\
    Forall2 (fun r' rsp => nr_name r' = nr_name (fst rsp) /\
                           written (if str_eqb (fst (snd rsp)) old then new' else fst (snd rsp)) (snd (snd rsp)) r') rs' (combine rs specs).
Proof. exact rename_updates. Qed.
Print Assumptions C19_rename_updates_ranges.
Example C19_rename_ex :
  rename_table [97; 46; 98] [99; 32] [([110], [36; 39; 97; 46; 98; 39; 46; 36; 66; 36; 50], [36; 39; 97; 46; 98; 39; 46; 36; 66; 36; 50])]
  = Some [([110], [36; 99; 46; 36; 66; 36; 50], [36; 99; 46; 36; 66; 36; 50])].
Proof. vm_compute. auto. Qed.
Theorem C19_rename_refuted :
  exists old new a b r rs', name_ok old /\ name_ok new /\ make_base_pinned old a = Some b /\ make_range_pinned old a = Some r /\
    rename_table_pinned old new [([110], b, r)] = Some rs' /\ rs' = [([110], b, r)].
Proof. exact pinned_rename_refuted. Qed.
Print Assumptions C19_rename_refuted.

(* ---- the property at full strength on the model of the repaired code: every positive statement above at once ---- *)
Definition C19_full : Prop :=
  ltac:(let t := type of alpha_digit_lemma in exact t) /\ ltac:(let t := type of digit_alpha_lemma in exact t) /\
  ltac:(let t := type of increment_spec_lemma in exact t) /\ ltac:(let t := type of negative_table in exact t) /\
  ltac:(let t := type of negative_any in exact t) /\
  ltac:(let t := type of print_parse_cell in exact t) /\ ltac:(let t := type of print_parse_area in exact t) /\
  ltac:(let t := type of print_parse_cols in exact t) /\ ltac:(let t := type of print_parse_rows in exact t) /\
  ltac:(let t := type of forms_table_area in exact t) /\ ltac:(let t := type of forms_table_cell in exact t) /\
  ltac:(let t := type of forms_table_rows in exact t) /\ ltac:(let t := type of forms_column_cols in exact t) /\
  ltac:(let t := type of forms_cell in exact t) /\ ltac:(let t := type of forms_row in exact t) /\ ltac:(let t := type of forms_any in exact t) /\ ltac:(let t := type of same_cells in exact t) /\
  ltac:(let t := type of rows_bounded in exact t) /\ ltac:(let t := type of columns_bounded in exact t) /\ ltac:(let t := type of values_bounded in exact t) /\
  ltac:(let t := type of range_roundtrip in exact t) /\ ltac:(let t := type of base_roundtrip in exact t) /\ ltac:(let t := type of rename_updates in exact t).
Theorem C19_full_holds : C19_full.
Proof.
  exact (conj alpha_digit_lemma (conj digit_alpha_lemma (conj increment_spec_lemma (conj negative_table (conj negative_any
        (conj print_parse_cell (conj print_parse_area (conj print_parse_cols (conj print_parse_rows
        (conj forms_table_area (conj forms_table_cell (conj forms_table_rows (conj forms_column_cols (conj forms_cell (conj forms_row (conj forms_any (conj same_cells
        (conj rows_bounded (conj columns_bounded (conj values_bounded (conj range_roundtrip (conj base_roundtrip rename_updates)))))))))))))))))))))).
Qed.
Print Assumptions C19_full_holds.
