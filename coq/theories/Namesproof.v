(* Namesproof.v — _table_name_check accepts exactly the sheet names of the independent specification, for ALL strings,
   provided the three character classes read from _RE_TABLE_NAME denote the sets the specification names. *)
From Coq Require Import List NArith Bool Lia.
Import ListNotations.
Require Import Names.
Local Open Scope N_scope.

Lemma mem_In c l : mem c l = true <-> In c l.
Proof.
  unfold mem. rewrite existsb_exists. split.
  - intros (x & Hx & He). apply N.eqb_eq in He. now subst.
  - intros H. exists c. split; [exact H|apply N.eqb_refl].
Qed.
Lemma same_set_mem a b : same_set a b = true -> forall c, mem c a = mem c b.
Proof.
  unfold same_set. rewrite andb_true_iff, !forallb_forall. intros [H1 H2] c.
  apply eq_true_iff_eq. rewrite !mem_In. split; intros H.
  - apply mem_In, H1, H.
  - apply mem_In, H2, H.
Qed.
Lemma existsb_ext' {A} (f g : A -> bool) l : (forall x, f x = g x) -> existsb f l = existsb g l.
Proof. intros H. induction l; cbn; [reflexivity|]. now rewrite H, IHl. Qed.

Definition lo_forb (c : N) : bool :=
  (c =? 10) || (c =? 92) || (c =? 47) || (c =? 42) || (c =? 63) || (c =? 58) || (c =? 91) || (c =? 93).
Lemma lo_forb_mem c : mem c lo_forbidden = lo_forb c.
Proof. unfold mem, lo_forbidden, lo_forb. cbn [existsb]. rewrite orb_false_r, !orb_assoc. reflexivity. Qed.

Lemma lo_scan_char : forall n fst, n <> [] ->
  lo_scan fst n = negb (existsb lo_forb n) && negb (fst && (hd 0 n =? 39)) && negb (last n 0 =? 39).
Proof.
  induction n as [|c r IH]; intros fst Hn; [contradiction|].
  destruct r as [|c2 r].
  - cbn [lo_scan existsb hd last]. fold (lo_forb c). rewrite orb_false_r, orb_true_r, andb_true_r.
    destruct (lo_forb c), (c =? 39), fst; reflexivity.
  - change (lo_scan fst (c :: c2 :: r)) with
      (if lo_forb c then false else if (c =? 39) && (fst || false) then false else lo_scan false (c2 :: r)).
    rewrite (IH false) by discriminate.
    change (last (c :: c2 :: r) 0) with (last (c2 :: r) 0).
    change (existsb lo_forb (c :: c2 :: r)) with (lo_forb c || existsb lo_forb (c2 :: r)).
    cbn [hd]. rewrite orb_false_r.
    destruct (lo_forb c), (c =? 39), fst, (existsb lo_forb (c2 :: r)), (last (c2 :: r) 0 =? 39); reflexivity.
Qed.

Theorem table_name_equiv : forall fa ff fl sp : list N,
  same_set fa lo_forbidden = true -> same_set ff [39] = true -> same_set fl [39] = true ->
  forall s : str, table_name_ok fa ff fl sp s = lo_tab_name_ok sp s.
Proof.
  intros fa ff fl sp Ha Hf Hl s. unfold table_name_ok, lo_tab_name_ok.
  destruct (strip sp s) as [|c r] eqn:E; [reflexivity|].
  rewrite (lo_scan_char (c :: r) true) by discriminate.
  rewrite (same_set_mem _ _ Hf c), (same_set_mem _ _ Hl (last (c :: r) 0)).
  rewrite (existsb_ext' (fun x => mem x fa) lo_forb) by (intros x; rewrite (same_set_mem _ _ Ha x); apply lo_forb_mem).
  set (X := existsb lo_forb (c :: r)). set (L := last (c :: r) 0).
  unfold mem. cbn [existsb hd]. rewrite !orb_false_r.
  destruct (c =? 39), X, (L =? 39); reflexivity.
Qed.

(* named ranges: every name the specification accepts is accepted by the (pinned) setter, for all strings, provided the
   classes are what string.ascii_letters / string.digits / forbidden_in_named_range() denote *)
