(* Lemmas about the registry model: first registrant wins, the registry is a function, unknown tags fall back. *)
From Coq Require Import String List Bool. Import ListNotations. Open Scope string_scope.
Require Import Registry.

Lemma assoc_nil : forall B k, @assoc B k [] = None.
Proof. reflexivity. Qed.

Lemma assoc_cons : forall B k k' (v : B) l,
  assoc k ((k', v) :: l) = if String.eqb k' k then Some v else assoc k l.
Proof. intros. unfold assoc. cbn. destruct (String.eqb k' k); reflexivity. Qed.

Lemma has_key_assoc : forall B k (l : list (string * B)), has_key k l = match assoc k l with Some _ => true | None => false end.
Proof.
  induction l as [|[k' v] l IH]; [reflexivity|].
  rewrite assoc_cons. unfold has_key in *. cbn. destruct (String.eqb k' k); [reflexivity|exact IH].
Qed.

Lemma assoc_app : forall B k (l1 l2 : list (string * B)),
  assoc k (l1 ++ l2) = match assoc k l1 with Some v => Some v | None => assoc k l2 end.
Proof.
  induction l1 as [|[k' v] l1 IH]; intros; [reflexivity|].
  cbn [app]. rewrite !assoc_cons. destruct (String.eqb k' k); [reflexivity|apply IH].
Qed.

Lemma assoc_in : forall B k (l : list (string * B)) v, assoc k l = Some v -> In (k, v) l.
Proof.
  induction l as [|[k' v'] l IH]; intros v H; [discriminate|].
  rewrite assoc_cons in H. destruct (String.eqb_spec k' k).
  - inversion H; subst. left; reflexivity.
  - right; auto.
Qed.

Lemma assoc_none_notin : forall B k (l : list (string * B)), assoc k l = None -> ~ In k (map fst l).
Proof.
  induction l as [|[k' v'] l IH]; intros H; [intros []|].
  rewrite assoc_cons in H. destruct (String.eqb_spec k' k); [discriminate|].
  intros [E|E]; [exact (n E)|exact (IH H E)].
Qed.

Lemma notin_assoc_none : forall B k (l : list (string * B)), ~ In k (map fst l) -> assoc k l = None.
Proof.
  induction l as [|[k' v'] l IH]; intros H; [reflexivity|].
  rewrite assoc_cons. destruct (String.eqb_spec k' k).
  - exfalso; apply H; left; exact e.
  - apply IH. intros E; apply H; right; exact E.
Qed.

Lemma in_nodup_assoc : forall B k (v : B) l, NoDup (map fst l) -> In (k, v) l -> assoc k l = Some v.
Proof.
  induction l as [|[k' v'] l IH]; intros ND H; [destruct H|].
  rewrite assoc_cons. inversion ND as [|? ? NI ND']; subst. destruct H as [E|H].
  - inversion E; subst. rewrite String.eqb_refl. reflexivity.
  - destruct (String.eqb_spec k' k).
    + subst. exfalso. apply NI. change k with (fst (k, v)). apply in_map. exact H.
    + auto.
Qed.

Lemma nodup_snoc : forall (l : list string) x, NoDup l -> ~ In x l -> NoDup (l ++ [x]).
Proof.
  induction l as [|y l IH]; intros x ND NI; cbn.
  - constructor; [intros []|constructor].
  - inversion ND as [|? ? NI' ND']; subst. constructor.
    + rewrite in_app_iff. intros [H|[H|[]]]; [exact (NI' H)|]. subst. apply NI; left; reflexivity.
    + apply IH; [exact ND'|]. intros H; apply NI; right; exact H.
Qed.

(* one registration keeps the keys unique *)
Lemma register_nodup : forall reg tc, NoDup (map fst reg) -> NoDup (map fst (register reg tc)).
Proof.
  intros reg [t c] ND. unfold register. cbn [fst]. rewrite has_key_assoc.
  destruct (assoc t reg) eqn:E; [exact ND|].
  rewrite map_app. cbn. apply nodup_snoc; [exact ND|].
  apply assoc_none_notin; exact E.
Qed.

Lemma fold_register_nodup : forall calls acc, NoDup (map fst acc) -> NoDup (map fst (fold_left register calls acc)).
Proof.
  induction calls as [|tc calls IH]; intros acc ND; [exact ND|]. cbn. apply IH. apply register_nodup; exact ND.
Qed.

(* the registry is a function of the tag, whatever the sequence of registration calls *)
Lemma build_nodup : forall calls, NoDup (map fst (build calls)).
Proof. intros. apply fold_register_nodup. constructor. Qed.

Lemma assoc_register : forall reg tc k,
  assoc k (register reg tc) = match assoc k reg with Some v => Some v | None => if String.eqb (fst tc) k then Some (snd tc) else None end.
Proof.
  intros reg [t c] k. unfold register. cbn [fst snd]. rewrite has_key_assoc.
  destruct (assoc t reg) eqn:E.
  - destruct (assoc k reg) eqn:E2; [reflexivity|].
    destruct (String.eqb_spec t k); [subst; congruence|reflexivity].
  - rewrite assoc_app, assoc_cons, assoc_nil. reflexivity.
Qed.

Lemma assoc_fold_register : forall calls acc k,
  assoc k (fold_left register calls acc) = match assoc k acc with Some v => Some v | None => assoc k calls end.
Proof.
  induction calls as [|[t c] calls IH]; intros acc k.
  - cbn. destruct (assoc k acc); reflexivity.
  - cbn [fold_left]. rewrite IH, assoc_register, assoc_cons. cbn [fst snd].
    destruct (assoc k acc); [reflexivity|]. destruct (String.eqb t k); reflexivity.
Qed.

(* first registrant wins: looking a tag up in the registry = finding the FIRST call that named it *)
Lemma build_first_wins : forall calls k, assoc k (build calls) = assoc k calls.
Proof. intros. unfold build. rewrite assoc_fold_register. reflexivity. Qed.

Lemma from_tag_unknown : forall reg cls tag, ~ In tag (map fst reg) -> from_tag reg cls tag = cls.
Proof. intros. unfold from_tag. rewrite notin_assoc_none; auto. Qed.

Lemma from_tag_known : forall reg cls tag c, NoDup (map fst reg) -> In (tag, c) reg -> from_tag reg cls tag = c.
Proof. intros. unfold from_tag. rewrite (in_nodup_assoc _ tag c); auto. Qed.

(* a later registration never changes the class of an already registered tag *)
Lemma register_stable : forall reg tc k c, assoc k reg = Some c -> assoc k (register reg tc) = Some c.
Proof. intros. rewrite assoc_register, H. reflexivity. Qed.

Lemma submap_spec : forall a b, submap a b = true -> forall t c, In (t, c) a -> assoc t b = Some c.
Proof.
  intros a b H t c HI. unfold submap in H. rewrite forallb_forall in H. specialize (H _ HI). cbn in H.
  destruct (assoc t b); [|discriminate]. apply String.eqb_eq in H. subst; reflexivity.
Qed.

(* ---- access paths: whatever the path and the receiver, the wrapper has the class the registry gives to ITS node ---- *)
Lemma wrap_at_consistent : forall reg doc pos w, wrap_at reg Element doc pos = Some w -> consistent reg doc w.
Proof.
  intros reg doc pos w H. unfold wrap_at in H. destruct (node_at doc pos) as [n|] eqn:E; [|discriminate].
  inversion H; subst. exists n. split; [exact E|reflexivity].
Qed.

Lemma from_tag_fallback_irrelevant : forall reg c tag, c = from_tag reg Element tag -> from_tag reg c tag = from_tag reg Element tag.
Proof. intros reg c tag H. unfold from_tag in *. destruct (assoc tag reg); [reflexivity|exact H]. Qed.

Lemma access_step_consistent : forall reg doc w a w', consistent reg doc w -> access_step reg doc w a = Some w' -> consistent reg doc w'.
Proof.
  intros reg doc w a w' C H. destruct a as [i| | |pos|]; cbn [access_step] in H.
  - eapply wrap_at_consistent; exact H.
  - destruct (w_pos w); [discriminate|]. eapply wrap_at_consistent; exact H.
  - eapply wrap_at_consistent; exact H.
  - eapply wrap_at_consistent; exact H.
  - destruct C as (n & E & Hc). unfold wrap_at in H. rewrite E in H. inversion H; subst. exists n. split; [exact E|].
    cbn. apply from_tag_fallback_irrelevant. exact Hc.
Qed.

Theorem access_run_consistent : forall reg doc l w w', consistent reg doc w -> access_run reg doc w l = Some w' -> consistent reg doc w'.
Proof.
  intros reg doc. induction l as [|a l IH]; intros w w' C H; cbn in H.
  - inversion H; subst; exact C.
  - destruct (access_step reg doc w a) as [w1|] eqn:E; [|discriminate].
    eapply IH; [eapply access_step_consistent; eauto|exact H].
Qed.

(* two histories that end on the same node give wrappers of the same class *)
Corollary access_paths_agree : forall reg doc l1 l2 w1 w2 a b,
  consistent reg doc w1 -> consistent reg doc w2 ->
  access_run reg doc w1 l1 = Some a -> access_run reg doc w2 l2 = Some b -> w_pos a = w_pos b -> w_cls a = w_cls b.
Proof.
  intros reg doc l1 l2 w1 w2 a b C1 C2 H1 H2 E.
  destruct (access_run_consistent reg doc l1 w1 a C1 H1) as (n & N & K).
  destruct (access_run_consistent reg doc l2 w2 b C2 H2) as (m & M & K').
  rewrite E in N. rewrite N in M. inversion M; subst. congruence.
Qed.
