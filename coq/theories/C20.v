(* Property C20 — statements only.  Each is closed by [exact] of a lemma proved elsewhere.
   Model: Toc.v (TOC._header_numbering, TOC.fill, scripts/headers.py), white space: WS.v (C05).
   [fill] is the model of the repaired code (fixes/F26), [fill_pinned] of the code as pinned. *)
From Coq Require Import List ZArith Bool. Import ListNotations.
Require Import WS WSnfproof Toc Tocnum Tocproof.
Open Scope Z_scope.

(* ---- numbering: the dict-based bookkeeping computes the array-of-counters outline numbering *)
Theorem C20_numbering_eq_spec : forall levels : list Z,
  Forall (fun l => 1 <= l <= 10) levels ->
  numbering [] levels = spec_numbering (counters0 10) levels.
Proof. exact numbering_eq_spec. Qed.
Print Assumptions C20_numbering_eq_spec.

(* ---- sanity laws of the specification itself *)
Theorem C20_spec_number_length : forall levels : list Z,
  Forall (fun l => 1 <= l <= 10) levels ->
  map (fun n => Z.of_nat (length n)) (spec_numbering (counters0 10) levels) = levels.
Proof. exact spec_number_length. Qed.
Print Assumptions C20_spec_number_length.

Theorem C20_spec_strictly_increasing : forall levels : list Z,
  Forall (fun l => 1 <= l <= 10) levels ->
  forall i j a b, (i < j)%nat ->
    nth_error (spec_numbering (counters0 10) levels) i = Some a ->
    nth_error (spec_numbering (counters0 10) levels) j = Some b -> lex_lt a b = true.
Proof. exact spec_strictly_sorted. Qed.
Print Assumptions C20_spec_strictly_increasing.

(* each number is the previous one's prefix (missing ancestors = 1), bumped at its level *)
Theorem C20_spec_prefix_bumped : forall levels : list Z,
  Forall (fun l => 1 <= l <= 10) levels ->
  spec_numbering (counters0 10) levels = outline_numbers [] levels.
Proof. exact spec_is_prefix_bumped. Qed.
Print Assumptions C20_spec_prefix_bumped.

(* numbering only the listed headings (what fill and the tool do) = numbering the whole document and keeping the listed
   ones, provided no level is skipped on the way down (otherwise not: levels 1,3,2 with outline 2 give 1.1. vs 1.2.) *)
Theorem C20_listed_numbering_is_document_numbering : forall (levels : list Z) (prev : list Z) (ol : Z),
  0 <= ol -> wellnested (length prev) levels = true ->
  map snd (filter (fun p => fst p <=? ol) (combine levels (outline_numbers prev levels)))
  = outline_numbers (firstn (Z.to_nat ol) prev) (filter (fun l => l <=? ol) levels).
Proof. exact filter_commutes. Qed.
Print Assumptions C20_listed_numbering_is_document_numbering.

(* ---- the entries *)
Theorem C20_fill_entries : forall (t : toc) (hs : list heading), in_domain hs ->
  let ol := eff_outline (toutline t) in
  let es := tentries (fill t hs) in
  map (fun e => consume (snd e)) es = spec_entries ol hs
  /\ Forall (fun e => NFb true (snd e) = true) es
  /\ map fst es = map hlevel (listed ol hs).
Proof. exact fill_entries. Qed.
Print Assumptions C20_fill_entries.

Theorem C20_title_kept : forall (pinned : bool) (t : toc) (hs : list heading) (id : nat),
  ttitle t = Some (id, true) -> ttitle (fill_gen pinned t hs) = Some (id, true).
Proof. exact fill_title_kept. Qed.
Print Assumptions C20_title_kept.

Theorem C20_fill_idempotent : forall (pinned : bool) (d : doc) (k : nat),
  fill_doc pinned (fill_doc pinned d k) k = fill_doc pinned d k.
Proof. exact fill_doc_idem. Qed.
Print Assumptions C20_fill_idempotent.

Theorem C20_fill_touches_nothing_else : forall (pinned : bool) (d : doc) (k j : nat),
  dheads (fill_doc pinned d k) = dheads d /\
  (j <> k -> nth_error (dtocs (fill_doc pinned d k)) j = nth_error (dtocs d) j).
Proof. intros. split; [apply fill_doc_heads | apply fill_doc_other]. Qed.
Print Assumptions C20_fill_touches_nothing_else.

Theorem C20_headers_tool_agrees : forall (t : toc) (hs : list heading) (depth : Z),
  in_domain hs -> eff_outline (toutline t) = depth ->
  headers_tool depth hs = flat_map (fun e => consume (snd e) ++ [Nl]) (tentries (fill t hs)).
Proof. exact headers_tool_agrees. Qed.
Print Assumptions C20_headers_tool_agrees.

Theorem C20_headers_tool_default_depth : forall (depth : Z) (hs : list heading),
  in_domain hs -> 10 <= depth -> headers_tool depth hs = headers_tool 10 hs.
Proof. exact headers_tool_all. Qed.
Print Assumptions C20_headers_tool_default_depth.

(* ---- the property at full strength, on the document model (repaired code) *)
Definition C20_full : Prop := C20_statement false.
Theorem C20_all : C20_full.
Proof. exact C20_holds_repaired. Qed.
Print Assumptions C20_all.

(* ---- the code as pinned violates it (F26): every entry reads one line break too many *)
Theorem C20_pinned_entries_end_with_line_break : forall (t : toc) (hs : list heading), in_domain hs ->
  map (fun e => consume (snd e)) (tentries (fill_pinned t hs))
  = map (fun s => s ++ [Nl]) (spec_entries (eff_outline (toutline t)) hs).
Proof. exact fill_pinned_entries. Qed.
Print Assumptions C20_pinned_entries_end_with_line_break.

Theorem C20_fill_entries_pinned_refuted : exists (t : toc) (hs : list heading),
  in_domain hs /\
  map (fun e => consume (snd e)) (tentries (fill_pinned t hs)) <> spec_entries (eff_outline (toutline t)) hs.
Proof.
  exists (mkT None (Some 0) []), [mkH 1 [HStr [Ch 72]]].
  split; [repeat constructor; cbn; discriminate|]. vm_compute. discriminate.
Qed.
Print Assumptions C20_fill_entries_pinned_refuted.

(* ---- the hypotheses are inhabited by a non-trivial document *)
Example C20_example :
  let hs := [mkH 2 [HStr [Ch 65; Sp]; HS 2; HSpan [HStr [Ch 66]; HTab]];
             mkH 1 [HStr [Ch 67]]; mkH 3 [HLb]; mkH 4 [HStr [Ch 68]]; mkH 2 []] in
  let t := mkT (Some (7%nat, true)) (Some 3) [] in
  in_domain hs /\
  map fst (tentries (fill t hs)) = [2; 1; 3; 2] /\
  map (fun e => consume (snd e)) (tentries (fill t hs))
  = [ [Ch 49; Ch 46; Ch 49; Ch 46; Sp; Ch 65; Sp; Sp; Sp; Ch 66; Tb];      (* "1.1. A   B<tab>" *)
      [Ch 50; Ch 46; Sp; Ch 67];                                            (* "2. C" *)
      [Ch 50; Ch 46; Ch 49; Ch 46; Ch 49; Ch 46; Sp; Nl];                   (* "2.1.1. <line break>" *)
      [Ch 50; Ch 46; Ch 50; Ch 46; Sp] ].                                   (* "2.2. " *)
Proof. split; [repeat constructor; cbn; discriminate|]. split; reflexivity. Qed.

(* a heading with a hyperlink and a footnote: the entry shows the link's text, not its target, and no note *)
Example C20_example_link_and_note :
  let hs := [mkH 1 [HStr [Ch 83; Ch 101; Ch 101; Sp]; HLink [HSpan [HStr [Ch 115]]; HStr [Ch 105; Ch 116; Ch 101]]; HNote; HStr [Ch 33]]] in
  in_domain hs /\
  map (fun e => consume (snd e)) (tentries (fill (mkT None None []) hs))
  = [[Ch 49; Ch 46; Sp; Ch 83; Ch 101; Ch 101; Sp; Ch 115; Ch 105; Ch 116; Ch 101; Ch 33]].     (* "1. See site!" *)
Proof. split; [repeat constructor; cbn; discriminate|reflexivity]. Qed.
