(* C14 — proofs about the string-expression reader: quote_correct, pinned refuted *)
From Coq Require Import List NArith Bool Lia Arith.
Import ListNotations.
Require Import XPathLit.
Open Scope N_scope.

Lemma until_app q s rest acc : has q s = false -> until q (s ++ q :: rest) acc = Some (rev acc ++ s, rest).
Proof.
  revert acc; induction s as [|c s IH]; intros acc H; cbn [app until].
  - rewrite N.eqb_refl, app_nil_r. reflexivity.
  - cbn [has existsb] in H. apply orb_false_elim in H as [H1 H2]. rewrite N.eqb_sym, H1.
    unfold has in IH. rewrite IH by exact H2. cbn [rev]. now rewrite <- app_assoc.
Qed.

Lemma literal_dq s rest : has DQ s = false -> literal (dq_lit s ++ rest) = Some (s, rest).
Proof. intros H. unfold dq_lit. cbn [app literal]. rewrite N.eqb_refl. cbn [orb].
  rewrite <- app_assoc. cbn [app]. now rewrite until_app. Qed.
Lemma literal_sq s rest : has SQ s = false -> literal (sq_lit s ++ rest) = Some (s, rest).
Proof. intros H. unfold sq_lit. cbn [app literal]. replace (SQ =? DQ) with false by reflexivity. rewrite N.eqb_refl. cbn [orb].
  rewrite <- app_assoc. cbn [app]. now rewrite until_app. Qed.

(* pieces produced by splitting on the double quote contain none *)
Lemma split_dq_nodq : forall s cur, has DQ (rev cur) = false -> Forall (fun p => has DQ p = false) (split_dq cur s).
Proof.
  induction s as [|c s IH]; intros cur Hc; cbn [split_dq].
  - constructor; [exact Hc|constructor].
  - destruct (N.eqb_spec c DQ) as [E|E].
    + constructor; [exact Hc|]. apply IH. reflexivity.
    + apply IH. cbn [rev]. unfold has in *. rewrite existsb_app. apply orb_false_iff. split; [exact Hc|].
      cbn [existsb]. rewrite orb_false_r. apply N.eqb_neq. congruence.
Qed.
(* joining the pieces with a double quote gives the string back *)
Fixpoint join_dq (ps : list str) : str :=
  match ps with [] => [] | [p] => p | p :: r => p ++ DQ :: join_dq r end.
Lemma split_dq_ne s cur : split_dq cur s <> [].
Proof. revert cur; induction s as [|c s IH]; intros cur; cbn [split_dq]; [discriminate|]. destruct (c =? DQ); [discriminate|apply IH]. Qed.
Lemma split_dq_join : forall s cur, join_dq (split_dq cur s) = rev cur ++ s.
Proof.
  induction s as [|c s IH]; intros cur; cbn [split_dq].
  - cbn. now rewrite app_nil_r.
  - destruct (N.eqb_spec c DQ) as [E|E].
    + subst. specialize (IH []). cbn [rev app] in IH.
      destruct (split_dq [] s) as [|p r] eqn:Es; [exfalso; apply (split_dq_ne s []); exact Es|].
      change (join_dq (rev cur :: p :: r)) with (rev cur ++ DQ :: join_dq (p :: r)). rewrite IH. reflexivity.
    + rewrite IH. cbn [rev]. now rewrite <- app_assoc.
Qed.
(* a value with a double quote splits into at least two pieces *)
Lemma split_dq_two : forall s cur, has DQ s = true -> (2 <= length (split_dq cur s))%nat.
Proof.
  induction s as [|c s IH]; intros cur H; [discriminate|]. cbn [split_dq].
  destruct (N.eqb_spec c DQ) as [E|E].
  - cbn [length]. pose proof (split_dq_ne s []). destruct (split_dq [] s); [congruence|cbn [length]; lia].
  - apply IH. cbn [has existsb] in H. apply orb_true_iff in H as [H|H]; [|exact H].
    apply N.eqb_eq in H. congruence.
Qed.

Lemma literal_not_quote c s : (c =? DQ) || (c =? SQ) = false -> literal (c :: s) = None.
Proof. intros H. cbn [literal]. now rewrite H. Qed.

Lemma args_join : forall ps acc fuel tail n,
  Forall (fun p => has DQ p = false) ps -> ps <> [] -> (2 * length ps <= fuel)%nat ->
  (2 <= n + length ps)%nat ->
  args fuel (join_pieces ps ++ RPAR :: tail) acc n = Some (acc ++ join_dq ps, tail).
Proof.
  induction ps as [|p ps IH]; intros acc fuel tail n Hall Hne Hf Hn; [congruence|].
  inversion Hall as [|? ? Hp Hps]; subst.
  destruct ps as [|q ps'].
  - (* last piece *)
    destruct fuel as [|fuel]; [cbn in Hf; lia|].
    cbn [join_pieces join_dq args]. rewrite literal_dq by exact Hp.
    replace (RPAR =? COMMA) with false by reflexivity. rewrite N.eqb_refl.
    destruct n as [|n]; [cbn [length] in Hn; lia|reflexivity].
  - destruct fuel as [|[|fuel]]; [cbn in Hf; lia|cbn in Hf; lia|].
    change (join_pieces (p :: q :: ps')) with (dq_lit p ++ [COMMA] ++ sq_lit [DQ] ++ [COMMA] ++ join_pieces (q :: ps')).
    change (join_dq (p :: q :: ps')) with (p ++ DQ :: join_dq (q :: ps')).
    rewrite <- !app_assoc.
    cbn [args]. rewrite literal_dq by exact Hp. cbn [app]. rewrite N.eqb_refl.
    rewrite literal_sq by reflexivity. cbn [app]. rewrite N.eqb_refl.
    rewrite IH; [|exact Hps|discriminate|cbn [length] in *; lia|cbn [length] in *; lia].
    f_equal. f_equal. rewrite <- !app_assoc. reflexivity.
Qed.

Lemma strip_prefix_app p s : strip_prefix p (p ++ s) = Some s.
Proof. induction p as [|a p IH]; [reflexivity|]. cbn [app strip_prefix]. now rewrite N.eqb_refl. Qed.

Lemma join_pieces_length ps : (2 * length ps <= length (join_pieces ps) + 2)%nat.
Proof.
  induction ps as [|p ps IH]; [cbn; lia|]. destruct ps as [|q ps'].
  - cbn [join_pieces]. unfold dq_lit. cbn [length]. rewrite app_length. cbn [length]. lia.
  - change (join_pieces (p :: q :: ps')) with (dq_lit p ++ [COMMA] ++ sq_lit [DQ] ++ [COMMA] ++ join_pieces (q :: ps')).
    rewrite !app_length. unfold dq_lit, sq_lit. cbn [length app]. rewrite !app_length. cbn [length].
    change (length (q :: ps')) with (S (length ps')) in IH. unfold str, chr in *. lia.
Qed.

(* the quoted form, followed by anything, is read as one string expression of value v; the rest is untouched *)
Theorem string_expr_quote v rest : string_expr (quote v ++ rest) = Some (v, rest).
Proof.
  unfold string_expr.
  destruct (has DQ v) eqn:E1.
  2:{ unfold quote. rewrite E1. cbn [negb]. now rewrite literal_dq. }
  destruct (has SQ v) eqn:E2.
  2:{ unfold quote. rewrite E1, E2. cbn [negb]. now rewrite literal_sq. }
  unfold quote. rewrite E1, E2. cbn [negb].
  rewrite <- !app_assoc.
  set (body := join_pieces (split_dq [] v) ++ [RPAR] ++ rest).
  assert (Hlit : literal (s_concat ++ body) = None) by (unfold s_concat; cbn [app]; apply literal_not_quote; reflexivity).
  rewrite Hlit, strip_prefix_app. unfold body. cbn [app].
  pose proof (split_dq_nodq v [] eq_refl) as Hall.
  pose proof (split_dq_ne v []) as Hne.
  pose proof (split_dq_two v [] E1) as H2.
  rewrite (args_join (split_dq [] v) [] _ rest 0%nat Hall Hne).
  - cbn [app]. now rewrite split_dq_join.
  - pose proof (join_pieces_length (split_dq [] v)). rewrite !app_length. cbn [length s_concat]. lia.
  - lia.
Qed.

Theorem quote_correct v : eval (quote v) = Some v.
Proof. unfold eval. rewrite <- (app_nil_r (quote v)). now rewrite string_expr_quote. Qed.

(* ---- the pinned pasting *)
Lemma until_first q s acc : has q s = true ->
  exists a b, s = a ++ q :: b /\ has q a = false /\ until q s acc = Some (rev acc ++ a, b).
Proof.
  revert acc; induction s as [|c s IH]; intros acc H; [discriminate|].
  cbn [until]. destruct (N.eqb_spec c q) as [E|E].
  - subst. exists [], s. rewrite app_nil_r. repeat split; reflexivity.
  - cbn [has existsb] in H. apply orb_true_iff in H as [H|H]; [apply N.eqb_eq in H; congruence|].
    destruct (IH (c :: acc) H) as (a & b & -> & Ha & Hu). exists (c :: a), b. repeat split.
    + cbn [has existsb]. rewrite (proj2 (N.eqb_neq q c)) by congruence. exact Ha.
    + rewrite Hu. cbn [rev]. now rewrite <- app_assoc.
Qed.

Lemma length_app_cons_neq {A} (a b : list A) x : a <> a ++ x :: b.
Proof. intros H. apply (f_equal (@length A)) in H. rewrite app_length in H. cbn in H. lia. Qed.

(* every identifier containing a double quote is mis-read (or rejected) when pasted between double quotes *)
Theorem pinned_wrong v : has DQ v = true -> eval (quote_pinned v) <> Some v.
Proof.
  intros H. unfold eval, string_expr, quote_pinned. cbn [literal]. rewrite N.eqb_refl. cbn [orb].
  destruct (until_first DQ v [] H) as (a & b & -> & Ha & _).
  rewrite <- app_assoc. cbn [app]. rewrite until_app by exact Ha. cbn [rev app].
  destruct (b ++ [DQ]) eqn:Eb; [destruct b; discriminate|].
  discriminate.
Qed.
Theorem pinned_sq_wrong v : has SQ v = true -> eval (quote_pinned_sq v) <> Some v.
Proof.
  intros H. unfold eval, string_expr, quote_pinned_sq. cbn [literal]. replace (SQ =? DQ) with false by reflexivity.
  rewrite N.eqb_refl. cbn [orb].
  destruct (until_first SQ v [] H) as (a & b & -> & Ha & _).
  rewrite <- app_assoc. cbn [app]. rewrite until_app by exact Ha. cbn [rev app].
  destruct (b ++ [SQ]) eqn:Eb; [destruct b; discriminate|].
  discriminate.
Qed.
Theorem pinned_ok v : has DQ v = false -> eval (quote_pinned v) = Some v.
Proof. intros H. unfold eval, string_expr. change (quote_pinned v) with (dq_lit v). rewrite <- (app_nil_r (dq_lit v)). now rewrite literal_dq. Qed.
