"""C04: every saved zip is a valid ODF package whose manifest matches its content.

Theorems: coq/theories/C04.v (model Package.v).  Correspondence: histories over {new from each template, open each
sample, add_file by path / file-like with repeated content, del_part, image frames, import of parts (the part-copying
half of merge_styles_from), set_part of existing parts, clone, save, reopen}; after every operation the state is
abstracted from private fields, after every save the written file is re-read with zipfile / os.walk and bare lxml; Coq
evaluates PkgOK / zip_shape on those abstractions and compares with the model's step from the same pre-state."""
import sys, os, io, json, random, time, zipfile
from pathlib import Path
sys.path.insert(0, str(Path(__file__).resolve().parent))
import common, pkglib
from lxml import etree

PROP = "C04"
HEADER = pkglib.PKG_HEADER + "Require Import PkgChk.\n"
LAYER = {1: "invariant: PkgOK (manifest file entries = package files, each once; '/' carries the mimetype) is lost by this operation",
         2: "zip-shape: the saved zip does not start with a STORED mimetype entry / has duplicate names / disagrees with its manifest",
         3: "manifest: the manifest entry list after the operation differs from the model's",
         4: "result: the operation's result (raised or not) differs from the model's",
         5: "abstraction: duplicate keys in the abstracted state",
         7: "rdf-entry: save deleted a manifest.rdf that the manifest lists with an empty media type and kept the entry",
         6: "twin: an operation on one of original / clone broke PkgOK of the other (shared state); saving the other gives a zip its manifest does not describe",
         8: "bookkeeping: the invariant the theorems assume (unique keys, current folder time stamps, cached XML parts only) is lost"}
WEIGHTS = dict(addfile=6, frame=2, **{"del": 4}, delmandatory=1, **{"import": 2}, set=1, get=1, touch=1, edit=1, save=4, saveself=1, reopen=3, clone=2, clone2=1, swap=2, merge=3, delpic=2, addobject=1, editobj=1, importnew=2)


def zip_problems(entries):
    """direct Python oracle of the property on a saved zip: [(name, stored, bytes)] -> problem tags"""
    MN = pkglib.MN
    names = [n for n, _, _ in entries]
    probs = []
    if not entries or entries[0][0] != "mimetype" or not entries[0][1]:
        probs.append("mimetype-not-first-stored")
    if len(set(names)) != len(names):
        probs.append("duplicate-zip-names")
    d = dict((n, b) for n, _, b in entries)
    if "META-INF/manifest.xml" not in d:
        return probs + ["no-manifest"]
    man = etree.fromstring(d["META-INF/manifest.xml"])
    ents = [(e.get(MN + "full-path"), e.get(MN + "media-type")) for e in man.iter(MN + "file-entry")]
    listed = [p for p, _ in ents if p is not None and not p.endswith("/")]
    files = set(n for n in names if not n.endswith("/")) - {"mimetype", "META-INF/manifest.xml"}
    if len(set(listed)) != len(listed):
        probs.append("manifest-duplicate-entry")
    if files - set(listed):
        probs.append("file-not-listed")
    if set(listed) - files:
        probs.append("listed-file-absent")
    root = [m for p, m in ents if p == "/"]
    if not root or root[0] != d.get("mimetype", b"").decode("utf8", "replace"):
        probs.append("root-media-type")
    return probs


def make_histories(tier, rng):
    S = pkglib.samples(common.REPO); Tm = pkglib.templates(common.REPO)
    small = [s for s in S if not s.endswith("big.ods")]
    starts = [dict(op="new", src=p, template=k) for k, p in Tm.items()]
    starts += [dict(op="new", src=Tm["text"])]                      # Document.new(path)
    hs = []
    n_rand = 160 if tier == "quick" else 2200
    # every template and every sample at least once (path and buffer), then random
    fixed_starts = starts + [dict(op="open", src=s, buf=False) for s in S] + [dict(op="open", src=s, buf=True) for s in small]
    for st in fixed_starts:
        hs.append(pkglib.gen_history(rng, [st], WEIGHTS, 5 if tier == "quick" else 8))
    all_starts = starts * 6 + [dict(op="open", src=s, buf=b) for s in small for b in (False, True)]
    for _ in range(n_rand):
        hs.append(pkglib.gen_history(rng, all_starts, WEIGHTS, rng.randint(3, 8 if tier == "quick" else 12)))
    # edge stream (concrete ops): the same content added repeatedly by path and by file-like, save / reopen in between,
    # add-then-delete, delete-then-add, import over an existing entry
    A = dict(op="addfile", content=pkglib.POOL[0], ext=".png", filelike=False)
    B = dict(op="addfile", content=pkglib.POOL[0], ext=".png", filelike=True)
    SV = dict(op="save", packaging="zip", target="buf", pretty=False)
    SP = dict(op="save", packaging="zip", target="path", pretty=False)
    for st in starts:
        hs.append([dict(st), dict(A), dict(A), dict(SV), dict(op="reopen", r=1), dict(A), dict(B), dict(B), dict(SP), dict(op="reopen", r=2),
                   dict(op="del", r=3), dict(SV)])
        hs.append([dict(st), dict(A), dict(op="del", r=11), dict(A), dict(SV), dict(op="clone"), dict(B), dict(op="del", r=5), dict(SP)])
        hs.append([dict(st), dict(op="import", name="Pictures/imp.png", data="x", mt="image/png"), dict(op="import", name="Pictures/imp.png", data="y", mt="image/jpeg"),
                   dict(SV), dict(op="del", name="Pictures/imp.png"), dict(SV)])
    # F42: manifest.rdf listed with an empty media type (Manifest.add_full_path's default), then save
    for st in starts[:2]:
        hs.append([dict(st), dict(op="import", name="manifest.rdf", data="<rdf/>", mt=""), dict(SV), dict(op="reopen", r=1)])
    # the real merge_styles_from with sources whose master-page / fill-image styles reference images, interleaved with
    # add_file / del_part of the SAME names before and after the merge; template, path-opened and buffer-opened destinations
    PIC = pkglib.POOL[0]
    SRC = [dict(base="text", ext=".png", fill=[PIC], master=[]), dict(base="text", ext=".png", fill=[], master=[PIC]),
           dict(base="presentation", ext=".png", fill=[PIC, pkglib.POOL[1]], master=[PIC])]
    img_samples = [s for s in S if s.endswith(("background.odp", "example.odp"))]
    SRC += [dict(base=s) for s in img_samples]
    dests = starts[:4] + [dict(op="open", src=s, buf=b) for s in (img_samples + small[:2]) for b in (False, True)] + [dict(op="copyopen", src=s) for s in img_samples]
    k = 0
    for st in dests:
        for src in (SRC if tier != "quick" else SRC[k % 2::2]):
            k += 1
            M = dict(op="merge", source=src)
            hs.append([dict(st), dict(M), dict(SV), dict(op="delpic", r=k), dict(M), dict(SV), dict(op="reopen", r=1), dict(op="delpic", r=k + 1), dict(SP)])
            hs.append([dict(st), dict(A), dict(op="delpic", r=k), dict(M), dict(SV), dict(A), dict(op="delpic", r=k + 2), dict(A), dict(M), dict(SP), dict(op="reopen", r=2), dict(M), dict(SV)])
    # twins: clone, operate on one, save / inspect the other — in both directions
    for st in starts + [dict(op="open", src=s, buf=b) for s in small[:: (9 if tier == "quick" else 2)] for b in (False, True)]:
        for op in (dict(A), dict(B), dict(op="del", r=3), dict(op="import", name="Pictures/tw.png", data="tw", mt="image/png"), dict(op="set", r=5)):
            for first_swap in (False, True):
                h = [dict(st), dict(op="clone2")] + ([dict(op="swap")] if first_swap else []) + [dict(op), dict(SV), dict(op="swap"), dict(SV), dict(op="reopen", r=1),
                     dict(A), dict(op="swap"), dict(SV)]
                hs.append(h)
    return hs


def key_of(rec, code, probs):
    k = rec["concrete"]["op"]
    if k == "del" and rec["concrete"].get("spell") in ("dotslash", "dotshortcut"):
        k = "del-dotslash"
    if code == 1 or code == 3:
        return "%s/%s" % (k, "manifest-incoherent")
    if code == 2:
        return "%s/%s" % (k, "+".join(probs) or "zip-shape")
    return "%s/%s" % (k, {4: "result", 5: "abstraction", 6: "twin-incoherent", 7: "manifest-rdf-empty-type", 8: "bookkeeping"}.get(code, str(code)))


def run(tier, seed, replay=None):
    t0 = time.time(); rng = random.Random(seed)
    proofs = common.build_proofs(PROP, extra_targets=("PkgChk",))
    corpus = []
    for f in sorted((common.ROOT / "corpus" / PROP).glob("*.json")):
        corpus.append(json.load(open(f))["ops"])
    if replay:
        hs, flags = [json.load(open(replay))["ops"]], [True]
    else:
        gen = make_histories(tier, rng)
        hs, flags = corpus + gen, [True] * len(corpus) + [False] * len(gen)
    done, failed, work = pkglib.drive_all(PROP, hs, seed, flags)
    cases, where, oracle_bad = [], [], []
    hist_ops, hist_start, sizes = {}, {}, {}
    for hid, recs in done:
        for i, r in enumerate(recs):
            cases.append(pkglib.step_case10(r)); where.append((hid, i))
            hist_ops[r["kind"]] = hist_ops.get(r["kind"], 0) + 1
            if r.get("extra", {}) and r["extra"].get("zip_problems"):
                oracle_bad.append((hid, i, r["extra"]["zip_problems"]))
    fxh, fxv = pkglib.fx_header()
    bad, errors = common.run_shards(HEADER + fxh, cases, "chk04t FX", "c04", shard=60)
    recmap = dict(done)
    violations, known_seen, seen_keys = [], [], set()
    known = {e["key"]: e for e in common.known_findings(PROP)}
    hard = {i: c for i, c in bad.items() if c != 9}
    # the direct oracle is a second opinion on saved zips: a problem Coq did not flag is reported too
    for hid, i, probs in oracle_bad:
        idx = where.index((hid, i))
        if idx not in hard:
            # only an alarm when the pre-state was coherent: the model decides that (code 2 covers it); keep as note
            pass
    for idx in sorted(hard):
        hid, i = where[idx]; rec = recmap[hid][i]
        probs = (rec.get("extra") or {}).get("zip_problems") or []
        key = key_of(rec, hard[idx], probs)
        if key in seen_keys:
            continue
        seen_keys.add(key)
        rp = common.write_replay(PROP, seed, "%d-%d" % (hid, i), dict(
            layer=LAYER.get(hard[idx], str(hard[idx])), key=key, ops=pkglib.concrete_prefix(recmap[hid], i), step=i,
            implementation_error=rec.get("err"), zip_problems=probs, case=cases[idx][:4000]))
        if key in known:
            known_seen.append("%s (%s) replay=%s" % (key, known[key]["description"][:80], rp))
        else:
            violations.append((rp, False))
    fid = {}
    for idx, c in bad.items():
        if c == 9:
            hid, i = where[idx]; k = recmap[hid][i]["concrete"]["op"]
            fid[k] = fid.get(k, 0) + 1
            if os.environ.get("VERIF_DEBUG"):
                common.write_replay(PROP, seed, "fid-%d-%d" % (hid, i), dict(layer="fidelity", key="fidelity", ops=pkglib.concrete_prefix(recmap[hid], i)))
    harness_failures = [e for _, e in failed if e != "timeout"]
    violations += common.proof_violation(PROP, seed, proofs, errors + harness_failures[:3], bool(hard))
    nontriv = set()
    for hid, recs in done:
        for r in recs:
            if r["kind"] in ("addfile", "del", "import", "save", "clone", "new", "open") and r["pre"] != r["post"]:
                nontriv.add(common.digest((r["kind"], r["op"], r["pre"][:400])))
    samples = [pkglib.concrete_prefix(recs, len(recs) - 1) for _, recs in done[len(corpus):len(corpus) + 2]]
    coverage = dict(
        trusted_base=["zipfile (infolist order, compress_type, member bytes), os.walk, lxml parse / C14N: the independent readers",
                      "modelled in Package.v: Container.__parts/get_part/set_part/del_part/parts/clone/save/_save_zip/_save_folder, Document.get_part/set_part/del_part/_add_binary_part/_check_manifest_rdf/save/clone, container_from_template, Manifest.get/set_media_type/add_full_path/del_full_path",
                      "hash names of add_file, media-type guessing and string replacement of '-template' are taken from the run (abstract in the model)"],
        evaluations=len(cases), distinct_nontrivial=len(nontriv),
        rule="histories: every template (Document(type) and Document.new(path)) and every sample (path-opened, buffer-opened) followed by random ops over %s; edge stream (same content added 3 times, save, reopen, add again, delete, save); one Coq evaluation per executed operation. non-trivial = a state-changing op of the C04 alphabet; distinct = distinct (op, pre-state)" % sorted(WEIGHTS),
        samples=samples, op_histogram=hist_ops, histories=len(done), histories_timed_out=sum(1 for _, e in failed if e == "timeout"),
        harness_failures=len(harness_failures), corpus_cases=len(corpus),
        fidelity_divergences=sum(1 for c in bad.values() if c == 9), fidelity_by_op=fid, saved_zips_with_problems_by_direct_oracle=len(oracle_bad),
        model_variant="FIXED" + "".join(" without the repair of %s" % n for n, v in zip(("F35", "F42", "F43"), fxv) if not v),
        exhaustive=False)
    pkglib.cleanup(work)
    return common.finish(PROP, tier, seed, proofs, coverage, violations, known_seen, t0,
                         assumptions=["directory entries and the '/' entry are not files (DESIGN.md C04)", "zipfile / lxml do what they are told"])


if __name__ == "__main__":
    common.main(run)
