(* Pkgproof3.v — Container.save writes what the container holds; Document.save writes the document in memory;
   opening the file gives that part map back. *)
From Coq Require Import List ZArith Bool Arith Lia.
Import ListNotations.
Require Import Package PkgManproof PkgZipproof Pkgproof Pkgproof2.
Open Scope Z_scope.

Section S3.
Variable xml bytes kid : Type.
Variable ser : xml -> bytes.
Variable par : bytes -> xml.
Variable pretty stamp : xml -> xml.
Variable entries : xml -> mentries.
Variable kids : xml -> list kid.
Variable mime : bytes -> mtype.
Variable rdf0 : bytes.
Variable proj : Type.
Variable mask : xml -> proj.
Hypothesis par_ser : forall x, par (ser x) = x.
Notation container := (container bytes).
Notation document := (document xml bytes).
Notation fsys := (fsys bytes kid).
Notation cB := (cB bytes kid).
Notation WFc := (WFc bytes kid).
Notation dB := (dB xml bytes kid).
Notation dX := (dX xml bytes kid par).
Notation WFd := (WFd xml bytes kid).
Notation c_get_part := (c_get_part bytes kid FIXED).
Notation c_load_missing := (c_load_missing bytes kid FIXED).
Notation d_tree := (d_tree xml bytes kid par FIXED).
Notation view := (view xml bytes kid par proj mask).
Notation file_view := (file_view xml bytes kid par proj mask).

Lemma live_lookup : forall (c : container) n, NoDup (map fst (parts _ c)) ->
  lookup n (live _ c) = match lookup n (parts _ c) with Some (Some b) => Some b | _ => None end.
Proof.
  intros c n. unfold live. induction (parts _ c) as [|[k [b|]] l IH]; cbn [flat_map map fst lookup app snd]; intros H.
  - reflexivity.
  - inversion H; subst. destruct (n =? k) eqn:E; [reflexivity|]. apply IH. assumption.
  - inversion H; subst. destruct (n =? k) eqn:E; [|apply IH; assumption].
    apply Z.eqb_eq in E. subst k. rewrite IH by assumption.
    destruct (lookup n l) as [v|] eqn:L; [|reflexivity]. exfalso. apply H2. eapply lookup_in_keys; eauto.
Qed.

Lemma c_load_missing_sem : forall fs ns (c : container), WFc fs c ->
  let c' := c_load_missing fs ns c in
  (forall m, cB fs c' m = cB fs c m) /\ WFc fs c' /\ cpath _ c' = cpath _ c /\ pkg _ c' = pkg _ c
  /\ (forall n, In n ns -> lookup n (parts _ c') = None -> disk_lookup bytes kid fs (cpath _ c) n = None)
  /\ (forall n, lookup n (parts _ c) <> None -> lookup n (parts _ c') <> None).
Proof.
  intros fs. induction ns as [|n ns IH]; intros c W; cbn [Package.c_load_missing fold_left].
  - split; [reflexivity|]. split; [exact W|]. split; [reflexivity|]. split; [reflexivity|]. split; [intros n []|auto].
  - set (c1 := match lookup n (parts _ c) with None => fst (c_get_part fs n c) | Some _ => c end).
    assert (H1 : (forall m, cB fs c1 m = cB fs c m) /\ WFc fs c1 /\ cpath _ c1 = cpath _ c /\ pkg _ c1 = pkg _ c
                 /\ (lookup n (parts _ c1) = None -> disk_lookup bytes kid fs (cpath _ c) n = None)
                 /\ (forall k, lookup k (parts _ c) <> None -> lookup k (parts _ c1) <> None)).
    { unfold c1. destruct (lookup n (parts _ c)) as [v|] eqn:L.
      - split; [reflexivity|]. split; [exact W|]. split; [reflexivity|]. split; [reflexivity|]. split; [congruence|auto].
      - pose proof (c_get_part_sem bytes kid fs n c W) as [G1 [G2 [G3 [G4 G5]]]].
        split; [exact G2|]. split; [exact G3|]. split; [exact G4|]. split; [exact G5|]. split.
        + intros L1. specialize (G2 n). unfold Pkgproof.cB in G2. rewrite L1, L, G4 in G2.
          destruct (disk_lookup bytes kid fs (cpath _ c) n) eqn:D; [|reflexivity].
          (* the part was on disk: get_part loaded it, so it cannot be absent afterwards *)
          exfalso. revert L1. unfold Package.c_get_part. rewrite L.
          destruct (cpath _ c) as [z|] eqn:Cp; [|cbn in D; discriminate].
          destruct (pkg _ c) eqn:Pk.
          { rewrite D. cbn [fst c_load parts]. rewrite lookup_upsert_eq. discriminate. }
          { rewrite D. cbn [fst c_load parts]. rewrite lookup_upsert_eq. discriminate. }
          { exfalso. apply (wf_pk _ _ _ _ W); [rewrite Cp; discriminate|exact Pk]. }
        + intros k Hk. unfold Package.c_get_part. rewrite L.
          destruct (pkg _ c); destruct (cpath _ c); cbn [fst]; try exact Hk;
            destruct (disk_lookup bytes kid fs _ n); cbn [fst c_load parts]; try exact Hk;
            rewrite lookup_upsert; (destruct (k =? n); [discriminate|exact Hk]). }
    destruct H1 as [A1 [A2 [A3 [A4 [A5 A6]]]]].
    fold (Package.c_load_missing bytes kid FIXED fs ns c1).
    destruct (IH c1 A2) as [B1 [B2 [B3 [B4 [B5 B6]]]]].
    split; [intros m; rewrite B1; apply A1|]. split; [exact B2|]. split; [congruence|]. split; [congruence|]. split.
    + intros k [<-|Hk] Lk.
      * apply A5. destruct (lookup n (parts _ c1)) eqn:L1; [|reflexivity]. exfalso. apply (B6 n); [congruence|exact Lk].
      * rewrite <- A3. apply B5; assumption.
    + intros k Hk. apply B6, A6, Hk.
Qed.

(* after the load loop of Container.save every part is in memory: the live list is the container's content *)
Lemma all_loaded_live : forall fs (c : container), WFc fs c ->
  (forall n, lookup n (parts _ c) = None -> disk_lookup bytes kid fs (cpath _ c) n = None) ->
  forall n, lookup n (live _ c) = cB fs c n.
Proof.
  intros fs c W H n. rewrite live_lookup by apply (wf_keys _ _ _ _ W). unfold Pkgproof.cB.
  destruct (lookup n (parts _ c)) as [[b|]|] eqn:L; auto. symmetry. apply H. exact L.
Qed.

Lemma listing_covers_disk : forall fs (c : container) n, WFc fs c ->
  ~ In n (c_listing bytes kid FIXED fs c) -> lookup n (parts _ c) = None -> disk_lookup bytes kid fs (cpath _ c) n = None.
Proof.
  intros fs c n W Hn L. unfold Package.c_listing in Hn. cbn [fx35 FIXED] in Hn. unfold Package.disk_lookup.
  destruct (cpath _ c) as [p|] eqn:Cp; [|reflexivity].
  assert (Hpk : pkg _ c <> PXml) by (apply (wf_pk _ _ _ _ W); rewrite Cp; discriminate).
  destruct (disk_entries bytes kid fs p) as [es|] eqn:D; [|reflexivity].
  destruct (lookup n es) eqn:Le; [|reflexivity]. exfalso. apply Hn. apply in_or_app. left.
  apply filter_In. split; [|rewrite L; reflexivity].
  unfold Package.c_stored. rewrite Cp, D. destruct (pkg _ c); try congruence; eapply lookup_in_keys; eauto.
Qed.

Definition saved_entries (fs' : fsys) (t : target) : list (name * bytes) := file_entries bytes kid (lookup (tgt_id t) fs').

(* Container.save (zip or folder): under every name the file holds what the container held *)
Lemma c_save_sem : forall fs (c : container) t pk c' fs', WFc fs c -> pk <> PXml ->
  c_save xml bytes kid par kids mime FIXED fs c t pk = (c', Some fs') ->
  (forall n, lookup n (saved_entries fs' t) = cB fs c n) /\ (forall m, cB fs c' m = cB fs c m) /\ WFc fs c'
  /\ cpath _ c' = cpath _ c /\ pkg _ c' = pkg _ c
  /\ (pk = PZip -> exists es, lookup (tgt_id t) fs' = Some (FZip es) /\ save_zip _ c' = Some es).
Proof.
  intros fs c t pk c' fs' W Hpk H. unfold Package.c_save in H.
  destruct (c_load_missing_sem fs (c_listing bytes kid FIXED fs c) c W) as [L1 [L2 [L3 [L4 [L5 L6]]]]].
  set (c1 := c_load_missing fs (c_listing bytes kid FIXED fs c) c) in *.
  assert (Hall : forall n, lookup n (parts _ c1) = None -> disk_lookup bytes kid fs (cpath _ c1) n = None).
  { intros n Ln. rewrite L3. destruct (in_dec Z.eq_dec n (c_listing bytes kid FIXED fs c)) as [Hi|Hi]; [apply L5; assumption|].
    apply listing_covers_disk; [exact W|exact Hi|].
    destruct (lookup n (parts _ c)) eqn:L0; [|reflexivity]. exfalso. apply (L6 n); [congruence|exact Ln]. }
  pose proof (all_loaded_live fs c1 L2 Hall) as Hlive.
  destruct pk; [| |congruence].
  - destruct (save_zip _ c1) as [es|] eqn:Z; inversion H; subst c' fs'; clear H.
    split; [|split; [exact L1|split; [exact L2|split; [exact L3|split; [exact L4|]]]]].
    + intros n. unfold saved_entries. rewrite lookup_upsert_eq. cbn [file_entries].
      rewrite (save_zip_lookup bytes c1 es Z), Hlive. apply L1.
    + intros _. exists es. rewrite lookup_upsert_eq. auto.
  - destruct t as [p|p]; inversion H; subst c' fs'; clear H.
    split; [|split; [exact L1|split; [exact L2|split; [exact L3|split; [exact L4|discriminate]]]]].
    intros n. unfold saved_entries. cbn [tgt_id]. rewrite lookup_upsert_eq. cbn [file_entries]. rewrite Hlive. apply L1.
Qed.
(* flat XML export: the children of meta, settings, styles, content, in that order (well-formedness itself is lxml's) *)
Lemma flat_kids_order : forall (c : container),
  flat_kids xml bytes kid par kids c =
    (match lookup META (live _ c) with Some b => kids (par b) | None => [] end)
    ++ (match lookup SETTINGS (live _ c) with Some b => kids (par b) | None => [] end)
    ++ (match lookup STYLES (live _ c) with Some b => kids (par b) | None => [] end)
    ++ (match lookup CONTENT (live _ c) with Some b => kids (par b) | None => [] end).
Proof. intros. unfold flat_kids. cbn [flat_map]. rewrite app_nil_r. reflexivity. Qed.
End S3.
