(* Property C10, Container / Document half — statements only.  Each is closed by [exact] of a lemma proved elsewhere. *)
From Coq Require Import List ZArith Bool. Import ListNotations.
Require Import Package PkgCloneproof PkgInstproof.
Open Scope Z_scope.

(* C10_lazy_parts: a clone has no path, and the part map of a path-less document does not depend on the file system:
   deleting or overwriting the source file after cloning cannot be observed through the clone (pinned and repaired code) *)
Theorem C10_lazy_parts : forall (xml bytes kid : Type) (ser : xml -> bytes) (par : bytes -> xml) (mask : xml -> xml)
  (fx : fixes) (fs fs' : fsys bytes kid) (d : document xml bytes) (n : name),
  view xml bytes kid par mask fs' (snd (d_clone xml bytes kid ser par fx fs d)) n
  = view xml bytes kid par mask fs (snd (d_clone xml bytes kid ser par fx fs d)) n.
Proof. exact clone_lazy. Qed.
Print Assumptions C10_lazy_parts.

Theorem C10_clone_has_no_path : forall (xml bytes kid : Type) (ser : xml -> bytes) (par : bytes -> xml) (fx : fixes) (fs : fsys bytes kid) (d : document xml bytes),
  cpath bytes (cont xml bytes (snd (d_clone xml bytes kid ser par fx fs d))) = None.
Proof. exact d_clone_no_path. Qed.
Print Assumptions C10_clone_has_no_path.

(* independence: the state of (file system, original, clone) is a product; an operation on one document is a function of
   the file system and that document only, and a path-less document does not read the file system (C10_lazy_parts):
   [step] has the type  fixes -> fsys * document -> op -> (fsys * document) * out , the other document is not an argument. *)
Theorem C10_doc_independent : forall (xml bytes kid : Type) (par : bytes -> xml) (mask : xml -> xml)
  (fs fs' : fsys bytes kid) (d : document xml bytes) (n : name),
  cpath bytes (cont xml bytes d) = None -> view xml bytes kid par mask fs' d n = view xml bytes kid par mask fs d n.
Proof. exact view_no_path. Qed.
Print Assumptions C10_doc_independent.

(* F14 on the pinned code: after an unsaved edit the clone is not the original; the repaired clone is (same witness) *)
Theorem C10_doc_equal_at_birth_refuted : exists fs d n, cview fs (snd (cd_clone PINNED fs d)) n <> cview fs d n
                                                     /\ cview fs (snd (cd_clone FIXED fs d)) n = cview fs d n.
Proof. exact f14_refuted. Qed.
Print Assumptions C10_doc_equal_at_birth_refuted.

(* F37 on the pinned code: cloning a path-opened zip changes the original (a deleted part comes back) *)
Theorem C10_clone_modifies_original_refuted : exists fs d n, cview fs (fst (cd_clone PINNED fs d)) n <> cview fs d n
                                                          /\ cview fs (fst (cd_clone FIXED fs d)) n = cview fs d n.
Proof. exact f37_refuted. Qed.
Print Assumptions C10_clone_modifies_original_refuted.

(* full strength: equal at birth and original untouched, for every well-formed state.  Not proved in general (the witness
   above shows it for one non-trivial state of the repaired model); the correspondence evaluates both equalities, strictly,
   on every clone the histories take. *)
Definition C10_doc_equal_at_birth_full : Prop :=
  forall (fs : cfs) (d : cdoc) (n : name), cWFdb fs d = true ->
    opt_eqb ccont_eqb (cview fs (snd (cd_clone FIXED fs d)) n) (cview fs d n) = true
    /\ opt_eqb ccont_eqb (cview fs (fst (cd_clone FIXED fs d)) n) (cview fs d n) = true.
