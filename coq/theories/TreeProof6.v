(* TreeProof6.v — replace(formatted=True) of the repaired code: the re-normalised containers are in white-space normal
   form and the whole element reads as after the plain replacement.  Part 1: items of a container vs its events,
   the children kept by append_plain_text, the rebuild loop. *)
From Coq Require Import List Arith Bool ZArith Lia.
Import ListNotations.
Require Import WS WSproof WSnfproof WSenc1 WSenc2 WSenc3 WSenc4 WSenc7 Tree TreeNF TreeProof TreeProof2 TreeProof3 TreeProof4.

(* ---------------------------------------------------------------- every tree flattens to a balanced list *)
Lemma Bal_otxt o : Bal (otxt o). Proof. destruct o; repeat constructor. Qed.
Definition epart (n : node) : list ev :=
  match n with Node k a _ tx ks _ => Open k a :: (otxt tx ++ flat_map flat ks) ++ [Close] end.
Lemma flat_epart n : flat n = epart n ++ otxt (tail_of n).
Proof. destruct n as [k a s tx ks tl]. cbn [flat epart tail_of app]. f_equal. now rewrite <- !app_assoc. Qed.
Lemma epart_set_tail n t : epart (set_tail n t) = epart n. Proof. now destruct n. Qed.
Lemma tail_set_tail n t : tail_of (set_tail n t) = t. Proof. now destruct n. Qed.
Lemma Bal_flat : forall n, Bal (flat n).
Proof.
  induction n as [k a s tx ks tl IH] using node_ind'. cbn [flat].
  replace (otxt tx ++ flat_map flat ks ++ Close :: otxt tl) with ((otxt tx ++ flat_map flat ks) ++ Close :: otxt tl)
    by now rewrite <- app_assoc.
  constructor; [|apply Bal_otxt]. apply Bal_app; [apply Bal_otxt|].
  induction IH as [|c ks Hc _ IHks]; [constructor|]. cbn [flat_map]. now apply Bal_app.
Qed.
Lemma Bal_flat_map ks : Bal (flat_map flat ks).
Proof. induction ks as [|c ks IH]; [constructor|]. cbn [flat_map]. apply Bal_app; [apply Bal_flat|exact IH]. Qed.
Lemma Bal_content n : Bal (content n).
Proof. destruct n. cbn [content]. apply Bal_app; [apply Bal_otxt|apply Bal_flat_map]. Qed.
Lemma Bal_epart n : Bal (epart n).
Proof.
  destruct n as [k a s tx ks tl]. cbn [epart]. apply (Bal_elem k a _ []); [|constructor].
  apply Bal_app; [apply Bal_otxt|apply Bal_flat_map].
Qed.

(* ---------------------------------------------------------------- items of a container read like its events *)
Definition leaf_spacer (c : node) : bool :=
  match c with Node (KS _) _ _ tx ks _ => match tx, ks with None, [] => true | _, _ => false end | _ => true end.
Lemma readable_ostr o : readable (ostr o) = oget o.
Proof. destruct o as [[|t s]|]; cbn; rewrite ?app_nil_r; reflexivity. Qed.
Lemma readable_otxt0 o R : readable_ 0 (otxt o ++ R) = oget o ++ readable_ 0 R.
Proof. destruct o; reflexivity. Qed.
Lemma readable_node_item c R : leaf_spacer c = true ->
  readable_ 0 (epart c ++ R) = readable [node_item c] ++ readable_ 0 R.
Proof.
  intros H. destruct c as [k a s tx ks tl].
  assert (G : forall k', k' = k -> (forall n, k <> KS n) ->
     readable_ 0 (epart (Node k a s tx ks tl) ++ R)
     = readable [IElem 0 (readable_ev (flat (Node k a s tx ks None)))] ++ readable_ 0 R).
  { intros _ _ _. rewrite readable_seg by apply Bal_epart. cbn [readable]. rewrite app_nil_r. f_equal.
    unfold readable_ev. rewrite flat_epart. cbn [tail_of otxt]. now rewrite app_nil_r. }
  destruct k; try (apply (G _ eq_refl); intros; discriminate).
  cbn [leaf_spacer] in H. destruct tx; [discriminate|]. destruct ks; [|discriminate].
  cbn [epart otxt flat_map app node_item readable readable_ hidden pred]. now rewrite app_nil_r.
Qed.
Lemma items_of_app tx ks1 ks2 :
  items_of tx (ks1 ++ ks2) = items_of tx ks1 ++ flat_map (fun c => node_item c :: ostr (tail_of c)) ks2.
Proof. unfold items_of. now rewrite flat_map_app, app_assoc. Qed.
Lemma readable_items_of tx ks : forallb leaf_spacer ks = true ->
  readable (items_of tx ks) = readable_ 0 (otxt tx ++ flat_map flat ks).
Proof.
  intros H. unfold items_of. rewrite WSproof.readable_app. rewrite readable_ostr. rewrite readable_otxt0. f_equal.
  induction ks as [|c ks IH]; [reflexivity|]. cbn [forallb] in H. apply andb_true_iff in H as [H1 H2].
  cbn [flat_map]. rewrite flat_epart, <- !app_assoc.
  rewrite readable_node_item by exact H1. change ((node_item c :: ostr (tail_of c)) ++ ?x) with ([node_item c] ++ ostr (tail_of c) ++ x).
  rewrite !WSproof.readable_app. rewrite readable_ostr. rewrite readable_otxt0. rewrite (IH H2). reflexivity.
Qed.

(* ---------------------------------------------------------------- append_plain_text keeps the children, in order *)
Definition elems (its : list item) : list item := filter (fun it => negb (noel_it it)) its.
Lemma elems_app x y : elems (x ++ y) = elems x ++ elems y. Proof. apply filter_app. Qed.
Lemma elems_noel l : noel l = true -> elems l = [].
Proof.
  induction l as [|x l IH]; [reflexivity|]. cbn [noel forallb]. intros H. apply andb_true_iff in H as [H1 H2].
  cbn [elems filter]. rewrite H1. cbn [negb]. now apply IH.
Qed.
Lemma elems_merge_text res t : elems (merge_text res t) = elems res.
Proof.
  induction res as [|x res IH]; [reflexivity|]. destruct res as [|y res'].
  - destruct x; reflexivity.
  - rewrite merge_text_cons2. unfold elems in *. cbn [filter]. now rewrite IH.
Qed.
Lemma elems_expand its added : elems (expand_spaces its added) = elems its.
Proof.
  unfold expand_spaces. rewrite elems_merge_text.
  assert (G : forall acc, elems (fold_left (fun res it => match it with
                 | IStr s => merge_text res s | IS n => merge_text res (repeat Sp n) | _ => res ++ [it] end) its acc)
              = elems acc ++ elems its).
  { induction its as [|it its IH]; intros acc; [now rewrite app_nil_r|]. cbn [fold_left]. rewrite IH.
    destruct it; rewrite ?elems_merge_text, ?elems_app; cbn [elems filter noel_it negb app]; rewrite <- ?app_assoc; reflexivity. }
  apply (G []).
Qed.
Lemma elems_merge_spaces its : elems (merge_spaces its) = elems its.
Proof.
  induction its as [|it its IH]; [reflexivity|]. unfold merge_spaces in *. cbn [flat_map]. rewrite elems_app, IH.
  destruct it; try reflexivity. rewrite elems_noel; [reflexivity|]. apply (W_noel false), W_sub_merge.
Qed.
Lemma elems_replace its : elems (replace_tabs_lb its) = elems its.
Proof.
  induction its as [|it its IH]; [reflexivity|]. unfold replace_tabs_lb in *. cbn [flat_map]. rewrite elems_app, IH.
  destruct it; try reflexivity. rewrite elems_noel; [reflexivity|]. apply noel_split_tl.
Qed.
Lemma elems_append its a : elems (append_plain_text its a) = elems its.
Proof. unfold append_plain_text. now rewrite elems_replace, elems_merge_spaces, elems_expand. Qed.

Definition nonspacer (c : node) : bool := negb (is_spacer (kind_of c)).
Lemma node_item_nonspacer c : nonspacer c = true -> noel_it (node_item c) = false.
Proof. destruct c as [k a s tx ks tl]. destruct k; try reflexivity. discriminate. Qed.
Lemma node_item_spacer c : nonspacer c = false -> noel_it (node_item c) = true.
Proof. destruct c as [k a s tx ks tl]. destruct k; try discriminate. reflexivity. Qed.
Lemma elems_ostr o : elems (ostr o) = []. Proof. destruct o as [[|t s]|]; reflexivity. Qed.
Lemma elems_items_of tx ks : elems (items_of tx ks) = map node_item (filter nonspacer ks).
Proof.
  unfold items_of. rewrite elems_app, elems_ostr. cbn [app].
  induction ks as [|c ks IH]; [reflexivity|]. cbn [flat_map filter].
  change ((node_item c :: ostr (tail_of c)) ++ ?x) with ([node_item c] ++ ostr (tail_of c) ++ x).
  rewrite !elems_app, elems_ostr, IH. cbn [app]. destruct (nonspacer c) eqn:E.
  - cbn [elems filter]. rewrite (node_item_nonspacer _ E). reflexivity.
  - cbn [elems filter]. rewrite (node_item_spacer _ E). reflexivity.
Qed.

(* ---------------------------------------------------------------- shape of a normal form *)
Fixpoint good (prev : bool) (its : list item) : bool :=
  match its with
  | [] => true
  | IStr s :: r => negb prev && negb (is_nil s) && no_dsp s && good true r
  | _ :: r => good false r
  end.
Lemma good_true_of r : hd_str r = false -> good false r = true -> good true r = true.
Proof. destruct r as [|[s|n| | |i t] r]; try reflexivity; try (intros _ H; exact H). discriminate. Qed.
Lemma NFb_good its : forall first, NFb first its = true -> good false its = true.
Proof.
  induction its as [|it its IH]; intros first H; [reflexivity|]. destruct it; cbn [NFb good] in *; try (eapply IH; exact H).
  apply andb_true_iff in H as [H H7]. apply andb_true_iff in H as [H H6]. apply andb_true_iff in H as [H H5].
  apply andb_true_iff in H as [H H4]. apply andb_true_iff in H as [H H3]. apply andb_true_iff in H as [H1 H2].
  cbn [negb andb]. rewrite H1, H3. cbn [andb]. apply good_true_of; [now apply negb_true_iff|eapply IH; exact H7].
Qed.

(* new tab / line-break elements read back as opaque children: same normal form, same text *)
Definition canon (it : item) : item := match it with ITab => IElem 0 [Tb] | ILb => IElem 0 [Nl] | x => x end.
Lemma readable_canon its : readable (map canon its) = readable its.
Proof. induction its as [|it its IH]; [reflexivity|]. destruct it; cbn [map canon readable app]; now rewrite IH. Qed.
Lemma NFb_canon its : forall first, NFb first (map canon its) = NFb first its.
Proof.
  induction its as [|it its IH]; intros first; [reflexivity|].
  assert (Hs : hd_solid (map canon its) = hd_solid its) by (destruct its as [|[| | | |]]; reflexivity).
  assert (Hh : hd_str (map canon its) = hd_str its) by (destruct its as [|[| | | |]]; reflexivity).
  destruct it; cbn [map canon NFb]; rewrite ?IH, ?Hs, ?Hh; reflexivity.
Qed.
