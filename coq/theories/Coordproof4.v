(* named-range addresses: written for (table name, area), read back; renaming a table updates its ranges *)
From Coq Require Import List ZArith Lia Bool ZifyBool.
Import ListNotations.
Require Import Coord Coordproof1 Coordproof2.
Open Scope Z_scope.

Lemma str_eqb_refl s : str_eqb s s = true.
Proof. induction s as [|c s IH]; cbn [str_eqb]; [reflexivity|]. now rewrite Z.eqb_refl, IH. Qed.
Lemma str_eqb_eq a b : str_eqb a b = true <-> a = b.
Proof.
  split; [|intros ->; apply str_eqb_refl]. revert b. induction a as [|x a IH]; intros [|y b] H; cbn [str_eqb] in H; try discriminate; [reflexivity|].
  apply andb_true_iff in H as [H1 H2]. apply Z.eqb_eq in H1. subst. f_equal. now apply IH.
Qed.

(* removing a character that does not occur *)
Lemma remove_chr_app ch a b : remove_chr ch (a ++ b) = remove_chr ch a ++ remove_chr ch b.
Proof. unfold remove_chr. apply filter_app. Qed.
Lemma remove_chr_absent ch s : ~ In ch s -> remove_chr ch s = s.
Proof.
  unfold remove_chr. induction s as [|c s IH]; intros H; cbn [filter]; [reflexivity|].
  destruct (Z.eqb_spec c ch) as [->|Hn]; [exfalso; apply H; now left|]. cbn [negb]. f_equal. apply IH. intros Hi; apply H; now right.
Qed.
Lemma remove_chr_hit ch s : remove_chr ch (ch :: s) = remove_chr ch s.
Proof. unfold remove_chr. cbn [filter]. now rewrite Z.eqb_refl. Qed.
Lemma remove_chr_miss ch c s : c <> ch -> remove_chr ch (c :: s) = c :: remove_chr ch s.
Proof. intros H. unfold remove_chr. cbn [filter]. destruct (Z.eqb_spec c ch); [congruence|reflexivity]. Qed.
Lemma ld_absent s ch : Forall ld s -> ch = 58 \/ ch = 36 \/ ch = 46 \/ ch = 39 -> ~ In ch s.
Proof. intros H Hc Hi. rewrite Forall_forall in H. specialize (H ch Hi). unfold ld, isup, isdg in H. lia. Qed.

(* "$A$1" with the dollars and dots removed is "A1" *)
Lemma cell_ref_spec x y : 0 <= x -> 0 <= y ->
  exists a, digit_to_alpha x = Some a /\ cell_ref x y = Some (DOLLAR :: a ++ DOLLAR :: print_row y) /\ print_cell x y = Some (a ++ print_row y)
            /\ Forall ld (a ++ print_row y) /\ Forall isup a.
Proof.
  intros Hx Hy. destruct (print_col_spec x Hx) as (a & Hp & _ & Hup & _). exists a. unfold cell_ref, print_cell, print_row. rewrite Hp. cbn [bind].
  repeat split; auto. apply ld_app; [exact Hup|]. now destruct (print_row_dg y Hy).
Qed.
Lemma clean_cell_ref a d : Forall ld (a ++ d) ->
  remove_chr DOT (remove_chr DOLLAR (DOLLAR :: a ++ DOLLAR :: d)) = a ++ d.
Proof.
  intros H. apply Forall_app in H as [Ha Hd].
  rewrite remove_chr_hit, remove_chr_app, remove_chr_hit.
  rewrite (remove_chr_absent DOLLAR a), (remove_chr_absent DOLLAR d) by (apply ld_absent; auto; unfold DOLLAR; lia).
  rewrite remove_chr_app. rewrite (remove_chr_absent DOT a), (remove_chr_absent DOT d) by (apply ld_absent; auto; unfold DOT; lia).
  reflexivity.
Qed.

Definition clean (s : str) : str := remove_chr DOT (remove_chr DOLLAR s).
Lemma clean_app s1 s2 : clean (s1 ++ s2) = clean s1 ++ clean s2.
Proof. unfold clean. now rewrite !remove_chr_app. Qed.
Lemma clean_range a d b e : Forall ld (a ++ d) -> Forall ld (b ++ e) ->
  remove_chr DOT (remove_chr DOLLAR ((DOLLAR :: a ++ DOLLAR :: d) ++ COLON :: DOT :: DOLLAR :: b ++ DOLLAR :: e)) = (a ++ d) ++ 58 :: (b ++ e).
Proof.
  intros H1 H2. fold (clean ((DOLLAR :: a ++ DOLLAR :: d) ++ COLON :: DOT :: DOLLAR :: b ++ DOLLAR :: e)).
  rewrite clean_app. unfold clean at 1. rewrite clean_cell_ref by exact H1. f_equal.
  unfold clean. rewrite (remove_chr_miss DOLLAR COLON), (remove_chr_miss DOLLAR DOT) by (unfold COLON, DOT, DOLLAR; lia).
  rewrite (remove_chr_miss DOT COLON) by (unfold COLON, DOT; lia). rewrite remove_chr_hit. rewrite clean_cell_ref by exact H2. reflexivity.
Qed.

(* the quoted name is scanned back *)
Lemma scan_dbl : forall n acc c r, c <> SQ -> scan_quoted (dbl_sq n ++ SQ :: c :: r) acc = Some (rev acc ++ n, c :: r).
Proof.
  induction n as [|ch n IH]; intros acc c r Hc.
  - cbn [dbl_sq flat_map app scan_quoted]. rewrite Z.eqb_refl. destruct (Z.eqb_spec c SQ); [congruence|]. now rewrite app_nil_r.
  - unfold dbl_sq. cbn [flat_map]. fold (dbl_sq n). destruct (Z.eqb_spec ch SQ) as [->|Hn].
    + cbn [app scan_quoted]. rewrite !Z.eqb_refl. rewrite IH by exact Hc. cbn [rev]. now rewrite <- app_assoc.
    + cbn [app scan_quoted]. destruct (Z.eqb_spec ch SQ); [congruence|]. rewrite IH by exact Hc. cbn [rev]. now rewrite <- app_assoc.
Qed.

Lemma needs_quote_false n : needs_quote n = false -> ~ In DOT n /\ ~ In SQ n /\ ~ In DOLLAR n.
Proof.
  unfold needs_quote. intros H. assert (Hall : forall c, In c n -> ((c =? SPACE) || (c =? DOT) || (c =? SQ) || (c =? DOLLAR)) = false).
  { intros c Hc. destruct ((c =? SPACE) || (c =? DOT) || (c =? SQ) || (c =? DOLLAR)) eqn:E; [|reflexivity].
    assert (existsb (fun c => (c =? SPACE) || (c =? DOT) || (c =? SQ) || (c =? DOLLAR)) n = true) by (apply existsb_exists; eauto). congruence. }
  repeat split; intros Hi; specialize (Hall _ Hi); unfold SPACE, DOT, SQ, DOLLAR in *; lia.
Qed.

(* what follows the name in an address: ".<range part>"; the reader yields the name and a range part whose cleaning is that of [rest] *)
Lemma split_address_spec n rest :
  exists crange, split_address (DOLLAR :: quote_name n ++ DOT :: rest) = Some (n, crange) /\
                 remove_chr DOT (remove_chr DOLLAR crange) = remove_chr DOT (remove_chr DOLLAR rest).
Proof.
  unfold split_address. rewrite Z.eqb_refl. unfold quote_name. destruct (needs_quote n) eqn:E.
  - exists (DOT :: rest). cbn [app]. rewrite Z.eqb_refl. rewrite <- app_assoc. cbn [app].
    rewrite scan_dbl by (unfold DOT, SQ; lia). split; [reflexivity|].
    rewrite (remove_chr_miss DOLLAR DOT) by (unfold DOT, DOLLAR; lia). now rewrite remove_chr_hit.
  - exists rest. destruct (needs_quote_false n E) as (Hd & Hs & _). split; [|reflexivity].
    destruct n as [|c n'].
    + cbn [app]. destruct (Z.eqb_spec DOT SQ) as [H|_]; [unfold DOT, SQ in H; lia|]. cbn [split1]. now rewrite Z.eqb_refl.
    + cbn [app]. destruct (Z.eqb_spec c SQ) as [->|_]; [exfalso; apply Hs; now left|].
      change (c :: n' ++ DOT :: rest) with ((c :: n') ++ DOT :: rest). rewrite split1_at by exact Hd. reflexivity.
Qed.

Definition quad_of (a : area) : quad := let '(x, y, z, t) := a in (Some x, Some y, Some z, Some t).
Definition base_of (a : area) : quad := let '(x, y, _, _) := a in (Some x, Some y, Some x, Some y).
Definition nonneg_area (a : area) : Prop := let '(x, y, z, t) := a in 0 <= x /\ 0 <= y /\ 0 <= z /\ 0 <= t.

Theorem base_roundtrip n x y z t : 0 <= x -> 0 <= y ->
  exists b, make_base n (x, y, z, t) = Some b /\ parse_range b = Some (n, (Some x, Some y, Some x, Some y)).
Proof.
  intros Hx Hy. destruct (cell_ref_spec x y Hx Hy) as (a & _ & Hc & Hp & Hld & _).
  unfold make_base. rewrite Hc. cbn [bind]. eexists; split; [reflexivity|].
  unfold parse_range. destruct (split_address_spec n (DOLLAR :: a ++ DOLLAR :: print_row y)) as (cr & Hs & Hcl). rewrite Hs. cbn [bind fst snd].
  rewrite Hcl, clean_cell_ref by exact Hld.
  destruct (print_parse_cell x y Hx Hy) as (s & Hps & Hcs). rewrite Hp in Hps. inversion Hps; subst s. rewrite Hcs. reflexivity.
Qed.

Theorem range_roundtrip n x y z t : 0 <= x -> 0 <= y -> 0 <= z -> 0 <= t ->
  exists r, make_range n (x, y, z, t) = Some r /\ parse_range r = Some (n, (Some x, Some y, Some z, Some t)).
Proof.
  intros Hx Hy Hz Ht. unfold make_range. destruct ((x =? z) && (y =? t)) eqn:E.
  - apply andb_true_iff in E as [E1 E2]. apply Z.eqb_eq in E1, E2. subst z t. apply base_roundtrip; assumption.
  - destruct (cell_ref_spec x y Hx Hy) as (a & _ & Hc & Hp & Hld & _). destruct (cell_ref_spec z t Hz Ht) as (b & _ & Hc2 & Hp2 & Hld2 & _).
    rewrite Hc, Hc2. cbn [bind]. eexists; split; [reflexivity|].
    unfold parse_range.
    destruct (split_address_spec n ((DOLLAR :: a ++ DOLLAR :: print_row y) ++ COLON :: DOT :: DOLLAR :: b ++ DOLLAR :: print_row t)) as (cr & Hs & Hcl).
    rewrite Hs. cbn [bind fst snd]. rewrite Hcl.
    assert (Hclean := clean_range a (print_row y) b (print_row t) Hld Hld2).
    rewrite Hclean.
    destruct (print_parse_area x y z t Hx Hy Hz Ht) as (s & Hps & Hcs). unfold print_area in Hps. rewrite Hp, Hp2 in Hps. cbn [bind] in Hps.
    inversion Hps; subst s. rewrite Hcs. reflexivity.
Qed.

(* the pinned code: quoting only for a space, splitting at the first dot, dollars stripped everywhere *)
Theorem pinned_roundtrip_refuted :
  exists n a r, name_ok n /\ nonneg_area a /\ make_range_pinned n a = Some r /\ parse_range_pinned r <> Some (n, quad_of a).
Proof. exists [97; 46; 98], (1, 1, 2, 2). eexists. split; [reflexivity|]. split; [cbn; lia|]. split; [vm_compute; reflexivity|]. vm_compute. discriminate. Qed.
Theorem pinned_roundtrip_refuted_dollar :
  exists n a r, name_ok n /\ nonneg_area a /\ make_range_pinned n a = Some r /\ parse_range_pinned r <> Some (n, quad_of a).
Proof. exists [97; 36; 98], (1, 1, 2, 2). eexists. split; [reflexivity|]. split; [cbn; lia|]. split; [vm_compute; reflexivity|]. vm_compute. discriminate. Qed.
(* an apostrophe inside a quoted name is not doubled: the pinned reader accepts its own text, a reader of the ODF syntax does not *)
Theorem pinned_apostrophe_not_odf :
  exists n a r, name_ok n /\ make_range_pinned n a = Some r /\ parse_range_pinned r = Some (n, quad_of a) /\ parse_range r <> Some (n, quad_of a).
Proof. exists [120; 39; 121; 32; 122], (1, 1, 2, 2). eexists. split; [reflexivity|]. split; [vm_compute; reflexivity|]. split; vm_compute; [reflexivity|discriminate]. Qed.

(* ---------------- renaming ---------------- *)
Definition nr_name (r : nrange) : str := let '(nm, _, _) := r in nm.
Definition written (tn : str) (a : area) (r : nrange) : Prop :=
  let '(_, b, ra) := r in make_base tn a = Some b /\ make_range tn a = Some ra.

Lemma rename_one old new' r tn a : written tn a r -> nonneg_area a ->
  exists r', rename_with parse_range make_base make_range old new' r = Some r' /\ nr_name r' = nr_name r /\
             written (if str_eqb tn old then new' else tn) a r'.
Proof.
  destruct r as [[nm b] ra]. destruct a as [[[x y] z] t]. intros [Hb Hr] (Hx & Hy & Hz & Ht). unfold rename_with.
  destruct (range_roundtrip tn x y z t Hx Hy Hz Ht) as (ra' & Hmk & Hparse). rewrite Hr in Hmk. inversion Hmk; subst ra'. rewrite Hparse.
  destruct (str_eqb tn old) eqn:E.
  - cbn [area_of_quad bind].
    destruct (base_roundtrip new' x y z t Hx Hy) as (b' & Hb' & _). destruct (range_roundtrip new' x y z t Hx Hy Hz Ht) as (r' & Hr' & _).
    rewrite Hb', Hr'. cbn [bind]. eexists; split; [reflexivity|]. split; [reflexivity|]. split; assumption.
  - eexists; split; [reflexivity|]. split; [reflexivity|]. split; assumption.
Qed.

Theorem rename_updates old new new' (rs : list nrange) (specs : list (str * area)) :
  table_name_check new = Some new' ->
  Forall2 (fun r sp => written (fst sp) (snd sp) r /\ nonneg_area (snd sp)) rs specs ->
  exists rs', rename_table old new rs = Some rs' /\
    Forall2 (fun r' rsp => nr_name r' = nr_name (fst rsp) /\
                           written (if str_eqb (fst (snd rsp)) old then new' else fst (snd rsp)) (snd (snd rsp)) r') rs' (combine rs specs).
Proof.
  intros Hn H. unfold rename_table. rewrite Hn. cbn [bind].
  induction H as [|r sp rs specs [Hw Ha] _ IH]; [exists []; split; [reflexivity|constructor]|].
  destruct IH as (rs' & Hrs & Hall). destruct sp as [tn a]. cbn [fst snd] in *.
  destruct (rename_one old new' r tn a Hw Ha) as (r' & Hr' & Hnm & Hw').
  exists (r' :: rs'). cbn [map_opt]. rewrite Hr', Hrs. cbn [bind]. split; [reflexivity|]. cbn [combine]. constructor; [|exact Hall]. cbn [fst snd]. auto.
Qed.

(* on the pinned code a range pointing to a table whose name contains a dot is left behind by the rename *)
Theorem pinned_rename_refuted :
  exists old new a b r rs', name_ok old /\ name_ok new /\ make_base_pinned old a = Some b /\ make_range_pinned old a = Some r /\
    rename_table_pinned old new [([110], b, r)] = Some rs' /\ rs' = [([110], b, r)].
Proof. exists [97; 46; 98], [99], (1, 1, 2, 2). do 3 eexists. split; [reflexivity|]. split; [reflexivity|]. split; [vm_compute; reflexivity|]. split; [vm_compute; reflexivity|]. split; vm_compute; reflexivity. Qed.
