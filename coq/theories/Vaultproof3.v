(* Vaultproof3.v — reading through the map: find_odf_idx locates exactly the logical item, or nothing beyond the end. *)
From Coq Require Import List ZArith Lia Bool Arith.
Import ListNotations.
Require Import Vault Vaultproof.

Section VP3.
Variable A : Type.
Notation runs := (runs A).

Lemma cmap_from_le acc (v : runs) : Forall (fun e => (e <= acc + Z.of_nat (width v))%Z) (cmap_from acc v).
Proof.
  revert acc; induction v as [|[n b] v IH]; intros acc; cbn [cmap_from]; [constructor|].
  unfold width. cbn [expand]. rewrite app_length, repeat_length. constructor; [lia|].
  eapply Forall_impl; [|apply IH]. cbv beta. unfold width. intros; lia.
Qed.
Lemma bisect_all_lt (m : list Z) p : Forall (fun e => (e < p)%Z) m -> bisect m p = length m.
Proof.
  induction 1 as [|e m He Hm IH]; [reflexivity|]. cbn [bisect length].
  destruct (Z.ltb_spec e p); [now rewrite IH|lia].
Qed.

Definition item_at (p : Z) (v : runs) : option A :=
  match find_idx (cmap v) p with Some i => option_map snd (nth_error v i) | None => None end.

Lemma item_at_spec (v : runs) p : wf v -> (0 <= p)%Z -> item_at p v = nth_error (expand v) (Z.to_nat p).
Proof.
  intros Hwf Hp. unfold item_at.
  destruct (Z.ltb_spec p (Z.of_nat (width v))) as [Hin|Hout].
  - pose proof (bisect_spec v (-1)%Z p Hwf ltac:(lia) ltac:(lia)) as Hs.
    cbv zeta in Hs. destruct Hs as (b & n & Hnth & Hrange & _ & _).
    unfold find_idx, cmap.
    set (i := bisect (cmap_from (-1)%Z v) p) in *.
    assert (Hi : i < length v) by (apply nth_error_Some; congruence).
    rewrite cmap_from_length. destruct (Nat.ltb_spec i (length v)); [|lia].
    rewrite Hnth. cbn [option_map snd].
    pose proof (firstn_skipn_nth_error v i (n, b) Hnth) as Hv.
    rewrite Hv at 1. rewrite expand_app. cbn [expand].
    set (L := length (expand (firstn i v))) in *.
    rewrite nth_error_app2 by (fold L; lia). fold L.
    rewrite nth_error_app1 by (rewrite repeat_length; lia).
    symmetry. apply nth_error_repeat. lia.
  - unfold find_idx, cmap. rewrite bisect_all_lt.
    + rewrite Nat.ltb_irrefl. symmetry. apply nth_error_None. unfold width in Hout. lia.
    + eapply Forall_impl; [|apply (cmap_from_le (-1)%Z v)]. cbv beta. intros; lia.
Qed.
End VP3.
Arguments item_at {A}. Arguments item_at_spec {A}. Arguments cmap_from_le {A}.
