(* Property C15 -- statements only.  PARTIAL by design (DESIGN.md section 5/C15 and section 9).

   Proved here: for the reads that ARE modelled in the libraries present in this tree -- inner_text / the ODF consumer /
   length on the paragraph model WS.v, and the Markdown / RST table exporters as far as their effect on the live table
   goes (Readers.v) -- a read returns the state it was given and the same answer when repeated, in any order and
   however often; the Markdown export of the PINNED sources does change the table (F20, refuted), the repaired one does
   not and answers the same.
   NOT proved: every other read-only entry point of Document, Body, Element, Table, Row, Meta and the export mixins
   (several hundred methods).  For those the check is the snapshot-diff harness harness/c15.py: testing, not proof,
   labelled `level_note` in the evidence.  The table readers of C01/C08 (layer B: caches) belong to another builder's
   libraries and are not restated here. *)
From Coq Require Import List Arith Bool ZArith. Import ListNotations.
Require Import WS Readers Readersproof ReadFam C15fam Vault Row Table TableB TableBabs TableBproof6 Tree Package Pkgproof Styles Toc.

(* a modelled read leaves the paragraph as it was *)
Theorem C15_read_pure : forall (st : list item) (o : pop), is_read o = true -> fst (pstep st o) = st.
Proof. exact read_pure. Qed.
Print Assumptions C15_read_pure.

(* ... and gives the same answer when repeated *)
Theorem C15_deterministic : forall (st : list item) (o : pop), is_read o = true ->
  snd (pstep (fst (pstep st o)) o) = snd (pstep st o).
Proof. exact read_deterministic. Qed.
Print Assumptions C15_deterministic.

(* any history of reads, in any order, any number of times: state unchanged, each answer = the answer on the original state *)
Theorem C15_reads_in_any_order : forall (os : list pop) (st : list item), forallb is_read os = true ->
  fst (prun st os) = st /\ snd (prun st os) = map (fun o => snd (pstep st o)) os.
Proof. exact reads_any_order. Qed.
Print Assumptions C15_reads_in_any_order.

(* the statement is not vacuous: the machine has a step that does change the state *)
Theorem C15_machine_has_writes : exists st s, fst (pstep st (WAppend s)) <> st.
Proof. exact write_changes_state. Qed.
Print Assumptions C15_machine_has_writes.

(* Markdown export of a table, pinned sources (optimize_width on self): changes the live table -- F20 *)
Theorem C15_md_refuted : forall A (render : ctable -> A), exists t, fst (md_export_pinned A render t) <> t.
Proof. exact md_pinned_refuted. Qed.
Print Assumptions C15_md_refuted.

(* small-scope sweep (bound: Readers.small_tables, 87 161 tables of <= 3 row elements with <= 2 cell runs each): the pinned
   export is at least repeatable -- the second call finds the table as the first left it and gives the same answer *)
Theorem C15_md_pinned_repeatable_small : forall A (render : ctable -> A) t, In t small_tables ->
  md_export_pinned A render (fst (md_export_pinned A render t)) = md_export_pinned A render t.
Proof. exact md_pinned_repeatable_small. Qed.
Print Assumptions C15_md_pinned_repeatable_small.

(* repaired export (works on a clone): pure, repeatable, and the text produced is the one the pinned code produced *)
Theorem C15_md_fixed_pure : forall A (render : ctable -> A) t,
  fst (md_export_fixed A render t) = t /\
  snd (md_export_fixed A render (fst (md_export_fixed A render t))) = snd (md_export_fixed A render t) /\
  snd (md_export_fixed A render t) = snd (md_export_pinned A render t).
Proof. intros. split; [apply md_fixed_pure|split; [apply md_fixed_deterministic|apply md_fixed_same_answer]]. Qed.
Print Assumptions C15_md_fixed_pure.

(* RST export of a table (Table._get_formatted_text_rst strips a clone) *)
Theorem C15_rst_pure : forall A (render : ctable -> A) (rstrip : ctable -> ctable) t,
  fst (rst_export A render rstrip t) = t /\
  snd (rst_export A render rstrip (fst (rst_export A render rstrip t))) = snd (rst_export A render rstrip t).
Proof. exact rst_pure. Qed.
Print Assumptions C15_rst_pure.

Example C15_example_reads :
  let st := append_plain_text [] [Ch 1; Sp; Sp; Ch 2] in
  prun st [RInnerText; RLength; RConsume; RInnerText] =
  (st, [OStr [Ch 1; Sp; Sp; Ch 2]; ONat 4; OStr [Ch 1; Sp; Sp; Ch 2]; OStr [Ch 1; Sp; Sp; Ch 2]]).
Proof. vm_compute. reflexivity. Qed.

(* the F20 witness: "x" | 3 empty cells ; 3 x (4 empty) ; 1 x (4 empty)   becomes   "x" | 1 empty ; 1 x (2 empty) *)
Example C15_F20_witness :
  optimize_rows f20_table = [mkRow 1 [mkCell 1 false false; mkCell 1 true true]; mkRow 1 [mkCell 2 true true]].
Proof. vm_compute. reflexivity. Qed.

(* ================================================================== read families modelled in the other properties' libraries
   (imported, not re-modelled; see C15fam.v).  One theorem per family: the observable state -- XML runs / part view -- is
   unchanged AND the answer repeats.  Reads of the table and package families DO change the state (caches, lazy loads):
   these statements have content. *)

(* table reads and getters THROUGH the wrapper caches (the read alphabet of C02 / C08: size, get_value, get_row_values,
   get_values, get_column_values, row width, get_values(area), get_cell, get_row, get_cell keep-repeated, traverse / rows,
   get_column, columns): coherence kept, XML untouched, same answer again *)
Theorem C15_table_reads_pure : forall (b : bstate) (q : bread), Coh b ->
  Coh (fst (b_read b q)) /\ ax (fst (b_read b q)) = ax b /\ snd (b_read (fst (b_read b q)) q) = snd (b_read b q).
Proof. exact table_reads_pure. Qed.
Print Assumptions C15_table_reads_pure.

Theorem C15_table_reads_in_any_order : forall (qs : list bread) (b : bstate), Coh b ->
  Coh (fst (frun table_fam b qs)) /\ ax (fst (frun table_fam b qs)) = ax b /\
  snd (frun table_fam b qs) = map (fun q => snd (b_read b q)) qs.
Proof. exact table_reads_any_order. Qed.
Print Assumptions C15_table_reads_in_any_order.

(* any exporter that is a function of a table read -- to_csv (csv_write of get_values), str(table), plain formatted text *)
Theorem C15_table_export_pure : forall (X : Type) (post : bans -> X) (b : bstate) (q : bread), Coh b ->
  let export := fun b => (fst (b_read b q), post (snd (b_read b q))) in
  ax (fst (export b)) = ax b /\ Coh (fst (export b)) /\ snd (export (fst (export b))) = snd (export b).
Proof. exact table_export_pure. Qed.
Print Assumptions C15_table_export_pure.

(* search, search_first, search_all, count-only replace, inner_text, text_recursive on the tree model (re abstract) ... *)
Theorem C15_tree_reads_pure : forall find findall nfind (n : node) (r : tree_read),
  let step := fstep (tree_fam find findall nfind) in
  fst (step n r) = n /\ snd (step (fst (step n r)) r) = snd (step n r).
Proof. exact tree_reads_pure. Qed.
Print Assumptions C15_tree_reads_pure.

(* ... whereas replace with a replacement is a write of the same model *)
Theorem C15_tree_replace_is_a_write : exists subn n, fst (repl subn false n) <> n.
Proof. exact tree_replace_writes. Qed.
Print Assumptions C15_tree_replace_is_a_write.

(* Document.get_part of an XML part (repaired code): parses and caches, yet bytes and trees of EVERY part read the same,
   the bookkeeping invariant holds, and the answer repeats *)
Theorem C15_package_reads_pure : forall (xml bytes kid : Type) (par : bytes -> xml) (fs : fsys bytes kid) (n : name) (d : document xml bytes),
  WFd xml bytes kid fs d -> is_xml n = true ->
  let get_part := fun d => d_tree xml bytes kid par FIXED fs n d in
  (forall m, dB xml bytes kid fs (fst (get_part d)) m = dB xml bytes kid fs d m) /\
  (forall m, dX xml bytes kid par fs (fst (get_part d)) m = dX xml bytes kid par fs d m) /\
  WFd xml bytes kid fs (fst (get_part d)) /\
  snd (get_part (fst (get_part d))) = snd (get_part d).
Proof. exact package_reads_pure. Qed.
Print Assumptions C15_package_reads_pure.

(* Document.get_style is a function of the style store *)
Theorem C15_style_lookup_pure : forall tb (st : store) (f : Z) (n : option sname),
  let step := fstep (styles_fam tb) in
  fst (step st (f, n)) = st /\ snd (step st (f, n)) = doc_get_style tb st f n /\ snd (step (fst (step st (f, n))) (f, n)) = snd (step st (f, n)).
Proof. exact style_lookup_pure. Qed.
Print Assumptions C15_style_lookup_pure.

(* the heading listing (odfdo-headers) and the entries a TOC would list are functions of the headings *)
Theorem C15_heading_listing_pure : forall (hs : list heading) (r : head_read),
  let step := fstep head_fam in fst (step hs r) = hs /\ snd (step (fst (step hs r)) r) = snd (step hs r).
Proof. exact heading_listing_pure. Qed.
Print Assumptions C15_heading_listing_pure.

(* ALL modelled reads side by side (a paragraph, a table, an exported table, a tree, a package, a style store, the headings):
   any history of valid reads of any of them, in any order, any number of times, keeps every invariant and every
   observable view, and answers each read as the original state would *)
Theorem C15_modelled_reads_pure : forall find findall nfind (xml bytes kid X : Type) (par : bytes -> xml) (fs : fsys bytes kid) (post : bans -> X) tb,
  let F := all_reads find findall nfind xml bytes kid X par fs post tb in
  forall (rs : list (fR F)) (s : fS F), fInv F s -> Forall (fok F) rs ->
  fInv F (fst (frun F s rs)) /\ fsame F s (fst (frun F s rs)) /\ snd (frun F s rs) = map (fun r => snd (fstep F s r)) rs.
Proof. exact modelled_reads_pure. Qed.
Print Assumptions C15_modelled_reads_pure.

(* the hypotheses are inhabited: a freshly parsed table is coherent (C02_fresh_is_coherent), reads in any order *)
Example C15_example_table_reads :     (* b_cached: the coherent state with a cached row wrapper of C02.v *)
  Coh b_cached /\
  ax (fst (frun table_fam b_cached [RQ QValues; RTraverse; RQ (QGetValue 0 1); RColumns; RGetRow 0 false; RQ QValues])) = ax b_cached.
Proof. split; [exact Coh_b_cached|vm_compute; reflexivity]. Qed.

(* ------------------------------------------------------------------ the property at full strength (NOT proved) *)
Section Full.
  Variables (document answer entry : Type).
  Variable read_only : entry -> Prop.                       (* getters, searches, exports, str(), listings, replace(pattern) ... *)
  Variable call : document -> entry -> document * answer.  (* the implementation *)
  Variable parts : document -> list (nat * list nat).      (* every part, byte for byte *)

  Definition C15_full : Prop :=
    forall d e, read_only e ->
      parts (fst (call d e)) = parts d /\ snd (call (fst (call d e)) e) = snd (call d e).
End Full.
