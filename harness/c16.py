"""C16: search and replace act on the text exactly as the regular expression says.

Theorems: coq/theories/C16.v (model Tree.v / TreeNF.v, white-space codec WS.v).  Correspondence: on generated element
trees (text, nested spans and links, text:s/tab/line-break, marks, notes; some after a set_span so that empty text nodes
exist) run replace(pattern) [count], replace(pattern, new), replace(pattern, new, formatted=True), search, search_first,
search_all, match, text_at on the paragraph or on an inner span.  The oracle is re.subn / re.findall / re.search applied
per text node of the independently abstracted lxml tree; Coq evaluates the model and the property's predicates."""
import sys, os, json, random, time, re
from pathlib import Path
sys.path.insert(0, str(Path(__file__).resolve().parent))
import common
import treelib as tl
from treelib import T

PROP = "C16"
HEADER = '''Require Import WS WSnfproof Tree TreeNF. From Coq Require Import List ZArith Bool Arith. Import ListNotations.
Fixpoint lookup_opt {B} (tbl : list (str * B)) (s : str) : option B :=
  match tbl with [] => None | (k, v) :: r => if str_eqb k s then Some v else lookup_opt r s end.
Definition subn_of (tbl : list (str * (str * nat))) (s : str) := match lookup_opt tbl s with Some v => v | None => (s, 0) end.
Definition nf_of (tbl : list (str * nat)) (s : str) := match lookup_opt tbl s with Some v => v | None => 0 end.
Definition covers {B} (tbl : list (str * B)) (evs : list ev) := forallb (fun s => match lookup_opt tbl s with Some _ => true | None => false end) (texts evs).
Inductive op16 :=
| RCount (nf : list (str * nat)) | RPlain (tbl : list (str * (str * nat))) | RFmt (tbl : list (str * (str * nat)))
| SFind (which : nat) (tbl : list (str * option (nat * nat))) | SAll (tbl : list (str * list (nat * nat))) | STextAt (st : Z) (e : option Z)
| SLaw (tbl : list (str * option (nat * nat))) | HL (a : nat) | RPlainS (tbl : list (str * (str * nat))).
Inductive outv := VNat (n : nat) | VOpt (o : option (nat * nat)) | VList (l : list (nat * nat)) | VStr (s : str).
Definition pair_eqb (x y : nat * nat) := Nat.eqb (fst x) (fst y) && Nat.eqb (snd x) (snd y).
Fixpoint pairs_eqb (x y : list (nat * nat)) := match x, y with [], [] => true | a :: r, b :: q => pair_eqb a b && pairs_eqb r q | _, _ => false end.
Definition out_eqb (x y : outv) : bool :=
  match x, y with
  | VNat a, VNat b => Nat.eqb a b
  | VOpt None, VOpt None => true | VOpt (Some a), VOpt (Some b) => pair_eqb a b
  | VList a, VList b => pairs_eqb a b | VStr a, VStr b => str_eqb a b | _, _ => false end.
Fixpoint strs_eqb (x y : list str) := match x, y with [], [] => true | a :: r, b :: q => str_eqb a b && strs_eqb r q | _, _ => false end.
(* search -> (start, 0), search_first -> (start, end), match -> VNat 0/1 *)
Definition conv (which : nat) (r : option (nat * nat)) : outv :=
  match which with
  | 0 => VOpt (option_map (fun x => (fst x, 0)) r)
  | 1 => VOpt r
  | _ => VNat (match r with Some _ => 1 | None => 0 end)
  end.
(* 0 agree | 1 the text is not the regular expression's result | 2 reported count / search result differs from the model
   3 markup moved | 4 a container whose own text was replaced is not in white-space normal form
   7 oracle table incomplete (harness) | 8 outside the model's domain | 9 exact shape differs: fidelity only *)
(* the events without the elements carrying attribute id [a] (their content stays): odfdo-highlight may only add such spans *)
Fixpoint drop_attr (a : nat) (stack : list bool) (evs : list ev) : list ev :=
  match evs with
  | [] => []
  | Open k a' :: r => if Nat.eqb a' a then drop_attr a (true :: stack) r else Open k a' :: drop_attr a (false :: stack) r
  | Close :: r => match stack with true :: s => drop_attr a s r | _ :: s => Close :: drop_attr a s r | [] => Close :: drop_attr a [] r end
  | Txt s :: r => Txt s :: drop_attr a stack r
  end.
Definition chk (c : node * op16 * outv * node) : nat :=
  let '(pre, o, out, post) := c in
  let pc := content pre in let qc := content post in
  if negb (in_domain pc) then 8 else
  match o with
  | RCount nf =>
      if negb (covers nf pc) then 7
      else if negb (evs_eqb qc pc) then 1
      else if out_eqb out (VNat (count_only (nf_of nf) pc)) then 0 else 2
  | RPlain tbl =>
      let f := subn_of tbl in
      if negb (covers tbl pc) then 7
      else if negb (evs_eqb (skeleton qc) (skeleton pc)) then 3
      else if negb (strs_eqb (texts qc) (map (fun s => fst (f s)) (texts pc))) then 1
      else if negb (out_eqb out (VNat (replace_count f pc))) then 2
      else if evs_eqb (replace_ev f pc) qc then 0 else 9
  | RPlainS tbl =>       (* odfdo-replace on a saved document: empty text nodes do not survive serialisation *)
      let f := subn_of tbl in
      let ne := filter (fun s : str => match s with [] => false | _ => true end) in
      if negb (covers tbl pc) then 7
      else if negb (evs_eqb (skeleton qc) (skeleton pc)) then 3
      else if strs_eqb (ne (texts qc)) (ne (map (fun s => fst (f s)) (texts pc))) then 0 else 1
  | RFmt tbl =>
      let f := subn_of tbl in
      let '(m, cnt) := repl f true pre in
      if negb (wsl pre) then 8
      else if negb (covers tbl pc) then 7
      else if negb (str_eqb (readable_ev qc) (readable_ev (replace_ev f pc))) then 1
      else if negb (implied (own_flags f pre) (nf_flags post)) then 4
      else if negb (evs_eqb (nview (content m)) (nview qc)) then 3
      else if negb (out_eqb out (VNat cnt) && Nat.eqb cnt (replace_count f pc)) then 2
      else if evs_eqb (content m) qc then 0 else 9
  | SFind which tbl =>
      match lookup_opt tbl (own_text pre) with
      | Some r => if out_eqb out (conv which r) then 0 else 2
      | None => 7
      end
  | SAll tbl =>
      match lookup_opt tbl (own_text pre) with
      | Some r => if out_eqb out (VList r) then 0 else 2
      | None => 7
      end
  | STextAt st e => if out_eqb out (VStr (text_at_ pre st e)) then 0 else 2
  | SLaw tbl =>          (* text_at applied to the pair returned by search_first is the matched text *)
      match lookup_opt tbl (own_text pre) with
      | Some (Some (s, e)) => if out_eqb out (VStr (firstn (e - s) (skipn s (own_text pre)))) then 0 else 2
      | Some None => if out_eqb out (VOpt None) then 0 else 2
      | None => 7
      end
  | HL a =>              (* odfdo-highlight: nothing but spans of the highlight style is added, no character changes *)
      if negb (str_eqb (readable_ev qc) (readable_ev pc)) then 1
      else if evs_eqb (nview (drop_attr a [] qc)) (nview (drop_attr a [] pc)) then 0 else 3
  end.'''

LAYER = {1: "text: after replace the text nodes are not re.subn of the former text nodes (or counting changed the tree)",
         2: "result: the returned count / search result is not the regular expression's",
         3: "markup: replace moved or lost markup",
         4: "normal form: a container whose own text was replaced with formatted=True is not in white-space normal form",
         7: "oracle table incomplete"}
# replacement templates (re.sub syntax), used at element level AND through the odfdo-replace script, for both flag values:
# white space as real control characters and as two-character escapes, group references, backslashes, non-ASCII text
# (precomposed, combining, compatibility, non-BMP)
NEWS = ['X', '', 'A\tB  C', ' ', '  ', 'x\ny', ' x', 'y ', 'a  a', '\t', '\\g<0>\\g<0>', 'a\\g<0>', '\\g<0>b',
        'cr\u00e8me br\u00fbl\u00e9e', '\u00e0  la\tcarte', 'e\u0301x', '\U0001f600', '\u212b \u2126', '\\g<0>\u00e9',
        'x\\ny', 'x\\ty', 'a\\\\b', '\\\\', '\\g<0>\\\\n']


def coq_tbl(ctx, items, val):
    return '[' + ';'.join('(%s, %s)' % (ctx.cs(s), val(v)) for s, v in items) + ']'


def targets(x):
    """the paragraph and the spans / links / inner paragraphs below it"""
    return [x] + [e for e in x.iterdescendants() if isinstance(e.tag, str) and e.tag in (T + 'span', T + 'a', T + 'p')]


def run_case(odfdo, ctx, case):
    """case: dict(xml, pre=[insertion descriptors], target=int, op=dict) -> (coq term, meta)"""
    p = odfdo.Element.from_tag(case['xml'])
    for st in case.get('pre', []):
        try:
            with tl.limit(5):
                if st['k'] == 'span_re': p.set_span('st', regex=st['rx'])
                elif st['k'] == 'span_off': p.set_span('st', offset=st['off'], length=st['len'])
                elif st['k'] == 'bm': p.set_bookmark('b', position=st['pos'])
        except ValueError:
            pass
    tg = targets(tl.lx(p))
    x = tg[case['target'] % len(tg)]
    e = odfdo.Element.from_tag(x)
    pre = tl.abs_node(x, ctx)
    op = case['op']; k = op['k']; rx = op.get('rx')
    pat = re.compile(rx) if rx is not None else None
    tx = list(dict.fromkeys(tl.texts(pre)))
    err = None
    try:
        with tl.limit(5):
            if k == 'count':
                out = e.replace(rx); vo = 'VNat %d' % out
                cop = 'RCount %s' % coq_tbl(ctx, [(s, len(pat.findall(s))) for s in tx], str)
            elif k in ('plain', 'fmt'):
                out = e.replace(rx, op['new'], formatted=(k == 'fmt')); vo = 'VNat %d' % out
                cop = '%s %s' % ('RPlain' if k == 'plain' else 'RFmt',
                                 coq_tbl(ctx, [(s, pat.subn(op['new'], s)) for s in tx], lambda v: '(%s, %d)' % (ctx.cs(v[0]), v[1])))
            elif k in ('search', 'search_first', 'match'):
                strs = [tl.own_text(pre)]
                which = {'search': 0, 'search_first': 1, 'match': 2}[k]
                out = getattr(e, k)(rx)
                if k == 'search': vo = 'VOpt %s' % ('None' if out is None else '(Some (%d, 0))' % out)
                elif k == 'search_first': vo = 'VOpt %s' % ('None' if out is None else '(Some (%d, %d))' % out)
                else: vo = 'VNat %d' % (1 if out else 0)
                res = lambda s: (lambda m: 'None' if m is None else '(Some (%d, %d))' % m.span())(pat.search(s))
                cop = 'SFind %d %s' % (which, coq_tbl(ctx, [(s, res(s)) for s in strs], str))
            elif k == 'search_all':
                strs = [tl.own_text(pre)]
                out = e.search_all(rx)
                vo = 'VList [%s]' % ';'.join('(%d,%d)' % t for t in out)
                cop = 'SAll %s' % coq_tbl(ctx, [(s, '[' + ';'.join('(%d,%d)' % m.span() for m in pat.finditer(s)) + ']') for s in strs], str)
            elif k == 'law':
                strs = [tl.own_text(pre)]
                pos = e.search_first(rx)
                out = None if pos is None else e.text_at(pos[0], pos[1])
                vo = 'VOpt None' if out is None else 'VStr %s' % ctx.cs(out)
                res = lambda s: (lambda m: 'None' if m is None else '(Some (%d, %d))' % m.span())(pat.search(s))
                cop = 'SLaw %s' % coq_tbl(ctx, [(s, res(s)) for s in strs], str)
            elif k == 'text_at':
                out = e.text_at(op['start'], op['end']) if op['end'] is not None else e.text_at(op['start'])
                vo = 'VStr %s' % ctx.cs(out)
                cop = 'STextAt (%d) %s' % (op['start'], 'None' if op['end'] is None else '(Some (%d)%%Z)' % op['end'])
            else:
                raise KeyError(k)
    except tl.Timeout:
        raise
    except Exception as ex:     # none of these calls may raise on the property's domain
        err = repr(ex); out = None; vo = 'VStr [Ch 999]'
        if 'cop' not in dir():
            cop = 'STextAt 0 None'
    post = tl.abs_node(x, ctx)
    term = '(%s, %s, %s, %s)' % (tl.coq_node(pre, ctx), cop, vo, tl.coq_node(post, ctx))
    return term, dict(case=case, pre=pre, post=post, out=out, err=err, k=k)


OFFICE = '{%s}' % tl.NS['office']


def body_of(path):
    """office:text of a saved document, read with zipfile + lxml only"""
    import zipfile
    with zipfile.ZipFile(path) as z:
        x = tl.etree.fromstring(z.read('content.xml'))
    return x.find(OFFICE + 'body')[0]


def run_script_case(odfdo, ctx, case, workdir, idx):
    """case: dict(blocks=[xml...], op=dict(k='script_replace'|'script_highlight', rx, new?, fmt?)): the odfdo-replace /
    odfdo-highlight entry points on a generated DOCUMENT saved under .work; source and result are read back independently"""
    from argparse import Namespace
    from odfdo.scripts.replace import search_replace
    from odfdo.scripts import highlight as hl
    doc = odfdo.Document('text'); body = doc.body; body.clear()
    for xml in case['blocks']:
        body.append(odfdo.Element.from_tag(xml))
    src, dst = str(workdir / ('in%d.odt' % idx)), str(workdir / ('out%d.odt' % idx))
    doc.save(src)
    op = case['op']; rx = op['rx']; pat = re.compile(rx)
    pre = tl.abs_node(body_of(src), ctx)
    err = None
    try:
        with tl.limit(20):
            if op['k'] == 'script_replace':
                search_replace(rx, op['new'], src, dst, op.get('fmt', False))
            else:
                hl.highlight(Namespace(input_file=src, output_file=dst, pattern=rx, italic=op.get('italic', False), bold=op.get('bold', True),
                                       color=op.get('color'), background=op.get('background')))
        post = tl.abs_node(body_of(dst), ctx)
    except tl.Timeout:
        raise
    except Exception as ex:
        err = repr(ex); post = pre
    if op['k'] == 'script_replace':
        tx = list(dict.fromkeys(tl.texts(pre)))
        want = [(s, pat.subn(op['new'], s)) for s in tx]
        total = sum(pat.subn(op['new'], t)[1] for t in tl.texts(pre))
        cop = '%s %s' % ('RFmt' if op.get('fmt') else 'RPlainS', coq_tbl(ctx, want, lambda v: '(%s, %d)' % (ctx.cs(v[0]), v[1])))
        vo = 'VNat %d' % total       # the script reports no count: the per-node sum is passed through
    else:
        parts = ['odfdo', 'highlight'] + [x.lower() for x in (op.get('color'), op.get('background')) if x]
        parts += (['italic'] if op.get('italic', False) else []) + (['bold'] if op.get('bold', True) else [])
        cop = 'HL %d' % ctx.attr(T + 'span', {T + 'style-name': '_20_'.join(parts)})
        vo = 'VNat 0'
    if err:
        vo = 'VStr [Ch 999]'
    term = '(%s, %s, %s, %s)' % (tl.coq_node(pre, ctx), cop, vo, tl.coq_node(post, ctx))
    return term, dict(case=case, pre=pre, post=post, out=None, err=err, k=op['k'])


def gen_script_cases(rng, n):
    cases = []
    for i in range(n):
        blocks = tl.gen_body(rng, edge=(i % 5 == 4))
        rx = rng.choice(tl.REGEXES)
        r = rng.random()
        if r < .40:
            op = dict(k='script_replace', rx=rx, new=rng.choice(NEWS), fmt=False)
        elif r < .80:
            op = dict(k='script_replace', rx=rx, new=rng.choice(NEWS), fmt=True)
        else:
            op = dict(k='script_highlight', rx=rx, italic=rng.random() < .5, bold=rng.random() < .5,
                      color=rng.choice([None, 'red', '#FF0000']), background=rng.choice([None, 'yellow']))
        cases.append(dict(blocks=blocks, op=op))
    return cases


def gen_cases(rng, n, edge_every=4):
    cases = []
    for i in range(n):
        edge = (i % edge_every == edge_every - 1)
        xml = tl.gen_paragraph(rng, edge, tag='text:h' if rng.random() < .1 else 'text:p')
        pre = []
        if rng.random() < .35:
            pre.append(rng.choice([dict(k='span_re', rx=rng.choice(['a', 'b+', 'c ', '[ab]'])),
                                   dict(k='span_off', off=rng.randint(0, 6), len=rng.randint(0, 3)),
                                   dict(k='bm', pos=rng.randint(0, 6))]))
        rxs = rng.sample(tl.REGEXES, 3)
        ops = [dict(k='count', rx=rxs[0]), dict(k='plain', rx=rxs[0], new=rng.choice(NEWS)),
               dict(k='fmt', rx=rxs[0], new=rng.choice(NEWS)), dict(k='fmt', rx=rxs[1], new=rng.choice(NEWS[2:])),
               dict(k='plain', rx=rxs[1], new=rng.choice(NEWS)),
               dict(k=rng.choice(['search', 'search_first', 'match']), rx=rxs[2]), dict(k='search_all', rx=rxs[1]), dict(k='law', rx=rxs[2]),
               dict(k='text_at', start=rng.randint(-1, 8), end=rng.choice([None, rng.randint(-1, 12)]))]
        for op in ops:
            tgt = 0 if op['k'] in ('count', 'plain', 'fmt') and rng.random() < .6 else rng.randint(0, 4)
            cases.append(dict(xml=xml, pre=pre, target=tgt, op=op))
    return cases


def py_oracle(meta):
    """direct Python statement of the property on one executed call (fallback when proofs / Coq evaluation broke)"""
    op, pre, post, out = meta['case']['op'], meta['pre'], meta['post'], meta['out']
    k = op['k']
    if k == 'script_replace':
        if meta['err']: return "raised " + meta['err']
        pat = re.compile(op['rx'])
        if not op.get('fmt') and [t for t in tl.texts(post) if t] != [w for w in (pat.subn(op['new'], t)[0] for t in tl.texts(pre)) if w]:
            return "odfdo-replace: a text run of the saved document is not re.sub of the source run"
        return None
    if k not in ('count', 'plain', 'fmt'):
        return None
    if meta['err']:
        return "raised " + meta['err']
    if k in ('count', 'plain', 'fmt'):
        pat = re.compile(op['rx'])
        if k == 'count':
            if tl.flat(pre) != tl.flat(post): return "counting changed the tree"
            return None if out == sum(len(pat.findall(t)) for t in tl.texts(pre)) else "count is not the per-node sum"
        want = [pat.subn(op['new'], t) for t in tl.texts(pre)]
        if out != sum(n for _, n in want): return "returned count is not the per-node sum"
        if k == 'plain' and tl.texts(post) != [s for s, _ in want]: return "text nodes are not re.subn of the former ones"
    return None


def classify(code, meta):
    return None


def run(tier, seed, replay=None):
    t0 = time.time(); rng = random.Random(seed)
    odfdo = common.use_repo()
    proofs = common.build_proofs(PROP) if (common.TH / (PROP + ".v")).exists() else None
    ctx = tl.Ctx()
    cases = []
    for f in sorted((common.ROOT / "corpus" / PROP).glob("*.json")):
        cases.append(json.load(open(f))["case"])
    ncorpus = len(cases)
    if replay:
        cases = [json.load(open(replay))["case"]]; ncorpus = 0
    else:
        cases += gen_cases(rng, 1500 if tier == "quick" else 18000)
    if not replay:
        cases += gen_script_cases(rng, 140 if tier == "quick" else 1800)
    import shutil
    workdir = common.WORK / ("c16docs-%d" % os.getpid())
    workdir.mkdir(parents=True, exist_ok=True)
    terms, metas, driver_errors = [], [], []
    for i, c in enumerate(cases):
        try:
            t, m = run_script_case(odfdo, ctx, c, workdir, i) if 'blocks' in c else run_case(odfdo, ctx, c)
            terms.append(t); metas.append(m)
        except Exception as e:
            driver_errors.append(repr(e))
    shutil.rmtree(workdir, ignore_errors=True)
    bad, errors = common.run_shards(HEADER, terms, "chk", "c16", shard=250)
    known = {e["key"] for e in common.known_findings(PROP)}
    violations, seen_keys, counts, hist = [], {}, {}, {}
    for m in metas:
        hist[m['k']] = hist.get(m['k'], 0) + 1
    for i in sorted(bad):
        code, meta = bad[i], metas[i]
        counts[code] = counts.get(code, 0) + 1
        if os.environ.get("TREE_DEBUG") and str(code) in os.environ["TREE_DEBUG"].split(","):
            print("DEBUG code", code, meta['case'], meta['err'], meta['out'], "\n   pre ", meta['pre'], "\n   post", meta['post'])
        if code in (8, 9):
            continue
        key = classify(code, meta)
        if key is not None and key in known:
            seen_keys[key] = seen_keys.get(key, 0) + 1
            continue
        if len(violations) < 3:
            rp = common.write_replay(PROP, seed, str(i), dict(
                layer=LAYER.get(code, str(code)), code=code, case=meta['case'], implementation_error=meta['err'],
                known_finding_key=key, impl=dict(out=meta['out'], pre_text_nodes=tl.texts(meta['pre']),
                                                 post_text_nodes=tl.texts(meta['post']), post_readable=tl.readable(meta['post']))))
            violations.append((rp, False))
    known_seen = ["%s re-observed on %d call(s)" % kv for kv in sorted(seen_keys.items())]
    hard = bool(violations)
    if ((proofs is not None and not proofs["ok"]) or errors or driver_errors) and not hard:
        for i, m in enumerate(metas):
            why = py_oracle(m)
            if why:
                rp = common.write_replay(PROP, seed, "py%d" % i, dict(layer="direct oracle: " + why, code=-1, case=m['case'], known_finding_key=None))
                violations.append((rp, False)); hard = True
                break
    if driver_errors and not hard:
        errors = errors + ["driver: %s" % driver_errors[:3]]
    violations += common.proof_violation(PROP, seed, proofs, errors, hard)
    nontrivial = {common.digest((m['case']['op'], tl.flat(m['pre']), m['pre'][5])) for m in metas
                  if m['pre'] != m['post'] or (m['out'] not in (0, None, [], False, ''))}
    coverage = dict(
        trusted_base=["lxml (text/tail semantics, XPath descendant::text())",
                      "Python re: subn / findall / search / finditer are the specification of 'what the regular expression says'; the harness applies them per text node of the abstracted pre-state and hands the tables to the model",
                      "scripts/replace.py search_replace and scripts/highlight.py highlight are driven as black boxes on saved documents (zipfile + lxml read-back); their specification is the model's replace applied once to the body (C16_script_body_once) and, for highlight, 'only spans of the highlight style are added'",
                      "modelled in Tree.v / TreeNF.v: element.py replace (count, plain, formatted), search, search_first, search_all, match, text_at over Element._own_text (fixes/F28, F103); Paragraph.append_plain_text through WS.v",
                      "ODF 1.2 section 6.1.2 consumer reading fixed in DESIGN.md 5/C05 (normal form predicate NFb)"],
        evaluations=len(terms), distinct_nontrivial=len(nontrivial),
        rule="for every generated element tree (text, nested spans/links, text:s/tab/line-break, marks, notes, annotations; 35% after a set_span/set_bookmark so that empty text nodes exist; every 4th from the edge stream with raw double spaces): count, two plain and two formatted replacements (10 replacement strings with and without white space), one of search/search_first/match, search_all, text_at, on the paragraph or an inner span/link; 23 regexes without empty matches. one text_at(search_first) law call; the text alphabet includes characters whose NFC / NFD / NFKC / casefold / UTF-16 forms differ in length (combining sequences, U+212B, U+2126, U+FB01, U+0130, a non-BMP character, Hangul jamo). Then generated DOCUMENTS (paragraphs and headings, paragraphs nested in footnotes, comments, text boxes, list items, table cells) saved under .work: odfdo-replace (scripts.replace.search_replace, plain and formatted, with replacements that re-create a match) and odfdo-highlight (scripts.highlight.highlight); source and result bodies are read back with zipfile + lxml and compared per text run. non-trivial = the call changed the tree or returned a non-empty result; distinct = distinct (operation, pre-state)",
        samples=[m['case'] for m in metas[ncorpus:ncorpus + 3]], corpus_cases=ncorpus, operation_histogram=hist, codes=counts,
        fidelity_divergences=counts.get(9, 0), out_of_domain=counts.get(8, 0), known_findings_reobserved=seen_keys,
        driver_errors=len(driver_errors), exhaustive=False)
    return common.finish(PROP, tier, seed, proofs, coverage, violations, known_seen, t0,
                         assumptions=["patterns that can match the empty string are excluded (property's quantifier)",
                                      "search positions refer to the element's own readable text (text:s/tab/line-break decoded, links as their text, notes and annotations skipped, own tail excluded)"])


if __name__ == "__main__":
    common.main(run)
