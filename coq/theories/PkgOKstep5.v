(* PkgOKstep5.v — C04_full: the invariant along every history of the document-level alphabet; zip shape corollary *)
From Coq Require Import List ZArith Bool Arith Lia.
Import ListNotations.
Require Import Package PkgManproof PkgZipproof PkgOKproof Pkgproof Pkgproof2 Pkgproof3 Pkgproof4 Pkgproof5
               PkgStepWF PkgStepWF2 PkgStepWF3 PkgStepWF4 PkgOKstep PkgOKstep2 PkgOKstep3 PkgOKstep4.
Open Scope Z_scope.

Section O5.
Variable xml bytes kid : Type.
Variable ser : xml -> bytes.
Variable par : bytes -> xml.
Variable pretty stamp : xml -> xml.
Variable entries : xml -> mentries.
Variable with_entries : mentries -> xml -> xml.
Variable kids : xml -> list kid.
Variable mime : bytes -> mtype.
Variable mime_bytes : mtype -> bytes.
Variable rdf0 : bytes.
Hypothesis par_ser : forall x, par (ser x) = x.
Hypothesis entries_with : forall es x, entries (with_entries es x) = es.
Hypothesis entries_pretty : forall x, entries (pretty x) = entries x.
Hypothesis mime_mime_bytes : forall m, mime (mime_bytes m) = m.
Notation container := (container bytes).
Notation document := (document xml bytes).
Notation fsys := (fsys bytes kid).
Notation cB := (cB bytes kid).
Notation WFc := (WFc bytes kid).
Notation dB := (dB xml bytes kid).
Notation dX := (dX xml bytes kid par).
Notation WFd := (WFd xml bytes kid).
Notation FsOK := (FsOK bytes kid).
Notation SInv := (SInv xml bytes kid).
Notation PkgOK := (PkgOK xml bytes kid par entries mime).
Notation AllGood := (AllGood xml bytes kid par entries mime).
Notation files := (files xml bytes kid).
Notation step := (step xml bytes kid ser par pretty stamp entries with_entries kids mime mime_bytes rdf0 FIXED).
Notation run := (run xml bytes kid ser par pretty stamp entries with_entries kids mime mime_bytes rdf0 FIXED).
Notation d_save := (d_save xml bytes kid ser par pretty stamp entries kids mime rdf0 FIXED).
Notation d_clone := (d_clone xml bytes kid ser par FIXED).

Lemma coherent_declared : forall f es es', declared es' = declared es -> coherent f es -> coherent f es'.
Proof. intros f es es' E [A B]. split; rewrite E; assumption. Qed.

(* ---------- container_from_template ---------- *)
Lemma new_pkgok : forall fs p m' (c : container), FsOK fs -> AllGood fs -> m' <> NOMT ->
  c_new xml bytes kid ser par entries with_entries mime_bytes FIXED fs p m' = Some c -> PkgOK fs (mkD c []).
Proof.
  intros fs p m' c F G Hm H. unfold Package.c_new in H.
  destruct (c_open bytes kid fs p false) as [tc|] eqn:O; [|discriminate].
  pose proof (G p false tc O) as Ht.
  pose proof (c_open_wf bytes kid fs p false tc O fs) as Wt.
  pose proof (c_clone_sem bytes kid fs tc F Wt) as [_ [_ [_ [_ [C5 [C6 [C7 _]]]]]]].
  set (cl := snd (c_clone bytes kid FIXED fs tc)) in *.
  set (cl1 := c_with_parts _ cl (upsert MIMETYPE (Some (mime_bytes m')) (parts _ cl))) in *.
  assert (W1 : WFc fs cl1).
  { destruct (C6 fs) as [K T P]. constructor; unfold cl1, c_with_parts; cbn [parts cpath pkg tsl].
    - apply NoDup_keys_upsert. exact K.
    - intros _ X. congruence.
    - intros X. congruence. }
  assert (B1 : forall m, cB fs cl1 m = if m =? MIMETYPE then Some (mime_bytes m') else cB fs tc m).
  { intros m. rewrite <- C5. unfold Pkgproof.cB, cl1, c_with_parts. cbn [parts cpath]. rewrite lookup_upsert. destruct (m =? MIMETYPE); reflexivity. }
  pose proof (c_get_part_sem bytes kid fs MANIFEST cl1 W1) as [G1 [G2 [G3 _]]].
  destruct (Package.c_get_part bytes kid FIXED fs MANIFEST cl1) as [cl2 [b|]]; [|discriminate]. cbn [fst snd] in *.
  destruct (m_set ROOT m' (entries (par b))) as [es'|] eqn:Ms; [|discriminate]. inversion H; subst c; clear H.
  destruct (c_set_part_sem bytes kid fs MANIFEST (ser (with_entries es' (par b))) cl2 G3) as [S1 _].
  (* the template's own coherence *)
  destruct (PkgOK_obs xml bytes kid par entries mime fs (mkD tc [])) as [Ho _]. destruct (Ho Ht) as [xm [mb [A [B [C [D Ty]]]]]].
  assert (Hb : cB fs tc MANIFEST = Some b) by (rewrite G1, B1; reflexivity).
  assert (Exm : xm = par b).
  { unfold Pkgproof.dX in A. cbn [xps lookup] in A. unfold Pkgproof.dB in A. cbn [cont] in A. rewrite Hb in A. inversion A. reflexivity. }
  subst xm.
  apply PkgOK_obs. exists (with_entries es' (par b)), (mime_bytes m'). rewrite entries_with.
  assert (HB : forall m, dB fs (mkD (c_set_part bytes FIXED MANIFEST (ser (with_entries es' (par b))) cl2) []) m =
                         if m =? MANIFEST then Some (ser (with_entries es' (par b))) else if m =? MIMETYPE then Some (mime_bytes m') else cB fs tc m).
  { intros m. unfold Pkgproof.dB. cbn [cont]. rewrite S1. destruct (m =? MANIFEST); [reflexivity|]. rewrite G2. apply B1. }
  split; [|split; [|split; [|split]]].
  - unfold Pkgproof.dX. cbn [xps lookup]. rewrite HB. cbn. rewrite par_ser. reflexivity.
  - rewrite HB. reflexivity.
  - apply (coherent_declared _ (entries (par b))); [apply declared_names; eapply m_set_names; eauto|].
    apply (coherent_ext (files fs (mkD tc []))); [|exact C].
    intros n _. unfold PkgOKstep.files. rewrite HB. unfold Pkgproof.dB. cbn [cont].
    destruct (n =? MANIFEST) eqn:E1; [rewrite !andb_false_r; reflexivity|].
    destruct (n =? MIMETYPE) eqn:E2; [reflexivity|reflexivity].
  - rewrite mime_mime_bytes. eapply m_get_m_set_same; eauto.
  - eapply typed_m_set; [|exact Ty|exact Ms]. unfold typed1. apply Z.eqb_neq in Hm. rewrite Hm. reflexivity.
Qed.

(* ---------- Document.clone ---------- *)
Lemma clone_pkgok : forall fs (d : document), FsOK fs -> WFd fs d -> PkgOK fs d -> PkgOK fs (snd (d_clone fs d)) /\ PkgOK fs (fst (d_clone fs d)).
Proof.
  intros fs d F W H.
  destruct (d_clone_sem xml bytes kid ser par par_ser fs d F W) as [_ [A2 [A3 [_ [_ [_ [_ [B1 [B2 B3]]]]]]]]].
  split.
  - apply (PkgOK_transfer xml bytes kid par entries mime fs d fs _ H B3).
    + intros mb Hb. exists mb. rewrite B1 by reflexivity. auto.
    + intros xm Hx. exists xm. rewrite B2 by reflexivity. auto.
  - apply (PkgOK_same_obs xml bytes kid par entries mime fs d); [exact H|exact A2|apply A3].
Qed.

(* ---------- merge_styles_from: edits of content / styles, then one import per referenced image ---------- *)
Lemma set_tree_opt_pkgok : forall fs n ox (d : document), WFd fs d -> PkgOK fs d -> is_xml n = true -> n <> MANIFEST ->
  PkgOK fs (fst (d_set_tree_opt xml bytes kid par FIXED fs n ox d)).
Proof.
  intros fs n ox d W H Xn Hn. unfold d_set_tree_opt. destruct ox as [x'|]; [|exact H].
  pose proof (edit_pkgok xml bytes kid par entries mime fs n x' d W H Xn Hn) as E. cbn zeta in E.
  destruct (d_tree xml bytes kid par FIXED fs n d) as [d' [x|]]; exact E.
Qed.

Lemma imports_pkgok : forall fs (imgs : list (name * bytes * mtype)) (acc : document * bool), WFd fs (fst acc) -> PkgOK fs (fst acc) ->
  Forall (fun e => is_dir (fst (fst e)) = false /\ fst (fst e) <> MIMETYPE /\ fst (fst e) <> MANIFEST /\ typed1 (fst (fst e)) (snd e) = true) imgs ->
  PkgOK fs (fst (fold_left (fun (acc : document * bool) e =>
               let '(d', ok) := d_import xml bytes kid par entries with_entries FIXED fs (fst (fst e)) (snd (fst e)) (snd e) (fst acc) in (d', snd acc && ok)) imgs acc)).
Proof.
  intros fs. induction imgs as [|e imgs IH]; intros acc W H Hf; cbn [fold_left]; [exact H|].
  inversion Hf as [|a l [O1 [O2 [O3 O4]]] Hl]; subst.
  pose proof (d_import_wf xml bytes kid par entries with_entries fs (fst (fst e)) (snd (fst e)) (snd e) (fst acc) W) as W1.
  pose proof (import_pkgok xml bytes kid par entries with_entries mime entries_with fs (fst (fst e)) (snd (fst e)) (snd e) (fst acc) W H O1 O2 O3 O4) as H1.
  destruct (d_import xml bytes kid par entries with_entries FIXED fs (fst (fst e)) (snd (fst e)) (snd e) (fst acc)) as [d' ok].
  apply IH; assumption.
Qed.

Lemma merge_pkgok : forall fs sc sx imgs (d : document), WFd fs d -> PkgOK fs d ->
  Forall (fun e => is_dir (fst (fst e)) = false /\ fst (fst e) <> MIMETYPE /\ fst (fst e) <> MANIFEST /\ typed1 (fst (fst e)) (snd e) = true) imgs ->
  PkgOK fs (fst (d_merge xml bytes kid par entries with_entries FIXED fs sc sx imgs d)).
Proof.
  intros fs sc sx imgs d W H Hf. unfold d_merge.
  pose proof (cache_wf xml bytes kid fs MANIFEST d W is_xml_MANIFEST) as W0.
  assert (H0 : PkgOK fs (mkD (cont _ _ d) (xp_cache xml MANIFEST (xps _ _ d)))).
  { apply (PkgOK_same_obs xml bytes kid par entries mime fs d); [exact H|reflexivity|].
    unfold Pkgproof.dX. cbn [xps cont]. rewrite lookup_xp_cache. unfold Pkgproof.dB. cbn [cont].
    destruct (lookup MANIFEST (xps _ _ d)) as [v|]; [reflexivity|]. rewrite Z.eqb_refl. reflexivity. }
  pose proof (set_tree_opt_wf xml bytes kid par fs CONTENT sc _ W0 eq_refl) as W1.
  pose proof (set_tree_opt_pkgok fs CONTENT sc _ W0 H0 eq_refl ltac:(discriminate)) as H1.
  destruct (d_set_tree_opt xml bytes kid par FIXED fs CONTENT sc _) as [d1 ok1]. cbn [fst] in *.
  pose proof (set_tree_opt_wf xml bytes kid par fs STYLES sx _ W1 eq_refl) as W2.
  pose proof (set_tree_opt_pkgok fs STYLES sx _ W1 H1 eq_refl ltac:(discriminate)) as H2.
  destruct (d_set_tree_opt xml bytes kid par FIXED fs STYLES sx d1) as [d2 ok2]. cbn [fst] in *.
  apply (imports_pkgok fs imgs (d2, ok1 && ok2) W2 H2 Hf).
Qed.

(* ---------- the alphabet: what the API guarantees about the arguments ---------- *)
Definition ok04 (s : fsys * document) (o : op xml bytes) : Prop :=
  match o with
  | OEdit n _ => n <> MANIFEST                         (* the manifest is edited through Manifest's own methods only *)
  | OSetPart n _ => n <> MANIFEST /\ n <> MIMETYPE /\ dB (fst s) (snd s) n <> None     (* replace an existing part *)
  | ODelPart n => is_dir n = false /\ n <> MIMETYPE
  | OAddFile n _ m | OImport n _ m => is_dir n = false /\ n <> MIMETYPE /\ n <> MANIFEST /\ typed1 n m = true
  | ONew _ m' => m' <> NOMT
  | OMerge _ _ imgs => Forall (fun e => is_dir (fst (fst e)) = false /\ fst (fst e) <> MIMETYPE /\ fst (fst e) <> MANIFEST /\ typed1 (fst (fst e)) (snd e) = true) imgs
  | _ => True
  end.

Definition CInv (s : fsys * document) : Prop := SInv s /\ PkgOK (fst s) (snd s) /\ AllGood (fst s).

Theorem step_pkgok : forall s o, CInv s -> ok04 s o -> CInv (fst (step s o)).
Proof.
  intros [fs d] o [I [H G]] Hok.
  pose proof (step_inv xml bytes kid ser par pretty stamp entries with_entries kids mime mime_bytes rdf0 par_ser (fs, d) o I) as I'.
  split; [exact I'|]. clear I'. destruct I as [F W]. cbn [fst snd] in *. unfold Package.step.
  destruct o as [p b|p m'|n|n|n x'|n b|n|n b m|n b m|t pk pty| |sc sx imgs]; cbn [ok04 fst snd] in Hok.
  - destruct (c_open bytes kid fs p b) as [c|] eqn:O; cbn [fst snd]; [|split; assumption].
    split; [apply (G p b c O)|exact G].
  - destruct (c_new xml bytes kid ser par entries with_entries mime_bytes FIXED fs p m') as [c|] eqn:O; cbn [fst snd]; [|split; assumption].
    split; [apply (new_pkgok fs p m' c F G Hok O)|exact G].
  - destruct (is_xml n) eqn:Xn; cbn [fst snd].
    + split; [|exact G]. apply (PkgOK_same_obs xml bytes kid par entries mime fs d); [exact H|reflexivity|].
      unfold Pkgproof.dX. cbn [xps cont]. rewrite lookup_xp_cache. unfold Pkgproof.dB. cbn [cont].
      destruct (lookup MANIFEST (xps _ _ d)) as [v|]; [reflexivity|]. destruct (MANIFEST =? n); reflexivity.
    + pose proof (c_get_part_sem bytes kid fs n (cont _ _ d) (wfd_c _ _ _ _ _ W)) as [_ [G2 _]].
      destruct (Package.c_get_part bytes kid FIXED fs n (cont _ _ d)) as [c' ob]. cbn [fst snd] in *.
      split; [|exact G]. apply (PkgOK_same_obs xml bytes kid par entries mime fs d); [exact H|intros m; apply G2|].
      unfold Pkgproof.dX, Pkgproof.dB. cbn [xps cont d_with_cont]. rewrite G2. reflexivity.
  - destruct (is_xml n) eqn:Xn; cbn [negb fst snd]; [|split; assumption].
    pose proof (d_tree_sem xml bytes kid par fs n d W Xn) as [_ [T2 [T3 _]]].
    destruct (d_tree xml bytes kid par FIXED fs n d) as [d' ox]. cbn [fst snd] in *.
    split; [|exact G]. apply (PkgOK_same_obs xml bytes kid par entries mime fs d); [exact H|exact T2|apply T3].
  - destruct (is_xml n) eqn:Xn; cbn [negb fst snd]; [|split; assumption].
    pose proof (edit_pkgok xml bytes kid par entries mime fs n x' d W H Xn Hok) as E. cbn zeta in E.
    destruct (d_tree xml bytes kid par FIXED fs n d) as [d' [x|]]; cbn [fst snd] in *; split; assumption.
  - cbn [fst snd]. destruct Hok as [O1 [O2 O3]]. split; [|exact G]. apply set_part_pkgok; assumption.
  - destruct Hok as [O1 O2].
    pose proof (del_part_pkgok xml bytes kid par entries with_entries mime entries_with fs n d W H O1 O2) as E.
    destruct (d_del_part xml bytes kid par entries with_entries FIXED fs n d) as [d' ok]. cbn [fst snd] in *. split; assumption.
  - destruct Hok as [O1 [O2 [O3 O4]]].
    pose proof (add_file_pkgok xml bytes kid par entries with_entries mime entries_with fs n b m d W H O1 O2 O3 O4) as E.
    destruct (d_add_file xml bytes kid par entries with_entries FIXED fs n b m d) as [d' ok]. cbn [fst snd] in *. split; assumption.
  - destruct Hok as [O1 [O2 [O3 O4]]].
    pose proof (import_pkgok xml bytes kid par entries with_entries mime entries_with fs n b m d W H O1 O2 O3 O4) as E.
    destruct (d_import xml bytes kid par entries with_entries FIXED fs n b m d) as [d' ok]. cbn [fst snd] in *. split; assumption.
  - pose proof (save_pkgok xml bytes kid ser par pretty stamp entries with_entries kids mime rdf0 par_ser entries_with entries_pretty
                  fs d t pk pty (conj F W) H G) as E. cbn zeta in E.
    destruct (d_save fs d t pk pty) as [[fs' d'] ok]. cbn [fst snd] in *. exact E.
  - cbn [fst snd]. split; [|exact G]. apply (clone_pkgok fs d F W H).
  - pose proof (merge_pkgok fs sc sx imgs d W H Hok) as E.
    destruct (d_merge xml bytes kid par entries with_entries FIXED fs sc sx imgs d) as [d' ok]. cbn [fst snd] in *. split; assumption.
Qed.

(* histories whose operations respect the alphabet *)
Fixpoint run_ok (s : fsys * document) (os : list (op xml bytes)) : Prop :=
  match os with [] => True | o :: r => ok04 s o /\ run_ok (fst (step s o)) r end.

Theorem run_pkgok : forall os s, CInv s -> run_ok s os -> CInv (run s os).
Proof.
  induction os as [|o os IH]; intros s I R; [exact I|]. destruct R as [R1 R2]. unfold Package.run. cbn [fold_left].
  apply (IH (fst (step s o))); [apply step_pkgok; assumption|exact R2].
Qed.

(* C04_zip_shape for every reachable state: a successful zip save writes an archive whose first entry is the STORED mimetype,
   whose names are unique, and which opens (by path or from a buffer) as a coherent package *)
Theorem save_zip_shape : forall fs (d : document) t pty fs' d', CInv (fs, d) ->
  d_save fs d t PZip pty = (fs', d', true) ->
  exists es mb r, lookup (tgt_id t) fs' = Some (FZip es) /\ es = (MIMETYPE, true, mb) :: r
    /\ NoDup (map (fun e : name * bool * bytes => fst (fst e)) es)
    /\ forall b c, c_open bytes kid fs' (tgt_id t) b = Some c -> PkgOK fs' (mkD c []).
Proof.
  intros fs d t pty fs' d' [[F W] [H G]] S. cbn [fst snd] in *.
  pose proof (save_pkgok xml bytes kid ser par pretty stamp entries with_entries kids mime rdf0 par_ser entries_with entries_pretty
                fs d t PZip pty (conj F W) H G) as E. cbn zeta in E. rewrite S in E. cbn [fst snd] in E. destruct E as [_ G'].
  pose proof (d_save_inv xml bytes kid ser par pretty stamp entries kids mime rdf0 fs d t PZip pty (conj F W)) as I'. cbn zeta in I'.
  rewrite S in I'. cbn [fst snd] in I'. destruct I' as [F' _].
  (* the file written *)
  unfold Package.d_save in S.
  destruct (d_tree xml bytes kid par FIXED fs META d) as [d1 [x|]]; [|inversion S].
  destruct (check_rdf xml bytes kid par entries rdf0 FIXED fs _) as [d3 ok3]. destruct ok3; cbn [negb] in S; [|inversion S].
  match type of S with (let '(d4, ok4) := ?L in _) = _ => destruct L as [d4 ok4] end. destruct ok4; cbn [negb] in S; [|inversion S].
  destruct (c_save xml bytes kid par kids mime FIXED fs (cont _ _ d4) t PZip) as [c5 [fs5|]] eqn:CS; inversion S; subst fs5 d'; clear S.
  unfold Package.c_save in CS. destruct (save_zip bytes _) as [es|] eqn:Z; inversion CS; subst c5 fs'; clear CS.
  destruct (save_zip_first bytes _ es Z) as [mb [r [E _]]].
  exists es, mb, r. split; [apply lookup_upsert_eq|]. split; [exact E|]. split.
  - rewrite <- zip_plain_keys.
    assert (D : disk_entries bytes kid (upsert (tgt_id t) (FZip es) fs) (tgt_id t) = Some (zip_plain bytes es))
      by (unfold disk_entries; rewrite lookup_upsert_eq; reflexivity).
    apply (F' _ _ D).
  - intros b c O. apply (G' (tgt_id t) b c O).
Qed.
End O5.
