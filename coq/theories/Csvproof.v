(* Csvproof.v — the reader of Csv.v reads back every matrix of fields that its writer wrote: rtext (wtext m) = m,
   for all fields over all characters (commas, quotes, CR, LF, blanks included). *)
From Coq Require Import List NArith Bool Lia.
Import ListNotations.
Require Import Csv.
Local Open Scope N_scope.

Definition pushall (f : field) (a : racc) : racc := {| fld := rev f ++ fld a; rcd := rcd a; outp := outp a |}.
Lemma pushall_nil a : pushall [] a = a. Proof. destruct a; reflexivity. Qed.
Lemma pushall_cons c f a : pushall (c :: f) a = pushall f (push c a).
Proof. unfold pushall, push. cbn [rev fld rcd outp]. rewrite <- app_assoc. reflexivity. Qed.

Lemma special_false c : special c = false -> (c =? comma) = false /\ (c =? dq) = false /\ (c =? cr) = false /\ (c =? lf) = false.
Proof. unfold special. intros H. repeat (apply orb_false_elim in H; destruct H as [H ?]). auto. Qed.

(* an unquoted field: every character is pushed *)
Lemma run_if_plain f : forall a t, needs_quote f = false -> rrun IF a (f ++ t) = rrun IF (pushall f a) t.
Proof.
  induction f as [|c f IH]; intros a t H; [rewrite pushall_nil; reflexivity|].
  cbn [needs_quote existsb] in H. apply orb_false_elim in H. destruct H as [Hc Hf].
  destruct (special_false c Hc) as (H1 & H2 & H3 & H4).
  cbn [app rrun rstep]. rewrite H3, H4, H1. rewrite pushall_cons. apply IH. exact Hf.
Qed.
(* a quoted field: the doubled quotes are read as one *)
Lemma run_qf_esc f : forall a t, rrun QF a (esc f ++ dq :: t) = rrun QQ (pushall f a) t.
Proof.
  induction f as [|c f IH]; intros a t.
  - cbn [esc app rrun rstep]. rewrite N.eqb_refl, pushall_nil. reflexivity.
  - cbn [esc]. destruct (c =? dq) eqn:Ec.
    + apply N.eqb_eq in Ec. subst c. cbn [app rrun rstep]. rewrite N.eqb_refl. cbn [rrun rstep]. rewrite N.eqb_refl.
      rewrite pushall_cons. apply IH.
    + cbn [app rrun rstep]. rewrite Ec. rewrite pushall_cons. apply IH.
Qed.

(* the state after a written field, whatever its form, reacts alike to the comma and to CR *)
Definition after_field (s : rstate) (a : racc) (f : field) (a0 : racc) : Prop :=
  a = pushall f a0 /\ (s = IF \/ s = QQ \/ (s = SF /\ f = [])).
Lemma after_comma s a f a0 : after_field s a f a0 -> rstep s a comma = (SF, save_field (pushall f a0)).
Proof. intros [-> [->|[->|[-> ->]]]]; reflexivity. Qed.
Lemma after_cr s a f a0 : after_field s a f a0 -> rstep s a cr = (EAT, end_record (save_field (pushall f a0))).
Proof. intros [-> [->|[->|[-> ->]]]]; reflexivity. Qed.

Lemma run_field f a t : exists s a', rrun SF a (wfield f ++ t) = rrun s a' t /\ after_field s a' f a.
Proof.
  unfold wfield. destruct (needs_quote f) eqn:Eq.
  - exists QQ, (pushall f a). split; [|split; auto]. cbn [app rrun rstep]. unfold step_sf. cbn. rewrite <- app_assoc. cbn [app]. apply run_qf_esc.
  - destruct f as [|c f].
    + exists SF, a. split; [reflexivity|]. split; [rewrite pushall_nil; reflexivity|auto].
    + exists IF, (pushall (c :: f) a). split; [|split; auto].
      cbn [needs_quote existsb] in Eq. apply orb_false_elim in Eq. destruct Eq as [Hc Hf].
      destruct (special_false c Hc) as (H1 & H2 & H3 & H4).
      cbn [app rrun rstep]. unfold step_sf. rewrite H3, H4, H2, H1. rewrite pushall_cons. apply run_if_plain. exact Hf.
Qed.

Lemma save_pushall f a : save_field (pushall f a) = {| fld := []; rcd := (rev (fld a) ++ f) :: rcd a; outp := outp a |}.
Proof. unfold save_field, pushall. cbn [fld rcd outp]. rewrite rev_app_distr, rev_involutive. reflexivity. Qed.

(* the fields of a record, read from START_FIELD with an empty field buffer *)
Lemma run_fields fs : forall a t, fs <> [] -> fld a = [] ->
  rrun SF a (join (map wfield fs) ++ cr :: lf :: t) =
  rrun SR {| fld := []; rcd := []; outp := (rev (rcd a) ++ fs) :: outp a |} t.
Proof.
  induction fs as [|f fs IH]; intros a t Hne Hf; [congruence|].
  destruct fs as [|f2 fs].
  - cbn [map join]. destruct (run_field f a (cr :: lf :: t)) as (s & a' & Hr & Haf). rewrite Hr.
    cbn [rrun]. rewrite (after_cr s a' f a Haf). cbn [rrun rstep]. rewrite N.eqb_refl.
    rewrite save_pushall, Hf. unfold end_record. cbn [rcd outp fld rev app]. reflexivity.
  - change (join (map wfield (f :: f2 :: fs))) with (wfield f ++ comma :: join (map wfield (f2 :: fs))).
    rewrite <- app_assoc. cbn [app].
    destruct (run_field f a (comma :: join (map wfield (f2 :: fs)) ++ cr :: lf :: t)) as (s & a' & Hr & Haf). rewrite Hr.
    cbn [rrun]. rewrite (after_comma s a' f a Haf).
    rewrite IH by (discriminate || (rewrite save_pushall; reflexivity)).
    rewrite save_pushall, Hf. cbn [rcd outp rev app]. rewrite <- app_assoc. reflexivity.
Qed.

(* START_RECORD falls through to START_FIELD on the first character of a record that is neither empty nor one empty field *)
Lemma sr_first c r a : (c =? cr) = false -> (c =? lf) = false -> rrun SR a (c :: r) = rrun SF a (c :: r).
Proof. intros H1 H2. cbn [rrun rstep]. unfold step_sr. rewrite H1, H2. reflexivity. Qed.
Lemma sr_to_sf f fs a t : f :: fs <> [[]] ->
  rrun SR a (join (map wfield (f :: fs)) ++ cr :: lf :: t) = rrun SF a (join (map wfield (f :: fs)) ++ cr :: lf :: t).
Proof.
  intros Hne. cbn [map]. unfold wfield at 1. unfold wfield at 2. destruct (needs_quote f) eqn:Eq.
  - destruct fs; cbn [join app]; apply sr_first; reflexivity.
  - destruct f as [|c f].
    + destruct fs as [|f2 fs]; [exfalso; apply Hne; reflexivity|]. cbn [join app]. apply sr_first; reflexivity.
    + cbn [needs_quote existsb] in Eq. apply orb_false_elim in Eq. destruct Eq as [Hc _].
      destruct (special_false c Hc) as (H1 & H2 & H3 & H4).
      destruct fs; cbn [join app]; apply sr_first; assumption.
Qed.

Lemma run_row r a t : fld a = [] -> rcd a = [] ->
  rrun SR a (wrow r ++ t) = rrun SR {| fld := []; rcd := []; outp := r :: outp a |} t.
Proof.
  intros Hf Hr. unfold wrow. rewrite <- app_assoc. cbn [app].
  destruct r as [|f fs].
  - cbn. unfold end_record. rewrite Hr. reflexivity.
  - assert (Hd : {f :: fs = [[]]} + {f :: fs <> [[]]}).
    { destruct f; [destruct fs; [left; reflexivity|right; discriminate]|right; discriminate]. }
    destruct Hd as [E|Hne].
    + injection E as -> ->. cbn. unfold end_record, save_field. cbn [fld rcd outp]. rewrite Hf, Hr. reflexivity.
    + assert (Hm : match f :: fs with [[]] => [dq; dq] | _ => join (map wfield (f :: fs)) end = join (map wfield (f :: fs))).
      { destruct f; [destruct fs; [exfalso; apply Hne; reflexivity|reflexivity]|reflexivity]. }
      rewrite Hm.
      etransitivity; [apply (sr_to_sf f fs a t Hne)|].
      etransitivity; [apply run_fields; [discriminate|assumption]|]. rewrite Hr. reflexivity.
Qed.

Lemma run_text m : forall a, fld a = [] -> rcd a = [] ->
  rrun SR a (wtext m) = (SR, {| fld := []; rcd := []; outp := rev m ++ outp a |}).
Proof.
  induction m as [|r m IH]; intros a Hf Hr.
  - cbn [wtext map concat rrun rev app]. destruct a; cbn in *; subst; reflexivity.
  - unfold wtext. cbn [map concat]. fold (wtext m). rewrite run_row by assumption. rewrite IH by reflexivity.
    cbn [outp rev]. rewrite <- app_assoc. reflexivity.
Qed.

Theorem csv_model_roundtrip (m : list (list field)) : rtext (wtext m) = m.
Proof. unfold rtext. rewrite run_text by reflexivity. cbn [rfinish outp racc0]. rewrite app_nil_r. apply rev_involutive. Qed.
