(* C12defs.v -- the finite obligations over the tables generated from the sources (Gen_Registry.v, Gen_Ctors.v) as boolean
   functions, the model of a constructor built from the table, and table-independent lemmas.  Nothing here depends on
   the CONTENT of the tables, so this file compiles for any tree (the correspondence shards only need this file);
   the sweeps that can fail are in C12tab.v, the theorems in C12.v. *)
From Coq Require Import String List Bool ZArith. Import ListNotations. Open Scope string_scope.
Require Import Registry Registryproof Attr Attrproof AttrSpec CtorGuardSpec RegistrySpec Gen_Registry Gen_Ctors.

(* ---------------------------------------------------------------- registry *)

Definition lxml_registrations : option (list (string * string)) := to_lxml_calls namespaces registrations.

(* the model's registry: the recorded registration calls replayed through `register` *)
Definition model_registry : list (string * string) :=
  match lxml_registrations with Some l => build l | None => [] end.

Definition dispatch (tag : string) : string := from_tag model_registry Element tag.

(* every registered qname has a known prefix *)
Definition tags_wellformed : bool := match lxml_registrations with Some _ => true | None => false end.

(* the replayed registry is the implementation's final dict *)
Definition model_is_live : bool := same_map model_registry live_registry.

Definition own_tag_ok (ct : string * string) : bool :=
  let (c, t) := ct in
  if String.eqb t "" then true
  else match lxml_tag namespaces t with
       | None => false
       | Some lt => let w := dispatch lt in String.eqb w c || is_documented c t w
       end.

(* every registration call either won its tag or is a documented first-registrant case *)
Definition call_ok (tc : string * string) : bool :=
  let (t, c) := tc in
  match lxml_tag namespaces t with
  | None => false
  | Some lt => let w := dispatch lt in String.eqb w c || is_documented c t w
  end.

(* every class is reachable from some tag, or is a documented loser *)
Definition reachable (ct : string * string) : bool :=
  existsb (fun p => String.eqb (snd p) (fst ct)) model_registry
  || existsb (fun x => String.eqb (fst x) (fst ct)) documented_first_registrants.

(* the LIVE registry (the dict of the implementation, not the replay of the recorded calls) against the reference table and
   against the classes found by walking the class tree *)
Definition live_class_of (qname : string) : option string :=
  match lxml_tag namespaces qname with Some lt => assoc lt live_registry | None => None end.
Definition reference_ok (x : string * string) : bool :=
  match live_class_of (fst x) with Some c => String.eqb c (snd x) | None => false end.
Definition tagged_ok (x : string * string) : bool :=       (* x = (class, its _tag) *)
  match live_class_of (snd x) with
  | Some c => String.eqb c (fst x) || existsb (fun e => String.eqb (fst e) (fst x) && String.eqb (snd e) c) tagged_exceptions
  | None => existsb (fun e => String.eqb (fst e) (fst x) && String.eqb (snd e) "") tagged_exceptions
  end.

(* ---------------------------------------------------------------- property definitions *)

Definition props_of (c : string) : list (string * (string * string)) :=
  map snd (filter (fun x => String.eqb (fst x) c) propdefs).

Definition classes : list string := map fst class_tags.

(* the property table grouped by class (a closed term: computed once here, so that no later statement has to
   filter the big table by a class name that is a variable) *)
Definition grouped_props : list (string * list (string * (string * string))) :=
  Eval vm_compute in map (fun c => (c, props_of c)) classes.

(* A class body that declares the same property name twice with different attributes has shadowed one of them
   (_define_attribut_property installs them in order, the last wins): Style.leader_text, F54.
   Identical repetitions (Style.master_page, three times) are harmless. *)
Definition pd_agree (x y : string * (string * (string * string))) : bool :=
  negb (String.eqb (fst x) (fst y) && String.eqb (fst (snd x)) (fst (snd y)))
  || (String.eqb (fst (snd (snd x))) (fst (snd (snd y))) && String.eqb (snd (snd (snd x))) (snd (snd (snd y)))).
Definition declared_unambiguous (x : string * (string * (string * string))) : bool :=
  forallb (pd_agree x) declared_propdefs.

(* what is installed on the class for a name it declares itself is what it declared *)
Definition declared_installed (x : string * (string * (string * string))) : bool :=
  existsb (fun y => String.eqb (fst y) (fst x) && String.eqb (fst (snd y)) (fst (snd x))
                    && String.eqb (fst (snd (snd y))) (fst (snd (snd x))) && String.eqb (snd (snd (snd y))) (snd (snd (snd x)))) propdefs.

(* an existing (class, property) names the attribute of the reference table AttrSpec.v; unknown pairs are not judged *)
Definition matches_reference (x : string * (string * (string * string))) : bool :=
  match find (fun r => String.eqb (fst r) (fst x) && String.eqb (fst (snd r)) (fst (snd x))) attr_reference with
  | Some r => String.eqb (snd (snd r)) (fst (snd (snd x)))
  | None => true
  end.

(* ---------------------------------------------------------------- constructors *)

(* arguments whose loss is a recorded known finding (class, argument); everything else found was repaired.
   Style(data_style=): the sources mark the parameter `# unused`; the class has no property for style:data-style-name,
   so a repair would have to invent one (known_findings: ctor-arg-dropped/Style.data_style) *)
Definition known_dropped : list (string * string) := [("Style", "data_style")].

Definition is_known_dropped (e : centry) : bool :=
  existsb (fun x => String.eqb (fst x) (c_class e) && String.eqb (snd x) (c_arg e)) known_dropped.

Definition not_dropped (e : centry) : bool := negb (is_dropped e) || is_known_dropped e.

Definition entries_of (c : string) : list centry := filter (fun e => String.eqb (c_class e) c) ctors.

Fixpoint somes {A} (l : list (option A)) : list A :=
  match l with [] => [] | Some x :: r => x :: somes r | None :: r => somes r end.

(* the properties / attributes an __init__ stores arguments into, in source order *)
Definition stored_props (c : string) : list string := somes (map stored_prop (entries_of c)).
Definition store_attrs_of (es : list centry) : list string := map (fun x => fst (snd x)) (somes (map stored_generic es)).
Definition store_attrs (c : string) : list string := store_attrs_of (entries_of c).

(* the constructor table grouped by class (closed term, see grouped_props) *)
Definition grouped : list (string * list centry) := Eval vm_compute in map (fun c => (c, entries_of c)) classes.

(* no two arguments of a constructor end in the same property / attribute *)
Definition stores_injective (g : string * list centry) : bool :=
  nodupb (store_attrs_of (snd g)) && nodupb (somes (map stored_prop (snd g))).

(* every table entry belongs to a class of the registry table *)
Definition entry_class_known (e : centry) : bool := existsb (String.eqb (c_class e)) classes.

(* the attribute recorded in the constructor table is the one of the property table *)
Definition generic_consistent (e : centry) : bool :=
  match stored_generic e with
  | None => true
  | Some (p, (a, f)) => existsb (fun x => String.eqb (fst x) p && String.eqb (fst (snd x)) a && String.eqb (snd (snd x)) f) (props_of (c_class e))
  end.

(* an argument that bears the name of a generic property of its class is stored into THAT property *)
Definition same_name_ok (e : centry) : bool :=
  match stored_prop e with
  | None => true
  | Some p => if existsb (fun x => String.eqb (fst x) (c_arg e)) (props_of (c_class e)) then String.eqb p (c_arg e) else true
  end.

(* the guard read from the current sources is the one of the reference table CtorGuardSpec.v; unknown pairs are not judged *)
Definition guard_eqb (a b : guard) : bool :=
  match a, b with
  | GNone, GNone | GTruthy, GTruthy | GNotNone, GNotNone => true
  | GGe n, GGe m => Z.eqb n m
  | _, _ => false
  end.
Definition guard_matches_reference (e : centry) : bool :=
  match find (fun r => String.eqb (fst r) (c_class e) && String.eqb (fst (snd r)) (c_arg e)) guard_reference with
  | None => true
  | Some r => match c_kind e with
              | Stored _ g _ _ => guard_eqb g (snd (snd r))
              | _ => false        (* the reference knows it as a guarded store; now it is something else *)
              end
  end.

(* ---- the model of a constructor's stores, built from the table ---- *)

Definition apply_conv (pyconv : string -> val -> val) (c : conv) (v : val) : val :=
  match c with
  | CId => v
  | CConv f => pyconv f v
  | COrDefault => if truthy v then v else pyconv "or" v
  end.

(* (attribute, family, executed?, value stored) of one table entry, given the caller's argument values [raw] *)
Definition store_of (pyconv : string -> val -> val) (raw : string -> val) (e : centry) : option store :=
  match c_kind e with
  | Stored _ g c (Some (a, f)) => Some (a, f, holds g (raw (c_arg e)), apply_conv pyconv c (raw (c_arg e)))
  | StoredConst _ b (Some (a, f)) => Some (a, f, truthy (raw (c_arg e)), VBool b)
  | _ => None
  end.

Definition stores_of pyconv raw (es : list centry) : list store := somes (map (store_of pyconv raw) es).

(* the attribute map after a constructor with table entries [es] ran with argument values [raw] on an element with attributes [a] *)
Definition ctor_model pyconv raw (sf : option (option string)) (es : list centry) (a : attrs) : attrs :=
  run_ctor sf (stores_of pyconv raw es) a.

(* ---------------------------------------------------------------- lifting *)

Lemma nodupb_NoDup : forall l, nodupb l = true -> NoDup l.
Proof.
  induction l as [|x l IH]; intros H; [constructor|].
  cbn in H. apply andb_true_iff in H. destruct H as [H1 H2]. constructor; [|auto].
  intros HI. apply negb_true_iff in H1. assert (existsb (String.eqb x) l = true).
  { apply existsb_exists. exists x. split; [exact HI|apply String.eqb_refl]. }
  congruence.
Qed.

Lemma somes_in : forall A B (f : A -> option B) l x y, In x l -> f x = Some y -> In y (somes (map f l)).
Proof.
  induction l as [|z l IH]; intros x y HI HF; [destruct HI|].
  cbn. destruct HI as [E|HI].
  - subst. rewrite HF. left; reflexivity.
  - destruct (f z); [right|]; eapply IH; eauto.
Qed.

Lemma somes_map_map : forall A B C D (f : A -> option B) (g : A -> option C) (h : B -> D) (k : C -> D),
  (forall x, option_map h (f x) = option_map k (g x)) ->
  forall l, map h (somes (map f l)) = map k (somes (map g l)).
Proof.
  intros A B C D f g h k H. induction l as [|x l IH]; [reflexivity|].
  cbn [map]. specialize (H x). destruct (f x), (g x); cbn in *; try discriminate; [|exact IH].
  inversion H. f_equal. exact IH.
Qed.

Lemma store_of_attr : forall pyconv raw e,
  option_map st_attr (store_of pyconv raw e) = option_map (fun x : string * (string * string) => fst (snd x)) (stored_generic e).
Proof.
  intros. unfold store_of, stored_generic. destruct (c_kind e) as [p g c [[a f]|]|p b [[a f]|]|p|t|h k|ps| |]; reflexivity.
Qed.

Lemma stores_attrs : forall pyconv raw es, map st_attr (stores_of pyconv raw es) = store_attrs_of es.
Proof.
  intros. unfold stores_of, store_attrs_of.
  exact (somes_map_map _ _ _ _ (store_of pyconv raw) stored_generic st_attr
           (fun x : string * (string * string) => fst (snd x)) (store_of_attr pyconv raw) es).
Qed.

Lemma ctor_list_exposes : forall es, nodupb (store_attrs_of es) = true ->
  forall pyconv raw sf a e n fam v, In e es ->
  store_of pyconv raw e = Some (n, fam, true, v) -> blocked fam sf = false ->
  getter n fam sf (ctor_model pyconv raw sf es a) = decode (encode v).
Proof.
  intros es HN pyconv raw sf a e n fam v HI HS HB. unfold ctor_model.
  apply (ctor_exposes sf (stores_of pyconv raw es) a n fam v).
  - rewrite stores_attrs. apply nodupb_NoDup. exact HN.
  - unfold stores_of. exact (somes_in _ _ (store_of pyconv raw) es e _ HI HS).
  - exact HB.
Qed.

(* readable forms of store_of *)
Lemma store_of_stored : forall pyconv raw e p g c a f,
  c_kind e = Stored p g c (Some (a, f)) ->
  store_of pyconv raw e = Some (a, f, holds g (raw (c_arg e)), apply_conv pyconv c (raw (c_arg e))).
Proof. intros. unfold store_of. rewrite H. reflexivity. Qed.

Lemma store_of_const : forall pyconv raw e p b a f,
  c_kind e = StoredConst p b (Some (a, f)) ->
  store_of pyconv raw e = Some (a, f, truthy (raw (c_arg e)), VBool b).
Proof. intros. unfold store_of. rewrite H. reflexivity. Qed.

